#!/bin/bash
# tools_run_all.sh [tier] [jobs] : run every claimed check on the current tree, summary at the end (development tool)
cd "$(dirname "$0")"; T=${1:-quick}; J=${2:-3}; mkdir -p .work/logs
cat harness/released.txt | tr " " "\n" | xargs -P $J -I{} bash -c "./check {} --tier $T > .work/logs/{}.$T.log 2>&1; echo \"{} exit=\$? \$(grep -c '^VIOLATION' .work/logs/{}.$T.log) violations, \$(grep -c '^KNOWN-FINDING' .work/logs/{}.$T.log) known; \$(tail -1 .work/logs/{}.$T.log)\""
python3-vt - <<'PY'
import json,glob,jsonschema
sch=json.load(open('/root/.vp/EVIDENCE.schema.json'))
for f in sorted(glob.glob('/verif/evidence/C*.json')):
    try: jsonschema.validate(json.load(open(f)),sch)
    except Exception as e: print('INVALID evidence',f,str(e)[:200])
jsonschema.validate(json.load(open('/verif/MANIFEST.json')), json.load(open('/root/.vp/MANIFEST.schema.json'))); print('manifest valid')
PY
