(* Generic driver: one case per line  "<id> <prop> <sub> <sexp>"  ->  "<id> <sexp>".
   Integers travel in binary ("-101", "0"); no OCaml int arithmetic touches model values. *)
open Model

let pos_of_bits (s : string) (i0 : int) : positive =
  (* s.[i0] is the leading '1' *)
  let p = ref XH in
  for i = i0 + 1 to String.length s - 1 do
    p := (if s.[i] = '1' then XI !p else XO !p)
  done; !p

let z_of_atom (s : string) : z =
  if s = "0" then Z0
  else if s.[0] = '-' then Zneg (pos_of_bits s 1)
  else Zpos (pos_of_bits s 0)

let rec bits_of_pos (b : Buffer.t) (p : positive) : unit =
  match p with
  | XH -> Buffer.add_char b '1'
  | XO q -> bits_of_pos b q; Buffer.add_char b '0'
  | XI q -> bits_of_pos b q; Buffer.add_char b '1'

let atom_of_z (b : Buffer.t) (z : z) : unit =
  match z with
  | Z0 -> Buffer.add_char b '0'
  | Zpos p -> bits_of_pos b p
  | Zneg p -> Buffer.add_char b '-'; bits_of_pos b p

(* parser *)
let parse (s : string) (start : int) : sx =
  let n = String.length s in
  let pos = ref start in
  let rec skip () = if !pos < n && s.[!pos] = ' ' then (incr pos; skip ()) in
  let rec item () : sx =
    skip ();
    if !pos >= n then failwith "eof"
    else if s.[!pos] = '(' then begin
      incr pos;
      let acc = ref [] in
      let rec loop () =
        skip ();
        if !pos >= n then failwith "unbalanced"
        else if s.[!pos] = ')' then incr pos
        else (acc := item () :: !acc; loop ()) in
      loop (); Lv (List.rev !acc)
    end else begin
      let st = !pos in
      while !pos < n && s.[!pos] <> ' ' && s.[!pos] <> '(' && s.[!pos] <> ')' do incr pos done;
      Zv (z_of_atom (String.sub s st (!pos - st)))
    end in
  item ()

let rec print (b : Buffer.t) (v : sx) : unit =
  match v with
  | Zv z -> atom_of_z b z
  | Lv l ->
    Buffer.add_char b '(';
    List.iteri (fun i x -> if i > 0 then Buffer.add_char b ' '; print b x) l;
    Buffer.add_char b ')'

let () =
  let b = Buffer.create 65536 in
  (try
    while true do
      let line = input_line stdin in
      if String.length line > 0 then begin
        (* id prop sub sexp *)
        let i1 = String.index line ' ' in
        let i2 = String.index_from line (i1 + 1) ' ' in
        let i3 = String.index_from line (i2 + 1) ' ' in
        let id = String.sub line 0 i1 in
        let prop = z_of_atom (String.sub line (i1 + 1) (i2 - i1 - 1)) in
        let sub = z_of_atom (String.sub line (i2 + 1) (i3 - i2 - 1)) in
        Buffer.clear b;
        Buffer.add_string b id; Buffer.add_char b ' ';
        (try
          let a = parse line (i3 + 1) in
          print b (dispatch prop sub a)
        with
        | Stack_overflow -> Buffer.add_string b "!stack_overflow"
        | Failure m -> Buffer.add_string b ("!failure " ^ m));
        print_endline (Buffer.contents b)
      end
    done
  with End_of_file -> ())
