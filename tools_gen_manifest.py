#!/usr/bin/env python3
"""Regenerates MANIFEST.json from harness/manifest_src.json (claimed checks) and properties.jsonl."""
import json, os
R = os.path.dirname(os.path.abspath(__file__))
src = json.load(open(os.path.join(R, 'harness', 'manifest_src.json')))
props = [json.loads(l)['id'] for l in open(os.path.join(R, 'properties.jsonl'))]
base = json.load(open('/root/.vp/BASELINE.json'))['cmd'] if os.path.exists('/root/.vp/BASELINE.json') else src['baseline_cmd']
rel = set(open(os.path.join(R, 'harness', 'released.txt')).read().split())
checks, na = [], []
for p in props:
    f = os.path.join(R, 'harness', 'manifest', p + '.json')
    c = json.load(open(f)) if os.path.exists(f) else None
    if c and c.get('claimed', True) and p in rel:
        checks.append(dict(property_id=p, quick_cmd='./check %s --tier quick' % p, thorough_cmd='./check %s --tier thorough' % p,
                           evidence_file='evidence/%s.json' % p, replay_cmd_template='./check %s --replay {path}' % p,
                           engine='coq-models+extracted-driver+harness',
                           level_claimed=dict(category='proof', text=c['text'], design_ref=c.get('design_ref', 'DESIGN.md section 5 / ' + p)),
                           level_note=c['note'], technique=c['technique']))
    else:
        na.append(dict(property_id=p, reason=(c or {}).get('reason', 'check not built yet in this round; Coq model and correspondence planned in DESIGN.md section 5')))
m = dict(version=1, setup_cmd='./setup.sh',
         hooks=dict(guard='SPARSESPACE_VERIF', enable='no source hooks are needed: checks import the working tree of /repo with PYTHONPATH=/repo and observe it through its public API and subclassing',
                    baseline_off_cmd=src['baseline_cmd'], source_commits=src.get('hook_commits', []), add_only=True),
         engines=[dict(name='coq-models', path='coq/', serves_properties=[c['property_id'] for c in checks], kind_free_text='hand-written Gallina models, theorems (Coq 8.16.1), one Props/Cxx.v per property'),
                  dict(name='extracted-driver', path='ocaml/', serves_properties=[c['property_id'] for c in checks], kind_free_text='models extracted to OCaml (ExtrOcamlBasic only) behind a generic s-expression driver'),
                  dict(name='source-translator', path='harness/translate/', serves_properties=[p for p in ['C01', 'C02', 'C03', 'C05', 'C06', 'C07', 'C08', 'C09', 'C10', 'C11', 'C12', 'C13', 'C14', 'C15', 'C16', 'C17', 'C18', 'C19', 'C20'] if p in [c['property_id'] for c in checks]], kind_free_text='fail-closed Python->Gallina translator (py2gallina*.py) regenerating coq/Gen/*.v from the working tree of /repo at every setup/check; generated definitions are proved equal to the hand-written models (Proofs/Gen*Eq.v, Props/Cxx.v C*_gen_* and Props/Cxxgen.v)'),
                  dict(name='harness', path='harness/', serves_properties=[c['property_id'] for c in checks], kind_free_text='Python correspondence harness: generators, implementation runners, oracles, evidence, known findings')],
         checks=checks, not_applicable=na, notes=src.get('notes', ''))
json.dump(m, open(os.path.join(R, 'MANIFEST.json'), 'w'), indent=1)
print('claimed', len(checks), 'not claimed', len(na))
