#!/bin/bash
# MANIFEST.setup_cmd: build the Coq development (full .vo build), extract the models, build the OCaml driver.
set -e
cd "$(dirname "$0")"
ROOT=$(pwd)
export PATH=/usr/bin:$PATH
# gate: no axioms / admits / switched-off checks anywhere in the development
if grep -rnE 'Admitted|admit\.|^\s*Axiom |^\s*Parameter |^\s*Conjecture |Unset Guard|bypass_check|type-in-type|impredicative-set|Admit Obligations' coq --include='*.v'; then
  echo "setup: forbidden construct in coq/" >&2; exit 2
fi
cd "$ROOT/coq"
find . -name '*.v' ! -path './Extract/*' | sed 's|^\./||' | sort > .files
( cat _CoqProject.base; cat .files ) > _CoqProject
coq_makefile -f _CoqProject -o Makefile.coq > /dev/null
timeout 3000 make -f Makefile.coq -j16 2>&1 | grep -v '^COQDEP\|^COQC\|conda' || true
# every file must have produced its .vo
for f in $(cat .files); do test -f "${f%.v}.vo" || { echo "setup: $f did not compile" >&2; exit 3; }; done
mkdir -p "$ROOT/ocaml/gen"
cd "$ROOT/ocaml/gen"
timeout 600 coqc -Q "$ROOT/coq" SG "$ROOT/coq/Extract/Extract.v" > /dev/null
rm -f "$ROOT"/coq/Extract/*.vo "$ROOT"/coq/Extract/*.glob "$ROOT"/coq/Extract/.*.aux
cp "$ROOT/ocaml/driver.ml" .
ocamlfind ocamlopt -O3 -w -a model.mli model.ml driver.ml -o "$ROOT/ocaml/driver" 2>/dev/null || ocamlfind ocamlopt -w -a model.mli model.ml driver.ml -o "$ROOT/ocaml/driver"
echo "setup: ok"
