#!/bin/bash
# MANIFEST.setup_cmd:  ./setup.sh            build everything that is claimed (harness/manifest/Cxx.json exists)
#                      ./setup.sh C09 C12    build only these properties (used by ./check and during development)
# Per property: full .vo build of coq/Props/Cxx.v and coq/Entry/Cxx.v with their dependencies, extraction of
# entry_Cxx (ExtrOcamlBasic only) to ocaml/gen/Cxx/model.ml, OCaml driver ocaml/driver_Cxx.
cd "$(dirname "$0")"
ROOT=$(pwd)
export PATH=/usr/bin:$PATH
exec 9> "$ROOT/.buildlock"; flock 9
if grep -rnE 'Admitted|admit\.|^\s*Axiom |^\s*Parameter |^\s*Conjecture |Unset Guard|bypass_check|type-in-type|impredicative-set|Admit Obligations' coq --include='*.v'; then
  echo "setup: forbidden construct in coq/" >&2; exit 2
fi
if [ $# -gt 0 ]; then PROPS="$*"; else PROPS=$(cat harness/released.txt); fi
# the C17 check also runs the extracted C16 model (the re-use machine is compared with the matrix/right-hand side of C16)
case " $PROPS " in *" C17 "*) case " $PROPS " in *" C16 "*) ;; *) PROPS="$PROPS C16" ;; esac ;; esac
# source-derived model: coq/Gen/CombiSchemeGen.v is regenerated from $VERIF_REPO/sparseSpACE/combiScheme.py (default /repo)
# at every run (written only when its content changes). A rejected source leaves a stub that does not compile, so
# that everything depending on the generated model (Proofs/GenCombiSchemeEq.v, Props/C01.v) fails to build.
# Only when C01 (the property that owns the generated model) is built, so that builds of other properties running at the same
# time with another VERIF_REPO never touch the generated file.
case " $PROPS " in *" C01 "*)
  /venv/bin/python "$ROOT/harness/translate/py2gallina.py" 2> >(grep -v conda >&2) || echo "setup: translator rejected the source (coq/Gen/CombiSchemeGen.v is a non-compiling stub)" >&2 ;;
esac
# numeric source-derived models (same scheme): C09 owns coq/Gen/GridGen.v (sparseSpACE/Grid.py), C11 owns
# coq/Gen/ExtrapolationGen.v (sparseSpACE/Extrapolation.py)
case " $PROPS " in *" C09 "*)
  /venv/bin/python "$ROOT/harness/translate/py2gallina.py" --target grid 2> >(grep -v conda >&2) || echo "setup: translator rejected the source (coq/Gen/GridGen.v is a non-compiling stub)" >&2 ;;
esac
case " $PROPS " in *" C11 "*)
  /venv/bin/python "$ROOT/harness/translate/py2gallina.py" --target extrapolation 2> >(grep -v conda >&2) || echo "setup: translator rejected the source (coq/Gen/ExtrapolationGen.v is a non-compiling stub)" >&2 ;;
esac
# C02 owns coq/Gen/TrapGrid1DGen.v (TrapezoidalGrid1D of sparseSpACE/Grid.py; theorems in Props/C02gen.v)
case " $PROPS " in *" C02 "*)
  /venv/bin/python "$ROOT/harness/translate/py2gallina_c02.py" 2> >(grep -v conda >&2) || echo "setup: translator rejected the source (coq/Gen/TrapGrid1DGen.v is a non-compiling stub)" >&2 ;;
esac
# C08 owns coq/Gen/LocalGrid1DGen.v (local 1D grid classes of sparseSpACE/Grid.py; theorems in Props/C08gen.v)
case " $PROPS " in *" C08 "*)
  /venv/bin/python "$ROOT/harness/translate/py2gallina_c08.py" 2> >(grep -v conda >&2) || echo "setup: translator rejected the source (coq/Gen/LocalGrid1DGen.v is a non-compiling stub)" >&2
  [ -f "$ROOT/harness/translate/py2gallina_c08_area.py" ] && { /venv/bin/python "$ROOT/harness/translate/py2gallina_c08_area.py" 2> >(grep -v conda >&2) || echo "setup: translator rejected the source (coq/Gen/Grid1dAreaGen.v is a non-compiling stub)" >&2; } ;;
esac
# C06 (second generated file): container bookkeeping methods, object-machine front end, target container
case " $PROPS " in *" C06 "*)
  /venv/bin/python "$ROOT/harness/translate/py2gallina_machine.py" --target container 2> >(grep -v conda >&2) || echo "setup: translator rejected the source (coq/Gen/RefContainerMachineGen.v is a non-compiling stub)" >&2 ;;
esac
# C12: source-derived Function cache machine (same object-machine front end, target funcache)
case " $PROPS " in *" C12 "*)
  /venv/bin/python "$ROOT/harness/translate/py2gallina_machine.py" --target funcache 2> >(grep -v conda >&2) || echo "setup: translator rejected the source (coq/Gen/FunCacheGen.v is a non-compiling stub)" >&2 ;;
esac
# C13: source-derived driver loop (object machine: abstract methods are parameters), own front end
case " $PROPS " in *" C13 "*)
  /venv/bin/python "$ROOT/harness/translate/py2gallina_machine.py" --target driver 2> >(grep -v conda >&2) || echo "setup: translator rejected the source (coq/Gen/DriverGen.v is a non-compiling stub)" >&2 ;;
esac
# C06 (and C03, which shares the dimension-wise model) own coq/Gen/DimWiseGen.v (spatiallyAdaptiveSingleDimension2.py; theorems in Props/C06gen.v)
case " $PROPS " in *" C06 "*|*" C03 "*)
  /venv/bin/python "$ROOT/harness/translate/py2gallina_c06.py" 2> >(grep -v conda >&2) || echo "setup: translator rejected the source (coq/Gen/DimWiseGen.v is a non-compiling stub)" >&2 ;;
esac
# C16 owns coq/Gen/DensityGen.v (matrix-entry code and scalar hats of sparseSpACE/GridOperation.py; theorems in Props/C16gen.v)
case " $PROPS " in *" C16 "*)
  /venv/bin/python "$ROOT/harness/translate/py2gallina_c16.py" 2> >(grep -v conda >&2) || echo "setup: translator rejected the source (coq/Gen/DensityGen.v is a non-compiling stub)" >&2 ;;
esac
# C15 owns coq/Gen/UQGridGen.v (GlobalTrapezoidalGridWeighted.compute_weights / compute_1D_quad_weights of sparseSpACE/Grid.py; theorems in Props/C15gen.v)
case " $PROPS " in *" C15 "*|*" C15gen "*)
  /venv/bin/python "$ROOT/harness/translate/py2gallina_c15.py" 2> >(grep -v conda >&2) || echo "setup: translator rejected the source (coq/Gen/UQGridGen.v is a non-compiling stub)" >&2 ;;
esac
# C17 owns coq/Gen/DensityReuseGen.v (re-use fragments of sparseSpACE/GridOperation.py; theorems in Props/C17gen.v)
case " $PROPS " in *" C17 "*)
  /venv/bin/python "$ROOT/harness/translate/py2gallina_c17.py" 2> >(grep -v conda >&2) || echo "setup: translator rejected the source (coq/Gen/DensityReuseGen.v is a non-compiling stub)" >&2 ;;
esac
# C18 owns coq/Gen/DataSetScalingGen.v (scaling bookkeeping of class DataSet in sparseSpACE/DEMachineLearning.py; theorems in Props/C18gen.v)
case " $PROPS " in *" C18 "*|*" C18gen "*)
  /venv/bin/python "$ROOT/harness/translate/py2gallina_c18.py" 2> >(grep -v conda >&2) || echo "setup: translator rejected the source (coq/Gen/DataSetScalingGen.v is a non-compiling stub)" >&2 ;;
esac
# C05 owns coq/Gen/AccumGen.v (Integration.evaluate_area / area_preprocessing / process_removed_objects / get_result / reset_result / initialize of
# sparseSpACE/GridOperation.py + the evaluate_area call sites; theorems in Props/C05gen.v)
case " $PROPS " in *" C05 "*|*" C05gen "*)
  /venv/bin/python "$ROOT/harness/translate/py2gallina_c05.py" 2> >(grep -v conda >&2) || echo "setup: translator rejected the source (coq/Gen/AccumGen.v is a non-compiling stub)" >&2 ;;
esac
# C14 owns coq/Gen/NewMarkerGen.v (new-object marker of RefinementContainer in sparseSpACE/RefinementContainer.py; theorems in Props/C14gen.v)
case " $PROPS " in *" C14 "*|*" C14gen "*) /venv/bin/python "$ROOT/harness/translate/py2gallina_c14.py" 2> >(grep -v conda >&2) || echo "setup: translator rejected the source (coq/Gen/NewMarkerGen.v is a non-compiling stub)" >&2 ;; esac
# C19 owns coq/Gen/ClassifyGen.v (Classification._classificate / _internal_scaling of sparseSpACE/DEMachineLearning.py; theorems in Props/C19gen.v)
case " $PROPS " in *" C19 "*|*" C19gen "*)
  /venv/bin/python "$ROOT/harness/translate/py2gallina_c19.py" 2> >(grep -v conda >&2) || echo "setup: translator rejected the source (coq/Gen/ClassifyGen.v is a non-compiling stub)" >&2 ;;
esac
# C07 owns coq/Gen/CoarsenGridGen.v (decision arithmetic of SpatiallyAdaptiveExtendScheme.coarsen_grid in sparseSpACE/spatiallyAdaptiveExtendSplit.py; theorems in Props/C07gen.v)
case " $PROPS " in *" C07 "*|*" C07gen "*)
  /venv/bin/python "$ROOT/harness/translate/py2gallina_c07.py" 2> >(grep -v conda >&2) || echo "setup: translator rejected the source (coq/Gen/CoarsenGridGen.v is a non-compiling stub)" >&2 ;;
esac
# C10 owns coq/Gen/LagrangeParentGen.v (GlobalLagrangeGrid.get_parent of sparseSpACE/Grid.py; theorems in Props/C10gen.v)
case " $PROPS " in *" C10 "*|*" C10gen "*)
  /venv/bin/python "$ROOT/harness/translate/py2gallina_c10.py" 2> >(grep -v conda >&2) || echo "setup: translator rejected the source (coq/Gen/LagrangeParentGen.v is a non-compiling stub)" >&2 ;;
esac
# C20 owns coq/Gen/RegressGen.v (entry computation of Regression.build_C_matrix; theorems in Props/C20gen.v)
case " $PROPS " in *" C20 "*)
  /venv/bin/python "$ROOT/harness/translate/py2gallina_c20.py" 2> >(grep -v conda >&2) || echo "setup: translator rejected the source (coq/Gen/RegressGen.v is a non-compiling stub)" >&2 ;;
esac
cd "$ROOT/coq"
find . -name '*.v' | sed 's|^\./||' | sort > .files.new
if ! cmp -s .files.new .files || [ ! -f Makefile.coq ]; then
  mv .files.new .files
  ( cat _CoqProject.base; cat .files ) > _CoqProject
  coq_makefile -f _CoqProject -o Makefile.coq > /dev/null
fi
TARGETS=""
for p in $PROPS; do
  [ -f Props/$p.v ] && TARGETS="$TARGETS Props/$p.vo"
  for g in Props/${p}gen*.v; do [ -f "$g" ] && TARGETS="$TARGETS ${g%.v}.vo"; done    # theorems about the source-derived models kept in files of their own (Cxxgen.v, Cxxgen2.v, Cxxgendw.v)
  [ -f Entry/$p.v ] && TARGETS="$TARGETS Entry/$p.vo"
  [ -f Entry/${p}gen.v ] && TARGETS="$TARGETS Entry/${p}gen.vo"
done
rc=0
if [ -n "$TARGETS" ]; then
  timeout 3000 make -f Makefile.coq -k -j16 $TARGETS 2>&1 | grep -v '^COQDEP\|^COQC\|conda\|^make' | tail -40
  mrc=${PIPESTATUS[0]}
  # a stale .vo next to a failing make is NOT a successful build
  [ "$mrc" -ne 0 ] && { echo "setup: make failed (rc=$mrc)" >&2; rc=3; }
  for t in $TARGETS; do test -f "$t" || { echo "setup: $t did not build" >&2; rc=3; }; done
fi
DRIVERS=""
for p in $PROPS; do DRIVERS="$DRIVERS $p"; case "$p" in *gen) ;; *) [ -f Entry/${p}gen.vo ] && DRIVERS="$DRIVERS ${p}gen" ;; esac; done
for p in $DRIVERS; do
  [ -f Entry/$p.vo ] || continue
  G="$ROOT/ocaml/gen/$p"; mkdir -p "$G"
  if [ ! -x "$ROOT/ocaml/driver_$p" ] || [ Entry/$p.vo -nt "$ROOT/ocaml/driver_$p" ] || [ "$ROOT/ocaml/driver.ml" -nt "$ROOT/ocaml/driver_$p" ]; then
    ( cd "$G" && printf 'Require Extraction.\nRequire Import ExtrOcamlBasic.\nFrom SG Require Import Base.Sx Entry.%s.\nExtraction Language OCaml.\nExtraction "model.ml" %s.entry_%s.\n' $p $p $p > extract.v \
      && timeout 900 coqc -Q "$ROOT/coq" SG extract.v > /dev/null \
      && sed "s/dispatch prop sub a/entry_$p sub a/" "$ROOT/ocaml/driver.ml" > driver.ml \
      && ocamlfind ocamlopt -O3 -w -a model.mli model.ml driver.ml -o "$ROOT/ocaml/driver_$p" 2>/dev/null ) \
      || { echo "setup: driver for $p did not build" >&2; rc=4; }
  fi
done
[ $rc -eq 0 ] && echo "setup: ok ($PROPS)"
exit $rc
