(* C19 (deepened) — the learning side of class Classification (sparseSpACE/DEMachineLearning.py), definitions only:
   * Classification._initialize after the scaling: shuffle, move_boundaries_to_front, even/uneven split into the ordered
     learning and testing data sets (DataSet.split_labels / split_pieces / list_concatenate);
   * perform_classification / perform_classification_dimension_wise: one classificator per piece of
     _learning_data.split_labels(), i.e. in the iteration order of the Python set get_labels() = list(set(labels));
   * _classificate: the label table is built by a SECOND call of get_labels() on the same learning data;
   * continue_dimension_wise_refinement: the classes of ALL testing data are recomputed.
   The iteration order of a CPython set is not modelled: every order is an INPUT (read off the implementation by the
   harness) that is validated by a boolean checker (label_order_ok: an enumeration without repetition of exactly the labels
   present); all theorems hold for EVERY order that passes the checker.  The density estimator itself is a parameter of the
   definitions (any function from the training samples of one class to a density) - its correctness is C16/C17. *)
From Coq Require Import ZArith List QArith Qcanon Bool.
From SG Require Import Base.QcUtil Model.DataSet Model.Classify.
Import ListNotations.
Open Scope Qc_scope.

(* ---------------------------------------------------------------- get_labels() = list(set(labels)): order is an input *)
Fixpoint memZ (x : Z) (l : list Z) : bool := match l with [] => false | y :: r => Z.eqb x y || memZ x r end.
Fixpoint nodupZ (l : list Z) : bool := match l with [] => true | x :: r => negb (memZ x r) && nodupZ r end.
(* lo enumerates, without repetition, exactly the labels that occur in r *)
Definition label_order_ok (lo : list Z) (r : list sample) : bool :=
  nodupZ lo && forallb (fun l => memZ l (map snd r)) lo && forallb (fun s => memZ (snd s) lo) r.

(* DataSet.split_labels with the iteration order of get_labels() given: one data set per label, labels rewritten to [j]*len *)
Definition label_piece (d : ds) (j : Z) : ds := with_attrs d (map (fun s => (fst s, j)) (with_label j (rows d))).
Definition split_labels_ord (lo : list Z) (d : ds) : list ds := map (label_piece d) lo.

(* DataSet.list_concatenate: None = a concatenate call raises *)
Fixpoint list_concat_from (v : variant) (acc : ds) (l : list ds) : option ds :=
  match l with
  | [] => Some acc
  | b :: r =>
    match concatenate v acc b with
    | CNew d => list_concat_from v d r
    | CSelf => list_concat_from v acc r
    | COther => list_concat_from v b r
    | CRaise => None
    end
  end.
Definition list_concatenate (v : variant) (l : list ds) : option ds :=
  match l with [] => Some (fresh []) | a :: r => list_concat_from v a r end.

(* Classification.__init__: split_percentage if isinstance(split_percentage, float) and (1 > split_percentage > 0) else 1.0 *)
Definition norm_percentage (is_float : bool) (p : Qc) : Qc := if is_float && Qc_ltb 0 p && Qc_ltb p 1 then p else 1.

(* Classification._initialize from the shuffle on.  sd = the scaled labelled samples (i_scaled of Classify.initialize);
   perm = Some permutation drawn by sklearn.utils.shuffle (None: shuffle_data=False); idx = iteration order of the index set in
   move_boundaries_to_front; lo = iteration order of get_labels() on the data after the move (used by the even split only).
   None = a DataSet call raises or an order input is not an enumeration of what it must enumerate (protocol error). *)
Definition init_split (v : variant) (sd : ds) (perm : option (list nat)) (idx : list nat) (lo : list Z) (even : bool) (p : Qc)
  : option (ds * ds) :=
  let '(d1, e1) := match perm with Some pm => shuffle_with pm sd | None => (sd, false) end in
  if e1 then None else
  if negb (same_index_set idx (boundary_idx d1)) then None else
  let '(d2, e2) := move_boundaries_to_front idx d1 in
  if e2 then None else
  if update_internal_raises d2 then None else
  if even then
    if negb (label_order_ok lo (rows d2)) then None else
    let cls := split_labels_ord lo d2 in
    match list_concatenate v (map (fun x => fst (split_pieces p x)) cls),
          list_concatenate v (map (fun x => snd (split_pieces p x)) cls) with
    | Some l, Some t => Some (l, t)
    | _, _ => None
    end
  else Some (split_pieces p d2).

(* ---------------------------------------------------------------- learning: one classificator per class piece *)
(* de = DataSet.density_estimation(...) as a function of the training data set of one class: the density at a position *)
Definition classificators (de : ds -> row -> Qc) (lo : list Z) (learn : ds) : list (row -> Qc) :=
  map de (split_labels_ord lo learn).
(* density_data = zip of [x(points) for x in self._classificators]: one row per point, one column per classificator *)
Definition densities_at (cls : list (row -> Qc)) (pts : list row) : list (list Qc) :=
  map (fun x => map (fun c => c x) cls) pts.
(* _classificate with the classificators of perform_classification: lo_fit = order of get_labels() when the classificators were
   built, lo_table = order of get_labels() when the label table is built (the same learning data, hence the same order, in
   the code as it is; kept apart so that the consequence of a different table order can be stated) *)
Definition classify_learned (cv : cvariant) (de : ds -> row -> Qc) (lo_fit lo_table : list Z) (learn : ds) (pts : list row) : list Z :=
  classificate cv lo_table (densities_at (classificators de lo_fit learn) pts).

(* ---------------------------------------------------------------- continue_dimension_wise_refinement *)
(* the classificators are refined further; afterwards, when testing data exist, _calculated_classes_testset is REPLACED by the
   classes of all testing data under the new densities (dens: one row per testing sample).  Some st' | None = protocol error *)
Definition continue_refinement (cv : cvariant) (st : cstate) (dens : list (list Qc)) : option cstate :=
  match c_test_labels st with
  | [] => Some st
  | _ =>
    if Nat.eqb (length dens) (length (c_test_labels st))
    then Some (mkC (c_min st) (c_max st) (c_fac st) (c_scaled_attrs st) (c_class_labels st) (c_test_labels st)
                   (classificate cv (c_class_labels st) dens) (c_performed st))
    else None
  end.

(* ---------------------------------------------------------------- pre-scaled input and the accumulated offset (phase 3)
   DataSet.same_scaling compares the scaling RANGE and the accumulated FACTOR, not the accumulated OFFSET.  With the offset bookkeeping of
   Model/DataSetOff.v (class DataSet keeps _scaling_offset since the C18 repair) the proposed repair of _internal_scaling
   (fixes/C19-internal-scaling-compares-offset.patch) also compares the accumulated affine maps (factor AND offset) of the learning data and
   of an already scaled input.  chk = false: the code as found. *)
From SG Require Import Model.DataSetOff.
Definition internal_scaling_o (chk : bool) (v : variant) (st : cstate) (sd d : dso) : ds * bool :=
  if chk && scaled (base d) && negb (same_affine sd d) then (base d, true) else internal_scaling v st (base d).
(* wire form: both offsets are floats of the implementation and are compared bitwise there, so the outcome of the comparison is an input *)
Definition call_r (reject : bool) (v : variant) (cv : cvariant) (st : cstate) (d : ds) (dens : list (list Qc)) : cstate * outcome :=
  if scaled d && reject then (st, ORaise d) else call v cv st d dens.
Definition test_data_r (reject : bool) (v : variant) (cv : cvariant) (st : cstate) (d : ds) (dens : list (list Qc)) : cstate * outcome :=
  if scaled d && reject then (st, ORaise d) else test_data v cv st d dens.

(* ---------------------------------------------------------------- one_vs_others (phase 3): DataSet.split_one_vs_others
   for j in get_labels(): classificator j is trained on ALL learning samples with the signed label 1 (own class) or
   max(-1, -(class_numbers[j] / others)) (every other class), where class_numbers = [count of l for l in get_labels()] is indexed BY THE
   LABEL VALUE j and others = sum(class_numbers) - class_numbers[j].  None = the Python raises (IndexError: a label >= the number of
   labels; ZeroDivisionError: a single class).  lo = get_labels() in its iteration order (input, as above). *)
Definition count_label (j : Z) (r : list sample) : Z := Z.of_nat (length (with_label j r)).
Definition class_numbers (lo : list Z) (r : list sample) : list Z := map (fun l => count_label l r) lo.
Definition sum_Z (l : list Z) : Z := fold_right Z.add 0%Z l.
Definition ovo_weight (lo : list Z) (r : list sample) (j : Z) : Qc :=
  let cn := class_numbers lo r in
  let nj := nth (Z.to_nat j) cn 0%Z in
  Qc_max (- (1)) (- (Q2Qc (inject_Z nj) / Q2Qc (inject_Z (sum_Z cn - nj)))).
Definition ovo_piece (lo : list Z) (r : list sample) (j : Z) : list (row * Qc) :=
  map (fun s => (fst s, if Z.eqb (snd s) j then 1 else ovo_weight lo r j)) r.
Definition ovo_raises (lo : list Z) (r : list sample) : bool :=
  existsb (fun j => Z.ltb j 0 || Nat.leb (length lo) (Z.to_nat j)
                    || Z.eqb (sum_Z (class_numbers lo r) - nth (Z.to_nat j) (class_numbers lo r) 0%Z) 0) lo.
Definition split_one_vs_others (lo : list Z) (r : list sample) : option (list (list (row * Qc))) :=
  if ovo_raises lo r then None else Some (map (ovo_piece lo r) lo).
(* deo = DataSet.density_estimation(one_vs_others=True) as a function of the signed training set *)
Definition classify_ovo (cv : cvariant) (deo : list (row * Qc) -> row -> Qc) (lo : list Z) (r : list sample) (pts : list row) : list Z :=
  classificate cv lo (densities_at (map (fun j => deo (ovo_piece lo r j)) lo) pts).

(* ---------------------------------------------------------------- the whole object with TRAINED classificators (phase 3, end-to-end)
   The densities are no longer inputs: they are those of the classificators trained on the learning data (estimator de, label order lo),
   evaluated at the samples the call retains.  The system state adds the testing SAMPLES (cstate keeps only their labels) and the current
   estimator (continue_dimension_wise_refinement refines it: de'). *)
Definition trained_dens (de : ds -> row -> Qc) (lo : list Z) (learn : ds) (pts : list row) : list (list Qc) :=
  densities_at (classificators de lo learn) pts.
Definition call_trained (v : variant) (cv : cvariant) (de : ds -> row -> Qc) (lo : list Z) (learn : ds) (st : cstate) (d : ds) : cstate * outcome :=
  call v cv st d (trained_dens de lo learn (values (fst (internal_scaling v st d)))).
Definition test_trained (v : variant) (cv : cvariant) (de : ds -> row -> Qc) (lo : list Z) (learn : ds) (st : cstate) (d : ds) : cstate * outcome :=
  test_data v cv st d (trained_dens de lo learn (values (snd (split_without_labels (fst (internal_scaling v st d)))))).
Record sys := mkSys { s_st : cstate; s_test : list sample; s_de : ds -> row -> Qc }.
Inductive sop := SCall (d : ds) | STest (d : ds) | SEval | SCont (de' : ds -> row -> Qc).
Definition sstep (v : variant) (cv : cvariant) (lo : list Z) (learn : ds) (s : sys) (o : sop) : sys :=
  match o with
  | SCall d => mkSys (fst (call_trained v cv (s_de s) lo learn (s_st s) d)) (s_test s) (s_de s)
  | STest d =>
    match test_trained v cv (s_de s) lo learn (s_st s) d with
    | (st', OTest d1 _ _) => mkSys st' (s_test s ++ rows (snd (split_without_labels d1))) (s_de s)
    | (st', _) => mkSys st' (s_test s) (s_de s)
    end
  | SEval => s
  | SCont de' =>
    match continue_refinement cv (s_st s) (trained_dens de' lo learn (map fst (s_test s))) with
    | Some st' => mkSys st' (s_test s) de'
    | None => s
    end
  end.
