(* C12 — the RATIONAL part of the transcendental classes GenzDiscontinious, GenzC0, FunctionExpVar (and the indicator
   FunctionDiagonalDiscont, the piecewise linear FunctionG), executable over Qc:

   the values exp(t) and x ** y are not rational, so eval / getAnalyticSolutionIntegral are followed SYMBOLICALLY: the
   result is a product of per-dimension factors, each a rational linear combination of atoms  exp(t) | x ** (1+y) | 1  with
   rational arguments t, x. Everything the Python code decides - comparing start/end with the border or the midpoint,
   clipping end to the border, the early `return 0.0`, the choice of branch - is decided here on exact rationals; only the
   atoms are left to be evaluated (by the harness in floating point, by Proofs/FunGenzSymProofs.v with the real exp/Rpower).
   Definitions only. *)
From Coq Require Import ZArith List QArith Qcanon Bool Arith.
From SG Require Import Base.QcUtil Model.FunPoly Model.FunGenz.
Import ListNotations.
Open Scope Qc_scope.

Inductive eatom := AExp (t : Qc) | APow (x : Qc) | AOne.        (* exp(t) | x ** (1 + y), y fixed by the caller | 1 *)
Definition lin := list (Qc * eatom).                            (* sum of coefficient * atom *)
Definition sym := list lin.                                    (* product of the sums; [] = 1; a factor [] = 0 *)

(* ------------------------------------------------------------------ GenzDiscontinious *)
(* eval: result = 0; for d: if x[d] >= border[d]: return 0.0; result -= c[d] * x[d]; return exp(result)
   -> None = the value 0.0, Some t = exp(t) *)
Fixpoint gd_eval_sym (cs bs xs : list Qc) (acc : Qc) : option Qc :=
  match cs, bs, xs with
  | c :: cs', bo :: bs', x :: xs' => if Qc_leb bo x then None else gd_eval_sym cs' bs' xs' (acc - c * x)
  | _, _, _ => Some acc
  end.

(* integral: result = 1; for d: if start[d] >= border[d]: return 0.0
                                else: end[d] = min(end[d], border[d]); result *= (exp(-c start[d]) - exp(-c end[d])) / c
   None = the early `return 0.0` *)
Fixpoint gd_int_sym (cs bs a b : list Qc) : option sym :=
  match cs, bs, a, b with
  | c :: cs', bo :: bs', ai :: a', bi :: b' =>
      if Qc_leb bo ai then None
      else match gd_int_sym cs' bs' a' b' with
           | Some r => Some ([(1 / c, AExp (- c * ai)); (- (1 / c), AExp (- c * Qc_min bi bo))] :: r)
           | None => None
           end
  | _, _, _, _ => Some []
  end.

(* ------------------------------------------------------------------ GenzC0 *)
(* eval: result = 0; for d: result -= c[d] * abs(x[d] - mid[d]); return exp(result) *)
Fixpoint c0_eval_sym (cs ms xs : list Qc) (acc : Qc) : Qc :=
  match cs, ms, xs with
  | c :: cs', m :: ms', x :: xs' => c0_eval_sym cs' ms' xs' (acc - c * Qc_abs (x - m))
  | _, _, _ => acc
  end.

(* integral, per dimension (one_d_integral starts at 0):
     if start < mid:  if end < mid: += exp(c (end - mid)) / c - exp(c (start - mid)) / c   else: += 1 / c - exp(c (start - mid)) / c
     if end > mid:    if start > mid: += exp(c (mid - start)) / c - exp(c (mid - end)) / c else: += 1 / c - exp(c (mid - end)) / c *)
Definition c0_factor (c m a b : Qc) : lin :=
  (if Qc_ltb a m then (if Qc_ltb b m then [(1 / c, AExp (c * (b - m))); (- (1 / c), AExp (c * (a - m)))]
                       else [(1 / c, AOne); (- (1 / c), AExp (c * (a - m)))]) else []) ++
  (if Qc_ltb m b then (if Qc_ltb m a then [(1 / c, AExp (c * (m - a))); (- (1 / c), AExp (c * (m - b)))]
                       else [(1 / c, AOne); (- (1 / c), AExp (c * (m - b)))]) else []).
Fixpoint c0_int_sym (cs ms a b : list Qc) : sym :=
  match cs, ms, a, b with
  | c :: cs', m :: ms', ai :: a', bi :: b' => c0_factor c m ai bi :: c0_int_sym cs' ms' a' b'
  | _, _, _, _ => []
  end.

(* ------------------------------------------------------------------ FunctionExpVar *)
(* integral: dim = len(start); y = 1/dim; for d: result *= end ** (1+y) / (1+y) - start ** (1+y) / (1+y);
   return (1+y) ** dim * result      -> (constant, product of the factors); None for dim = 0 (division by zero) *)
Fixpoint ev_int_factors (y1 : Qc) (a b : list Qc) : sym :=          (* y1 = 1 + y *)
  match a, b with
  | ai :: a', bi :: b' => [(1 / y1, APow bi); (- (1 / y1), APow ai)] :: ev_int_factors y1 a' b'
  | _, _ => []
  end.
Definition ev_int_sym (a b : list Qc) : option (Qc * Qc * sym) :=    (* (y, constant, factors) *)
  match length a with
  | O => None
  | S _ => let y := 1 / qn (length a) in Some (y, (1 + y) ^ (length a), ev_int_factors (1 + y) a b)
  end.

(* ------------------------------------------------------------------ FunctionDiagonalDiscont (rational: exact) *)
(* eval: 1 if sum(x) < 1 else 0;   integral: asserts start == 0, end == 1 in every dimension; 1 / dim! *)
Definition dd_eval (xs : list Qc) : Qc := if Qc_ltb (sumQ xs) 1 then 1 else 0.
Fixpoint all_eqb (v : Qc) (l : list Qc) : bool := match l with [] => true | x :: r => Qc_eqb x v && all_eqb v r end.
Definition dd_int (a b : list Qc) : ires :=
  if (all_eqb 0 a && all_eqb 1 b && Nat.eqb (length a) (length b))%bool then IVal (1 / qn (fact_nat (length a))) else IErr.

(* ------------------------------------------------------------------ FunctionG (Sobol g-function; rational: exact) *)
(* a = 0.5 * range(dim); eval: prod_d (abs(4 x_d - 2) + a_d) / (1 + a_d);  integral over the unit cube: 1 *)
Fixpoint g_eval_loop (xs : list Qc) (d : nat) : Qc :=
  match xs with
  | x :: xs' => ((Qc_abs (Q2Qc (4#1) * x - Qc2) + Qchalf * qn d) / (1 + Qchalf * qn d)) * g_eval_loop xs' (S d)
  | [] => 1
  end.
Definition g_eval (xs : list Qc) : Qc := g_eval_loop xs 0.
Definition g_int (a b : list Qc) : ires :=
  if (all_eqb 0 a && all_eqb 1 b && Nat.eqb (length a) (length b))%bool then IVal 1 else IErr.
