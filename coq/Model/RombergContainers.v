(* Model of the CONTAINER OBJECTS of sparseSpACE/Extrapolation.py — definitions only (C11).
   Model/Romberg.v treats a container as the list of its slices and reads the container interval off the first and the last
   slice.  The Python keeps the interval (and max_level, minimal_step_width) as ATTRIBUTES of the container object that are
   updated by append_slice only, and RombergGridSliceContainer.get_final_weights builds its weight factory from these
   attributes.  This file models the objects with their attributes and the code that creates and fills them:
     - ExtrapolationGridSliceContainer.__init__ / append_slice
     - ExtrapolationGrid.__initialize_default_containers (driven by the loop of __init_grid_slices, step-width buffer)
     - ExtrapolationGrid.adjust_containers (the three groupings)
     - ExtrapolationGridSliceContainer.split_into_containers_with_power_two_sizes (the while loop with slices.pop(0))
       and find_closest_power_below (its for loop over range(n))
     - Romberg/SimpsonRomberg GridSliceContainer.get_final_weights reading self.left_point / self.right_point
   Proofs/RombergContainers.v shows that on every container the pipeline creates the attributes are those of its slices
   and that this object-level pipeline computes exactly what Model/Romberg.v computes. *)
From Coq Require Import ZArith List QArith Qcanon Bool Arith.
From SG Require Import Base.QcUtil Model.Romberg.
Import ListNotations.
Open Scope Qc_scope.

(* attributes that are None until the first append_slice *)
Record cont := mkCont {
  c_slices : list slice;
  c_left : option Qc;          (* left_point *)
  c_right : option Qc;         (* right_point *)
  c_max_level : option nat;    (* max_level *)
  c_min_step : option Qc       (* minimal_step_width *)
}.

(* ExtrapolationGridSliceContainer.__init__ *)
Definition cont_new : cont := mkCont [] None None None None.

(* append_slice: left_point only when it is still None, right_point every time, max / min updates *)
Definition cont_append (c : cont) (s : slice) : cont :=
  mkCont (c_slices c ++ [s])
         (match c_left c with None => Some (sl_l s) | Some x => Some x end)
         (Some (sl_r s))
         (match c_max_level c with Some m => Some (Nat.max m (sl_max_level s)) | None => Some (sl_max_level s) end)
         (match c_min_step c with Some w => Some (Qc_min w (sl_r s - sl_l s)) | None => Some (sl_r s - sl_l s) end).

(* a fresh container holding one slice: container = factory.get_grid_slice_container(); container.append_slice(slice) *)
Definition cont_single (s : slice) : cont := cont_append cont_new s.

(* __init_grid_slices + __initialize_default_containers: [racc] = self.slice_containers in REVERSE order (head = [-1]),
   [buf] = step_width_buffer.  A new container is opened when the buffer is None, the step width changes or the grouping
   is UNIT; otherwise the slice is appended to self.slice_containers[-1] *)
Fixpoint obj_group (unit : bool) (racc : list cont) (buf : option Qc) (rest : list slice) : list cont :=
  match rest with
  | [] => rev racc
  | s :: r =>
    let w := sl_width s in
    let fresh := match buf with None => true | Some b => negb (Qc_eqb w b) end || unit in
    let racc' := if fresh then cont_single s :: racc
                 else match racc with last :: pre => cont_append last s :: pre | [] => [cont_single s] end in
    obj_group unit racc' (Some w) r
  end.

Definition obj_initial_containers (g : grouping) (slices : list slice) : list cont :=
  obj_group (match g with G_Unit => true | _ => false end) [] None slices.

(* find_closest_power_below(n, base=2): for i in range(n): n == 2^(i+1) -> 2^(i+1); 2^i < n < 2^(i+1) -> 2^i; else 1 *)
Fixpoint fcpb_loop (n : nat) (is : list nat) : nat :=
  match is with
  | [] => 1%nat
  | i :: r =>
    if Nat.eqb n (2 ^ (S i)) then (2 ^ (S i))%nat
    else if (2 ^ i <? n)%nat && (n <? 2 ^ (S i))%nat then (2 ^ i)%nat
    else fcpb_loop n r
  end.
Definition find_closest_power_below (n : nat) : nat := fcpb_loop n (seq 0 n).

(* new_container.append_slice(self.slices.pop(0)) k times: returns the filled container and the remaining slices *)
Fixpoint move_slices (k : nat) (nc : cont) (rest : list slice) : cont * list slice :=
  match k with
  | O => (nc, rest)
  | S k' => match rest with
            | [] => (nc, rest)                     (* pop from an empty list: IndexError; unreachable, k <= len *)
            | s :: r => move_slices k' (cont_append nc s) r
            end
  end.

(* split_into_containers_with_power_two_sizes: while size > 0; [fuel] bounds the number of rounds (size decreases) *)
Fixpoint obj_split (fuel : nat) (rest : list slice) : list cont :=
  match fuel with
  | O => []
  | S f =>
    match rest with
    | [] => []
    | _ => let k := find_closest_power_below (length rest) in
           let '(nc, rest') := move_slices k cont_new rest in
           nc :: obj_split f rest'
    end
  end.

(* adjust_containers *)
Definition obj_adjust (g : grouping) (cs : list cont) : list cont :=
  flat_map (fun c =>
    if is_pow2 (length (c_slices c)) then [c]
    else match g with
         | G_Optimized => obj_split (length (c_slices c)) (c_slices c)
         | _ => map cont_single (c_slices c)
         end) cs.

(* Romberg / SimpsonRomberg GridSliceContainer.get_final_weights with the interval [a, b] given explicitly
   (Model/Romberg.container_final_from is this function at a = left end of the first, b = right end of the last slice) *)
Definition container_final_ab (lo : nat) (sv : slice_version) (cv : container_version) (a b : Qc) (c : list slice)
  : option (list contrib) :=
  match c with
  | [] => None
  | [s] => slice_final sv s
  | _ =>
    let grid := container_grid c in
    let n := length grid in
    let nl := normalized_levels n in
    let m := list_max nl in
    opt_list (map (fun i =>
        let point := nthQ grid i in
        if Nat.eqb i 0 || Nat.eqb i (n - 1) then
          Some (point, match cv with CV_Default => trap_boundary_weight a b 2 m | CV_Simpson => simpson_boundary_weight_from lo a b m end)
        else
          match (match cv with CV_Default => trap_inner_weight a b 2 (nth i nl O) m
                             | CV_Simpson => simpson_inner_weight_from lo a b (nth i nl O) m end) with
          | Some w => Some (point, w)
          | None => None
          end) (seq 0 n))
  end.

(* get_final_weights of the container OBJECT: the factory is built from self.left_point, self.right_point.
   (None attributes cannot occur on a non-empty container; RombergWeightFactory.get(None, None) would raise) *)
Definition obj_container_final_from (lo : nat) (sv : slice_version) (cv : container_version) (c : cont) : option (list contrib) :=
  match c_slices c with
  | [] => None
  | [s] => slice_final sv s
  | _ => match c_left c, c_right c with
         | Some a, Some b => container_final_ab lo sv cv a b (c_slices c)
         | _, _ => None
         end
  end.

(* ExtrapolationGrid.set_grid + get_weights on container objects; also returns the containers themselves *)
Definition extrapolation_grid_obj_from (lo : nat) (g : grouping) (sv : slice_version) (cv : container_version) (force : bool)
           (grid0 : list Qc) (levels0 : list nat) : option (ext_result * list cont) :=
  if Nat.eqb (length grid0) (length levels0) && (2 <=? length grid0)%nat then
    match (if force then
             match init_tree grid0 levels0 with
             | Some t => Some (tree_grid (nthQ grid0 0) (nthQ grid0 (length grid0 - 1)) (force_full t))
             | None => None
             end
           else Some (grid0, levels0)) with
    | None => None
    | Some (grid, levels) =>
      match init_grid_slices grid levels with
      | None => None
      | Some slices =>
        let cs := obj_adjust g (obj_initial_containers g slices) in
        match opt_concat (map (obj_container_final_from lo sv cv) cs) with
        | None => None
        | Some contribs =>
          Some (mkExt grid levels (map (fun c => length (c_slices c)) cs) (dict_of contribs), cs)
        end
      end
    end
  else None.

Definition extrapolation_grid_obj := extrapolation_grid_obj_from simpson_min_level.

(* the r3-style variant of split_into_containers_with_power_two_sizes: when the remaining slices already form a block of
   size 2^k the ORIGINAL container object [self] is kept for them (slices popped so far removed, attributes untouched).
   Used only for the refutation theorem C11_split_reuse_refuted. *)
Fixpoint obj_split_reuse (fuel : nat) (self : cont) : list cont :=
  match fuel with
  | O => []
  | S f =>
    match c_slices self with
    | [] => []
    | rest =>
      let k := find_closest_power_below (length rest) in
      if Nat.eqb k (length rest) then [self]
      else let '(nc, rest') := move_slices k cont_new rest in
           nc :: obj_split_reuse f (mkCont rest' (c_left self) (c_right self) (c_max_level self) (c_min_step self))
    end
  end.
