(* C10 — the Gauss-Legendre rules behind get_integral (definitions only; lemmas: Proofs/GaussLegendreP.v).
   BasisFunctions.get_integral uses numpy.polynomial.legendre.leggauss(int(p/2) + 1) on every polynomial piece:
     coords = (t + 1) * (right - left) / 2 + left,  weights = w * (right - left) / 2,  result = sum f(coords) * weights.
   The nodes of the rules with n = 2, 3 points are irrational (+-1/sqrt 3; 0, +-sqrt(3/5)): they are represented EXACTLY in the
   quadratic extensions Q(sqrt 3), Q(sqrt 15) - a number u + v sqrt D is the pair (u, v) of rationals.  n = 1: p = 1;
   n = 2: p = 2, 3;  n = 3: p = 4, 5.  (n = 4, p = 6, 7: the nodes are nested radicals sqrt((3 -+ 2 sqrt(6/5)) / 7) - not
   represented; the exactness of that rule stays modelled.) *)
From Coq Require Import ZArith List QArith Qcanon.
From SG Require Import Base.QcUtil Base.PolyInt.
Import ListNotations.
Open Scope Qc_scope.

Definition qx : Type := (Qc * Qc)%type.                 (* u + v * sqrt D *)
Definition xadd (x y : qx) : qx := (fst x + fst y, snd x + snd y).
Definition xmul (D : Qc) (x y : qx) : qx := (fst x * fst y + D * (snd x * snd y), fst x * snd y + snd x * fst y).
Definition xscale (c : Qc) (x : qx) : qx := (c * fst x, c * snd x).

(* Horner evaluation of a rational polynomial at a point of the extension *)
Fixpoint xpeval (D : Qc) (P : poly) (x : qx) : qx :=
  match P with
  | [] => (0, 0)
  | c :: r => xadd (c, 0) (xmul D x (xpeval D r x))
  end.

Definition c3 : Qc := 1 + 1 + 1.
Definition c5 : Qc := 1 + 1 + 1 + 1 + 1.
Definition c9 : Qc := c3 * c3.

(* leggauss(n) on [-1, 1]: (D, [(node, weight)]) *)
Definition gl_rule (n : nat) : option (Qc * list (qx * Qc)) :=
  match n with
  | 1%nat => Some (c3, [((0, 0), 1 + 1)])
  | 2%nat => Some (c3, [((0, - (1 / c3)), 1); ((0, 1 / c3), 1)])                                  (* -+ sqrt 3 / 3 *)
  | 3%nat => Some (c3 * c5, [((0, - (1 / c5)), c5 / c9); ((0, 0), (c5 + c3) / c9); ((0, 1 / c5), c5 / c9)])   (* -+ sqrt 15 / 5 *)
  | _ => None
  end.

(* the rule transported to [lo, hi] and applied to the polynomial P, as get_integral does *)
Definition gl_apply (D : Qc) (rule : list (qx * Qc)) (P : poly) (lo hi : Qc) : qx :=
  fold_right (fun tw acc =>
      let t := fst tw in
      let x : qx := ((fst t + 1) * ((hi - lo) / (1 + 1)) + lo, snd t * ((hi - lo) / (1 + 1))) in
      xadd (xscale (snd tw * ((hi - lo) / (1 + 1))) (xpeval D P x)) acc)
    (0, 0) rule.

(* number of Gauss points the code takes for order p *)
Definition gl_points (p : nat) : nat := (p / 2 + 1)%nat.
