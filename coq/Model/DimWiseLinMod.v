(* C04, modified basis: verified checker for the side condition of C04_dw_linear_exact. Definitions only. *)
From Coq Require Import ZArith List Bool QArith Qcanon.
From SG Require Import Base.QcUtil Model.CombiScheme Model.RefTree.
From SG Require Import Model.DimWise Model.DimWiseInterp.
Import ListNotations.
Open Scope Z_scope.

(* ---------------------------------------------------------------------------------------------------------- *)
(* verified checker for the side condition of the modified basis (Proofs/DimWiseLinear.v, lin_mod_okb_sound): every stripe of a
   level between lmin and the largest level of a component has at least 4 points or is (a, mid point, b) *)
Definition max_level_cs (cs : list (lv * Z)) : Z := fold_right Z.max 0%Z (flat_map fst cs).
Definition levels_between (lo hi : Z) : list Z := map (fun k => (lo + Z.of_nat k)%Z) (seq 0 (Z.to_nat (hi - lo + 1))).
Fixpoint listQ_eqb (p q : list Qc) : bool :=
  match p, q with
  | [], [] => true
  | x :: p', y :: q' => Qc_eqb x y && listQ_eqb p' q'
  | _, _ => false
  end.
Definition stripe_mod_okb (a0 b0 : Qc) (x : list Qc) : bool :=
  (4 <=? length x)%nat || listQ_eqb x [a0; ((a0 + b0) * Qchalf)%Qc; b0].
Definition lin_mod_okb (o : dw_opts) (st : dw_state) (a b : list Qc) : bool :=
  let s := st_scheme st in
  forallb (fun d => forallb (fun l => stripe_mod_okb (nth d a 0%Qc) (nth d b 0%Qc) (dw_stripe_coords o st d l))
                            (levels_between (s_lmin s) (max_level_cs (combi_scheme_adaptive s))))
          (seq 0 (s_dim s)).
