(* C05 on the dimension-wise model of C03/C04: the PUBLISHED quadrature rule of a dimension-wise state
   (StandardCombi.get_points_and_weights over SpatiallyAdaptiveSingleDimensions2.get_points_and_weights_component_grid:
   grid.set_grid(stripes of the CURRENT refinement) -> tensor product of the 1D trapezoidal weights, end points stripped when
   boundary=False, every weight multiplied by the combination coefficient) as a function of the model state.
   Definitions only; proofs in Proofs/AccumDWProofs.v. *)
From Coq Require Import ZArith List Bool QArith Qcanon.
From SG Require Import Base.QcUtil Model.CombiScheme Model.RefTree Model.DimWise Model.DimWiseInterp Model.DimWiseExact Model.Accum.
From SG Require Model.Trap.
Import ListNotations.
Open Scope Z_scope.

(* 1D rule on a stripe: (point, weight) pairs; None = compute_weights raises *)
Definition rule1 (bd mb : bool) (a b : Qc) (x : list Qc) : option (list (Qc * Qc)) :=
  match Trap.compute_weights x a b mb with
  | Some w => Some (if bd then combine x w else combine (Trap.strip x) (Trap.strip w))
  | None => None
  end.

(* tensor product of 1D rules: points are coordinate lists, weights are products *)
Fixpoint tensor_rule (rs : list (list (Qc * Qc))) : rule (list Qc) :=
  match rs with
  | [] => [([], 1%Qc)]
  | r :: rest => flat_map (fun pw => map (fun qv => (fst pw :: fst qv, (snd pw * snd qv)%Qc)) (tensor_rule rest)) r
  end.

(* the integrands of C04's exact model: products of 1D functions *)
Fixpoint f_prod (gs : list (Qc -> Qc)) (p : list Qc) : Qc :=
  match gs, p with
  | g :: gs', x :: p' => (g x * f_prod gs' p')%Qc
  | _, _ => 1%Qc
  end.

Fixpoint all_some {A} (l : list (option A)) : option (list A) :=
  match l with
  | [] => Some []
  | Some x :: r => match all_some r with Some y => Some (x :: y) | None => None end
  | None :: _ => None
  end.

Definition dw_rule1_of (o : dw_opts) (mb : bool) (st : dw_state) (dq : nat * (Qc * Qc * Z * (Qc -> Qc))) : option (list (Qc * Qc)) :=
  match dq with (d, (a0, b0, l0, _)) => rule1 (o_boundary o) mb a0 b0 (dw_stripe_coords o st d l0) end.

(* get_points_and_weights_component_grid(levelvec) *)
Definition dw_comp_rule (o : dw_opts) (mb : bool) (st : dw_state) (a b : list Qc) (lv : lv) : option (rule (list Qc)) :=
  match all_some (map (dw_rule1_of o mb st) (combine (seq 0 (length lv)) (zip4 a b lv (map (fun _ => fun x : Qc => x) lv)))) with
  | Some rs => Some (tensor_rule rs)
  | None => None
  end.

(* the scheme with its component rules = the argument of Accum.combined_rule (get_points_and_weights) *)
Definition dw_published (o : dw_opts) (mb : bool) (st : dw_state) (a b : list Qc) : option (list (Qc * rule (list Qc))) :=
  all_some (map (fun kv => match dw_comp_rule o mb st a b (fst kv) with
                           | Some r => Some (qc_of_Z (snd kv), r) | None => None end)
                (combi_scheme_adaptive (st_scheme st))).

(* well-formed inputs: box and integrand have the dimension of every level vector of the scheme *)
Definition dw_wf (st : dw_state) (a b : list Qc) (gs : list (Qc -> Qc)) : Prop :=
  length a = length gs /\ length b = length gs /\
  Forall (fun kv : lv * Z => length (fst kv) = length gs) (combi_scheme_adaptive (st_scheme st)).

(* the published rules along a run of the dimension-wise model: one per reached state *)
Fixpoint dw_states (o : dw_opts) (steps : list (list (list Qc))) (st : dw_state) : list dw_state :=
  match steps with
  | [] => [st]
  | b :: r => st :: match dw_step o b st with Some st' => dw_states o r st' | None => [] end
  end.

(* the published rule as a function of the stripes alone (what the entry point evaluates on the stripes the implementation reports:
   get_point_coord_for_each_dim per component grid): per component (coefficient, per dimension (a, b, stripe)) *)
Definition published_of_stripes (bd mb : bool) (comps : list (Qc * list (Qc * Qc * list Qc))) : option (list (Qc * rule (list Qc))) :=
  all_some (map (fun cd => match all_some (map (fun abx => rule1 bd mb (fst (fst abx)) (snd (fst abx)) (snd abx)) (snd cd)) with
                           | Some rs => Some (fst cd, tensor_rule rs) | None => None end) comps).
