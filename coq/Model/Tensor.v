(* Tensor-product quadrature rules over Qc: definitions only (lemmas: Proofs/TensorRule.v).
   Mirrors sparseSpACE/Grid.py:
     Grid.getPoints     = get_cross_product_list(coordinate_array)          -> cross
     Grid.get_weights   = prod(get_cross_product_list(weights), axis=1)     -> tensor_weights
     IntegratorArbitraryGridScalarProduct.__call__ = inner(f(points), weights) -> integrate_rule
   itertools.product order: first dimension outermost, last dimension fastest. *)
From Coq Require Import ZArith List QArith Qcanon Bool Arith.
From SG Require Import Base.QcUtil.
Import ListNotations.
Open Scope Qc_scope.

Fixpoint cross {A} (ls : list (list A)) : list (list A) :=
  match ls with
  | [] => [[]]
  | l :: rest => flat_map (fun x => map (cons x) (cross rest)) l
  end.

Fixpoint prodQ (l : list Qc) : Qc := match l with [] => 1 | x :: r => x * prodQ r end.

Fixpoint prodN (l : list nat) : nat := match l with [] => 1%nat | x :: r => (x * prodN r)%nat end.

(* weight of a tensor point = product of the 1D weights *)
Definition tensor_weights (ws : list (list Qc)) : list Qc := map prodQ (cross ws).

(* product function  f(x_1..x_d) = f_1(x_1) * ... * f_d(x_d) *)
Fixpoint prodf (fs : list (Qc -> Qc)) (p : list Qc) : Qc :=
  match fs, p with
  | f :: fs', x :: p' => f x * prodf fs' p'
  | _, _ => 1
  end.

(* scalar-product integrator *)
Definition integrate_rule (f : list Qc -> Qc) (cs ws : list (list Qc)) : Qc :=
  dotQ (map f (cross cs)) (tensor_weights ws).

(* 1D rule applied to f *)
Definition apply1 (f : Qc -> Qc) (c w : list Qc) : Qc := dotQ (map f c) w.

(* natural number -> Qc *)
Definition qn (n : nat) : Qc := Q2Qc (inject_Z (Z.of_nat n)).

(* monomials and their exact integrals over [s,e] *)
Definition mono (k : nat) (x : Qc) : Qc := x ^ k.
Definition mint (k : nat) (s e : Qc) : Qc := (e ^ (S k) - s ^ (S k)) / qn (S k).

(* a 1D rule (c,w) is exact on [s,e] for all monomials up to degree deg *)
Definition exact1 (c w : list Qc) (s e : Qc) (deg : nat) : Prop :=
  forall k, (k <= deg)%nat -> apply1 (mono k) c w = mint k s e.

(* polynomials as coefficient lists (lowest degree first) *)
Fixpoint peval (p : list Qc) (x : Qc) : Qc :=
  match p with [] => 0 | c :: r => c + x * peval r x end.
Fixpoint pint_from (k : nat) (p : list Qc) (s e : Qc) : Qc :=
  match p with [] => 0 | c :: r => c * mint k s e + pint_from (S k) r s e end.
(* formal integral of a polynomial over [s,e] *)
Definition pint (p : list Qc) (s e : Qc) : Qc := pint_from 0 p s e.
