(* Model of the extend-split refinement strategy — definitions only.
   Python sources followed:
     sparseSpACE/RefinementObject.py      class RefinementObjectExtendSplit (refine, update, add_level,
                                          is_already_calculated, split_area_arbitrary_dim, split_area_single_dim,
                                          contains, subset_of_contained_points)
     sparseSpACE/RefinementContainer.py   class RefinementContainer (refine, update_values, prepare_remove, apply_remove,
                                          add, clear_new_objects, get_new_objects, get_next_object_for_refinement,
                                          get_max_benefit, set_benefit)
     sparseSpACE/spatiallyAdaptiveBase.py refine, evaluate_operation/compute_solutions (only the calls of coarsen_grid)
     sparseSpACE/spatiallyAdaptiveExtendSplit.py  coarsen_grid (versions 0,1,2), initialize_refinement, do_refinement,
                                          calculate_new_twin_errors (only its calls of coarsen_grid on the new areas),
                                          get_points_in_areas_recursive
   Data refinements (stated, validated by the correspondence check):
     - boxes over Qc; the midpoint (a+b)/2.0 is exact on the dyadic inputs the harness generates;
     - popArray (positions to be removed after the round) is a `dead` flag on the object;
     - an object carries its path in the refinement tree (Python: object identity);
     - the extend/split decision of automatic_extend_split and the split dimensions of split_single_dim are inputs
       (looked up by box); benefits are inputs (looked up by box);
     - split_area_arbitrary_dim is written by recursion over the coordinates (same order of children as the
       index arithmetic `rest < 2**d`);
     - lmin/lmax are scalars (the code itself assumes they are equal in all dimensions). *)
From Coq Require Import ZArith List Bool QArith Qcanon.
From SG Require Import Base.QcUtil Model.CombiScheme.
Import ListNotations.
Open Scope Z_scope.

Definition point := list Qc.
Definition box := (list Qc * list Qc)%type.

(* ---------------------------------------------------------------- coarsen_grid *)

(* Python max(temp) of a non-empty list *)
Definition maxl (t : lv) : Z := fold_right Z.max (hd 0 t) t.

(* for d in range(dim): if temp[d] == maxLevel: temp[d] -= delta; break *)
Fixpoint dec_first (m delta : Z) (t : lv) : lv :=
  match t with
  | [] => []
  | x :: r => if x =? m then (x - delta) :: r else x :: dec_first m delta r
  end.

(* for d in range(dim): if temp[d] == maxLevel: temp[d] -= 1   (all of them) *)
Definition dec_all (m : Z) (t : lv) : lv := map (fun x => if x =? m then x - 1 else x) t.

Definition count_eq (m : Z) (t : lv) : Z := Z.of_nat (length (filter (fun x => x =? m) t)).

Fixpoint remove_first (m : Z) (t : lv) : lv :=
  match t with
  | [] => []
  | x :: r => if x =? m then r else x :: remove_first m r
  end.

(* temp2 = reversed(sorted(temp)); temp2[0] - temp2[1]  (needs dim >= 2) *)
Definition top_gap (t : lv) : Z := let m := maxl t in m - maxl (remove_first m t).

(* version 0, first branch:  while coarsening > 0: if max == lmin: break; decrement first max; coarsening -= 1 *)
Fixpoint v0_loop (fuel : nat) (lmin : Z) (t : lv) : lv :=
  match fuel with
  | O => t
  | S f => let m := maxl t in if m =? lmin then t else v0_loop f lmin (dec_first m 1 t)
  end.

(* versions 1 and 2: the while loop; `c` is the remaining coarsening, every productive round lowers it by
   occurences_of_max >= 1, so `fuel` = initial coarsening suffices *)
Fixpoint v12_loop (fuel : nat) (version : Z) (dim base lmin lmax csave : Z) (top_diag : bool) (c : Z) (t : lv) : lv :=
  match fuel with
  | O => t
  | S f =>
    if c >? 0 then
      let m := maxl t in
      if m =? lmin then t else
      let occ := count_eq m t in
      let do_coarsen :=
        if version =? 1 then
          (csave >=? lmax + (dim - 1) * base - m - (dim - 2) * base - m + 1) && (c >=? occ - (if top_diag then 1 else 0))
        else
          (csave >=? lmax + (dim - 1) * base - m - (dim - 2) * base - m + 2) && (c >=? occ) in
      if do_coarsen then v12_loop f version dim base lmin lmax csave top_diag (c - occ) (dec_all m t) else t
    else t
  end.

Definition ldict := list (lv * lv).

Fixpoint dict_get (k : lv) (d : ldict) : option lv :=
  match d with
  | [] => None
  | (k', v) :: r => if lv_eqb k k' then Some v else dict_get k r
  end.

Fixpoint dict_set (k v : lv) (d : ldict) : ldict :=
  match d with
  | [] => [(k, v)]
  | (k', v') :: r => if lv_eqb k k' then (k', v) :: r else (k', v') :: dict_set k v r
  end.

(* cp_base: the minimum level the diagonal arithmetic of versions 1,2 assumes.  The pinned code hard-codes 1
   (`self.lmax[0] + self.dim - 1 - np.sum(levelvector)`, `... - (self.dim - 2) - ...`): cp_base = 1.  The proposed
   repair (fixes/C07-coarsen-lmin.patch) uses lmin: cp_base = cp_lmin. *)
Record cparams := mkCP { cp_dim : nat; cp_version : Z; cp_lmin : Z; cp_lmax : Z; cp_base : Z }.

Definition sub_lmin (lmin : Z) (t : lv) : lv := map (fun x => x - lmin) t.

(* coarsen_grid(levelvector, area) -> ((level_coarse, do_compute), area.levelvec_dict afterwards) *)
Definition coarsen_grid (cp : cparams) (coarsening : Z) (dict : ldict) (levelvector : lv) : (lv * bool) * ldict :=
  let lmin := cp_lmin cp in
  if cp_version cp =? 0 then
    if top_gap levelvector <? coarsening then
      ((sub_lmin lmin (v0_loop (Z.to_nat coarsening) lmin levelvector), false), dict)
    else
      let temp := dec_first (maxl levelvector) coarsening levelvector in
      match dict_get temp dict with
      | Some other => if lv_eqb other levelvector then ((sub_lmin lmin temp, true), dict_set temp levelvector dict)
                      else ((sub_lmin lmin temp, false), dict)
      | None => ((sub_lmin lmin temp, true), dict_set temp levelvector dict)
      end
  else
    let dimz := Z.of_nat (cp_dim cp) in
    let num_sub_diagonal := (cp_lmax cp + (dimz - 1) * cp_base cp) - sumZ levelvector in
    ((sub_lmin lmin (v12_loop (Z.to_nat coarsening) (cp_version cp) dimz (cp_base cp) lmin (cp_lmax cp) coarsening
                              (num_sub_diagonal =? 0) coarsening levelvector), true), dict).

(* the assert of versions 1,2 *)
Definition coarsen_assert_ok (cp : cparams) (levelvector : lv) : bool :=
  (cp_version cp =? 0) ||
  ((cp_lmax cp + (Z.of_nat (cp_dim cp) - 1) * cp_base cp) - sumZ levelvector <? Z.of_nat (cp_dim cp)).

Definition the_scheme (cp : cparams) : list (lv * Z) := combi_scheme_standard (cp_dim cp) (cp_lmin cp) (cp_lmax cp).

(* all component grids of the scheme, in scheme order, on one area: results and dictionary afterwards *)
Fixpoint coarsen_all (cp : cparams) (coarsening : Z) (dict : ldict) (sch : list (lv * Z))
  : list (lv * Z * (lv * bool)) * ldict :=
  match sch with
  | [] => ([], dict)
  | (l, c) :: r =>
    let '(res, dict1) := coarsen_grid cp coarsening dict l in
    let '(rest, dict2) := coarsen_all cp coarsening dict1 r in
    ((l, c, res) :: rest, dict2)
  end.

(* the local combination of an area: (coarsened level vector, coefficient) of the component grids that are computed *)
Definition computed_grids (rs : list (lv * Z * (lv * bool))) : list (lv * Z) :=
  map (fun r => (fst (snd r), snd (fst r))) (filter (fun r => snd (snd r)) rs).

Definition local_combi (cp : cparams) (coarsening : Z) : list (lv * Z) :=
  computed_grids (fst (coarsen_all cp coarsening [] (the_scheme cp))).

(* ---------------------------------------------------------------- verified checker for a local combination *)


Fixpoint lv_max (a b : lv) : lv :=
  match a, b with
  | x :: a', y :: b' => Z.max x y :: lv_max a' b'
  | _, _ => []
  end.

(* componentwise maximum of the level vectors (all of length d) *)
Definition maxes (d : nat) (gs : list (lv * Z)) : list Z :=
  fold_right (fun g acc => lv_max (fst g) acc) (repeat 0 d) gs.

Definition dominated (gs : list (lv * Z)) (k : lv) : bool := existsb (fun g => lv_geb (fst g) k) gs.

(* every grid has d non-negative levels, and for every level vector k >= 0 below some computed grid the
   coefficients of the computed grids dominating k sum to 1 *)
Definition valid_local_combi (d : nat) (gs : list (lv * Z)) : bool :=
  forallb (fun g => (length (fst g) =? d)%nat && forallb (fun x => 0 <=? x) (fst g)) gs &&
  forallb (fun k => negb (dominated gs k) || (dominating_sum gs k =? 1))
          (cross (map (fun m => zrange (m + 1)) (maxes d gs))).

(* everything the bounded theorem enumerates for one parameter tuple: the assert of versions 1,2 holds for every
   component grid, the local combination (fresh dictionary) is valid, and running coarsen_grid again over the scheme with
   the dictionary left behind gives the same answers (what later calls on the same area see) *)
Definition res_eqb (a b : lv * Z * (lv * bool)) : bool :=
  lv_eqb (fst (fst a)) (fst (fst b)) && (snd (fst a) =? snd (fst b)) &&
  lv_eqb (fst (snd a)) (fst (snd b)) && Bool.eqb (snd (snd a)) (snd (snd b)).

Fixpoint list_eqb {A} (eqb : A -> A -> bool) (a b : list A) : bool :=
  match a, b with
  | [], [] => true
  | x :: a', y :: b' => eqb x y && list_eqb eqb a' b'
  | _, _ => false
  end.

Definition local_combi_check (cp : cparams) (coarsening : Z) : bool :=
  let sch := the_scheme cp in
  let '(rs, dict1) := coarsen_all cp coarsening [] sch in
  forallb (fun g => coarsen_assert_ok cp (fst g)) sch &&
  valid_local_combi (cp_dim cp) (computed_grids rs) &&
  list_eqb res_eqb rs (fst (coarsen_all cp coarsening dict1 sch)).

(* 1D dyadic area grid of level l on [0,1] (relative coordinates): j / 2^l, j = 0..2^l; level vector l >= 0 *)
Definition dy (j l : Z) : Qc := Q2Qc (j # Z.to_pos (2 ^ l)).
Definition pts1 (l : Z) : list Qc := map (fun j => dy j l) (zrange (2 ^ l + 1)).

(* ---------------------------------------------------------------- areas, tree *)

Record area := mkArea {
  a_start : list Qc;
  a_end : list Qc;
  a_coarse : Z;            (* coarseningValue *)
  a_need : Z;              (* needExtendScheme *)
  a_nrbe : Z;              (* numberOfRefinementsBeforeExtend *)
  a_benefit : Qc;
  a_dict : ldict;          (* levelvec_dict *)
  a_path : list nat;       (* position in the refinement tree *)
  a_dead : bool            (* position is in popArray *)
}.

Definition abox (x : area) : box := (a_start x, a_end x).

Inductive tree := Node : list Qc -> list Qc -> list tree -> tree.

Definition t_box (t : tree) : box := match t with Node s e _ => (s, e) end.
Definition t_children (t : tree) : list tree := match t with Node _ _ c => c end.

Fixpoint set_nth (d : nat) (v : Qc) (l : list Qc) : list Qc :=
  match l, d with
  | [], _ => []
  | _ :: r, O => v :: r
  | x :: r, S d' => x :: set_nth d' v r
  end.

(* grid.get_mid_point(start[d], end[d], d) = (a + b) / 2.0 *)
Definition midpoint (s e : list Qc) (d : nat) : Qc := qc_half (nth d s 0%Qc + nth d e 0%Qc).

(* split_area_single_dim: the two boxes *)
Definition halves (d : nat) (b : box) : list box :=
  let m := midpoint (fst b) (snd b) d in
  [(fst b, set_nth d m (snd b)); (set_nth d m (fst b), snd b)].

(* split_area_arbitrary_dim: child i takes the lower half in dimension d iff bit d of i is 0 *)
Fixpoint split_all (s e : list Qc) : list box :=
  match s, e with
  | a :: s', b :: e' =>
    let m := qc_half (a + b) in
    flat_map (fun r => [(a :: fst r, m :: snd r); (m :: fst r, b :: snd r)]) (split_all s' e')
  | _, _ => [([], [])]
  end.

Definition child_of (x : area) (i : nat) (b : box) : area :=
  mkArea (fst b) (snd b) (a_coarse x) (a_need x + 1) (a_nrbe x) 0%Qc [] (a_path x ++ [i]) false.

Fixpoint mapi {A B} (f : nat -> A -> B) (i : nat) (l : list A) : list B :=
  match l with [] => [] | x :: r => f i x :: mapi f (S i) r end.

Definition split_area_arbitrary_dim (x : area) : list area :=
  mapi (child_of x) 0 (split_all (a_start x) (a_end x)).

Definition split_area_single_dim (d : nat) (x : area) : list area :=
  mapi (child_of x) 0 (halves d (abox x)).

(* newRefinementObjects = [self]; for d in dims: newRefinementObjects = [split_area_single_dim(d) of each] *)
Definition split_dims (dims : list nat) (x : area) : list area :=
  fold_left (fun objs d => flat_map (split_area_single_dim d) objs) dims [x].

(* the same as a tree below the split node *)
Fixpoint single_children (dims : list nat) (b : box) : list tree :=
  match dims with
  | [] => []
  | d :: r => map (fun h => Node (fst h) (snd h) (single_children r h)) (halves d b)
  end.

Definition leaf_of (x : area) : tree := Node (a_start x) (a_end x) [].

(* self.children.append(...) at the node addressed by path p *)
Fixpoint tree_add (p : list nat) (ch : list tree) (t : tree) {struct t} : tree :=
  match t with
  | Node s e cs =>
    match p with
    | [] => Node s e (cs ++ ch)
    | i :: r =>
      Node s e ((fix upd (n : nat) (cs : list tree) {struct cs} : list tree :=
                   match cs with
                   | [] => []
                   | c :: cs' => match n with O => tree_add r ch c :: cs' | S n' => c :: upd n' cs' end
                   end) i cs)
    end
  end.

Fixpoint subtree_at (p : list nat) (t : tree) : option tree :=
  match p with
  | [] => Some t
  | i :: r => match nth_error (t_children t) i with Some c => subtree_at r c | None => None end
  end.

Fixpoint tree_leaves (t : tree) : list box :=
  match t with
  | Node s e [] => [(s, e)]
  | Node s e cs => flat_map tree_leaves cs
  end.

(* RefinementObjectExtendSplit.contains(point): closed box *)
Fixpoint contains (s e : list Qc) (p : point) : bool :=
  match s, e, p with
  | a :: s', b :: e', x :: p' => Qc_leb a x && Qc_leb x b && contains s' e' p'
  | _, _, _ => true
  end.

(* get_points_in_areas_recursive(area, points) *)
Fixpoint assign_points (t : tree) (pts : list point) {struct t} : list (box * list point) :=
  match t with
  | Node s e [] => [((s, e), pts)]
  | Node s e cs =>
    (fix go (cs : list tree) (pts : list point) {struct cs} : list (box * list point) :=
       match cs with
       | [] => []
       | c :: r =>
         let cont := filter (contains (fst (t_box c)) (snd (t_box c))) pts in
         let rest := filter (fun p => negb (contains (fst (t_box c)) (snd (t_box c)) p)) pts in
         assign_points c cont ++ (match rest with [] => [] | _ => go r rest end)
       end) cs pts
  end.

(* ---------------------------------------------------------------- strategy state *)

Record state := mkState {
  st_dim : nat;
  st_version : Z;
  st_lmin : Z;
  st_lmax : Z;
  st_auto : bool;
  st_single : bool;
  st_a : list Qc;
  st_b : list Qc;
  st_objs : list area;        (* refinement.refinementObjects *)
  st_start_new : nat;         (* refinement.startNewObjects *)
  st_tree : tree;             (* root_cell *)
  st_bmax : Qc;               (* benefit_max *)
  st_base : Z                 (* see cp_base *)
}.

Definition st_cp (st : state) : cparams := mkCP (st_dim st) (st_version st) (st_lmin st) (st_lmax st) (st_base st).

Definition set_objs (st : state) (objs : list area) : state :=
  mkState (st_dim st) (st_version st) (st_lmin st) (st_lmax st) (st_auto st) (st_single st) (st_a st) (st_b st)
          objs (st_start_new st) (st_tree st) (st_bmax st) (st_base st).

(* decision inputs: per refined box (extend?, split dimensions) *)
Definition decision := (box * (bool * list nat))%type.

Fixpoint lq_eqb (a b : list Qc) : bool :=
  match a, b with
  | [], [] => true
  | x :: a', y :: b' => Qc_eqb x y && lq_eqb a' b'
  | _, _ => false
  end.
Definition box_eqb (a b : box) : bool := lq_eqb (fst a) (fst b) && lq_eqb (snd a) (snd b).

Fixpoint lookup {V} (b : box) (l : list (box * V)) (dflt : V) : V :=
  match l with
  | [] => dflt
  | (k, v) :: r => if box_eqb b k then v else lookup b r dflt
  end.

(* RefinementObjectExtendSplit.update(update_info) *)
Definition update_area (x : area) : area :=
  mkArea (a_start x) (a_end x) (a_coarse x + 1) (a_need x) (a_nrbe x) (a_benefit x) [] (a_path x) (a_dead x).

Definition with_dict (x : area) (d : ldict) : area :=
  mkArea (a_start x) (a_end x) (a_coarse x) (a_need x) (a_nrbe x) (a_benefit x) d (a_path x) (a_dead x).
Definition with_benefit (x : area) (b : Qc) : area :=
  mkArea (a_start x) (a_end x) (a_coarse x) (a_need x) (a_nrbe x) b (a_dict x) (a_path x) (a_dead x).
Definition kill (x : area) : area :=
  mkArea (a_start x) (a_end x) (a_coarse x) (a_need x) (a_nrbe x) (a_benefit x) (a_dict x) (a_path x) true.
Definition with_path (x : area) (p : list nat) : area :=
  mkArea (a_start x) (a_end x) (a_coarse x) (a_need x) (a_nrbe x) (a_benefit x) (a_dict x) p (a_dead x).

(* refine(): kind of operation *)
Inductive op := OpExtend | OpSplit (dims : option (list nat)).

(* the extend-vs-split test of RefinementObjectExtendSplit.refine *)
Definition decide (auto : bool) (dec_extend : bool) (x : area) : bool :=
  if auto then dec_extend else a_nrbe x <=? a_need x.

(* RefinementObjectExtendSplit.refine -> (new objects, children hung below the node, lmax increased?) *)
Definition refine_area (st : state) (x : area) (dec : bool * list nat) : list area * list tree * bool :=
  if decide (st_auto st) (fst dec) x then
    let c' := if a_coarse x =? 0 then 0 else a_coarse x - 1 in
    let n := mkArea (a_start x) (a_end x) c' (a_need x) (a_nrbe x) 0%Qc [] (a_path x ++ [0%nat]) false in
    ([n], [leaf_of n], a_coarse x =? 0)
  else if st_single st then
    let dims := filter (fun d => (d <? st_dim st)%nat) (snd dec) in
    (split_dims dims x, single_children dims (abox x), false)
  else
    let ch := split_area_arbitrary_dim x in
    (ch, map leaf_of ch, false).

(* coarsen_grid for every component grid on one area, keeping the dictionary (compute_solutions /
   calculate_new_twin_errors / get_points_component_grid) *)
Definition register (cp : cparams) (x : area) : area :=
  with_dict x (snd (coarsen_all cp (a_coarse x) (a_dict x) (the_scheme cp))).

Fixpoint kill_nth (i : nat) (l : list area) : list area :=
  match l, i with
  | [], _ => []
  | x :: r, O => kill x :: r
  | x :: r, S i' => x :: kill_nth i' r
  end.

(* do_refinement(area, position) incl. RefinementContainer.refine(position) *)
Definition do_refinement (st : state) (i : nat) (decs : list decision) : state * list (box * (bool * list nat)) :=
  match nth_error (st_objs st) i with
  | None => (st, [])
  | Some x =>
    let dec := lookup (abox x) decs (false, []) in
    let '(news, ch, inc) := refine_area st x dec in
    let objs1 := if inc then map update_area (st_objs st) else st_objs st in
    let news1 := if st_single st && (2 <? length news)%nat then map (register (st_cp st)) news else news in
    let objs2 := kill_nth i objs1 ++ news1 in
    let lmax' := if inc then st_lmax st + 1 else st_lmax st in
    let logdims := if decide (st_auto st) (fst dec) x then []
                   else if st_single st then filter (fun d => (d <? st_dim st)%nat) (snd dec)
                   else seq 0 (st_dim st) in
    (mkState (st_dim st) (st_version st) (st_lmin st) lmax' (st_auto st) (st_single st) (st_a st) (st_b st)
             objs2 (st_start_new st) (tree_add (a_path x) ch (st_tree st)) (st_bmax st) (st_base st),
     [(abox x, (decide (st_auto st) (fst dec) x, logdims))])
  end.

(* margin = 0.9 *)
Definition margin : Qc := Q2Qc (9 # 10).

(* SpatiallyAdaptivBase.refine: clear_new_objects; while get_next_object_for_refinement(benefit_max*margin): do_refinement;
   refinement_postprocessing (apply_remove) *)
Definition refine_round (st : state) (decs : list decision) : state * list (box * (bool * list nat)) :=
  let n := length (st_objs st) in
  let tol := (st_bmax st * margin)%Qc in
  let '(st1, log) :=
    fold_left (fun (acc : state * list (box * (bool * list nat))) i =>
                 let '(s, lg) := acc in
                 match nth_error (st_objs s) i with
                 | Some x => if Qc_leb tol (a_benefit x) then
                               let '(s', l') := do_refinement s i decs in (s', lg ++ l')
                             else (s, lg)
                 | None => (s, lg)
                 end)
              (seq 0 n) (st, []) in
  let removed := length (filter a_dead (st_objs st1)) in
  (mkState (st_dim st1) (st_version st1) (st_lmin st1) (st_lmax st1) (st_auto st1) (st_single st1) (st_a st1) (st_b st1)
           (filter (fun x => negb (a_dead x)) (st_objs st1)) (n - removed) (st_tree st1) (st_bmax st1) (st_base st1),
   log).

(* evaluate_operation on the new areas: compute_solutions (coarsen_grid per component grid and new area),
   scripted benefits, benefit_max over all areas.  Also returns the trace of the compute phase. *)
Definition benefit_of (k : Z) : Qc := Q2Qc (k # 8).

Definition evaluate (st : state) (bens : list (box * Z)) : state * list (box * list (lv * Z * (lv * bool))) :=
  let cp := st_cp st in
  let old := firstn (st_start_new st) (st_objs st) in
  let new := skipn (st_start_new st) (st_objs st) in
  let trace := map (fun x => (abox x, fst (coarsen_all cp (a_coarse x) (a_dict x) (the_scheme cp)))) new in
  let new' := map (fun x => with_benefit (register cp x) (benefit_of (lookup (abox x) bens 0))) new in
  let objs := old ++ new' in
  let bmax := fold_left (fun m x => if Qc_ltb m (a_benefit x) then a_benefit x else m) objs 0%Qc in
  (mkState (st_dim st) (st_version st) (st_lmin st) (st_lmax st) (st_auto st) (st_single st) (st_a st) (st_b st)
           objs (st_start_new st) (st_tree st) bmax (st_base st),
   trace).

(* initialize_refinement (no_initial_splitting = False) *)
Definition init_state (dim : nat) (version nrbe lmin lmax base : Z) (auto single : bool) (a b : list Qc) : state :=
  let cp := mkCP dim version lmin lmax base in
  if single then
    let root := mkArea a b 0 0 (nrbe + Z.of_nat dim) 0%Qc [] [] false in
    let objs := split_dims (seq 0 dim) root in
    let objs := mapi (fun i x => with_path x [i]) 0 objs in
    let objs := map (register cp) objs in                       (* calculate_new_twin_errors *)
    mkState dim version lmin lmax auto single a b objs 0 (Node a b (map leaf_of objs)) 0%Qc base
  else
    let root := mkArea a b 0 0 (nrbe + 1) 0%Qc [] [] false in
    let objs := split_area_arbitrary_dim root in
    mkState dim version lmin lmax auto single a b objs 0 (Node a b (map leaf_of objs)) 0%Qc base.

(* one driver step: refine(); continue_adaptive_refinement(tol=-1, max_evaluations=1) *)
Record step_input := mkStep { si_decs : list decision; si_bens : list (box * Z) }.

Definition step (st : state) (inp : step_input) : state :=
  fst (evaluate (fst (refine_round st (si_decs inp))) (si_bens inp)).

Definition run (st : state) (hist : list step_input) : state := fold_left step hist st.

(* the observation the harness makes after each step: coarsen_grid for every leaf and every component grid
   (this registers level vectors exactly as get_points_component_grid / interpolate_points would) *)
Definition observe_coarsen (st : state) : state * list (box * list (lv * Z * (lv * bool))) :=
  let cp := st_cp st in
  (set_objs st (map (register cp) (st_objs st)),
   map (fun x => (abox x, fst (coarsen_all cp (a_coarse x) (a_dict x) (the_scheme cp)))) (st_objs st)).

(* histories as the harness drives them: driver steps interleaved with observations (which register level vectors in
   the dictionaries of the areas, as any call of get_points_component_grid / interpolate_points does) *)
Inductive event := Step (inp : step_input) | Observe.
Definition apply_event (st : state) (ev : event) : state :=
  match ev with Step inp => step st inp | Observe => fst (observe_coarsen st) end.
Definition run_events (st : state) (evs : list event) : state := fold_left apply_event evs st.

(* root_cell as seen by get_points_in_areas_recursive.  With split_single_dim, initialize_refinement assigns the SAME
   list object to root_cell.children and to the container (`self.root_cell.children = new_refinement_objects;
   RefinementContainer(new_refinement_objects, ...)`), so add/apply_remove of the container rewrite the root's children:
   the tree seen from the root is always the flat list of the container's objects. *)
Definition current_tree (st : state) : tree :=
  if st_single st then Node (st_a st) (st_b st) (map leaf_of (st_objs st)) else st_tree st.

Definition live_boxes (st : state) : list box := map abox (filter (fun x => negb (a_dead x)) (st_objs st)).
