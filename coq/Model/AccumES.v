(* C05 on the extend-split model of C07 (Model/ExtendSplit.v): the independent recomputation of the check
   (harness/vp/props/c05.py _fresh_total: for every current area the coefficient-weighted sum of the operation applied to each
   component grid of the area's LOCAL COMBINATION under the CURRENT scheme) as a Gallina function of the model state.
   F box levelvector = the operation applied to one (coarsened, lmin-relative) component grid on one box (grid.integrate).
   Definitions only; proofs in Proofs/AccumESProofs.v. *)
From Coq Require Import ZArith List Bool QArith Qcanon.
From SG Require Import Base.QcUtil Model.CombiScheme Model.ExtendSplit Model.Accum.
Import ListNotations.
Open Scope Z_scope.

Definition es_area_parts (F : box -> lv -> Qc) (cp : cparams) (x : area) : list Qc :=
  map (fun g => (qc_of_Z (snd g) * F (abox x) (fst g))%Qc) (local_combi cp (a_coarse x)).

Definition es_area_value (F : box -> lv -> Qc) (cp : cparams) (x : area) : Qc := sumQ (es_area_parts F cp x).

Definition es_live (st : state) : list area := filter (fun x => negb (a_dead x)) (st_objs st).

Definition es_recompute (F : box -> lv -> Qc) (st : state) : Qc := sumQ (map (es_area_value F (st_cp st)) (es_live st)).

(* ---- the accumulator machine coupled to concrete per-area values (any commutative group) ----
   val id = the value the recomputation assigns to area id under the CURRENT scheme; the scheme may change (CRescheme) *)
Section Coupled.
  Variable V : Type.
  Inductive cstep :=
  | CEvaluate (parts : Z -> list V)          (* evaluate_operation: the new areas, on all component grids *)
  | CRefine (removed added : list Z)         (* refine() *)
  | CRescheme (val' : Z -> V).               (* an extend raised lmax: new scheme, coarsening values of the other areas + 1 *)
End Coupled.
Arguments CEvaluate {V}.
Arguments CRefine {V}.
Arguments CRescheme {V}.
