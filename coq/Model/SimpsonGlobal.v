(* C09 — GlobalSimpsonGrid.compute_1D_quad_weights for an ODD number of points (Grid.py, the loop after `assert len(grid_1D) >= 3`):
   the points are grouped into panel pairs (x_2k, x_2k+1, x_2k+2), each carrying the interpolatory three-point rule on ARBITRARY
   (non-uniform) spacing; an even index collects the right end of one pair and the left end of the next.  Definitions only.
   (The even-count branch hands the first four points to GlobalHighOrderGrid and is not modelled.) *)
From Coq Require Import ZArith List QArith Qcanon Bool Arith.
From SG Require Import Base.QcUtil.
Import ListNotations.
Open Scope Qc_scope.

Definition Qc3 : Qc := Q2Qc (3 # 1).
Definition Qc6 : Qc := Q2Qc (6 # 1).
(* i even, i < n-1:  x_1 = grid[i]   : (x_3 - x_1) * (2 x_1 - 3 x_2 + x_3) / (6 (x_1 - x_2)) *)
Definition simpson_wl (x1 x2 x3 : Qc) : Qc := (x3 - x1) * (Qc2 * x1 - Qc3 * x2 + x3) / (Qc6 * (x1 - x2)).
(* i odd:            x_2 = grid[i]   : (x_3 - x_1)^3 / (6 (x_3 - x_2) (x_2 - x_1)) *)
Definition simpson_wm (x1 x2 x3 : Qc) : Qc := (x3 - x1) ^ 3 / (Qc6 * (x3 - x2) * (x2 - x1)).
(* i even, i > 0:    x_3 = grid[i]   : (x_1 - x_3) * (x_1 - 3 x_2 + 2 x_3) / (6 (x_2 - x_3)) *)
Definition simpson_wr (x1 x2 x3 : Qc) : Qc := (x1 - x3) * (x1 - Qc3 * x2 + Qc2 * x3) / (Qc6 * (x2 - x3)).

(* weights of a list with an odd number of points; fuel = number of panel pairs *)
Fixpoint simpson_weights_rec (fuel : nat) (l : list Qc) : list Qc :=
  match fuel, l with
  | S f, x1 :: x2 :: ((x3 :: _) as r) =>
    match simpson_weights_rec f r with
    | w3 :: ws => simpson_wl x1 x2 x3 :: simpson_wm x1 x2 x3 :: (simpson_wr x1 x2 x3 + w3) :: ws
    | [] => []
    end
  | _, [x] => [0]
  | _, _ => []
  end.
(* None: even number of points (other code path) or fewer than 3 points *)
Definition simpson_weights (l : list Qc) : option (list Qc) :=
  if Nat.odd (length l) && (3 <=? length l)%nat then Some (simpson_weights_rec (length l) l) else None.

(* what the theorems speak about *)
Fixpoint panel_pairs_ok (l : list Qc) : Prop :=       (* consecutive points of every panel pair are distinct *)
  match l with
  | x1 :: x2 :: ((x3 :: _) as r) => x1 <> x2 /\ x2 <> x3 /\ panel_pairs_ok r
  | _ => True
  end.
Fixpoint panel_pairs_uniform (l : list Qc) : Prop :=  (* every middle point is the midpoint of its pair *)
  match l with
  | x1 :: x2 :: ((x3 :: _) as r) => x2 = (x1 + x3) * Qchalf /\ panel_pairs_uniform r
  | _ => True
  end.
(* exact integral of c0 + c1 x + c2 x^2 + c3 x^3 over [lo, hi] *)
Definition cubic_eval (c0 c1 c2 c3 x : Qc) : Qc := c0 + c1 * x + c2 * x * x + c3 * x * x * x.
Definition cubic_prim (c0 c1 c2 c3 x : Qc) : Qc :=
  c0 * x + c1 * x * x / Qc2 + c2 * x * x * x / Qc3 + c3 * x * x * x * x / (Qc2 * Qc2).
Definition cubic_int (c0 c1 c2 c3 lo hi : Qc) : Qc := cubic_prim c0 c1 c2 c3 hi - cubic_prim c0 c1 c2 c3 lo.
