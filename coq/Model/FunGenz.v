(* C12 — GenzCornerPeak of sparseSpACE/Function.py over exact rationals (the one Genz class that is a rational function):

     eval(x)            = (1 + sum_d c_d x_d) ** (-dim - 1)
     eval_vectorized(X) = (1 + np.inner(X, c)) ** (-dim - 1)                      (row-wise)
     getAnalyticSolutionIntegral(start, end)
                        = (-1)**dim / (dim! * prod c) * sum over all c in {0,1}^dim of
                              (-1)**sum(c) * (1 + sum_d (start_d if c_d == 1 else end_d) * c_d) ** -1

   Definitions only; they follow the Python loops. Division by zero (a float division by 0.0 raises / yields inf) is
   reported as IErr; the theorems assume 1 + sum c_d x_d > 0 on the box, which holds on the whole domain [0,1]^dim
   for the non-negative coefficients the function is used with. *)
From Coq Require Import ZArith List QArith Qcanon Bool Arith.
From SG Require Import Base.QcUtil Model.FunPoly.
Import ListNotations.
Open Scope Qc_scope.

(* result = 1; for d in range(self.dim): result += self.coeffs[d] * coordinates[d]      (result starts at `acc`) *)
Fixpoint cp_sum (cs x : list Qc) (acc : Qc) : ires :=
  match cs, x with
  | [], _ => IVal acc
  | c :: cs', xi :: x' => cp_sum cs' x' (acc + c * xi)
  | _ :: _, [] => IErr
  end.

Definition Qc_is0 (q : Qc) : bool := Z.eqb (Qnum (this q)) 0.

(* result ** (-self.dim - 1) *)
Definition cp_eval (cs x : list Qc) : ires :=
  match cp_sum cs x 1 with
  | IVal s => if Qc_is0 s then IErr else IVal (/ (s ^ (S (length cs))))
  | r => r
  end.

(* eval_vectorized, one row: 1 + np.inner(row, coeffs), then ** (-dim - 1) *)
Definition cp_vec_row (cs x : list Qc) : ires :=
  if Nat.eqb (length x) (length cs)
  then let s := 1 + dotQ x cs in if Qc_is0 s then IErr else IVal (/ (s ^ (S (length cs))))
  else IErr.                                              (* shapes not aligned *)

(* all 0/1 vectors of length n (np.meshgrid of [0, 1] per dimension, ravelled and zipped; the order is immaterial for the exact sum) *)
Fixpoint combos (n : nat) : list (list bool) :=
  match n with
  | O => [[]]
  | S k => flat_map (fun c => [false :: c; true :: c]) (combos k)
  end.

(* partial_result = 1; for d: partial_result += (start[d] if c[d] == 1 else end[d]) * coeffs[d] *)
Fixpoint cp_partial (cs a b : list Qc) (c : list bool) (acc : Qc) : Qc :=
  match cs, a, b, c with
  | co :: cs', ai :: a', bi :: b', ci :: c' => cp_partial cs' a' b' c' (acc + (if ci then ai else bi) * co)
  | _, _, _, _ => acc
  end.

Definition count_true (c : list bool) : nat := length (filter (fun x => x) c).
Definition minus1_pow (n : nat) : Qc := (- (1)) ^ n.

Fixpoint fact_nat (n : nat) : nat := match n with O => 1%nat | S k => (S k * fact_nat k)%nat end.

(* result += (-1) ** sum(c) * partial_result ** -1   over all combinations *)
Definition cp_combo_sum (cs a b : list Qc) (s0 : Qc) : Qc :=
  sumQ (map (fun c => minus1_pow (count_true c) * / (cp_partial cs a b c s0)) (combos (length cs))).

Definition cp_all_nonzero (cs a b : list Qc) : bool :=
  forallb (fun c => negb (Qc_is0 (cp_partial cs a b c 1))) (combos (length cs)).

Definition cp_int (cs a b : list Qc) : ires :=
  if (Nat.eqb (length a) (length cs) && Nat.eqb (length b) (length cs))%bool
  then if (Qc_is0 (prodQ cs) || negb (cp_all_nonzero cs a b))%bool then IErr
       else IVal (minus1_pow (length cs) * 1 / (qn (fact_nat (length cs)) * prodQ cs) * cp_combo_sum cs a b 1)
  else IErr.

(* ------------------------------------------------------------------ the same value as an iterated difference *)
(* St(phi, s, c::cs, a::as, b::bs) = (St(phi, s + c a, cs, as, bs) - St(phi, s + c b, cs, as, bs)) / c *)
Fixpoint stencil (phi : Qc -> Qc) (s : Qc) (cs a b : list Qc) : Qc :=
  match cs, a, b with
  | c :: cs', ai :: a', bi :: b' => (stencil phi (s + c * ai) cs' a' b' - stencil phi (s + c * bi) cs' a' b') / c
  | _, _, _ => phi s
  end.
