(* C18 — executable model of sparseSpACE/DEMachineLearning.py, class DataSet (value semantics).
   Definitions only.  A data set is the list of its (sample, label) pairs plus the scaling attributes
   (_shuffled, _scaled, _scaling_range, _scaling_factor, _original_min, _original_max).  Floats are exact rationals (Qc).
   Every operation follows the Python control flow, including the partial attribute updates that happen before an
   exception is raised; the boolean in a result pair means "the Python raises".
   Not modelled: _name/_label strings, array aliasing between derived data sets (observed by the harness instead). *)
From Coq Require Import ZArith List QArith Qcanon Qround Bool.
From SG Require Import Base.QcUtil.
Import ListNotations.
Open Scope Qc_scope.

Definition row := list Qc.
Definition sample := (row * Z)%type.
Definition dflt_sample : sample := ([], (-1)%Z).

(* _scaling_range: None | tuple of two numbers (scale_range) | tuple of two arrays (scale_factor / shift_value) *)
Inductive rng := RNone | RScalar (lo hi : Qc) | RArr (mn mx : list Qc).
(* _scaling_factor: None | float | ndarray *)
Inductive fac := FNone | FScalar (q : Qc) | FArr (l : list Qc).
(* argument of scale_factor / shift_value: float or ndarray *)
Inductive arg := AScalar (q : Qc) | AArr (l : list Qc).

Record ds := mkDS {
  rows : list sample;
  ddim : nat;          (* _dim: fixed at construction (0 for an empty set), NOT updated by remove_samples *)
  flat : bool;         (* the sample array is 1-dimensional (only possible when there are no samples): shape (0,) vs (0, d) *)
  shuffled : bool;
  scaled : bool;
  srange : rng;
  sfactor : fac;
  omin : option row;
  omax : option row }.

(* DataSet.__init__/_initialize: _dim is 0 for an empty set (whose array is reshaped to shape (0,)), else the sample length *)
Definition dim_of (r : list sample) : nat := match r with [] => O | (x, _) :: _ => length x end.
Definition flat_of (r : list sample) : bool := match r with [] => true | _ => false end.
Definition fresh (r : list sample) : ds := mkDS r (dim_of r) (flat_of r) false false RNone FNone None None.
Definition values (d : ds) : list row := map fst (rows d).
Definition is_empty (d : ds) : bool := match rows d with [] => true | _ => false end.
Definition dim (d : ds) : nat := ddim d.
(* self._data = ... with arrays that keep their number of dimensions (np.delete, fancy-index swaps) *)
Definition set_rows (d : ds) (r : list sample) : ds :=
  mkDS r (ddim d) (flat d) (shuffled d) (scaled d) (srange d) (sfactor d) (omin d) (omax d).
(* self._data = np.array(list(map(...))) / np.array([[...] for ...]): an empty result is 1-dimensional *)
Definition set_rows_rebuilt (d : ds) (r : list sample) : ds :=
  mkDS r (ddim d) (flat_of r) (shuffled d) (scaled d) (srange d) (sfactor d) (omin d) (omax d).
(* _update_internal copies _original_min/_original_max with .copy() when self is scaled: AttributeError when one of them is None
   (reachable: an overriding scale_factor/shift_value on an EMPTY scaled set stores None before it raises).
   split_pieces / split_without_labels / split_labels (on a non-empty set) raise in that state - the wire entry checks this
   precondition before it calls the total functions below; concatenate checks it itself. *)
Definition update_internal_raises (self : ds) : bool :=
  scaled self && match omin self, omax self with Some _, Some _ => false | _, _ => true end.
(* _update_internal(self, DataSet(r)) *)
Definition with_attrs (self : ds) (r : list sample) : ds :=
  mkDS r (dim_of r) (flat_of r) (shuffled self) (scaled self) (srange self) (sfactor self) (omin self) (omax self).

(* ---------------------------------------------------------------- vectors *)
Fixpoint map2 {A B C} (f : A -> B -> C) (a : list A) (b : list B) : list C :=
  match a, b with x :: a', y :: b' => f x y :: map2 f a' b' | _, _ => [] end.
Definition vmin : row -> row -> row := map2 Qc_min.
Definition vmax : row -> row -> row := map2 Qc_max.
Definition vadd : row -> row -> row := map2 Qcplus.
Definition vsub : row -> row -> row := map2 Qcminus.
Definition vmul : row -> row -> row := map2 Qcmult.
Definition vneg (r : row) : row := map Qcopp r.

Fixpoint colmin (r : row) (rs : list row) : row :=
  match rs with [] => r | r' :: rs' => vmin r (colmin r' rs') end.
Fixpoint colmax (r : row) (rs : list row) : row :=
  match rs with [] => r | r' :: rs' => vmax r (colmax r' rs') end.
(* get_min_data / np.amin(axis=0): None on an empty set *)
Definition data_min (vs : list row) : option row := match vs with [] => None | r :: rs => Some (colmin r rs) end.
Definition data_max (vs : list row) : option row := match vs with [] => None | r :: rs => Some (colmax r rs) end.

(* ---------------------------------------------------------------- sklearn MinMaxScaler *)
(* _handle_zeros_in_scale: data ranges below 10 * eps(float64) = 10 * 2^-52 are replaced by 1 *)
Definition eps10 : Qc := Q2Qc (10 # 4503599627370496).
Definition handle_zero (r : Qc) : Qc := if Qc_ltb r eps10 then 1 else r.
(* scale_ = (hi - lo) / handle_zeros(data_max - data_min);  min_ = lo - data_min * scale_ *)
Definition mm_scale (lo hi : Qc) (mn mx : row) : row := map (fun r => (hi - lo) / handle_zero r) (vsub mx mn).
Definition mm_min (lo : Qc) (mn sc : row) : row := map2 (fun m s => lo - m * s) mn sc.
(* transform: X *= scale_; X += min_ *)
Definition transform (sc mi r : row) : row := vadd (vmul r sc) mi.

Definition map_rows (f : row -> row) (l : list sample) : list sample := map (fun s => (f (fst s), snd s)) l.

(* ---------------------------------------------------------------- scaling factor bookkeeping *)
Definition fac_of_arg (a : arg) : fac := match a with AScalar q => FScalar q | AArr l => FArr l end.
(* self._scaling_factor *= a *)
Definition fac_mul (f : fac) (a : arg) : fac :=
  match f, a with
  | FNone, _ => FNone
  | FScalar q, AScalar x => FScalar (q * x)
  | FScalar q, AArr l => FArr (map (fun x => q * x) l)
  | FArr l, AScalar x => FArr (map (fun y => y * x) l)
  | FArr l, AArr l' => FArr (vmul l l')
  end.
(* broadcast of a float / ndarray argument against samples of dimension n *)
Definition expand (n : nat) (a : arg) : row := match a with AScalar q => repeat q n | AArr l => l end.
Definition arg_fits (n : nat) (a : arg) : bool := match a with AScalar _ => true | AArr l => Nat.eqb (length l) n end.

Definition result := (ds * bool)%type.   (* (state afterwards, raised?) *)

(* ---------------------------------------------------------------- scale_range *)
Definition scale_range (lo hi : Qc) (ov : bool) (d : ds) : result :=
  if negb (Qc_ltb lo hi) then (d, true)            (* MinMaxScaler.fit: feature_range[0] >= feature_range[1] *)
  else match data_min (values d), data_max (values d) with
  | Some mn, Some mx =>
    let sc := mm_scale lo hi mn mx in
    let mi := mm_min lo mn sc in
    let rows' := map_rows (transform sc mi) (rows d) in
    if negb (scaled d) || ov
    then (mkDS rows' (ddim d) (flat d) (shuffled d) true (RScalar lo hi) (FArr sc) (Some mn) (Some mx), false)
    else (mkDS rows' (ddim d) (flat d) (shuffled d) (scaled d) (RScalar lo hi) (fac_mul (sfactor d) (AArr sc)) (omin d) (omax d), false)
  | _, _ => (d, true)                              (* fit on an empty (1-D) array raises *)
  end.

(* ---------------------------------------------------------------- scale_factor / shift_value *)
Definition range_of (r : list sample) : rng :=
  match data_min (map fst r), data_max (map fst r) with Some mn, Some mx => RArr mn mx | _, _ => RNone end.

Definition scale_factor (a : arg) (ov : bool) (d : ds) : result :=
  if negb (scaled d) || ov then
    let d1 := mkDS (rows d) (ddim d) (flat d) (shuffled d) (scaled d) (srange d) (sfactor d) (data_min (values d)) (data_max (values d)) in
    if is_empty d then (set_rows_rebuilt d1 [], true)   (* data rebuilt as a 1-D empty array, then np.amin of it raises *)
    else if negb (arg_fits (dim d) a) then (d1, true)   (* broadcasting error in x * scaling_factor *)
    else
      let rows' := map_rows (fun r => vmul r (expand (dim d) a)) (rows d) in
      (mkDS rows' (ddim d) (flat d) (shuffled d) true (range_of rows') (fac_of_arg a) (omin d1) (omax d1), false)
  else
    if negb (arg_fits (dim d) a) then (d, true)         (* explicit ValueError *)
    else if is_empty d then (set_rows_rebuilt d [], true)
    else
      let rows' := map_rows (fun r => vmul r (expand (dim d) a)) (rows d) in
      (mkDS rows' (ddim d) (flat d) (shuffled d) (scaled d) (range_of rows') (fac_mul (sfactor d) a) (omin d) (omax d), false).

Definition shift_value (a : arg) (ov : bool) (d : ds) : result :=
  if negb (scaled d) || ov then
    let d1 := mkDS (rows d) (ddim d) (flat d) (shuffled d) (scaled d) (srange d) (sfactor d) (data_min (values d)) (data_max (values d)) in
    if is_empty d then (set_rows_rebuilt d1 [], true)
    else if negb (arg_fits (dim d) a) then (d1, true)
    else
      let rows' := map_rows (fun r => vadd r (expand (dim d) a)) (rows d) in
      (mkDS rows' (ddim d) (flat d) (shuffled d) true (range_of rows') (FScalar 1) (omin d1) (omax d1), false)
  else
    if negb (arg_fits (dim d) a) then (d, true)
    else if is_empty d then (set_rows_rebuilt d [], true)
    else
      let rows' := map_rows (fun r => vadd r (expand (dim d) a)) (rows d) in
      (mkDS rows' (ddim d) (flat d) (shuffled d) (scaled d) (range_of rows') (sfactor d) (omin d) (omax d), false).

(* ---------------------------------------------------------------- revert_scaling *)
Definition fac_has_zero (f : fac) : bool :=
  match f with FNone => false | FScalar q => Qc_eqb q 0 | FArr l => existsb (fun q => Qc_eqb q 0) l end.
(* 1.0 / self._scaling_factor *)
Definition fac_inv (f : fac) : arg :=
  match f with FNone => AScalar 0 | FScalar q => AScalar (/ q) | FArr l => AArr (map Qcinv l) end.
Definition clear_scaling (d : ds) : ds := mkDS (rows d) (ddim d) (flat d) (shuffled d) false RNone FNone None None.

Definition revert_scaling (d : ds) : result :=
  match sfactor d with
  | FNone => (d, true)                                  (* 1.0 / None: TypeError *)
  | f =>
    if fac_has_zero f then (d, true)                    (* division by zero (excluded from the generated inputs) *)
    else
      let '(d1, e1) := scale_factor (fac_inv f) false d in
      if e1 then (d1, true)
      else match data_min (values d1), omin d1 with
      | Some mn, Some om =>
        let '(d2, e2) := shift_value (AArr (vneg (vsub mn om))) false d1 in
        if e2 then (d2, true) else (clear_scaling d2, false)
      | _, _ => (d1, true)
      end
  end.

(* ---------------------------------------------------------------- sample-moving operations *)
Fixpoint memn (x : nat) (l : list nat) : bool :=
  match l with [] => false | y :: r => Nat.eqb x y || memn x r end.

(* shuffle: the permutation is read off the implementation; new position k holds old sample perm[k] *)
Definition is_perm (perm : list nat) (n : nat) : bool :=
  Nat.eqb (length perm) n && forallb (fun i => memn i perm) (seq 0 n).
Definition shuffle_with (perm : list nat) (d : ds) : result :=
  if is_perm perm (length (rows d))
  then (let r := map (fun i => nth i (rows d) dflt_sample) perm in
        mkDS r (ddim d) (flat_of r) true (scaled d) (srange d) (sfactor d) (omin d) (omax d), false)
  else (d, true).

(* move_boundaries_to_front *)
Fixpoint upd {A} (i : nat) (v : A) (l : list A) : list A :=
  match l, i with
  | [], _ => []
  | _ :: t, O => v :: t
  | h :: t, S i' => h :: upd i' v t
  end.
(* A[[i, x]] = A[[x, i]] *)
Definition swap {A} (dflt : A) (i x : nat) (l : list A) : list A :=
  upd i (nth x l dflt) (upd x (nth i l dflt) l).
Fixpoint swap_loop {A} (dflt : A) (i : nat) (idx : list nat) (l : list A) : list A :=
  match idx with [] => l | x :: r => swap_loop dflt (S i) r (swap dflt i x l) end.

Definition on_boundary (mn mx r : row) : bool :=
  existsb (fun b => b) (map2 Qc_eqb r mn) || existsb (fun b => b) (map2 Qc_eqb r mx).
(* rows holding a per-dimension minimum or maximum, ascending *)
Definition boundary_idx (d : ds) : list nat :=
  match data_min (values d), data_max (values d) with
  | Some mn, Some mx =>
    map fst (filter (fun ir => on_boundary mn mx (snd ir)) (combine (seq 0 (length (rows d))) (values d)))
  | _, _ => []
  end.
(* idx = list(set(...) | set(...)): the iteration order of the Python set is an input *)
(* every index addresses a sample and (the indices come from a set) there are at most n of them; otherwise the fancy-index swap raises *)
Definition idx_valid (idx : list nat) (n : nat) : bool := forallb (fun x => Nat.ltb x n) idx && Nat.leb (length idx) n.
Definition same_index_set (a b : list nat) : bool :=
  forallb (fun x => memn x b) a && forallb (fun x => memn x a) b && Nat.eqb (length a) (length b).
Definition move_boundaries_to_front (idx : list nat) (d : ds) : result :=
  if idx_valid idx (length (rows d)) then (set_rows d (swap_loop dflt_sample 0 idx (rows d)), false) else (d, true).

(* split_labels: one data set per distinct label (ascending here; Python: set order), labels rewritten to [j]*len *)
Fixpoint insert_label (x : Z) (l : list Z) : list Z :=
  match l with
  | [] => [x]
  | y :: r => if Z.ltb x y then x :: l else if Z.eqb x y then l else y :: insert_label x r
  end.
Definition distinct_labels (r : list sample) : list Z := fold_right insert_label [] (map snd r).
Definition with_label (j : Z) (r : list sample) : list sample := filter (fun s => Z.eqb (snd s) j) r.
Definition split_labels (d : ds) : list ds :=
  map (fun j => with_attrs d (map (fun s => (fst s, j)) (with_label j (rows d)))) (distinct_labels (rows d)).

(* split_without_labels: (label == -1, label >= 0) *)
Definition split_without_labels (d : ds) : ds * ds :=
  (with_attrs d (map (fun s => (fst s, (-1)%Z)) (with_label (-1)%Z (rows d))),
   with_attrs d (filter (fun s => Z.leb 0 (snd s)) (rows d))).

(* Python round() on a non-negative exact product: round half to even *)
Definition round_half_even (q : Qc) : Z :=
  let fl := Qfloor (this q) in
  let fr := q - Q2Qc (inject_Z fl) in
  if Qc_ltb fr Qchalf then fl
  else if Qc_ltb Qchalf fr then (fl + 1)%Z
  else if Z.even fl then fl else (fl + 1)%Z.
Definition split_index (p : Qc) (n : nat) : nat :=
  let p' := if Qc_leb 0 p && Qc_ltb p 1 then p else 1 in
  Z.to_nat (round_half_even (Q2Qc (inject_Z (Z.of_nat n)) * p')).
Definition split_pieces (p : Qc) (d : ds) : ds * ds :=
  let k := split_index p (length (rows d)) in
  (with_attrs d (firstn k (rows d)), with_attrs d (skipn k (rows d))).

(* ---------------------------------------------------------------- code variants
   Two small repairs are proposed for defects this model reproduces (fixes/C18-*.patch).  So that the check follows the
   implementation before AND after they are applied, the affected functions take a variant record; the harness selects the
   variant by probing the implementation once per run.  `as_found` is the code as it is in the repository today. *)
Record variant := mkVariant {
  v_dedup : bool;      (* remove_samples drops repeated indices (dict.fromkeys) *)
  v_fullcmp : bool }.  (* same_scaling compares the per-dimension arrays completely (np.array_equal) *)
Definition as_found : variant := mkVariant false false.
Definition repaired : variant := mkVariant true true.

(* same_scaling: Some b | None = the Python raises (IndexError on 1-element arrays) *)
Definition pair_cmp (x y : list Qc) : option bool :=     (* (x[0] == y[0]) and (x[1] == y[1]) *)
  match x, y with
  | x0 :: xs, y0 :: ys =>
    if negb (Qc_eqb x0 y0) then Some false
    else match xs, ys with x1 :: _, y1 :: _ => Some (Qc_eqb x1 y1) | _, _ => None end
  | _, _ => None
  end.
Fixpoint row_eqb (x y : list Qc) : bool :=                (* np.array_equal on 1-D arrays *)
  match x, y with
  | [], [] => true
  | a :: x', b :: y' => Qc_eqb a b && row_eqb x' y'
  | _, _ => false
  end.
Definition range_cmp (v : variant) (r r' : rng) : option (option bool) :=     (* None: raises; Some None: "return False" (type mismatch) *)
  match r, r' with
  | RScalar l h, RScalar l' h' => Some (Some (Qc_eqb l l' && Qc_eqb h h'))
  | RArr mn mx, RArr mn' mx' =>
    if v_fullcmp v then Some (Some (row_eqb mn mn' && row_eqb mx mx'))
    else match pair_cmp mn mn', pair_cmp mx mx' with
    | Some b1, Some b2 => Some (Some (b1 && b2))
    | _, _ => None
    end
  | RNone, _ | _, RNone => None
  | _, _ => Some None
  end.
Definition fac_cmp (v : variant) (f f' : fac) : option bool :=                  (* None: "return False" (type mismatch) *)
  match f, f' with
  | FArr l, FArr l' => Some (if v_fullcmp v then row_eqb l l' else forallb (fun b => b) (map2 Qc_eqb l l'))
  | FArr _, _ | _, FArr _ => None
  | FScalar q, FScalar q' => Some (Qc_eqb q q')
  | FNone, FNone => Some true
  | _, _ => Some false
  end.
Definition same_scaling (v : variant) (a b : ds) : option bool :=
  if negb (Bool.eqb (scaled a) (scaled b)) then Some false
  else if negb (scaled a) then Some true
  else match range_cmp v (srange a) (srange b) with
  | None => None
  | Some None => Some false
  | Some (Some br) =>
    match fac_cmp v (sfactor a) (sfactor b) with
    | None => Some false
    | Some bf => Some (br && bf)
    end
  end.

(* remove_samples: (self afterwards, removed set or None when the call raises).
   Python order: index check (ValueError) -> build the single-sample sets (IndexError for i == length) -> self._data = np.delete(...)
   -> list_concatenate(removed) which, for two or more indices, calls concatenate and with it same_scaling on the attributes of self:
   when that raises, self HAS ALREADY been modified. *)
Definition idx_rejected (idx : list Z) (n : nat) : bool :=
  existsb (fun i => Z.ltb i 0 || Z.ltb (Z.of_nat n) i) idx      (* explicit ValueError: i < 0 or i > length *)
  || existsb (fun i => Z.eqb i (Z.of_nat n)) idx.                (* i == length: IndexError when the sample is read (ValueError once repaired) *)
Fixpoint dedup (l : list nat) : list nat :=                      (* list(dict.fromkeys(l)) *)
  match l with [] => [] | x :: r => x :: filter (fun y => negb (Nat.eqb y x)) (dedup r) end.
Definition self_scaling_ok (v : variant) (d : ds) : bool := match same_scaling v d d with Some true => true | _ => false end.
Definition remove_samples (v : variant) (idx : list Z) (d : ds) : ds * option ds :=
  let n := length (rows d) in
  if idx_rejected idx n then (d, None)
  else
    let ni := if v_dedup v then dedup (map Z.to_nat idx) else map Z.to_nat idx in
    let removed := map (fun i => nth i (rows d) dflt_sample) ni in
    let keep := filter (fun i => negb (memn i ni)) (seq 0 n) in
    let remaining := map (fun i => nth i (rows d) dflt_sample) keep in
    (set_rows d remaining,
     match ni with
     | [] => Some (fresh [])                                     (* list_concatenate([]) is a plain empty set *)
     | [_] => Some (with_attrs d removed)
     | _ => if self_scaling_ok v d then Some (with_attrs d removed) else None
     end).

(* concatenate *)
Inductive concat_result := CNew (d : ds) | CSelf | COther | CRaise.
Definition flat1 (d : ds) : bool := is_empty d && flat d.
Definition concatenate (v : variant) (a b : ds) : concat_result :=
  if Nat.eqb (dim a) (dim b) then
    if xorb (flat1 a) (flat1 b) then CRaise      (* np.concatenate of a 1-D empty array with a 2-D array *)
    else if update_internal_raises a then CRaise (* _update_internal: None.copy() *)
    else if self_scaling_ok v a                  (* same_scaling(self, concatenated_set): self against a copy of its own attributes; *)
    then CNew (with_attrs a (rows a ++ rows b))  (*   it never refuses, but it can raise (IndexError) for 1-element range arrays      *)
    else CRaise
  else if is_empty b then CSelf
  else if is_empty a then COther
  else CRaise.
