(* C08 (phase 3) — exact arithmetic with the ALGEBRAIC nodes of the Clenshaw-Curtis rules: definitions only.
   cos(pi/N), N = 2^l, lives in the tower of quadratic extensions
       F_1 = Q,  F_{l+1} = F_l(t) with t^2 = (1 + r_l)/2,  r_{l+1} = t      (half-angle formula, r_l = cos(pi/2^l)),
   an element u + v t of F_{l+1} is the pair (u, v) of elements of F_l.  The Clenshaw-Curtis rule of the code
   (ClenshawCurtisGrid1D.get_1D_level_points / get_1d_weight, Grid.py) is written ONCE over an arbitrary record of ring
   operations: cos(pi j/N) = T_j(r), cos(2 pi m/N) = T_{2m}(r) (Chebyshev polynomials by their recurrence); instantiated
   with Qc it is Model/LocalRules.cc_factor, instantiated with the tower it computes with the exact irrational nodes. *)
From Coq Require Import ZArith List QArith Qcanon Bool Arith.
From SG Require Import Base.QcUtil Model.Tensor Model.LocalGrids Model.LocalRules.
Import ListNotations.
Open Scope Qc_scope.

Record ops (A : Type) : Type := mk_ops {
  o0 : A; o1 : A; oadd : A -> A -> A; omul : A -> A -> A; oopp : A -> A; oQ : Qc -> A; oeqb : A -> A -> bool }.
Arguments o0 {A}. Arguments o1 {A}. Arguments oadd {A}. Arguments omul {A}. Arguments oopp {A}. Arguments oQ {A}. Arguments oeqb {A}.

Definition qc_ops : ops Qc := mk_ops Qc 0 1 Qcplus Qcmult Qcopp (fun c => c) Qc_eqb.

(* A[t]/(t^2 - d) *)
Definition ext_ops {A} (O : ops A) (d : A) : ops (A * A) :=
  mk_ops (A * A) (o0 O, o0 O) (o1 O, o0 O)
    (fun x y => (oadd O (fst x) (fst y), oadd O (snd x) (snd y)))
    (fun x y => (oadd O (omul O (fst x) (fst y)) (omul O d (omul O (snd x) (snd y))),
                 oadd O (omul O (fst x) (snd y)) (omul O (snd x) (fst y))))
    (fun x => (oopp O (fst x), oopp O (snd x)))
    (fun c => (oQ O c, o0 O))
    (fun x y => oeqb O (fst x) (fst y) && oeqb O (snd x) (snd y)).

(* t^2 for the next extension: (1 + r)/2 *)
Definition half_angle {A} (O : ops A) (r : A) : A := omul O (oQ O Qchalf) (oadd O (o1 O) r).

(* the fields of levels 1..4 with r_l = cos(pi / 2^l) *)
Definition F1 := qc_ops.                      Definition r1 : Qc := 0.
Definition F2 := ext_ops F1 (half_angle F1 r1).   Definition r2 : Qc * Qc := (0, 1).
Definition F3 := ext_ops F2 (half_angle F2 r2).   Definition r3 : (Qc * Qc) * (Qc * Qc) := ((0, 0), (1, 0)).
Definition F4 := ext_ops F3 (half_angle F3 r3).
Definition r4 : ((Qc * Qc) * (Qc * Qc)) * ((Qc * Qc) * (Qc * Qc)) := (((0, 0), (0, 0)), ((1, 0), (0, 0))).

Section Generic.
Context {A : Type} (R : ops A).

Fixpoint opow (x : A) (k : nat) : A := match k with 0%nat => o1 R | S k' => omul R x (opow x k') end.
Fixpoint osum (l : list A) : A := match l with [] => o0 R | x :: t => oadd R x (osum t) end.

(* T_0(r) .. T_n(r): T_{k+1} = 2 r T_k - T_{k-1} *)
Fixpoint cheb_from (r tk tk1 : A) (n : nat) : list A :=
  match n with
  | 0%nat => []
  | S n' => tk :: cheb_from r tk1 (oadd R (omul R (oQ R Qc2) (omul R r tk1)) (oopp R tk)) n'
  end.
Definition cheb_list (r : A) (n : nat) : list A := cheb_from r (o1 R) r (S n).
Definition cheb_at (tab : list A) (k : nat) : A := nth k tab (o0 R).

(* ClenshawCurtisGrid1D.get_1d_weight, weight_factor, with cos(2 pi m/(npwb-1)) = T_{2m}(r) read off the table *)
Definition occ_term (npwb : nat) (tab : list A) (index j : nat) : A :=
  let t := omul R (oQ R (1 / (1 - qn 4 * qn j * qn j))) (cheb_at tab (2 * (index * j))) in
  if (j =? (npwb - 1) / 2)%nat then omul R t (oQ R Qchalf) else t.
Definition occ_factor (npwb : nat) (tab : list A) (index : nat) : A :=
  if (2 <? npwb)%nat then
    if ((index =? 0) || (index =? npwb - 1))%nat then oQ R (1 / (qn (npwb - 2) * qn npwb))
    else omul R (oQ R (Qc2 / qn (npwb - 1)))
           (oadd R (o1 R) (omul R (oQ R Qc2) (osum (map (occ_term npwb tab index) (seq 1 ((npwb - 1) / 2))))))
  else o1 R.

(* reference rule on [-1, 1]: node -cos(pi j/(npwb-1)) = -T_j(r), weight = factor (length/2 = 1); its k-th moment *)
Definition occ_moment (npwb : nat) (tab : list A) (k : nat) : A :=
  osum (map (fun j => omul R (occ_factor npwb tab j) (opow (oopp R (cheb_at tab j)) k)) (seq 0 npwb)).

(* all moments up to degree kmax equal the (rational) integrals of the monomials over [-1, 1] *)
Definition occ_exact_upto (npwb : nat) (r : A) (kmax : nat) : bool :=
  let tab := cheb_list r (2 * ((npwb - 1) * ((npwb - 1) / 2)) + npwb) in
  forallb (fun k => oeqb R (occ_moment npwb tab k) (oQ R (mint k (-(1)) 1))) (seq 0 (S kmax)).

(* the node equation: r is a root of T_{N/2} (cos(pi/2) = 0), N = npwb - 1 >= 2 *)
Definition node_equation (npwb : nat) (r : A) : bool :=
  oeqb R (cheb_at (cheb_list r npwb) ((npwb - 1) / 2)) (o0 R).
End Generic.

(* levels 5 and 6 (33 and 65 points) *)
Definition F5 := ext_ops F4 (half_angle F4 r4).
Definition r5 := (o0 F4, o1 F4).
Definition F6 := ext_ops F5 (half_angle F5 r5).
Definition r6 := (o0 F5, o1 F5).

(* ---- the maps of the code to a sub-box [s, e], over ring operations (s, e rational) ---- *)
Section Maps.
Context {A : Type} (R : ops A).
(* GaussLegendreGrid1D.get_1d_points_and_weights: coords = (x + 1) * (length/2) + start,  weights = w * length / 2 *)
Definition ogl_node (s e : Qc) (x : A) : A := oadd R (omul R (oadd R x (o1 R)) (oQ R ((e - s) / Qc2))) (oQ R s).
Definition ogl_moment (s e : Qc) (rule : list (A * Qc)) (k : nat) : A :=
  osum R (map (fun xw => omul R (oQ R (snd xw * (e - s) / Qc2)) (opow R (ogl_node s e (fst xw)) k)) rule).
(* ClenshawCurtisGrid1D: coords = start + (1 - cos_j) * length / 2,  weight = length/2 * factor_j *)
Definition occ_node (s e : Qc) (c : A) : A := oadd R (oQ R s) (omul R (oadd R (o1 R) (oopp R c)) (oQ R ((e - s) / Qc2))).
Definition occ_moment_box (npwb : nat) (tab : list A) (s e : Qc) (k : nat) : A :=
  osum R (map (fun j => omul R (omul R (oQ R ((e - s) / Qc2)) (occ_factor R npwb tab j)) (opow R (occ_node s e (cheb_at R tab j)) k))
              (seq 0 npwb)).
End Maps.

(* numpy.polynomial.legendre.leggauss(2), leggauss(3) with their exact nodes: -+ sqrt(1/3) in Q(sqrt(1/3)); 0, -+ sqrt(3/5) in
   Q(sqrt(3/5)); a node u + v t is the pair (u, v) *)
Definition G2 := ext_ops qc_ops (/ qn 3).
Definition G3 := ext_ops qc_ops (qn 3 * / qn 5).
Definition gl2_rule : list ((Qc * Qc) * Qc) := [((0, -(1)), 1); ((0, 1), 1)].
Definition gl3_rule : list ((Qc * Qc) * Qc) := [((0, -(1)), qn 5 * / qn 9); ((0, 0), qn 8 * / qn 9); ((0, 1), qn 5 * / qn 9)].
