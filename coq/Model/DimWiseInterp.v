(* Component interpolant of the dimension-wise strategy (GlobalTrapezoidalGrid): interpolate_points ->
   operation.interpolate_points_component_grid(component_grid, stripes, points) -> scipy interpn(method='linear') on the
   stripes (which include the end points) of the values of get_component_grid_values (zero on the domain boundary when
   boundary=False). Definitions only; the multilinear interpolation and the mask are those of Model/StdCombi.v (C02). *)
From Coq Require Import ZArith List Bool QArith Qcanon.
From SG Require Import Base.QcUtil Model.CombiScheme Model.RefTree.
From SG Require Model.StdCombi.
From SG Require Import Model.DimWise.
Import ListNotations.
Open Scope Z_scope.

Definition dw_stripe_coords (o : dw_opts) (st : dw_state) (d : nat) (l : Z) : list Qc :=
  match stripe_dim o st d l with Some s => map fst s | None => [] end.

(* the 1D meshes of component lv (for d in range(dim): stripe of (d, lv[d])) *)
Definition dw_grids (o : dw_opts) (st : dw_state) (lv : lv) : list (list Qc) :=
  map (fun dl => dw_stripe_coords o st (fst dl) (snd dl)) (combine (seq 0 (length lv)) lv).

Definition dw_comp_interp (o : dw_opts) (st : dw_state) (a b : list Qc) (lv : lv) (f : list Qc -> Qc) (x : list Qc) : Qc :=
  StdCombi.interpN (dw_grids o st lv) (StdCombi.masked (o_boundary o) a b f) x.

(* StandardCombi.__call__: sum of coefficient * component interpolant *)
Definition dw_combi_interp (o : dw_opts) (st : dw_state) (a b : list Qc) (f : list Qc -> Qc) (x : list Qc) : Qc :=
  sumQ (map (fun kv => (qc_of_Z (snd kv) * dw_comp_interp o st a b (fst kv) f x)%Qc) (combi_scheme_adaptive (st_scheme st))).
