(* C02: the boundary test of Grid.points_not_zero AS THE CODE DOES IT - with a tolerance.
   Model/StdCombi.v (masked / on_boundary) decides "mesh node lies on the boundary" by exact equality. The code used
       np.isclose(points, a), np.isclose(points, b)       |p_d - bound_d| <= atol + rtol * |bound_d|   (numpy: 1e-8, 1e-5)
   per dimension up to /repo 5e45293 (cl_numpy; finding C02-isclose-far-box, fixed) and uses since then (repair
   fixes/C02-points-not-zero-domain-relative-tolerance.patch, applied as 5e45293)
       |p_d - bound_d| <= 1e-8 * |b_d - a_d|              (cl_domain; the same policy as the 1D tests touches_lower_boundary /
                                                           touches_upper_boundary of fixes/C08-boundary-tests-domain-relative.patch).
   Both are instances of a per-dimension closeness test  cl lo hi p bound.  Definitions only; Proofs/StdTol.v shows when the
   tolerant mask equals the exact one on every mesh node (then every C02 theorem transfers) and refutes nodal exactness of the
   numpy variant on a box far from the origin. *)
From Coq Require Import ZArith List Bool QArith Qcanon.
From SG Require Import Base.QcUtil Model.CombiScheme Model.StdCombi.
Import ListNotations.
Local Open Scope Qc_scope.

Definition closeness : Type := Qc -> Qc -> Qc -> Qc -> bool.        (* lower bound, upper bound, coordinate, bound tested *)

(* np.isclose(p, bound) with the numpy defaults *)
Definition np_atol : Qc := Q2Qc (1 # 100000000).
Definition np_rtol : Qc := Q2Qc (1 # 100000).
Definition cl_numpy : closeness := fun _ _ p bound => Qc_leb (Qc_abs (p - bound)) (np_atol + np_rtol * Qc_abs bound).
(* the repaired test: tolerance relative to the extent of the domain in that dimension *)
Definition cl_domain : closeness := fun lo hi p bound => Qc_leb (Qc_abs (p - bound)) (np_atol * Qc_abs (hi - lo)).
(* exact equality (what Model/StdCombi.v uses) *)
Definition cl_exact : closeness := fun _ _ p bound => Qc_eqb p bound.

Fixpoint on_boundary_tol (cl : closeness) (a b p : list Qc) : bool :=
  match a, b, p with
  | x :: a', y :: b', z :: p' => cl x y z x || cl x y z y || on_boundary_tol cl a' b' p'
  | _, _, _ => false
  end.

Definition masked_tol (cl : closeness) (boundary : bool) (a b : list Qc) (f : list Qc -> Qc) (p : list Qc) : Qc :=
  if boundary then f p else if on_boundary_tol cl a b p then 0 else f p.

Definition comp_interp_tol (cl : closeness) (boundary : bool) (a b : list Qc) (l : lv) (f : list Qc -> Qc) (x : list Qc) : Qc :=
  interpN (map (fun t => let '(x0, y0, z) := t in grid1_full x0 y0 z) (zip3 a b l)) (masked_tol cl boundary a b f) x.

Definition combi_interp_tol (cl : closeness) (boundary : bool) (a b : list Qc) (cs : list (lv * Z)) (f : list Qc -> Qc)
  (x : list Qc) : Qc :=
  sumQ (map (fun kv => qc_of_Z (snd kv) * comp_interp_tol cl boundary a b (fst kv) f x) cs).
