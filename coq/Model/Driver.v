(* C13 / C14 — the adaptive driver of sparseSpACE/spatiallyAdaptiveBase.py as a state machine.

   Python (continue_adaptive_refinement, lines 255-336), per loop iteration:
       error, surplus_error = evaluate_operation()
       error_array.append(error); surplus_error_array.append(surplus_error)
       num_point_array.append(get_total_num_points(distinct_function_evals=True))
       num_evaluations = get_total_num_points()
       if error <= tol and num_evaluations >= min_evaluations: break
       if max_evaluations is not None and num_evaluations > max_evaluations: break
       (max_time: wall clock, not modelled)
       refine()
   performSpatiallyAdaptiv = empty history arrays, then the same loop.

   The model consumes the OBSERVATION STREAM (error_k, surplus_k, points_k) of the successive evaluations and
   produces the history arrays, the event trace (which evaluations / refinements the driver performs) and the stop flag.
   Definitions only; proofs are in Proofs/DriverProofs.v. *)
From Coq Require Import ZArith List Bool QArith Qcanon.
From SG Require Import Base.QcUtil.
Import ListNotations.
Open Scope Z_scope.

(* ------------------------------------------------------------------ limits and the three-way stopping rule *)
Record limits := mkLimits { l_tol : Qc; l_min : Z; l_max : option Z }.

Record obs := mkObs { o_err : Qc; o_sur : Qc; o_pts : Z }.

(* `error <= tol and num_evaluations >= min_evaluations` *)
Definition stop_tol (lim : limits) (o : obs) : bool :=
  Qc_leb (o_err o) (l_tol lim) && (l_min lim <=? o_pts o).
(* `max_evaluations is not None and num_evaluations > max_evaluations` *)
Definition stop_max (lim : limits) (o : obs) : bool :=
  match l_max lim with Some m => m <? o_pts o | None => false end.
Definition stop_now (lim : limits) (o : obs) : bool := stop_tol lim o || stop_max lim o.

Inductive event := EvEval | EvRefine.

Definition event_eqb (a b : event) : bool :=
  match a, b with EvEval, EvEval => true | EvRefine, EvRefine => true | _, _ => false end.

(* driver state: the three history arrays (Python append order), the event trace, the refinement counter *)
Record dstate := mkD {
  d_errs : list Qc;      (* error_array *)
  d_surs : list Qc;      (* surplus_error_array *)
  d_pts : list Z;        (* num_point_array *)
  d_trace : list event;
  d_refines : Z }.

Definition d_init : dstate := mkD [] [] [] [] 0.

Definition record_obs (s : dstate) (o : obs) : dstate :=
  mkD (d_errs s ++ [o_err o]) (d_surs s ++ [o_sur o]) (d_pts s ++ [o_pts o]) (d_trace s ++ [EvEval]) (d_refines s).

Definition do_refine (s : dstate) : dstate :=
  mkD (d_errs s) (d_surs s) (d_pts s) (d_trace s ++ [EvRefine]) (d_refines s + 1).

(* One call of continue_adaptive_refinement on the stream `os` of the evaluations it is going to see.
   Result flag: true = the loop broke (stopped); false = the stream ended while the driver still wanted to go on. *)
Fixpoint drive (lim : limits) (os : list obs) (s : dstate) : dstate * bool :=
  match os with
  | [] => (s, false)
  | o :: r =>
      let s1 := record_obs s o in
      if stop_now lim o then (s1, true) else drive lim r (do_refine s1)
  end.

(* performSpatiallyAdaptiv *)
Definition perform (lim : limits) (os : list obs) : dstate * bool := drive lim os d_init.

(* index of the first observation at which the stopping rule fires *)
Fixpoint first_stop (lim : limits) (os : list obs) : option nat :=
  match os with
  | [] => None
  | o :: r => if stop_now lim o then Some O else option_map S (first_stop lim r)
  end.

Fixpoint count_ev (e : event) (t : list event) : nat :=
  match t with [] => O | x :: r => (if event_eqb e x then 1 else 0) + count_ev e r end.

(* (EvEval; EvRefine)^k *)
Fixpoint eval_refine_rounds (k : nat) : list event :=
  match k with O => [] | S k' => EvEval :: EvRefine :: eval_refine_rounds k' end.

(* ------------------------------------------------------------------ DimAdaptiveCombi.perform_combi (lines 40-85)
       max_points_reached = False if max is None else get_total_num_points() > max
       if max(abs(combi - real)/abs(real)) < tolerance or max_points_reached: break
       errors.append(...); num_points.append(...)          <- AFTER the break test
       refine                                                                                   *)
Definition dim_stop_now (lim : limits) (o : obs) : bool :=
  Qc_ltb (o_err o) (l_tol lim) || stop_max lim o.

Fixpoint dim_drive (lim : limits) (os : list obs) (s : dstate) : dstate * bool :=
  match os with
  | [] => (s, false)
  | o :: r =>
      let s0 := mkD (d_errs s) (d_surs s) (d_pts s) (d_trace s ++ [EvEval]) (d_refines s) in
      if dim_stop_now lim o then (s0, true)
      else dim_drive lim r (do_refine (mkD (d_errs s0 ++ [o_err o]) (d_surs s0) (d_pts s0 ++ [o_pts o]) (d_trace s0) (d_refines s0)))
  end.

(* ------------------------------------------------------------------ get_global_error_estimate (GridOperation.py:3213-3220)
       if reference_solution is None: return None                        (driver then uses the total surplus error)
       elif LA.norm(reference_solution) == 0.0: LA.norm(abs(integral), norm) / len(integral) ** (1/norm)
       else: LA.norm(abs((reference - integral) / reference), norm) / len(integral) ** (1/norm)
   Norms: 0 = inf (max, len**0 = 1), 1 (sum / len), 2 (sqrt(sum of squares / len); the model returns the SQUARE). *)
Inductive normkind := NormInf | Norm1 | Norm2sq.

Fixpoint maxQ (l : list Qc) : Qc := match l with [] => 0%Qc | x :: r => Qc_max x (maxQ r) end.

Definition vec_norm (nm : normkind) (v : list Qc) : Qc :=
  let n := qc_of_Z (Z.of_nat (length v)) in
  match nm with
  | NormInf => maxQ (map Qc_abs v)
  | Norm1 => (sumQ (map Qc_abs v) / n)%Qc
  | Norm2sq => (sumQ (map (fun x => x * x)%Qc v) / n)%Qc
  end.

Definition all_zero (v : list Qc) : bool := forallb (fun x => Qc_eqb x 0%Qc) v.
Definition some_zero (v : list Qc) : bool := existsb (fun x => Qc_eqb x 0%Qc) v.

Fixpoint rel_dev (ref integral : list Qc) : list Qc :=
  match ref, integral with
  | r :: ref', i :: int' => ((r - i) / r)%Qc :: rel_dev ref' int'
  | _, _ => []
  end.

Inductive gerr := GNone            (* no reference solution *)
                | GUndefined       (* a zero component in a non-zero reference: Python divides by zero (inf/nan) *)
                | GVal (e : Qc).

Definition global_error (nm : normkind) (ref : option (list Qc)) (integral : list Qc) : gerr :=
  match ref with
  | None => GNone
  | Some r =>
      if negb (Nat.eqb (length r) (length integral)) then GUndefined
      else if all_zero r then GVal (vec_norm nm integral)
      else if some_zero r then GUndefined
      else GVal (vec_norm nm (rel_dev r integral))
  end.

(* StandardCombi.perform_operation reports compute_difference = LA.norm(abs(result - reference), norm): absolute, no 1/len *)
Fixpoint abs_dev (ref integral : list Qc) : list Qc :=
  match ref, integral with
  | r :: ref', i :: int' => (i - r)%Qc :: abs_dev ref' int'
  | _, _ => []
  end.
Definition std_difference (nm : normkind) (ref integral : list Qc) : Qc :=
  match nm with
  | NormInf => maxQ (map Qc_abs (abs_dev ref integral))
  | Norm1 => sumQ (map Qc_abs (abs_dev ref integral))
  | Norm2sq => sumQ (map (fun x => x * x)%Qc (abs_dev ref integral))
  end.

(* RefinementContainer.set_benefit: benefit = error / evaluations if evaluations != 0 else error *)
Definition benefit (err : Qc) (evaluations : Z) : Qc :=
  if evaluations =? 0 then err else (err / qc_of_Z evaluations)%Qc.

(* get_max_benefit / get_total_error of a container: max over benefits starting from 0, sum of errors *)
Definition max_benefit (bs : list Qc) : Qc := maxQ bs.
Definition total_error (es : list Qc) : Qc := sumQ es.

(* ------------------------------------------------------------------ distinct point counting
   Integration.get_distinct_points = len(f.f_dict): the dictionary of all points the integrand was called on since the
   last reset. Points are lists of integers (scaled dyadic coordinates). *)
Fixpoint lz_eqb (a b : list Z) : bool :=
  match a, b with
  | [], [] => true
  | x :: a', y :: b' => (x =? y) && lz_eqb a' b'
  | _, _ => false
  end.
Fixpoint pt_mem (p : list Z) (c : list (list Z)) : bool :=
  match c with [] => false | q :: r => lz_eqb p q || pt_mem p r end.
Fixpoint add_points (cache : list (list Z)) (batch : list (list Z)) : list (list Z) :=
  match batch with
  | [] => cache
  | p :: r => add_points (if pt_mem p cache then cache else p :: cache) r
  end.
(* one entry per evaluation phase: number of distinct points seen so far *)
Fixpoint point_counts (cache : list (list Z)) (batches : list (list (list Z))) : list Z :=
  match batches with
  | [] => []
  | b :: r => let c := add_points cache b in Z.of_nat (length c) :: point_counts c r
  end.

(* ------------------------------------------------------------------ C14: the loop over an abstract refinement state *)
Section Resume.
  Variable St : Type.
  Variable evaluate : St -> St.          (* evaluate_operation: (re)computes results of the not yet evaluated parts *)
  Variable refine : St -> St.            (* refine(): one refinement round *)
  Variable observe : St -> obs.          (* error / points the stopping rule looks at *)

  (* continue_adaptive_refinement with `fuel` loop iterations; None = fuel exhausted *)
  Fixpoint run (lim : limits) (fuel : nat) (s : St) : option St :=
    match fuel with
    | O => None
    | S f => let s1 := evaluate s in
             if stop_now lim (observe s1) then Some s1 else run lim f (refine s1)
    end.
End Resume.

(* limits only grow: what stops under the later limits also stops under the earlier ones *)
Definition limits_grow (l1 l2 : limits) : Prop :=
  (l_tol l2 <= l_tol l1)%Qc /\ l_min l1 <= l_min l2 /\
  match l_max l1, l_max l2 with
  | Some m1, Some m2 => m1 <= m2
  | Some _, None => True
  | None, None => True
  | None, Some _ => False
  end.

(* ====================================================================================================================
   Round 2 (deepening): the API through which limits are EXPRESSED, histories of several calls (legs) on one object,
   the link between the two models above (observation-stream machine `drive` / abstract-state loop `run`).
   ==================================================================================================================== *)

(* ------------------------------------------------------------------ arguments of one call
   performSpatiallyAdaptiv(..., tol=10**-2, max_evaluations=None, min_evaluations=1)
   continue_adaptive_refinement(tol=10**-3, max_time=None, max_evaluations=None, min_evaluations=1)
   None = the argument is not given (for max_evaluations: not given, or None given - the same thing in Python).
   An explicitly given value is ALWAYS used as it is: tol=0 (refine until the point budget is used up) is a value,
   not "not given"; no value of an earlier call survives into a later call. *)
Record call_args := mkArgs { a_tol : option Qc; a_min : option Z; a_max : option Z }.

(* the binary64 values of the Python literals 10 ** -2 and 10 ** -3 *)
Definition default_tol_perform : Qc := Q2Qc (5764607523034235 # 576460752303423488).
Definition default_tol_continue : Qc := Q2Qc (1152921504606847 # 1152921504606846976).

Definition resolve (default_tol : Qc) (a : call_args) : limits :=
  mkLimits (match a_tol a with Some t => t | None => default_tol end)
           (match a_min a with Some m => m | None => 1 end)
           (a_max a).
Definition resolve_perform : call_args -> limits := resolve default_tol_perform.
Definition resolve_continue : call_args -> limits := resolve default_tol_continue.

(* a history on one object: performSpatiallyAdaptiv (first = true) followed by continue_adaptive_refinement calls *)
Fixpoint resolve_history (first : bool) (h : list call_args) : list limits :=
  match h with
  | [] => []
  | a :: r => (if first then resolve_perform a else resolve_continue a) :: resolve_history false r
  end.

(* every call of a history on ITS OWN observation stream: the state after each call and its stop flag *)
Fixpoint api_run (first : bool) (calls : list (call_args * list obs)) (s : dstate) : list (dstate * bool) :=
  match calls with
  | [] => []
  | (a, os) :: r =>
      let res := drive (if first then resolve_perform a else resolve_continue a) os
                       (if first then d_init else s) in     (* performSpatiallyAdaptiv empties the history arrays *)
      res :: api_run false r (fst res)
  end.

(* ------------------------------------------------------------------ decidable `limits_grow` (verified checker) *)
Definition limits_growb (l1 l2 : limits) : bool :=
  Qc_leb (l_tol l2) (l_tol l1) && (l_min l1 <=? l_min l2) &&
  match l_max l1, l_max l2 with
  | Some m1, Some m2 => m1 <=? m2
  | Some _, None => true
  | None, None => true
  | None, Some _ => false
  end.

Fixpoint all_growb (legs : list limits) (lf : limits) : bool :=
  match legs with [] => true | l :: r => limits_growb l lf && all_growb r lf end.

(* ------------------------------------------------------------------ several legs on ONE underlying observation stream
   `os` is the stream an uninterrupted, never stopping run would see. A leg with limits l that starts where the previous
   leg stopped re-evaluates first (the loop is re-entrant: it evaluates before it decides), i.e. it sees the stream from
   the stop position on. Result: absolute stop position of the last leg and the driver state (history arrays, trace);
   None = some leg runs out of the stream. *)
Definition after_stop_m (s : dstate) (os : list obs) (k : nat) : dstate :=
  mkD (d_errs s ++ map o_err (firstn (S k) os)) (d_surs s ++ map o_sur (firstn (S k) os))
      (d_pts s ++ map o_pts (firstn (S k) os)) (d_trace s ++ eval_refine_rounds k ++ [EvEval])
      (d_refines s + Z.of_nat k).

Fixpoint legs_on_stream (legs : list limits) (os : list obs) (d : dstate) : option (nat * dstate) :=
  match legs with
  | [] => Some (O, d)
  | l :: r =>
      match first_stop l os with
      | Some k =>
          match legs_on_stream r (skipn k os) (after_stop_m d os k) with
          | Some (p, d') => Some ((k + p)%nat, d')
          | None => None
          end
      | None => None
      end
  end.

(* ------------------------------------------------------------------ the loop over the abstract refinement state, with
   the history recording of the real driver, and its observation trajectory *)
Section Legs.
  Variable St : Type.
  Variable evaluate : St -> St.
  Variable refine : St -> St.
  Variable observe : St -> obs.

  (* what the successive evaluations of a never stopping run show *)
  Fixpoint traj (n : nat) (s : St) : list obs :=
    match n with
    | O => []
    | S n' => let s1 := evaluate s in observe s1 :: traj n' (refine s1)
    end.

  (* the evaluated state after k refinement rounds *)
  Fixpoint state_at (k : nat) (s : St) : St :=
    match k with
    | O => evaluate s
    | S k' => state_at k' (refine (evaluate s))
    end.

  (* continue_adaptive_refinement: the loop of `run` together with the appends to the history arrays *)
  Fixpoint run_rec (lim : limits) (fuel : nat) (s : St) (d : dstate) : option (St * dstate) :=
    match fuel with
    | O => None
    | S f => let s1 := evaluate s in
             let d1 := record_obs d (observe s1) in
             if stop_now lim (observe s1) then Some (s1, d1) else run_rec lim f (refine s1) (do_refine d1)
    end.

  (* a history of calls on one object *)
  Fixpoint run_legs (legs : list (limits * nat)) (s : St) (d : dstate) : option (St * dstate) :=
    match legs with
    | [] => Some (s, d)
    | (l, n) :: r => match run_rec l n s d with Some (s', d') => run_legs r s' d' | None => None end
    end.

  Fixpoint legs_fuel (legs : list (limits * nat)) : nat :=
    match legs with [] => O | (_, n) :: r => (n + legs_fuel r)%nat end.
End Legs.

(* ------------------------------------------------------------------ C14 up to an equivalence of states (floating point
   rounding) and with reevaluate_at_end: after the loop has stopped, evaluate_final_combi recomputes the combination from
   scratch (`finish`); the returned result is the one of the finished state, and the next call starts from it. *)
Section Finish.
  Variable St : Type.
  Variable evaluate : St -> St.
  Variable refine : St -> St.
  Variable finish : St -> St.
  Variable observe : St -> obs.

  Definition run_fin (reeval : bool) (lim : limits) (fuel : nat) (s : St) : option St :=
    match run St evaluate refine observe lim fuel s with
    | Some x => Some (if reeval then finish x else x)
    | None => None
    end.
End Finish.

Definition limits_eqb (l1 l2 : limits) : bool :=
  Qc_eqb (l_tol l1) (l_tol l2) && (l_min l1 =? l_min l2) &&
  match l_max l1, l_max l2 with
  | Some m1, Some m2 => m1 =? m2
  | None, None => true
  | _, _ => false
  end.

(* stop positions (absolute) and driver state after each prefix of the legs; None from the first leg on that runs out of
   the stream *)
Fixpoint legs_prefixes (n : nat) (legs : list limits) (os : list obs) : list (option (nat * dstate)) :=
  match n with
  | O => []
  | S n' => legs_prefixes n' legs os ++ [legs_on_stream (firstn n legs) os d_init]
  end.

(* ------------------------------------------------------------------ checkpoints: save_to_file / restore_from_file
   A checkpoint holds ONE state c (refinement state and driver arrays as saved).  restore_from_file creates a NEW copy of it -
   however often, whenever, under whatever spelling of the path; continue_adaptive_refinement on copy i touches copy i only.
   The store is the list of live copies (None = a copy whose call ran out of fuel). *)
Inductive ckop := OpRestore | OpContinue (i : nat) (l : limits) (n : nat).

Fixpoint upd {A} (i : nat) (f : A -> A) (l : list A) : list A :=
  match l, i with
  | [], _ => []
  | x :: r, O => f x :: r
  | x :: r, S j => x :: upd j f r
  end.

Section Checkpoint.
  Variable St : Type.
  Variable evaluate : St -> St.
  Variable refine : St -> St.
  Variable observe : St -> obs.

  Definition run_legs_opt (legs : list (limits * nat)) (x : option (St * dstate)) : option (St * dstate) :=
    match x with Some (s, d) => run_legs St evaluate refine observe legs s d | None => None end.

  Fixpoint ck_exec (c : St * dstate) (ops : list ckop) (store : list (option (St * dstate))) : list (option (St * dstate)) :=
    match ops with
    | [] => store
    | OpRestore :: r => ck_exec c r (store ++ [Some c])
    | OpContinue i l n :: r => ck_exec c r (upd i (run_legs_opt [(l, n)]) store)
    end.

  (* the calls addressed to copy i, in order *)
  Fixpoint legs_of (i : nat) (ops : list ckop) : list (limits * nat) :=
    match ops with
    | [] => []
    | OpRestore :: r => legs_of i r
    | OpContinue j l n :: r => if Nat.eqb i j then (l, n) :: legs_of i r else legs_of i r
    end.
End Checkpoint.

(* ------------------------------------------------------------------ solutions_storage (option of performSpatiallyAdaptiv)
   `self.solutions_storage[num_evaluations] = self.operation.get_result()` at every evaluation: a dict keyed by the point count.
   Python dict semantics: an existing key keeps its position and gets the new value, a new key is appended. *)
Fixpoint store_set {A} (k : Z) (v : A) (l : list (Z * A)) : list (Z * A) :=
  match l with
  | [] => [(k, v)]
  | (k', v') :: r => if k =? k' then (k, v) :: r else (k', v') :: store_set k v r
  end.
Fixpoint store_get {A} (k : Z) (l : list (Z * A)) : option A :=
  match l with [] => None | (k', v) :: r => if k =? k' then Some v else store_get k r end.
(* the storage after the evaluations with (point count, result) kvs, starting from the dict the caller passed in *)
Definition storage_after {A} (kvs : list (Z * A)) (st : list (Z * A)) : list (Z * A) :=
  fold_left (fun s kv => store_set (fst kv) (snd kv) s) kvs st.
(* the result of the LAST evaluation that had point count k *)
Fixpoint last_with {A} (k : Z) (kvs : list (Z * A)) : option A :=
  match kvs with
  | [] => None
  | (k', v) :: r => match last_with k r with Some w => Some w | None => if k =? k' then Some v else None end
  end.
