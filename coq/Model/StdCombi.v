(* Model of the standard combination technique on uniform trapezoidal grids over the whole domain
   (StandardCombi.py, Grid.py: TrapezoidalGrid/TrapezoidalGrid1D/Grid1d.set_current_area with start=a, end=b,
   GridOperation.py: Integration.evaluate_levelvec / get_component_grid_values / Interpolation.interpolate_points).
   Exact arithmetic over Qc. Definitions only. *)
From Coq Require Import ZArith List Bool QArith Qcanon.
From SG Require Import Base.QcUtil Model.CombiScheme.
Import ListNotations.
Open Scope Qc_scope.

(* np.linspace(a, b, 2^l + 1) *)
Definition grid1_full (a b : Qc) (l : Z) : list Qc :=
  map (fun i => a + qc_of_Z i * ((b - a) / qc_of_Z (2 ^ l))) (zrange (2 ^ l + 1)).

Definition strip_ends {A} (xs : list A) : list A := removelast (tl xs).

(* TrapezoidalGrid1D on the whole interval: coords ( [lowerBorder:upperBorder] of the linspace; the single point of
   level 1 without boundary is the midpoint, which is the same thing) *)
Definition grid1 (boundary : bool) (a b : Qc) (l : Z) : list Qc :=
  if boundary then grid1_full a b l else strip_ends (grid1_full a b l).

(* level_to_num_points_1d with start = a, end = b *)
Definition num_points_1d (boundary : bool) (l : Z) : Z :=
  (2 ^ l + 1 - (if boundary then 0 else 2))%Z.

(* weight_composite_trapezoidal: spacing * (1/2 at the two ends of the full grid, 1 inside); without boundary all
   remaining points are inner points *)
Definition weights1 (boundary : bool) (a b : Qc) (l : Z) : list Qc :=
  let h := (b - a) / qc_of_Z (2 ^ l) in
  let n := Z.to_nat (2 ^ l + 1) in
  let full := map (fun i => if (Nat.eqb i 0 || Nat.eqb i (n - 1))%bool then h * Qchalf else h) (seq 0 n) in
  if boundary then full else strip_ends full.

(* get_cross_product_list *)
Fixpoint crossQ (ls : list (list Qc)) : list (list Qc) :=
  match ls with
  | [] => [[]]
  | a :: r => flat_map (fun x => map (cons x) (crossQ r)) a
  end.

Fixpoint zip3 (a b : list Qc) (l : lv) : list (Qc * Qc * Z) :=
  match a, b, l with
  | x :: a', y :: b', z :: l' => (x, y, z) :: zip3 a' b' l'
  | _, _, _ => []
  end.

Definition comp_points (boundary : bool) (a b : list Qc) (l : lv) : list (list Qc) :=
  crossQ (map (fun t => let '(x, y, z) := t in grid1 boundary x y z) (zip3 a b l)).

Definition comp_weights (boundary : bool) (a b : list Qc) (l : lv) : list Qc :=
  map (fold_right Qcmult 1)
      (crossQ (map (fun t => let '(x, y, z) := t in weights1 boundary x y z) (zip3 a b l))).

Definition comp_num_points (boundary : bool) (l : lv) : list Z := map (num_points_1d boundary) l.

(* 1D piecewise-linear interpolation of g on the sorted grid xs (what scipy interpn does in one dimension) *)
Fixpoint interp1 (xs : list Qc) (g : Qc -> Qc) (x : Qc) : Qc :=
  match xs with
  | [] => 0
  | x0 :: r =>
    match r with
    | [] => g x0
    | x1 :: _ => if Qc_leb x x1 then g x0 + (x - x0) / (x1 - x0) * (g x1 - g x0) else interp1 r g x
    end
  end.

(* multilinear interpolation on the tensor grid: dimension by dimension *)
Fixpoint interpN (grids : list (list Qc)) (f : list Qc -> Qc) (x : list Qc) : Qc :=
  match grids, x with
  | g :: gs, x0 :: xs => interp1 g (fun p => interpN gs (fun r => f (p :: r)) xs) x0
  | _, _ => f []
  end.

(* values with zero boundary: Grid.points_not_zero *)
Fixpoint on_boundary (a b p : list Qc) : bool :=
  match a, b, p with
  | x :: a', y :: b', z :: p' => Qc_eqb z x || Qc_eqb z y || on_boundary a' b' p'
  | _, _, _ => false
  end.

Definition masked (boundary : bool) (a b : list Qc) (f : list Qc -> Qc) (p : list Qc) : Qc :=
  if boundary then f p else if on_boundary a b p then 0 else f p.

(* component interpolant: interpn on coordinate_array_with_boundary = the full grids *)
Definition comp_interp (boundary : bool) (a b : list Qc) (l : lv) (f : list Qc -> Qc) (x : list Qc) : Qc :=
  interpN (map (fun t => let '(x0, y0, z) := t in grid1_full x0 y0 z) (zip3 a b l)) (masked boundary a b f) x.

(* component quadrature: inner product of values and tensor weights *)
Definition comp_integral (boundary : bool) (a b : list Qc) (l : lv) (f : list Qc -> Qc) : Qc :=
  dotQ (map f (comp_points boundary a b l)) (comp_weights boundary a b l).

Definition combi_interp (boundary : bool) (a b : list Qc) (cs : list (lv * Z)) (f : list Qc -> Qc) (x : list Qc) : Qc :=
  sumQ (map (fun kv => qc_of_Z (snd kv) * comp_interp boundary a b (fst kv) f x) cs).

Definition combi_integral (boundary : bool) (a b : list Qc) (cs : list (lv * Z)) (f : list Qc -> Qc) : Qc :=
  sumQ (map (fun kv => qc_of_Z (snd kv) * comp_integral boundary a b (fst kv) f) cs).

(* get_points_and_weights of the whole combination: concatenated points, weights scaled by the coefficient *)
Definition combi_points_weights (boundary : bool) (a b : list Qc) (cs : list (lv * Z)) : list (list Qc * Qc) :=
  flat_map (fun kv => combine (comp_points boundary a b (fst kv))
                              (map (fun w => w * qc_of_Z (snd kv)) (comp_weights boundary a b (fst kv)))) cs.

(* ---- test function families used by the correspondence (same definitions on the Python side) ---- *)
(* kind 0: sum_d alpha_d x_d^2 + prod_d (beta_d + x_d) *)
Fixpoint f_poly (al be : list Qc) (x : list Qc) : Qc * Qc :=
  match al, be, x with
  | a0 :: al', b0 :: be', x0 :: x' => let '(s, p) := f_poly al' be' x' in (a0 * x0 * x0 + s, (b0 + x0) * p)
  | _, _, _ => (0, 1)
  end.
Definition fun_poly (al be : list Qc) (x : list Qc) : Qc := let '(s, p) := f_poly al be x in s + p.

(* 1D hat function of level j, index i on [a,b]: support [x_{i-1}, x_{i+1}] of the level-j grid *)
Definition hat1 (a b : Qc) (j i : Z) (x : Qc) : Qc :=
  let h := (b - a) / qc_of_Z (2 ^ j) in
  let c := a + qc_of_Z i * h in
  let t := Qc_abs (x - c) / h in
  if Qc_leb t 1 then 1 - t else 0.

(* kind 1: tensor hat function *)
Fixpoint fun_hat (a b : list Qc) (j i : list Z) (x : list Qc) : Qc :=
  match a, b, j, i, x with
  | a0 :: a', b0 :: b', j0 :: j', i0 :: i', x0 :: x' => hat1 a0 b0 j0 i0 x0 * fun_hat a' b' j' i' x'
  | _, _, _, _, _ => 1
  end.

(* kind 2: nodal unit function at point p *)
Fixpoint lQ_eqb (p q : list Qc) : bool :=
  match p, q with
  | [], [] => true
  | x :: p', y :: q' => Qc_eqb x y && lQ_eqb p' q'
  | _, _ => false
  end.
Definition fun_unit (p : list Qc) (x : list Qc) : Qc := if lQ_eqb p x then 1 else 0.
