(* C12 — refinement of the cache machine of Model/FunCache.v: the VECTORISED evaluation is a parameter of its own.

   In Model/FunCache.v the batch path of Function.__call__ evaluates `map eval ps`, i.e. it already assumes that
   eval_vectorized agrees with the scalar eval. Here the code is followed more closely:

     * `evec` is the class's eval_vectorized on a 2-d array (a list of rows): either the generic loop of the base
       class (`generic_rows`, below, also for nested arrays: `generic_vec`) or an override written with numpy
       (FunctionLinear, GenzCornerPeak, GenzProductPeak, GenzOszillatory, GenzDiscontinious, GenzC0, GenzGaussian,
       FunctionExpVar);
     * `checks` says whether the override calls self.check_vectorization(coordinates, result) (all overrides but
       FunctionLinear's do); with the attribute `debug` set this compares every row with the scalar eval and raises
       an AssertionError on a mismatch (math.isclose is modelled as equality);
     * the batch path reshapes the vectorised result to (#points, output_length()) (fails when the number of
       values does not fit) and writes the ROWS OF THE VECTORISED RESULT into f_dict.

   Definitions only. *)
From Coq Require Import ZArith List QArith Qcanon Bool Arith.
From SG Require Import Base.QcUtil Model.FunCache.
Import ListNotations.

(* ------------------------------------------------------------------ arrays of points of any nesting depth *)
Inductive arr := APoint (p : point) | ANest (l : list arr).       (* innermost axis = the coordinates of a point *)
Inductive varr := VRow (v : value) | VNest (l : list varr).       (* innermost axis = the output components *)

Fixpoint opt_list {A} (l : list (option A)) : option (list A) :=
  match l with
  | [] => Some []
  | Some a :: r => match opt_list r with Some r' => Some (a :: r') | None => None end
  | None :: _ => None
  end.

Fixpoint value_eqb (a b : value) : bool :=
  match a, b with
  | [], [] => true
  | x :: a', y :: b' => Qc_eqb_canon x y && value_eqb a' b'
  | _, _ => false
  end.
Fixpoint values_eqb (a b : list value) : bool :=
  match a, b with
  | [], [] => true
  | x :: a', y :: b' => value_eqb x y && values_eqb a' b'
  | _, _ => false
  end.

Fixpoint arr_map (f : point -> value) (a : arr) : varr :=
  match a with APoint p => VRow (f p) | ANest l => VNest (map (arr_map f) l) end.

(* shapes: the list of axis lengths without the innermost one; None for ragged arrays *)
Fixpoint all_same (l : list (list nat)) : option (list nat) :=
  match l with
  | [] => Some []                                  (* an empty axis: nothing below it is known *)
  | [s] => Some s
  | s :: r => match all_same r with Some s' => if list_eq_dec Nat.eq_dec s s' then Some s else None | None => None end
  end.
Fixpoint arr_shape (a : arr) : option (list nat) :=
  match a with
  | APoint _ => Some []
  | ANest l => match opt_list (map arr_shape l) with
               | Some ss => match all_same ss with Some s => Some (length l :: s) | None => None end
               | None => None
               end
  end.
Fixpoint varr_shape (a : varr) : option (list nat) :=
  match a with
  | VRow _ => Some []
  | VNest l => match opt_list (map varr_shape l) with
               | Some ss => match all_same ss with Some s => Some (length l :: s) | None => None end
               | None => None
               end
  end.
Fixpoint varr_rows_ok (olen : nat) (a : varr) : bool :=
  match a with VRow v => Nat.eqb (length v) olen | VNest l => forallb (varr_rows_ok olen) l end.

Section Vec.
Variable eval : point -> value.
Variable olen : nat.

(* Function.eval_vectorized of the base class:
     f_values = np.empty(np.shape(coordinates)[:-1] + (self.output_length(),))
     for i, coordinate in enumerate(coordinates):
         if np.isscalar(coordinate[0]): f_values[i, :] = self.eval(coordinate)
         else:                          f_values[i, :] = self.eval_vectorized(coordinate)
   None = the assignment of a row of the wrong length raises. *)
Fixpoint generic_vec (a : arr) : option varr :=
  match a with
  | APoint p => let v := eval p in if check_len olen v then Some (VRow v) else None
  | ANest l => match opt_list (map generic_vec l) with Some r => Some (VNest r) | None => None end
  end.

(* the same for a 2-d array given as the list of its rows *)
Fixpoint generic_rows (ps : list point) : option (list value) :=
  match ps with
  | [] => Some []
  | p :: r => let v := eval p in
              if check_len olen v then match generic_rows r with Some vs => Some (v :: vs) | None => None end else None
  end.

(* ------------------------------------------------------------------ the machine with its own vectorised evaluation *)
Variable evec : list point -> list value.
Variable checks : bool.

Record vstate := mkVS { vbase : state; vdebug : bool }.
Definition vinit : vstate := mkVS init false.                    (* Function.__init__: self.debug = False *)

Inductive vop :=
| VBase (o : op)               (* the operations of Model/FunCache.v *)
| VDebug (b : bool).           (* f.debug = b *)
Inductive vresult :=
| VR (r : result)
| VAssertVec.                  (* AssertionError raised by check_vectorization *)

(* eval_vectorized of the class followed by check_vectorization (when the override calls it and debug is set) *)
Definition vec_call (dbg : bool) (ps : list point) : option (list value) :=
  let vs := evec ps in
  if dbg && checks then (if values_eqb vs (map eval ps) then Some vs else None) else Some vs.

(* f_values.reshape((len(coordinates), self.output_length())) succeeds *)
Definition fits (ps : list point) (vs : list value) : bool :=
  Nat.eqb (length vs) (length ps) && forallb (check_len olen) vs.

Definition vcall_batch (vr : variant) (st : state) (dbg : bool) (ps : list point) : state * vresult :=
  match ps with
  | [] => if fix_empty vr then (st, VR (RBatch [])) else (st, VR (RErr EIndex))
  | _ => match vec_call dbg ps with
         | None => (st, VAssertVec)
         | Some vs => if fits ps vs
                      then (mkSt (insert_all (combine ps vs) (fd st)) (ofd st) (cache st), VR (RBatch vs))
                      else (st, VR (RErr EOutLen))
         end
  end.

Definition vcall_vec (st : state) (dbg : bool) (ps : list point) : state * vresult :=
  match vec_call dbg ps with
  | None => (st, VAssertVec)
  | Some vs => if fits ps vs then (st, VR (RVec vs)) else (st, VR (RErr EOutLen))
  end.

Definition vstep (vr : variant) (s : vstate) (o : vop) : vstate * vresult :=
  match o with
  | VDebug b => (mkVS (vbase s) b, VR RUnit)
  | VBase (OBatch ps) => let '(st, r) := vcall_batch vr (vbase s) (vdebug s) ps in (mkVS st (vdebug s), r)
  | VBase (OVec ps) => let '(st, r) := vcall_vec (vbase s) (vdebug s) ps in (mkVS st (vdebug s), r)
  | VBase o' => let '(st, r) := step eval olen vr (vbase s) o' in (mkVS st (vdebug s), VR r)
  end.

Fixpoint vrun (vr : variant) (s : vstate) (ops : list vop) : list (vresult * vstate) :=
  match ops with
  | [] => []
  | o :: r => let '(s', res) := vstep vr s o in (res, s') :: vrun vr s' r
  end.

(* what the property demands of every value-returning call *)
Fixpoint videal (ops : list vop) : list (option vresult) :=
  match ops with
  | [] => []
  | VBase (OSingle p) :: r => Some (VR (RSingle (eval p))) :: videal r
  | VBase (OBatch ps) :: r => Some (VR (RBatch (map eval ps))) :: videal r
  | VBase (OVec ps) :: r => Some (VR (RVec (map eval ps))) :: videal r
  | _ :: r => None :: videal r
  end.

Definition debug_always_on (ops : list vop) : bool :=
  forallb (fun o => match o with VDebug false => false | _ => true end) ops.

End Vec.

(* vectorised evaluation given row-wise by a finite table (entry point: the table holds the rows that a FRESH
   instance's eval_vectorized returns for each point alone) *)
Definition evec_tab (tab : dict) (ps : list point) : list value := map (eval_tab tab) ps.
