(* C08 (round 2) — the parts of the "opaque" local grid families that are plain code, over Qc: definitions only.

   The 1D rules of GaussLegendreGrid1D, LejaGrid1D and ClenshawCurtisGrid1D are a REFERENCE RULE (numpy's leggauss
   table on [-1,1]; the Leja points/weights on [0,1]; the cosines and weight factors of Clenshaw-Curtis) pushed to the
   current sub-box [start,end] by an affine map written out in the Python:

     GaussLegendreGrid1D.get_1d_points_and_weights   Grid.py:2248-2257   coords = (x+1)*length/2 + start ; w*length/2 [/(end-start)]
     LejaGrid1D.get_1d_points_and_weights            Grid.py:647-654     coords = x*length + start     ; w*length
     ClenshawCurtisGrid1D.get_1D_level_points        Grid.py:922-928     coords = start + (1-cos_i)*length/2
     ClenshawCurtisGrid1D.get_1d_weight              Grid.py:930-945     w = length/2 * factor_i

   gl_map / leja_map / cc_map are these maps; Proofs/QuadAffine.v proves for ALL reference rules, degrees and sub-boxes
   that they transport exactness (and approximate exactness as certified by moments_ok) from the reference interval
   to the sub-box, so the per-case certificate is needed for the reference rule of a level only.

   interp_weights: the interpolatory quadrature weights of an arbitrary list of distinct nodes (integrals of the
   Lagrange basis polynomials); Proofs/QuadInterp.v: exact up to degree n-1 for every n and every node set, and the
   only weights with that property (so Clenshaw-Curtis / Leja weights are determined by their nodes).

   grid_*_m: tensor grid whose dimensions carry their own family and boundary flag (Grid.set_boundaries, MixedGrid). *)
From Coq Require Import ZArith List QArith Qcanon Bool Arith.
From SG Require Import Base.QcUtil Base.PolyInt Base.PolyQ Model.Tensor Model.LocalGrids.
Import ListNotations.
Open Scope Qc_scope.

(* ---- affine transport of a 1D rule:  x |-> al*x + be,  w |-> al*w ---- *)
Definition affine_pts (al be : Qc) (c : list Qc) : list Qc := map (fun x => al * x + be) c.
Definition affine_wts (al : Qc) (w : list Qc) : list Qc := map (fun v => al * v) w.

(* the rule (c,w) on [s1,e1] carried to [s2,e2] *)
Definition transport_al (s1 e1 s2 e2 : Qc) : Qc := (e2 - s2) / (e1 - s1).
Definition transport_be (s1 e1 s2 e2 : Qc) : Qc := s2 - transport_al s1 e1 s2 e2 * s1.
Definition transport_pts (s1 e1 s2 e2 : Qc) (c : list Qc) : list Qc :=
  affine_pts (transport_al s1 e1 s2 e2) (transport_be s1 e1 s2 e2) c.
Definition transport_wts (s1 e1 s2 e2 : Qc) (w : list Qc) : list Qc :=
  affine_wts (transport_al s1 e1 s2 e2) w.

(* GaussLegendreGrid1D.get_1d_points_and_weights (reference rule of numpy.polynomial.legendre.leggauss on [-1,1]) *)
Definition gl_pts (s e : Qc) (rc : list Qc) : list Qc :=
  map (fun x => (x + 1) * ((e - s) / Qc2) + s) rc.
Definition gl_wts (normalize : bool) (s e : Qc) (rw : list Qc) : list Qc :=
  map (fun w => let w1 := w * (e - s) / Qc2 in if normalize then w1 * (1 / (e - s)) else w1) rw.

(* LejaGrid1D.get_1d_points_and_weights (reference rule on [0,1]) *)
Definition leja_pts (s e : Qc) (rc : list Qc) : list Qc := map (fun x => x * (e - s) + s) rc.
Definition leja_wts (s e : Qc) (rw : list Qc) : list Qc := map (fun w => w * (e - s)) rw.

(* ClenshawCurtisGrid1D: cosv_i = cos(pi*(i+lowerBorder)/(npwb-1)), fac_i = weight_factor of get_1d_weight *)
Definition cc_pts (s e : Qc) (cosv : list Qc) : list Qc := map (fun c => s + (1 - c) * (e - s) / Qc2) cosv.
Definition cc_wts (s e : Qc) (fac : list Qc) : list Qc := map (fun f => (e - s) / Qc2 * f) fac.

(* python slice [lo:up] of a list *)
Definition slice_list {A} (lo up : nat) (l : list A) : list A := firstn (up - lo) (skipn lo l).

(* ---- powers of a linear polynomial: coefficient list of (be + al*X)^j ---- *)
Definition lmul (al be : Qc) (p : poly) : poly := padd (pscale be p) (0 :: pscale al p).
Fixpoint linpow (al be : Qc) (j : nat) : poly :=
  match j with O => [1] | S j' => lmul al be (linpow al be j') end.

(* ---- interpolatory quadrature on arbitrary distinct nodes ---- *)
(* prod_{xj in others} (X - xj)/(xi - xj) *)
Fixpoint lag_num (others : list Qc) (xi : Qc) : poly :=
  match others with
  | [] => [1]
  | xj :: r => plin xj (/ (xi - xj)) (lag_num r xi)
  end.
(* Lagrange basis polynomials of the nodes  rev pre ++ xs,  for the nodes in xs *)
Fixpoint lag_bases (pre xs : list Qc) : list poly :=
  match xs with
  | [] => []
  | x :: r => lag_num (rev pre ++ r) x :: lag_bases (x :: pre) r
  end.
Definition interp_weights (xs : list Qc) (s e : Qc) : list Qc := map (fun l => pint l s e) (lag_bases [] xs).

(* the interpolation polynomial  sum_i v_i * l_i *)
Fixpoint pcomb (vs : list Qc) (ls : list poly) : poly :=
  match vs, ls with
  | v :: vs', l :: ls' => padd (pscale v l) (pcomb vs' ls')
  | _, _ => []
  end.

(* checker: the weights returned by the implementation are the interpolatory weights of the nodes it returned,
   |w_i - interp_i| <= rtol * (sum_j |interp_j|) *)
Definition sum_abs (l : list Qc) : Qc := sumQ (map Qc_abs l).
Fixpoint all_close (tol : Qc) (a b : list Qc) : bool :=
  match a, b with
  | [], [] => true
  | x :: a', y :: b' => Qc_leb (Qc_abs (x - y)) tol && all_close tol a' b'
  | _, _ => false
  end.
Definition interp_ok (xs ws : list Qc) (s e rtol : Qc) : bool :=
  let iw := interp_weights xs s e in all_close (rtol * sum_abs iw) ws iw.

(* ---- tensor grid with a family and a boundary flag per dimension (set_boundaries / MixedGrid) ---- *)
Definition dimspec : Type := eqfam * bool * dim1.
Definition ds_np (d : dimspec) : nat := let '(f, b, x) := d in eq_np b x.
Definition ds_points (d : dimspec) : list Qc := let '(f, b, x) := d in eq_points b x.
Definition ds_weights (d : dimspec) : list Qc := let '(f, b, x) := d in eq_weights f b x.
Definition ds_dim (d : dimspec) : dim1 := snd d.

Definition gridm_num_points (ds : list dimspec) : list nat := map ds_np ds.
Definition gridm_coords (ds : list dimspec) : list (list Qc) := map ds_points ds.
Definition gridm_weights1 (ds : list dimspec) : list (list Qc) := map ds_weights ds.
Definition gridm_points (ds : list dimspec) : list (list Qc) := cross (gridm_coords ds).
Definition gridm_weights (ds : list dimspec) : list Qc := tensor_weights (gridm_weights1 ds).
Definition gridm_integrate_monomial (ds : list dimspec) (exps : list nat) : Qc :=
  integrate_rule (prodf (map mono exps)) (gridm_coords ds) (gridm_weights1 ds).

(* ---- ClenshawCurtisGrid1D.get_1d_weight (Grid.py:930-945): weight = length/2 * weight_factor.
   C m stands for cos(2*pi*m/(npwb-1)) (the only transcendental ingredient; supplied as an oracle);
   K i stands for cos(pi*i/(npwb-1)) in get_1D_level_points. ---- *)
Definition cc_term (npwb : nat) (C : nat -> Qc) (index j : nat) : Qc :=
  let t := 1 / (1 - qn 4 * qn j * qn j) * C (index * j)%nat in
  if (j =? (npwb - 1) / 2)%nat then t * Qchalf else t.
Definition cc_factor (npwb : nat) (C : nat -> Qc) (index : nat) : Qc :=
  if (2 <? npwb)%nat then
    if ((index =? 0) || (index =? npwb - 1))%nat then 1 / (qn (npwb - 2) * qn npwb)
    else Qc2 / qn (npwb - 1) * (1 + Qc2 * sumQ (map (cc_term npwb C index) (seq 1 ((npwb - 1) / 2))))
  else 1.
(* the rule of a level on [s,e]: local point i is point i + lo of the full rule (lo = lowerBorder) *)
Definition cc_rule_pts (npwb lo np : nat) (K : nat -> Qc) (s e : Qc) : list Qc :=
  cc_pts s e (map K (seq lo np)).
Definition cc_rule_wts (npwb lo np : nat) (C : nat -> Qc) (s e : Qc) : list Qc :=
  cc_wts s e (map (cc_factor npwb C) (seq lo np)).
(* table-driven oracle for the entry point: values listed for m = 0,1,2,... *)
Definition table_fn (t : list Qc) (m : nat) : Qc := nth m t 0.

(* ---- proposed repairs (fixes/C08-level0-onesided-endpoint.patch, fixes/C08-leja-boundary-off-count.patch) ----
   Level 0 (2 points with boundary), boundary off, plain basis, sub-box touching exactly one side of the domain:
   the code as it is returns the midpoint with weight h; repaired it returns the remaining end point with weight h/2
   (np.linspace(..)[lowerBorder:upperBorder] and weight_composite_trapezoidal without the single-point special case). *)
Definition lvl0_onesided (f : eqfam) (bnd : bool) (x : dim1) : bool :=
  negb bnd && (d_level x =? 0)%nat && xorb (touch_l (d_a x) (d_s x)) (touch_r (d_b x) (d_e x))
  && match f with FTrapMod => false | _ => true end.
Definition eq_points_fx (f : eqfam) (bnd : bool) (x : dim1) : list Qc :=
  if lvl0_onesided f bnd x then [if touch_l (d_a x) (d_s x) then d_e x else d_s x] else eq_points bnd x.
Definition eq_weights_fx (f : eqfam) (bnd : bool) (x : dim1) : list Qc :=
  if lvl0_onesided f bnd x then [(d_e x - d_s x) * Qchalf] else eq_weights f bnd x.

(* LejaGrid1D.level_to_num_points_1d repaired: only the points on touched sides of the domain are dropped *)
Definition leja_info_fx (bnd : bool) (a b s e : Qc) (l : nat) : nat * nat * nat * nat * nat :=
  let npwb := leja_npwb l in
  let np := num_points_eq bnd (touch_l a s) (touch_r b e) npwb in
  let '(lo, up) := borders bnd np npwb (touch_l a s) (touch_r b e) in
  (np, npwb, lo, up, length (slice_idx lo up npwb)).

(* ---- TrapezoidalGrid1D.weight_composite_trapezoidal / get_1d_weight in both versions of the code:
   fixed = false: as it is;  fixed = true: with fixes/C08-level0-onesided-endpoint.patch (the single remaining point is
   the midpoint only when there are 3 points including the boundary).  Used by the source-derived model (Props/C08gen.v),
   whose theorems hold for whichever version the working tree contains. ---- *)
Definition wct_v (fixed bnd : bool) (np npwb lo : nat) (h : Qc) (i : nat) : Qc :=
  if negb bnd && (np =? 1)%nat && (negb fixed || negb (npwb =? 2)%nat) then h
  else h * (if ((i + lo =? 0) || (i + lo =? npwb - 1))%nat then Qchalf else 1).
Definition trap_weight_v (fixed modb bnd : bool) (np npwb lo up : nat) (s e : Qc) (i : nat) : Qc :=
  let h := spacing s e npwb in
  let c := wct_v fixed bnd np npwb lo h in
  if modb then
    if (np =? 1)%nat then e - s
    else if (np =? 2)%nat then
      if (lo =? 1)%nat then (if (i =? 0)%nat then e - s else 0)
      else if (up =? npwb - 1)%nat then (if (i =? 1)%nat then e - s else 0)
      else c i
    else
      if ((i =? 0) && (lo =? 1))%nat then Qc2 * h
      else if ((i =? 1) && (lo =? 1))%nat then
        (if ((np =? 3) && (up =? npwb - 1))%nat then 0 else c i * Qchalf)
      else if ((i =? np - 1) && (up =? npwb - 1))%nat then Qc2 * h
      else if ((i =? np - 2) && (up =? npwb - 1))%nat then c i * Qchalf
      else c i
  else c i.
Definition trap_weights_v (fixed modb bnd : bool) (np npwb lo up : nat) (s e : Qc) : list Qc :=
  map (trap_weight_v fixed modb bnd np npwb lo up s e) (seq 0 np).

(* ---- the tests "the area touches the lower / upper boundary of the domain" in both versions of the code:
   domrel = false: as it is (math.isclose(start, a), i.e. relative to the COORDINATE, for the lower side; end == b in the
   trapezoidal / Lagrange / B-spline counts, isclose(end, b) in the Clenshaw-Curtis count and the border indices);
   domrel = true: with fixes/C08-boundary-tests-domain-relative.patch (Grid1d.touches_lower_boundary / touches_upper_boundary:
   |x - bound| <= 1e-8 * |b - a| everywhere). ---- *)
Definition touch_tol (x bound a b : Qc) : bool :=
  Qc_leb (Qc_abs (x - bound)) (Q2Qc (1 # 100000000) * Qc_abs (b - a)).

(* ---- LejaGrid1D.compute_1D_quad_weights (Grid.py): V[i, j] = eval_sh_legendre(j, x_i) * sqrt(2j + 1), weights = inv(V)[0, :],
   i.e. the row vector w with  sum_i w_i V[i, j] = [j = 0]:  sum_i w_i P_j(x_i) = [j = 0]  (the column scaling sqrt(2j+1) drops out,
   sqrt 1 = 1).  P_j = shifted Legendre polynomials on [0, 1] by their three-term recurrence
   (j + 1) P_{j+1} = (2j + 1)(2x - 1) P_j - j P_{j-1}. ---- *)
Fixpoint shleg_from (j : nat) (pj pj1 : poly) (n : nat) : list poly :=
  match n with
  | O => []
  | S n' => pj :: shleg_from (S j) pj1
              (pscale (/ qn (S (S j))) (padd (pscale (qn (2 * S j + 1)) (lmul (qn 2) (-(1)) pj1)) (pscale (- qn (S j)) pj))) n'
  end.
(* P_0 .. P_{n-1} *)
Definition shleg_list (n : nat) : list poly := shleg_from 0 [1] [-(1); qn 2] n.

(* residuals of the system the code solves, for nodes / weights on the reference interval [0, 1] *)
Definition leja_system_residuals (xs ws : list Qc) : list Qc :=
  map (fun jp => dotQ (map (PolyInt.peval (snd jp)) xs) ws - (if (fst jp =? 0)%nat then 1 else 0))
      (combine (seq 0 (length xs)) (shleg_list (length xs))).
Definition leja_system_ok (xs ws : list Qc) (tol : Qc) : bool :=
  (length xs =? length ws)%nat && forallb (fun r => Qc_leb (Qc_abs r) tol) (leja_system_residuals xs ws).
