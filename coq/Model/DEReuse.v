(* Model of the re-use of old right-hand sides of DensityEstimation (reuse_old_values=True), GridOperation.py:
   calculate_B_dimension_wise (branch  N >= threshold and an old right-hand side exists), find_closest_old_B,
   find_data_in_domain (data bins; find_enclosing_bin always returns the whole index range because its test
   `dim in self.data_bins` compares an int with the dicts of a list), post_processing (hand-over new_B -> old_B),
   and of the large-grid interpolation path of MachineLearning.interpolate_points_component_grid with its per-call
   dictionary hat_support_cache.   DEFINITIONS ONLY.

   Python                                   model
   self.old_B / self.old_grid_coord         oldB : insertion-ordered dict  key -> (stripes, b)
   self.new_B / self.new_grid_coord         newB
   str(max_levels)                          key : list Z
   self.sorted_data[d] (np.argsort)         perms : one index list per dimension (INPUT: read off the implementation; the
                                            theorems hold for every list that contains every sample index)
   self.data_bins[d]                        bins : per dimension, dict (lo, hi) -> (first, last+1)
   np.intersect1d of the index slices       ascending sample indices that occur in every slice (gather form) *)
From Coq Require Import ZArith List QArith Qcanon Bool Arith.
From SG Require Import Base.QcUtil Model.Gram.
Import ListNotations.
Open Scope Qc_scope.

(* ------------------------------------------------------------------ insertion-ordered dictionaries *)
Fixpoint dict_set {K V} (eqb : K -> K -> bool) (k : K) (v : V) (d : list (K * V)) : list (K * V) :=
  match d with
  | [] => [(k, v)]
  | (k', v') :: r => if eqb k k' then (k, v) :: r else (k', v') :: dict_set eqb k v r
  end.
Fixpoint dict_get {K V} (eqb : K -> K -> bool) (k : K) (d : list (K * V)) : option V :=
  match d with
  | [] => None
  | (k', v') :: r => if eqb k k' then Some v' else dict_get eqb k r
  end.

Fixpoint zlist_eqb (a b : list Z) : bool :=
  match a, b with
  | [], [] => true
  | x :: a', y :: b' => Z.eqb x y && zlist_eqb a' b'
  | _, _ => false
  end.
Definition dom_key_eqb (a b : Qc * Qc) : bool := Qc_eqb (fst a) (fst b) && Qc_eqb (snd a) (snd b).

Definition bdict := list (list Z * (list (list Qc) * list Qc)).
Definition binmap := list ((Qc * Qc) * (nat * nat)).
Record bstate := mkB { oldB : bdict; newB : bdict; bins : list binmap }.
Definition bstate0 (dim : nat) : bstate := mkB [] [] (repeat [] dim).

(* ------------------------------------------------------------------ find_closest_old_B *)
(* number of coordinates of the new grid that the old grid does not have (all dimensions) *)
Definition new_coord_count (stripes old : list (list Qc)) : nat :=
  fold_right Nat.add 0%nat (map2 (fun s o => length (filter (fun c => negb (memQ c o)) s)) stripes old).

Fixpoint min_nat_list (l : list nat) (d : nat) : nat :=
  match l with [] => d | x :: r => match r with [] => x | _ => Nat.min x (min_nat_list r d) end end.
Fixpoint index_of_nat (x : nat) (l : list nat) : nat :=
  match l with [] => 0%nat | y :: r => if (x =? y)%nat then 0%nat else S (index_of_nat x r) end.

(* differences.index(min(differences)) over the keys in dictionary order; None when old_B is empty *)
Definition find_closest (old : bdict) (stripes : list (list Qc)) : option (list Z * (list (list Qc) * list Qc)) :=
  match old with
  | [] => None
  | _ => let diffs := map (fun e => new_coord_count stripes (fst (snd e))) old in
         nth_error old (index_of_nat (min_nat_list diffs 0) diffs)
  end.

(* ------------------------------------------------------------------ copying old entries *)
Definition dom_eqb (t u : list hatdom) : bool :=
  forallb2 (fun a b => Qc_eqb (h_lo a) (h_lo b) && Qc_eqb (h_hi a) (h_hi b)) t u.
Definition pt_eqb (t u : list hatdom) : bool := forallb2 (fun a b => Qc_eqb (h_p a) (h_p b)) t u.

Fixpoint find_first {A} (f : A -> bool) (l : list A) : option nat :=
  match l with
  | [] => None
  | a :: r => if f a then Some 0%nat else match find_first f r with Some j => Some (S j) | None => None end
  end.

(* if point_list[p] in old_point_list and domain_match[p] != -1: b[p] = old_b[domain_match[p]]   (else b[p] stays 0) *)
Definition copied_value (oldhats : list (list hatdom)) (oldb : list Qc) (t : list hatdom) : Qc :=
  if existsb (pt_eqb t) oldhats
  then match find_first (dom_eqb t) oldhats with Some j => nth j oldb 0 | None => 0 end
  else 0.

(* ------------------------------------------------------------------ find_data_in_domain *)
Definition coord (data : list (list Qc)) (k d : nat) : Qc := nth d (nth k data []) 0.

(* the scan over all sorted positions: lowest position with value >= lo, highest position with value <= hi *)
Fixpoint scan (vals : list Qc) (i : nat) (lo hi : Qc) (lower upper : nat) : nat * nat :=
  match vals with
  | [] => (lower, upper)
  | v :: r =>
      let lower' := if Qc_leb lo v && (i <? lower)%nat then i else lower in
      let upper' := if Qc_leb v hi && (upper <? i)%nat then i else upper in
      scan r (S i) lo hi lower' upper'
  end.
(* data_ranges[d] = [max(lower - 1, 0), min(upper + 1, len(sorted_data[d]))] *)
Definition scan_range (vals : list Qc) (lo hi : Qc) : nat * nat :=
  let M := length vals in
  let '(lower, upper) := scan vals 0 lo hi M 0%nat in
  (Nat.max (lower - 1) 0, Nat.min (upper + 1) M).

Definition slice {A} (l : list A) (r : nat * nat) : list A := firstn (snd r - fst r) (skipn (fst r) l).
Fixpoint mem_nat (k : nat) (l : list nat) : bool := match l with [] => false | j :: r => (k =? j)%nat || mem_nat k r end.

(* per dimension: cached range or scan; then every dimension's range is stored *)
Fixpoint data_ranges (data : list (list Qc)) (d : nat) (doms : list (Qc * Qc)) (perms : list (list nat)) (bs : list binmap)
  : list (nat * nat) :=
  match doms, perms, bs with
  | dm :: doms', pm :: perms', bm :: bs' =>
      (match dict_get dom_key_eqb dm bm with
       | Some r => r
       | None => scan_range (map (fun k => coord data k d) pm) (fst dm) (snd dm)
       end) :: data_ranges data (S d) doms' perms' bs'
  | _, _, _ => []
  end.
Fixpoint store_ranges (doms : list (Qc * Qc)) (rs : list (nat * nat)) (bs : list binmap) : list binmap :=
  match doms, rs, bs with
  | dm :: doms', r :: rs', bm :: bs' => dict_set dom_key_eqb dm r bm :: store_ranges doms' rs' bs'
  | _, _, _ => bs
  end.

Definition find_data (data : list (list Qc)) (perms : list (list nat)) (bs : list binmap) (doms : list (Qc * Qc))
  : list nat * list binmap :=
  let rs := data_ranges data 0 doms perms bs in
  let slices := map2 (fun pm r => slice pm r) perms rs in
  (filter (fun k => forallb (mem_nat k) slices) (seq 0 (length data)), store_ranges doms rs bs).

Definition sign_of (signs : list Qc) (k : nat) : Qc := nth k signs 1.

(* b[i] = sum over the selected samples of hat * sign, times 1/M *)
Definition recomputed (data : list (list Qc)) (signs : list Qc) (perms : list (list nat)) (bs : list binmap)
  (t : list hatdom) : Qc * list binmap :=
  let '(idx, bs') := find_data data perms bs (map (fun u => (h_lo u, h_hi u)) t) in
  (sumQ (map (fun k => hat_nd hat_scalar t (nth k data []) * sign_of signs k) idx) * (1 / qc_of_nat (length data)), bs').

(* the loop over the points: copied values stay unless they are exactly 0 *)
Fixpoint reuse_entries (data : list (list Qc)) (signs : list Qc) (perms : list (list nat))
  (oldhats : list (list hatdom)) (oldb : list Qc) (bs : list binmap) (hats : list (list hatdom)) : list Qc * list binmap :=
  match hats with
  | [] => ([], bs)
  | t :: r =>
      let c := copied_value oldhats oldb t in
      let '(v, bs1) := if Qc_eqb c 0 then recomputed data signs perms bs t else (c, bs) in
      let '(vs, bs2) := reuse_entries data signs perms oldhats oldb bs1 r in
      (v :: vs, bs2)
  end.

(* right-hand side without re-use: the two size-dependent code paths *)
Definition rhs_plain (thr : nat) (data : list (list Qc)) (signs : list Qc) (stripes : list (list Qc)) : list Qc :=
  if (length (grid_hats stripes) <? thr)%nat then rhs (grid_hats stripes) data signs else rhs_large stripes data signs.

(* calculate_B_dimension_wise with reuse_old_values=True *)
Definition calc_B (thr : nat) (data : list (list Qc)) (signs : list Qc) (perms : list (list nat))
  (st : bstate) (key : list Z) (stripes : list (list Qc)) : list Qc * bstate :=
  let hats := grid_hats stripes in
  let '(b, bs) :=
    if (thr <=? length hats)%nat then
      match find_closest (oldB st) stripes with
      | Some (_, (ost, ob)) => reuse_entries data signs perms (grid_hats ost) ob (bins st) hats
      | None => (rhs_plain thr data signs stripes, bins st)
      end
    else (rhs_plain thr data signs stripes, bins st) in
  (b, mkB (oldB st) (dict_set zlist_eqb key (stripes, b) (newB st)) bs).

(* post_processing: old_B := copy of new_B; new_B := {} *)
Definition post (st : bstate) : bstate := mkB (newB st) [] (bins st).

(* a history on one object: component grids are evaluated, post_processing ends a refinement step *)
Inductive event := EGrid (key : list Z) (stripes : list (list Qc)) | EPost.

Fixpoint run_reuse (thr : nat) (data : list (list Qc)) (signs : list Qc) (perms : list (list nat)) (st : bstate)
  (evs : list event) : list (list Qc) * bstate :=
  match evs with
  | [] => ([], st)
  | EGrid key stripes :: r =>
      let '(b, st1) := calc_B thr data signs perms st key stripes in
      let '(bs, st2) := run_reuse thr data signs perms st1 r in (b :: bs, st2)
  | EPost :: r => run_reuse thr data signs perms (post st) r
  end.

Fixpoint run_plain (thr : nat) (data : list (list Qc)) (signs : list Qc) (evs : list event) : list (list Qc) :=
  match evs with
  | [] => []
  | EGrid _ stripes :: r => rhs_plain thr data signs stripes :: run_plain thr data signs r
  | EPost :: r => run_plain thr data signs r
  end.

(* ------------------------------------------------------------------ verified checker for the data bins of a run *)
(* every sample whose coordinate d lies inside (lo, hi) sits at a sorted position inside the stored range *)
Definition bin_covers (data : list (list Qc)) (d : nat) (pm : list nat) (e : (Qc * Qc) * (nat * nat)) : bool :=
  let '((lo, hi), (a, b)) := e in
  forallb (fun ik => let '(i, k) := ik in
                     negb (Qc_ltb lo (coord data k d) && Qc_ltb (coord data k d) hi) || ((a <=? i)%nat && (i <? b)%nat))
          (combine (seq 0 (length pm)) pm).
Fixpoint check_bins_from (data : list (list Qc)) (d : nat) (perms : list (list nat)) (bs : list binmap) : bool :=
  match perms, bs with
  | pm :: perms', bm :: bs' => forallb (bin_covers data d pm) bm && check_bins_from data (S d) perms' bs'
  | _, [] => true
  | [], _ :: _ => false
  end.
Definition check_bins (data : list (list Qc)) (perms : list (list nat)) (bs : list binmap) : bool :=
  check_bins_from data 0 perms bs.
(* every sample index occurs in every index list *)
Definition check_perms (data : list (list Qc)) (perms : list (list nat)) : bool :=
  forallb (fun pm => forallb (fun k => mem_nat k pm) (seq 0 (length data))) perms.

(* ================================================================== large-grid interpolation path *)
(* get_grid_points_with_support(point, stripes, return_boundary=False): per dimension the (position, coordinate) of the
   two closest stripe coordinates (take_closest, bisect_left), boundary values dropped; a stripe with a single inner
   point contributes that point *)
Definition closest_idx (xs : list Qc) (x : Qc) : list (nat * Qc) :=
  let pos0 := bisect_left xs x in
  let pos := if (pos0 =? 0)%nat then 1%nat else pos0 in
  [((pos - 1)%nat, nth (pos - 1) xs 0); (pos, nth pos xs 0)].
Definition neighbours_1d (xs : list Qc) (x : Qc) : list (nat * Qc) :=
  match xs with
  | [_; p; _] => [(1%nat, p)]
  | _ => filter (fun ih => negb (Qc_eqb (snd ih) 0) && negb (Qc_eqb (snd ih) 1)) (closest_idx xs x)
  end.

(* get_grid_points_with_support(hat, stripes, skip_equal_point=True)[0], one dimension: take_closest around a grid
   coordinate, skipping the coordinate itself (not at the ends of the stripe) *)
Definition support_1d (xs : list Qc) (h : Qc) : Qc * Qc :=
  let pos0 := bisect_left xs h in
  let pos := if (pos0 =? 0)%nat then 1%nat else pos0 in
  let before := nth (pos - 1) xs 0 in
  let after := nth pos xs 0 in
  let lo := if Qc_eqb before h && negb ((pos - 1) =? 0)%nat then nth (pos - 2) xs 0 else before in
  let hi := if Qc_eqb after h && negb (pos =? length xs - 1)%nat then nth (pos + 1) xs 0 else after in
  (lo, hi).
Definition support_nd (stripes : list (list Qc)) (hat : list Qc) : list (Qc * Qc) := map2 support_1d stripes hat.

Fixpoint qlist_eqb (a b : list Qc) : bool :=
  match a, b with
  | [], [] => true
  | x :: a', y :: b' => Qc_eqb x y && qlist_eqb a' b'
  | _, _ => false
  end.
Definition scache := list (list Qc * list (Qc * Qc)).     (* hat_support_cache: grid point -> support *)

(* supports = [cache[hat] if hat in cache else get_grid_points_with_support(hat, ...)]; then cache[hat] = support *)
Definition support_cached (stripes : list (list Qc)) (c : scache) (hat : list Qc) : list (Qc * Qc) :=
  match dict_get qlist_eqb hat c with Some s => s | None => support_nd stripes hat end.
Fixpoint store_supports (c : scache) (hs : list (list Qc)) (ss : list (list (Qc * Qc))) : scache :=
  match hs, ss with
  | h :: hs', s :: ss' => store_supports (dict_set qlist_eqb h s c) hs' ss'
  | _, _ => c
  end.

(* hat_function_non_symmetric_vectorized for one hat *)
Definition hat_vec_nd (hat : list Qc) (sup : list (Qc * Qc)) (x : list Qc) : Qc :=
  prodQ (map2 (fun hs xd => hat_vec (mkH (fst (snd hs)) (fst hs) (snd (snd hs))) xd) (combine hat sup) x).

(* offsets[d] = prod(num_points[d+1:]) ; hat_index = inner(position - 1, offsets) *)
Fixpoint offsets (ns : list nat) : list nat :=
  match ns with [] => [] | _ :: r => fold_right Nat.mul 1%nat r :: offsets r end.
Definition hat_index (pos : list nat) (offs : list nat) : nat :=
  fold_right Nat.add 0%nat (map2 (fun p o => ((p - 1) * o)%nat) pos offs).

(* one evaluation point *)
Definition interp_large_point (stripes : list (list Qc)) (alphas : list Qc) (c : scache) (x : list Qc) : Qc * scache :=
  let nb := cross (map2 neighbours_1d stripes x) in                 (* [(position, coordinate) per dimension] per neighbour *)
  let hats := map (map snd) nb in
  let poss := map (map fst) nb in
  let sups := map (support_cached stripes c) hats in
  let c' := store_supports c hats sups in
  let offs := offsets (map (fun s => (length s - 2)%nat) stripes) in
  let vals := map2 (fun h s => hat_vec_nd h s x) hats sups in
  (sumQ (map2 (fun p v => nth (hat_index p offs) alphas 0 * v) poss vals), c').

(* one call: the cache lives for the batch of evaluation points *)
Fixpoint interp_large_from (stripes : list (list Qc)) (alphas : list Qc) (c : scache) (pts : list (list Qc)) : list Qc * scache :=
  match pts with
  | [] => ([], c)
  | x :: r => let '(v, c1) := interp_large_point stripes alphas c x in
              let '(vs, c2) := interp_large_from stripes alphas c1 r in (v :: vs, c2)
  end.
Definition interp_large (stripes : list (list Qc)) (alphas : list Qc) (pts : list (list Qc)) : list Qc :=
  fst (interp_large_from stripes alphas [] pts).

(* ================================================================== the Python list expressions behind two shapes of this model *)
(* old_point_list = [x for x in get_cross_product_list(old_grid_coord[key]) if 0.0 not in x and 1.0 not in x]
   (the stored stripes contain the domain boundary); proved equal to the points of grid_hats in the order of the stored b *)
Definition not01 (c : Qc) : bool := negb (Qc_eqb c 0) && negb (Qc_eqb c 1).
Definition old_point_list_py (stripes : list (list Qc)) : list (list Qc) :=
  filter (fun x => negb (memQ 0 x) && negb (memQ 1 x)) (cross stripes).

(* np.unique (sort, drop repetitions) and np.intersect1d; domain_data of find_data_in_domain:
   domain_data = sorted_data[0][r0]; for d in range(dim): domain_data = np.intersect1d(domain_data, sorted_data[d][r_d]);
   proved equal to the gather form used by find_data *)
Fixpoint ins_u (k : nat) (l : list nat) : list nat :=
  match l with
  | [] => [k]
  | j :: r => if (k <? j)%nat then k :: l else if (k =? j)%nat then l else j :: ins_u k r
  end.
Definition unique_sorted (l : list nat) : list nat := fold_right ins_u [] l.
Definition intersect1d (a b : list nat) : list nat := filter (fun k => mem_nat k b) (unique_sorted a).
Definition domain_data_py (slices : list (list nat)) : list nat :=
  match slices with
  | [] => []
  | s0 :: _ => fold_left intersect1d slices s0
  end.
