(* Model of the 1D refinement structures of the dimension-wise strategy — definitions only.
   sparseSpACE/RefinementObject.py  (RefinementObjectSingleDimension),
   sparseSpACE/RefinementContainer.py (RefinementContainer, MetaRefinementContainer),
   sparseSpACE/spatiallyAdaptiveSingleDimension2.py (rebalance / rebalance_interval, update_coarsening_values),
   sparseSpACE/spatiallyAdaptiveBase.py (refine: the margin selection loop).
   Coordinates are exact rationals (Qc); the mid point of GlobalTrapezoidalGrid is 0.5 * (end + start). *)
From Coq Require Import ZArith List Bool QArith Qcanon Arith.
From SG Require Import Base.QcUtil.
Import ListNotations.
Open Scope Z_scope.

(* one RefinementObjectSingleDimension: [start,end], levels (left point, right point), coarsening_level *)
Record ival := mkIval { i_start : Qc; i_end : Qc; i_l0 : Z; i_l1 : Z; i_coarse : Z }.

Definition ival_maxlev (iv : ival) : Z := Z.max (i_l0 iv) (i_l1 iv).

Definition mid_point (a b : Qc) : Qc := (Qchalf * (b + a))%Qc.

(* RefinementObjectSingleDimension.refine: the two children.  (`assert start < mid < end` holds whenever
   start < end, which the constructor asserts; it is therefore not modelled as a failure.) *)
Definition refine_obj (iv : ival) : ival * ival :=
  let cv := if i_coarse iv =? 0 then 0 else i_coarse iv - 1 in
  let mid := mid_point (i_start iv) (i_end iv) in
  let nl := ival_maxlev iv + 1 in
  (mkIval (i_start iv) mid (i_l0 iv) nl cv, mkIval mid (i_end iv) nl (i_l1 iv) cv).

Definition children (iv : ival) : list ival := let '(l, r) := refine_obj iv in [l; r].

(* ------------------------------------------------------------------------------------------------ *)
(* RefinementContainer: refinementObjects, popArray, startNewObjects, searchPosition.
   The benefit attribute of the objects existing at the start of a step is passed separately
   (list aligned with the positions); new objects carry no benefit and are never inspected. *)
Record cont := mkCont { c_objs : list ival; c_pop : list nat; c_startNew : nat; c_search : nat }.

Definition cont_of_tree (t : list ival) : cont := mkCont t [] 0 0.

(* clear_new_objects *)
Definition cont_clear_new (c : cont) : cont :=
  mkCont (c_objs c) (c_pop c) (length (c_objs c)) (c_search c).

(* get_next_object_for_refinement(tolerance) *)
Definition cont_get_next (ben : list Qc) (tol : Qc) (c : cont) : option nat * cont :=
  let e := if Nat.eqb (c_startNew c) 0 then length (c_objs c) else c_startNew c in
  match find (fun i => Qc_leb tol (nth i ben 0%Qc)) (seq (c_search c) (e - c_search c)) with
  | Some i => (Some i, mkCont (c_objs c) (c_pop c) (c_startNew c) (S i))
  | None => (None, c)
  end.

(* refine(object_id): remember where new objects start, prepare_remove, add the children at the end.
   (object_id always comes from get_next_object_for_refinement, hence is in range; out of range = unchanged) *)
Definition cont_refine (c : cont) (i : nat) : cont :=
  let sn := if Nat.eqb (c_startNew c) 0 then length (c_objs c) else c_startNew c in
  match nth_error (c_objs c) i with
  | Some iv => mkCont (c_objs c ++ children iv) (c_pop c ++ [i]) sn (c_search c)
  | None => c
  end.

(* sorted(popArray) on naturals: insertion sort *)
Fixpoint insert_nat (x : nat) (l : list nat) : list nat :=
  match l with
  | [] => [x]
  | y :: r => if Nat.leb x y then x :: l else y :: insert_nat x r
  end.
Definition sort_nat (l : list nat) : list nat := fold_right insert_nat [] l.

Definition remove_at {A} (i : nat) (l : list A) : list A := firstn i l ++ skipn (S i) l.

(* sorted(objects, key=start): stable insertion sort *)
Fixpoint insert_by_start (x : ival) (l : list ival) : list ival :=
  match l with
  | [] => [x]
  | y :: r => if Qc_leb (i_start x) (i_start y) then x :: l else y :: insert_by_start x r
  end.
Definition sort_by_start (l : list ival) : list ival := fold_right insert_by_start [] l.

(* apply_remove(sort=True): pop the positions in descending order, then sort by start *)
Definition cont_apply_remove (c : cont) : cont :=
  let ps := rev (sort_nat (c_pop c)) in
  let '(objs, sn) := fold_left (fun (acc : list ival * nat) p =>
                                  (remove_at p (fst acc), if Nat.eqb (snd acc) 0 then 0%nat else Nat.pred (snd acc)))
                               ps (c_objs c, c_startNew c) in
  mkCont (sort_by_start objs) [] sn (c_search c).

(* refinement_postprocessing (searchPosition = 0) ; reinit_new_objects (startNewObjects = 0) *)
Definition cont_postprocess (c : cont) : cont := mkCont (c_objs c) (c_pop c) (c_startNew c) 0.
Definition cont_reinit (c : cont) : cont := mkCont (c_objs c) (c_pop c) 0 (c_search c).

(* get_max_benefit / get_max_coarsening (both start from 0) *)
Definition max_benefit_list (ben : list Qc) : Qc := fold_left (fun m b => if Qc_ltb m b then b else m) ben 0%Qc.
Definition cont_max_coarsening (objs : list ival) : Z := fold_left (fun m iv => Z.max m (i_coarse iv)) objs 0.

(* ------------------------------------------------------------------------------------------------ *)
(* MetaRefinementContainer: one container per dimension + curContainer *)
Record meta := mkMeta { m_conts : list cont; m_cur : nat }.

Fixpoint replace_nth {A} (n : nat) (x : A) (l : list A) : list A :=
  match l, n with
  | [], _ => []
  | _ :: r, O => x :: r
  | y :: r, S n' => y :: replace_nth n' x r
  end.

(* the while loop of MetaRefinementContainer.get_next_object_for_refinement, by recursion over the containers
   from curContainer on: first container with a hit *)
Fixpoint meta_scan (bens : list (list Qc)) (tol : Qc) (cs : list cont) (k : nat) : option (nat * nat * cont) :=
  match cs with
  | [] => None
  | c :: r =>
    match cont_get_next (nth k bens []) tol c with
    | (Some i, c') => Some (k, i, c')
    | (None, _) => meta_scan bens tol r (S k)
    end
  end.

Definition meta_get_next (bens : list (list Qc)) (tol : Qc) (m : meta) : option (nat * nat) * meta :=
  match meta_scan bens tol (skipn (m_cur m) (m_conts m)) (m_cur m) with
  | Some (k, i, c') => (Some (k, i), mkMeta (replace_nth k c' (m_conts m)) k)
  | None => (None, mkMeta (m_conts m) (length (m_conts m)))
  end.

Definition meta_refine (m : meta) (d i : nat) : meta :=
  match nth_error (m_conts m) d with
  | Some c => mkMeta (replace_nth d (cont_refine c i) (m_conts m)) (m_cur m)
  | None => m
  end.

(* SpatiallyAdaptivBase.refine: `while True` over get_next_object_for_refinement / do_refinement.
   Fuel-indexed; None = out of fuel (proved unreachable for fuel = refine_fuel, Proofs/RefSelect.v). *)
Fixpoint refine_loop (fuel : nat) (bens : list (list Qc)) (tol : Qc) (m : meta) : option meta :=
  match fuel with
  | O => None
  | S f =>
    match meta_get_next bens tol m with
    | (Some (d, i), m') => refine_loop f bens tol (meta_refine m' d i)
    | (None, m') => Some m'
    end
  end.

Definition refine_fuel (m : meta) : nat := S (fold_right (fun c n => (length (c_objs c) + n)%nat) 0%nat (m_conts m)).

Definition meta_max_benefit (bens : list (list Qc)) : Qc :=
  fold_left (fun m ben => let b := max_benefit_list ben in if Qc_ltb m b then b else m) bens 0%Qc.

(* the part of refine() + refinement_postprocessing that concerns the containers (before rebalancing):
   clear_new_objects, selection loop, apply_remove(sort=True), refinement_postprocessing, reinit_new_objects *)
Definition meta_refine_step (margin : Qc) (bens : list (list Qc)) (m : meta) : option meta :=
  let m1 := mkMeta (map cont_clear_new (m_conts m)) (m_cur m) in
  let tol := (meta_max_benefit bens * margin)%Qc in
  match refine_loop (refine_fuel m1) bens tol m1 with
  | None => None
  | Some m2 =>
    Some (mkMeta (map (fun c => cont_reinit (cont_postprocess (cont_apply_remove c))) (m_conts m2)) 0)
  end.

(* ------------------------------------------------------------------------------------------------ *)
(* rebalance_interval.  The float comparison
      abs(pos/(n-2) - 0.5) > abs(pos1/(n-2) - 0.5) + safety_factor
   is a parameter `dec pos pos1 (n-2)` of the model (see rebalance_dec_exact for its exact-arithmetic value). *)

Definition set_levels (iv : ival) (a b : Z) : ival := mkIval (i_start iv) (i_end iv) a b (i_coarse iv).

(* the enumerate loop that finds position_level, position_level_1_left, position_level_1_right;
   state (pl, pl1l, pl1r); None = one of the asserts inside the loop fails *)
Fixpoint rb_scan (level : Z) (seg : list ival) (i : nat) (st : option nat * option nat * option nat)
  : option (option nat * option nat * option nat) :=
  match seg with
  | [] => Some st
  | iv :: r =>
    let '(pl, pl1l, pl1r) := st in
    let pl' := if i_l1 iv =? level then Some i else pl in
    if i_l1 iv =? level + 1 then
      match pl1l, pl' with
      | None, None => rb_scan level r (S i) (pl', Some i, pl1r)
      | _, Some _ => match pl1r with
                     | None => rb_scan level r (S i) (pl', pl1l, Some i)
                     | Some _ => None      (* assert position_level_1_right is None *)
                     end
      | Some _, None => None               (* assert False *)
      end
    else rb_scan level r (S i) (pl', pl1l, pl1r)
  end.

(* per shared point j (between object j and j+1 of the segment) the level change of the first rotation branch;
   l1s = levels[1] of the objects j = 0 .. n-2 as they are before the loop (the loop reads levels[1] of object j
   before modifying it). Returns (deltas, position_new_leaf (relative), asserts ok) *)
Fixpoint rot_right_scan (level : Z) (pl plr : nat) (j : nat) (l1s : list Z) (reached : bool)
  : list Z * option nat * bool :=
  match l1s with
  | [] => ([], None, true)
  | x :: r =>
    if Nat.leb j pl then
      let '(ds, p, ok) := rot_right_scan level pl plr (S j) r reached in (1 :: ds, p, ok)
    else
      let hit := x =? level + 1 in
      let reached' := reached || hit in
      let '(ds, p, ok) := rot_right_scan level pl plr (S j) r reached' in
      ((if reached' then -1 else 0) :: ds,
       match p with Some _ => p | None => if hit then Some j else None end,
       (if hit then Nat.eqb j plr else true) && ok)
  end.

(* second rotation branch: for j >= pl: +1 ; for j < pl: -1 while new_leaf_reached (initially True), and the test
   `levels[1] == level` is made AFTER the decrement *)
Fixpoint rot_left_scan (level : Z) (pl pll : nat) (j : nat) (l1s : list Z) (reached : bool)
  : list Z * option nat * bool :=
  match l1s with
  | [] => ([], None, true)
  | x :: r =>
    if Nat.leb pl j then
      let '(ds, p, ok) := rot_left_scan level pl pll (S j) r reached in (1 :: ds, p, ok)
    else
      let d := if reached then -1 else 0 in
      let hit := x + d =? level in
      let reached' := if hit then false else reached in
      let '(ds, p, ok) := rot_left_scan level pl pll (S j) r reached' in
      (d :: ds,
       match p with Some _ => p | None => if hit then Some j else None end,
       (if hit then Nat.eqb j pll else true) && ok)
  end.

(* levels[1] of object j and levels[0] of object j+1 change by the j-th delta *)
Fixpoint apply_deltas (prev : Z) (ds : list Z) (seg : list ival) : list ival :=
  match seg with
  | [] => []
  | iv :: r =>
    let d := match ds with [] => 0 | d :: _ => d end in
    set_levels iv (i_l0 iv + prev) (i_l1 iv + d) :: apply_deltas d (tl ds) r
  end.

Definition splice (objs : list ival) (s e : nat) (seg' : list ival) : list ival :=
  firstn s objs ++ seg' ++ skipn e objs.

Fixpoint rebalance_interval (fuel : nat) (dec : nat -> nat -> nat -> bool) (s e : nat) (level : Z)
         (objs : list ival) : option (list ival) :=
  if Nat.leb (e - s) 2 then Some objs else
  match fuel with
  | O => None
  | S f =>
    let n := (e - s)%nat in
    let seg := firstn n (skipn s objs) in
    match rb_scan level seg 0 (None, None, None) with
    | None => None
    | Some (None, _, _) => None                           (* assert position_level is not None *)
    | Some (Some pl, pl1l, pl1r) =>
      let l1s := map i_l1 (firstn (n - 1) seg) in
      let right := match pl1r with Some r => if dec pl r (n - 2)%nat then Some r else None | None => None end in
      match right with
      | Some r =>
        if negb (Nat.ltb pl r) then None else                 (* assert position_level < position_level_1_right *)
        match rot_right_scan level pl r 0 l1s false with
        | (ds, Some p, true) =>
          let objs1 := splice objs s e (apply_deltas 0 ds seg) in
          match rebalance_interval f dec s (s + p + 1) (level + 1) objs1 with
          | Some objs2 => rebalance_interval f dec (s + p + 1) e (level + 1) objs2
          | None => None
          end
        | _ => None
        end
      | None =>
        let left := match pl1l with Some l => if dec pl l (n - 2)%nat then Some l else None | None => None end in
        match left with
        | Some l =>
          if negb (Nat.ltb l pl) then None else               (* assert position_level_1_left < position_level *)
          match rot_left_scan level pl l 0 l1s true with
          | (ds, Some p, true) =>
            let objs1 := splice objs s e (apply_deltas 0 ds seg) in
            match rebalance_interval f dec s (s + p + 1) (level + 1) objs1 with
            | Some objs2 => rebalance_interval f dec (s + p + 1) e (level + 1) objs2
            | None => None
            end
          | _ => None
          end
        | None =>
          match rebalance_interval f dec s (s + pl + 1) (level + 1) objs with
          | Some objs2 => rebalance_interval f dec (s + pl + 1) e (level + 1) objs2
          | None => None
          end
        end
      end
    end
  end.

(* rebalance(d) *)
Definition rebalance (dec : nat -> nat -> nat -> bool) (objs : list ival) : option (list ival) :=
  rebalance_interval (S (length objs)) dec 0 (length objs) 1 objs.

(* the comparison in exact arithmetic: |pos/m - 1/2| > |pos1/m - 1/2| + sf *)
Definition qc_of_nat (n : nat) : Qc := qc_of_Z (Z.of_nat n).
Definition rebalance_dec_exact (sf : Qc) (pos pos1 m : nat) : bool :=
  Qc_ltb (Qc_abs (qc_of_nat pos1 / qc_of_nat m - Qchalf) + sf)%Qc (Qc_abs (qc_of_nat pos / qc_of_nat m - Qchalf))%Qc.

(* ------------------------------------------------------------------------------------------------ *)
(* update_coarsening_values(container, d): returns (objects with coarsening = lmax_d - max(levels), update value) *)
Definition update_coarsening (lmax_d : Z) (objs : list ival) : list ival * Z :=
  let objs' := map (fun iv => mkIval (i_start iv) (i_end iv) (i_l0 iv) (i_l1 iv) (lmax_d - ival_maxlev iv)) objs in
  (objs', - fold_left (fun u iv => if i_coarse iv <? u then i_coarse iv else u) objs' 0).

(* container.update_values(v): coarsening_level += v for every object *)
Definition update_values (v : Z) (objs : list ival) : list ival :=
  map (fun iv => mkIval (i_start iv) (i_end iv) (i_l0 iv) (i_l1 iv) (i_coarse iv + v)) objs.

(* ------------------------------------------------------------------------------------------------ *)
(* initialize_refinement: _initialize_levels / _initialize_points recurse on the index range (i1,i2) of an array
   of 2^maxv+1 entries, always halving; the recursion depth is maxv. Inner levels / inner points of a range: *)
Fixpoint init_levels (depth : nat) (level : Z) : list Z :=
  match depth with
  | O => []
  | S k => init_levels k (level + 1) ++ (level + 1) :: init_levels k (level + 1)
  end.
Fixpoint init_points (depth : nat) (a b : Qc) : list Qc :=
  match depth with
  | O => []
  | S k => let m := mid_point a b in init_points k a m ++ m :: init_points k m b
  end.

Fixpoint mk_intervals (p0 : Qc) (l0 : Z) (pts : list (Qc * Z)) : list ival :=
  match pts with
  | [] => []
  | (p, l) :: r => mkIval p0 p l0 l 0 :: mk_intervals p l r
  end.

Definition init_tree (maxv : nat) (a b : Qc) : list ival :=
  mk_intervals a 0 (combine (init_points maxv a b ++ [b]) (init_levels maxv 0 ++ [0])).

(* ------------------------------------------------------------------------------------------------ *)
(* executable well-formedness checker (C06), soundness in Proofs/RefTreeCheck.v *)
Definition point_levels (t : list ival) : list Z :=
  match t with [] => [] | iv :: _ => i_l0 iv :: map i_l1 t end.

Fixpoint chain_ok (x : Qc) (l : Z) (t : list ival) : bool :=
  match t with
  | [] => true
  | iv :: r => Qc_eqb (i_start iv) x && (i_l0 iv =? l) && Qc_ltb (i_start iv) (i_end iv) && chain_ok (i_end iv) (i_l1 iv) r
  end.

Definition first_lower (v : Z) (l : list Z) : option Z := find (fun x => x <? v) l.

(* binary-tree level condition at every inner point: of the nearest lower-level points to the left and to the
   right, the higher level is exactly one less *)
Fixpoint tree_levels_ok (before_rev : list Z) (rest : list Z) : bool :=
  match rest with
  | [] => true
  | [v] => true                              (* the right end point *)
  | v :: ((_ :: _) as after) =>
    match before_rev with
    | [] => tree_levels_ok [v] after          (* the left end point *)
    | _ => match first_lower v before_rev, first_lower v after with
           | Some x, Some y => (Z.max x y =? v - 1) && tree_levels_ok (v :: before_rev) after
           | _, _ => false
           end
    end
  end.

Definition tree_ok (a b : Qc) (lmax_d : Z) (t : list ival) : bool :=
  match t with
  | [] => false
  | iv :: _ =>
    chain_ok a 0 t && Qc_eqb (i_end (last t iv)) b && (i_l1 (last t iv) =? 0)
    && tree_levels_ok [] (point_levels t)
    && forallb (fun iv => (i_coarse iv =? lmax_d - ival_maxlev iv) && (0 <=? i_coarse iv)) t
  end.
