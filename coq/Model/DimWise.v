(* Model of sparseSpACE/spatiallyAdaptiveSingleDimension2.py (SpatiallyAdaptiveSingleDimensions2), GlobalTrapezoidalGrid,
   versions 2, 3, 6, 7, 8 — definitions only.
   State: one refinement container per dimension (Model/RefTree.v), lmax per dimension, lmin, the C01 scheme.
   Not modelled: versions 0,1,4,5, chebyshev points, weighted mid points, force_balanced_refinement_tree,
   the children/NodeInfo lists of get_point_coord_for_each_dim, the caches max_level_dict / subtraction_value_cache
   (both are emptied in every refinement_postprocessing; the model recomputes). *)
From Coq Require Import ZArith List Bool QArith Qcanon Arith.
From SG Require Import Base.QcUtil Model.CombiScheme Model.RefTree.
Import ListNotations.
Open Scope Z_scope.

Record dw_opts := mkOpts {
  o_version : Z;
  o_rebal : bool;
  o_boundary : bool;
  o_margin : Qc;
  (* binary64 decisions taken as inputs: the rebalancing test (pos, pos1, n-2) and the version-3 rounding test
     `sv/dim - int(sv/dim) > d/dim` as a function of (sv, d) *)
  o_dec : nat -> nat -> nat -> bool;
  o_v3 : Z -> nat -> bool
}.

Record dw_state := mkSt {
  st_dim : nat;
  st_lmin : Z;                 (* self.lmin[d], equal in all dimensions and never changed *)
  st_lmax : list Z;            (* self.lmax *)
  st_meta : meta;              (* self.refinement *)
  st_scheme : scheme           (* self.combischeme *)
}.

Definition st_trees (st : dw_state) : list (list ival) := map c_objs (m_conts (st_meta st)).

(* ------------------------------------------------------------------------------------------------ *)
(* initialize_refinement (+ init_adaptive_combi_scheme); asserts: lmax > 1 *)
Definition dw_init (dim : nat) (lmin lmax : Z) (a b : list Qc) : option dw_state :=
  if (1 <? lmax) && (Nat.eqb (length a) dim) && (Nat.eqb (length b) dim) then
    match init_scheme dim lmax lmin with
    | Some s =>
      Some (mkSt dim lmin (repeat lmax dim)
                 (mkMeta (map (fun ab => cont_of_tree (init_tree (Z.to_nat lmax) (fst ab) (snd ab))) (combine a b)) 0)
                 s)
    | None => None
    end
  else None.

(* ------------------------------------------------------------------------------------------------ *)
(* raise_lmax(d, value): lmax[d] += value, then update the scheme until no active index qualifies *)
Definition list_max (l : list Z) : Z := fold_right Z.max 0 l.

Fixpoint all_gt (lmaxs : list Z) (index : lv) : bool :=
  match lmaxs, index with
  | x :: r, y :: r' => (y <? x) && all_gt r r'
  | _, _ => true
  end.

Definition raise_cond (lmaxs : list Z) (lmin : Z) (dim : nat) (index : lv) : bool :=
  (sumZ index <? list_max lmaxs + lmin * (Z.of_nat dim - 1)) && all_gt lmaxs index.

(* one pass of the for loop over a snapshot of the active set *)
Definition raise_pass (lmaxs : list Z) (lmin : Z) (dim : nat) (s : scheme) : scheme * nat :=
  fold_left (fun (acc : scheme * nat) idx =>
               if raise_cond lmaxs lmin dim idx then (update (fst acc) idx, S (snd acc)) else acc)
            (s_active s) (s, 0%nat).

Fixpoint raise_loop (fuel : nat) (lmaxs : list Z) (lmin : Z) (dim : nat) (s : scheme) : option scheme :=
  match fuel with
  | O => None
  | S f => let '(s', n) := raise_pass lmaxs lmin dim s in
           if Nat.eqb n 0 then Some s' else raise_loop f lmaxs lmin dim s'
  end.

Definition raise_fuel (lmaxs : list Z) : nat := Z.to_nat (sumZ lmaxs + 4).

Definition raise_lmax (d : nat) (value : Z) (lmaxs : list Z) (lmin : Z) (dim : nat) (s : scheme)
  : option (list Z * scheme) :=
  let lmaxs' := bump d value lmaxs in
  match raise_loop (raise_fuel lmaxs') lmaxs' lmin dim s with
  | Some s' => Some (lmaxs', s')
  | None => None
  end.

(* ------------------------------------------------------------------------------------------------ *)
(* refinement_postprocessing after the container part: rebalancing, then per dimension
   update_coarsening_values / raise_lmax / update_values *)
Fixpoint opt_map {A B} (f : A -> option B) (l : list A) : option (list B) :=
  match l with
  | [] => Some []
  | x :: r => match f x, opt_map f r with Some y, Some r' => Some (y :: r') | _, _ => None end
  end.

Fixpoint coarsen_dims (d : nat) (trees : list (list ival)) (lmaxs : list Z) (lmin : Z) (dim : nat) (s : scheme)
  : option (list (list ival) * list Z * scheme) :=
  match trees with
  | [] => Some ([], lmaxs, s)
  | t :: r =>
    let '(t1, upd) := update_coarsening (nth d lmaxs 0) t in
    if 0 <? upd then
      match raise_lmax d upd lmaxs lmin dim s with
      | Some (lmaxs', s') =>
        match coarsen_dims (S d) r lmaxs' lmin dim s' with
        | Some (r', lm, s'') => Some (update_values upd t1 :: r', lm, s'')
        | None => None
        end
      | None => None
      end
    else
      match coarsen_dims (S d) r lmaxs lmin dim s with
      | Some (r', lm, s'') => Some (t1 :: r', lm, s'')
      | None => None
      end
  end.

(* one refinement step: refine() of the base class with refinement_postprocessing of the dimension-wise class.
   bens = the benefit of every object (per dimension, per position) at the start of the step.
   None = out of fuel or an assertion of the Python fails. *)
Definition dw_step (o : dw_opts) (bens : list (list Qc)) (st : dw_state) : option dw_state :=
  match meta_refine_step (o_margin o) bens (st_meta st) with
  | None => None
  | Some m1 =>
    match (if o_rebal o then opt_map (fun c => rebalance (o_dec o) (c_objs c)) (m_conts m1)
           else Some (map c_objs (m_conts m1))) with
    | None => None
    | Some trees2 =>
      match coarsen_dims 0 trees2 (st_lmax st) (st_lmin st) (st_dim st) (st_scheme st) with
      | None => None
      | Some (trees3, lmaxs, s) =>
        Some (mkSt (st_dim st) (st_lmin st) lmaxs
                   (mkMeta (map (fun ct => mkCont (snd ct) (c_pop (fst ct)) (c_startNew (fst ct)) (c_search (fst ct)))
                                (combine (m_conts m1) trees3)) (m_cur m1))
                   s)
      end
    end
  end.

Fixpoint dw_run (o : dw_opts) (steps : list (list (list Qc))) (st : dw_state) : option dw_state :=
  match steps with
  | [] => Some st
  | bens :: r => match dw_step o bens st with Some st' => dw_run o r st' | None => None end
  end.

(* ------------------------------------------------------------------------------------------------ *)
(* get_max_level(container, obj, i, d) *)
Fixpoint scan_max (own : Z) (ls : list Z) (m : Z) : Z :=
  match ls with
  | [] => m
  | x :: r => let m' := Z.max m x in if x <=? own then m' else scan_max own r m'
  end.

Definition get_max_level (objs : list ival) (i : nat) : Z :=
  let own := i_l1 (nth i objs (mkIval 0 0 0 0 0)) in
  let left := map i_l0 (rev (skipn 1 (firstn (S i) objs))) in     (* objects i, i-1, ..., 1 *)
  let right := map i_l1 (skipn (S i) objs) in                     (* objects i+1, ... *)
  scan_max own right (scan_max own left own).

Definition count_ge (mcs : list Z) (t : Z) : Z := Z.of_nat (length (filter (fun c => t <=? c) mcs)).

(* version 7 *)
Fixpoint v7_loop (fuel : nat) (mcs : list Z) (sv m ps : Z) : option Z :=
  match fuel with
  | O => None
  | S f =>
    let ps' := ps + count_ge mcs (sv - m) in
    let m' := if ps' <=? sv then m + 1 else m in
    if sv <=? ps' then Some m' else v7_loop f mcs sv m' ps'
  end.

(* versions 6 and 8 (cap = None for version 6, Some (max_level - 1) for version 8) *)
Definition capped (cap : option Z) (x : Z) : Z := match cap with Some c => Z.min c x | None => x end.
Fixpoint v68_loop (fuel : nat) (cap : option Z) (mcs : list Z) (d : nat) (sv m ps : Z) : option Z :=
  match fuel with
  | O => None
  | S f =>
    let ps' := if 0 <? m then ps + capped cap (count_ge mcs (sv - (m - 1))) else ps in
    let pst := capped cap (count_ge (firstn (S d) mcs) (sv - m)) in
    let m' := if ps' + pst <=? sv then m + 1 else m in
    if sv <=? ps' + pst then Some m' else v68_loop f cap mcs d sv m' ps'
  end.

Definition sub_fuel (sv : Z) : nat := Z.to_nat (2 * Z.max sv 0 + 4).

(* modify_according_to_levelvec(subtraction_value, d, max_level, levelvec) with l = levelvec[d] *)
Definition modify_according_to_levelvec (sv l max_level lmax_d lmin : Z) : Z :=
  let sv1 := if (max_level <=? l - sv) && (l <? lmax_d) then l - max_level + 1 else sv in
  Z.min sv1 (l - lmin).

(* version 3: subtraction_value /= dim; rounding by the float test (input o_v3) *)
Definition v3_round (dec : Z -> nat -> bool) (dim : nat) (d : nat) (sv : Z) : Z :=
  let n := Z.of_nat dim in
  if sv <? 0 then Z.quot sv n            (* the fractional part is <= 0: int() truncates *)
  else if dec sv d then (sv + n - 1) / n else sv / n.
Definition v3_dec_exact (dim : nat) (sv : Z) (d : nat) : bool := Z.of_nat d <? sv mod Z.of_nat dim.

(* get_subtraction_value(refineObj, container, i, max_coarsenings, d, levelvec); l = levelvec[d].
   None = unmodelled version or a version loop out of fuel *)
Definition get_subtraction_value (o : dw_opts) (dim : nat) (lmin : Z) (lmax_d : Z) (mcs : list Z)
           (objs : list ival) (i d : nat) (l : Z) : option Z :=
  let max_level := get_max_level objs i in
  let sv := lmax_d - max_level in
  let v := o_version o in
  if v =? 2 then Some sv
  else if v =? 3 then Some (if 2 <? max_level then v3_round (o_v3 o) dim d sv else sv)
  else if v =? 6 then
    match v68_loop (sub_fuel sv) None mcs d sv 0 0 with
    | Some m => Some (modify_according_to_levelvec m l max_level lmax_d lmin) | None => None end
  else if v =? 7 then
    match v7_loop (sub_fuel sv) mcs sv 0 0 with
    | Some m => Some (modify_according_to_levelvec m l max_level lmax_d lmin) | None => None end
  else if v =? 8 then
    match v68_loop (sub_fuel sv) (Some (max_level - 1)) mcs d sv 0 0 with
    | Some m => Some (modify_according_to_levelvec m l max_level lmax_d lmin) | None => None end
  else None.

(* the per-dimension stripe of get_point_coord_for_each_dim: (coordinate, level) of the selected points.
   sub i = subtraction value of object i (abstract here, see stripe_dim) *)
Fixpoint stripe_sel (sub : nat -> option Z) (l : Z) (i : nat) (objs : list ival) : option (list (Qc * Z)) :=
  match objs with
  | [] => Some []
  | iv :: r =>
    match sub i, stripe_sel sub l (S i) r with
    | Some sv, Some rest => Some (if i_l1 iv <=? Z.max (l - sv) 1 then (i_end iv, i_l1 iv) :: rest else rest)
    | _, _ => None
    end
  end.

Definition stripe_with (sub : nat -> option Z) (l : Z) (objs : list ival) : option (list (Qc * Z)) :=
  match objs with
  | [] => None                                   (* refine_container_objects[0] raises IndexError *)
  | iv0 :: _ => match stripe_sel sub l 0 objs with
                | Some rest => Some ((i_start iv0, i_l0 iv0) :: rest)
                | None => None
                end
  end.

Definition max_coarsenings (st : dw_state) : list Z := map cont_max_coarsening (st_trees st).

Definition stripe_dim (o : dw_opts) (st : dw_state) (d : nat) (l : Z) : option (list (Qc * Z)) :=
  let objs := nth d (st_trees st) [] in
  stripe_with (fun i => get_subtraction_value o (st_dim st) (st_lmin st) (nth d (st_lmax st) 0)
                                              (max_coarsenings st) objs i d l) l objs.

(* get_point_coord_for_each_dim(levelvec): coordinates and levels per dimension *)
Definition get_point_coord_for_each_dim (o : dw_opts) (st : dw_state) (levelvec : lv)
  : option (list (list (Qc * Z))) :=
  opt_map (fun dl => stripe_dim o st (fst dl) (snd dl)) (combine (seq 0 (st_dim st)) levelvec).

(* get_points_component_grid(levelvec): cross product of the stripes, without the end points when boundary=False *)
Fixpoint crossQ (ls : list (list Qc)) : list (list Qc) :=
  match ls with
  | [] => [[]]
  | a :: r => flat_map (fun x => map (cons x) (crossQ r)) a
  end.

Definition strip_ends {A} (l : list A) : list A := removelast (tl l).

Definition get_points_component_grid (o : dw_opts) (st : dw_state) (levelvec : lv) : option (list (list Qc)) :=
  match get_point_coord_for_each_dim o st levelvec with
  | Some stripes =>
    let cs := map (fun s => let c := map fst s in if o_boundary o then c else strip_ends c) stripes in
    Some (crossQ cs)
  | None => None
  end.
