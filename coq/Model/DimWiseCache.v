(* Model of the per-step cache max_level_dict of SpatiallyAdaptiveSingleDimensions2 (get_max_level / get_subtraction_value):
   keys are (dimension, container position), the value is the maximum level found by the scan of get_max_level.
   The dictionary is emptied in refinement_postprocessing and (since the repair of the re-run defect) in
   initialize_refinement - definitions only. *)
From Coq Require Import ZArith List Bool Arith.
From SG Require Import Model.RefTree Model.DimWise.
Import ListNotations.
Open Scope Z_scope.

Definition mlcache := list (nat * nat * Z).

Fixpoint cache_get (c : mlcache) (d i : nat) : option Z :=
  match c with
  | [] => None
  | (d', i', v) :: r => if Nat.eqb d d' && Nat.eqb i i' then Some v else cache_get r d i
  end.

(* get_max_level(container, obj, i, d): `if not (d, i) in self.max_level_dict: scan ... else cached value`;
   get_subtraction_value stores the result under (d, i) *)
Definition get_max_level_cached (c : mlcache) (objs : list ival) (d i : nat) : Z * mlcache :=
  match cache_get c d i with
  | Some v => (v, c)
  | None => let v := get_max_level objs i in (v, (d, i, v) :: c)
  end.

(* a sequence of queries (d, i) against the trees of one state *)
Fixpoint run_queries (c : mlcache) (trees : list (list ival)) (qs : list (nat * nat)) : list Z * mlcache :=
  match qs with
  | [] => ([], c)
  | (d, i) :: r =>
    let '(v, c1) := get_max_level_cached c (nth d trees []) d i in
    let '(vs, c2) := run_queries c1 trees r in (v :: vs, c2)
  end.
