(* Model of the interpolation side of the extend-split strategy — definitions only.
   Python sources followed:
     sparseSpACE/StandardCombi.py                 __call__ (sum over the scheme of coefficient * interpolate_points)
     sparseSpACE/spatiallyAdaptiveExtendSplit.py  interpolate_points (get_points_assignement_to_areas, coarsen_grid per
                                                  area, interpolation on the area grid when do_compute, zeros otherwise)
     sparseSpACE/GridOperation.py                 interpolate_points_component_grid / Interpolation.interpolate_points
                                                  (multilinear interpolation on grid.coordinate_array of the area)
   The area grid of a coarsened (relative) level vector l on the box [s,e] is the trapezoidal grid with boundary:
   np.linspace(s_d, e_d, 2^l_d + 1) per dimension (Model/StdCombi.v grid1_full); exact arithmetic over Qc.
   A point is interpolated on the area get_points_in_areas_recursive assigns it to; the calls of coarsen_grid in scheme
   order on that area are exactly coarsen_all with the area's current dictionary. *)
From Coq Require Import ZArith List Bool QArith Qcanon.
From SG Require Import Base.QcUtil Model.CombiScheme Model.StdCombi Model.ExtendSplit.
Import ListNotations.
Open Scope Z_scope.

(* the component grids that are computed on the area in its current dictionary state: (coarsened level vector, coefficient) *)
Definition area_grids (cp : cparams) (x : area) : list (lv * Z) :=
  computed_grids (fst (coarsen_all cp (a_coarse x) (a_dict x) (the_scheme cp))).

(* sum over the scheme of coefficient * (interpolant on the area grid if do_compute else 0) *)
Definition area_interp (cp : cparams) (x : area) (f : list Qc -> Qc) (p : point) : Qc :=
  combi_interp true (a_start x) (a_end x) (area_grids cp x) f p.

Definition find_area (b : box) (objs : list area) : option area := find (fun x => box_eqb (abox x) b) objs.

(* SpatiallyAdaptiveExtendScheme.__call__(points): (point, value) for every point that lies in the domain *)
Definition es_interpolate (st : state) (f : list Qc -> Qc) (pts : list point) : list (point * Qc) :=
  flat_map (fun r => match find_area (fst r) (st_objs st) with
                     | Some x => map (fun p => (p, area_interp (st_cp st) x f p)) (snd r)
                     | None => []
                     end)
           (assign_points (current_tree st) pts).

(* ---------------------------------------------------------------- restart on the same object
   performSpatiallyAdaptiv(lmin, lmax, ..., refinement_container=self.refinement): init_adaptive_combi keeps lmin, lmax and
   the scheme, RefinementContainer.reinit_new_objects marks EVERY object new (startNewObjects = 0); the evaluation then runs
   over all areas (coarsen_grid for every area and component grid, new benefits for all), no refinement round. *)
Definition mark_all_new (st : state) : state :=
  mkState (st_dim st) (st_version st) (st_lmin st) (st_lmax st) (st_auto st) (st_single st) (st_a st) (st_b st)
          (st_objs st) 0 (st_tree st) (st_bmax st) (st_base st).

Definition restart (st : state) (bens : list (box * Z)) : state := fst (evaluate (mark_all_new st) bens).

(* histories with restarts *)
Inductive event2 := Ev (e : event) | Restart (bens : list (box * Z)).
Definition apply_event2 (st : state) (ev : event2) : state :=
  match ev with Ev e => apply_event st e | Restart bens => restart st bens end.
Definition run_events2 (st : state) (evs : list event2) : state := fold_left apply_event2 evs st.

(* ---------------------------------------------------------------- all four coarsening versions (version 3: Model/ESV3.v) *)
From SG Require Import Model.ESV3.

Definition area_grids4 (cp : cparams) (x : area) : list (lv * Z) :=
  computed_grids (coarsen_results cp (a_coarse x) (a_dict x)).

Definition area_interp4 (cp : cparams) (x : area) (f : list Qc -> Qc) (p : point) : Qc :=
  combi_interp true (a_start x) (a_end x) (area_grids4 cp x) f p.

Definition es_interpolate4 (st : state) (f : list Qc -> Qc) (pts : list point) : list (point * Qc) :=
  flat_map (fun r => match find_area (fst r) (st_objs st) with
                     | Some x => map (fun p => (p, area_interp4 (st_cp st) x f p)) (snd r)
                     | None => []
                     end)
           (assign_points (current_tree st) pts).
