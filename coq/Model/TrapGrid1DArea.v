(* What Grid1d.set_current_area(start, end, level) stores in a TrapezoidalGrid1D object when the area is the whole interval
   (start = self.a, end = self.b), as the standard combination uses it (sparseSpACE/Grid.py, Grid1d.set_current_area):
     num_points = level_to_num_points_1d(level); num_points_with_boundary = the same with boundary = True;
     lowerBorder = 0, upperBorder = num_points; if not boundary and num_points < num_points_with_boundary:
       lowerBorder = 1 (start touches a), upperBorder = num_points_with_boundary - 1 (end touches b) - "touches" is
       math.isclose(start, a) / isclose(end, b) up to /repo f7c3775 and |start - a| <= 1e-8*|b - a| (Grid1d.touches_lower_boundary /
       touches_upper_boundary) with fixes/C08-boundary-tests-domain-relative.patch; on the whole interval both are True;
     spacing = (end - start) / (num_points_with_boundary - 1).
   Definitions only. The harness reads these attributes off the implementation objects and compares them (entry point sub 2);
   Proofs/GenTrapGrid1DEq.v feeds them to the functions generated from the source. *)
From Coq Require Import ZArith List Bool QArith Qcanon.
From SG Require Import Base.QcUtil Model.CombiScheme Model.StdCombi.
Open Scope Z_scope.

Definition area_num_points (bd : bool) (l : Z) : Z := num_points_1d bd l.                       (* self.num_points *)
Definition area_nwb (l : Z) : Z := 2 ^ l + 1.                                                   (* self.num_points_with_boundary *)
Definition area_lower (bd : bool) : Z := if bd then 0 else 1.                                   (* self.lowerBorder *)
Definition area_upper (bd : bool) (l : Z) : Z := if bd then 2 ^ l + 1 else 2 ^ l.               (* self.upperBorder *)
Definition area_spacing (a b : Qc) (l : Z) : Qc := ((b - a) / qc_of_Z (2 ^ l))%Qc.              (* self.spacing *)
