(* C05 — incremental accumulation of the combined result (GridOperation.Integration, RefinementContainer,
   SpatiallyAdaptivBase) over an arbitrary commutative group V (scalars, vectors, ...).

   State that the Python keeps:
     operation.integral      running combined result                         -> st_total
     refinement.value        the container's copy of it                      -> st_cont
     area.value              per-area partial result (extend-split areas)    -> st_areas (id, value)
     refinementObjects[startNewObjects:]   objects still marked "new"        -> st_new
   Raw events (what a logging Integration subclass sees):
     AInit      Integration.initialize                       integral := 0
     APre id    area_preprocessing(area)                     area.value := 0
     AEval id x to_total to_cont   evaluate_area             x = partial_integral * coefficient;
                                                             area.value += x; refinement.value += x (if a container is
                                                             passed); integral += x (if apply_to_combi_result)
     ARemove ids   apply_remove + process_removed_objects    refinement.value -= area.value; integral -= area.value
     AResetDW   initialize_evaluation_dimension_wise         refinement.value := 0; integral := 0
     AEvalDW x  calculate_operation_dimension_wise           refinement.value += x; integral += x
     ASide id x    evaluate_area(area, .., None, None, apply_to_combi_result=False): a SIDE evaluation (twin errors of
                   split_single_dim: the freshly created areas and their temporary twin-parent areas; never part of the
                   reported result).  area.value += x for an area of the container, nothing else; an area that is not in
                   the container (temporary parent) leaves no trace in the state.
     AEstimate id  evaluate_area_for_error_estimates (split/extend benefits, parent estimates): no accumulator is touched
     AResetTotal   Integration.reset_result                  integral := 0
     AFinalBegin   start of evaluate_final_combi: operation.reset_result(); refinement.value = 0 (the new-object marker is
                   NOT touched); it is followed by APre / AEval of ALL areas, together = `reevaluate`
     AReinit       RefinementContainer.reinit_new_objects (recalculate_frequently): refinement.value := 0, every object
                   is marked new again - operation.integral is NOT reset by the code as it is
   Definitions only; proofs in Proofs/AccumProofs.v. *)
From Coq Require Import ZArith List Bool.
Import ListNotations.
Open Scope Z_scope.

Section Accum.
  Variable V : Type.
  Variable vzero : V.
  Variable vadd : V -> V -> V.
  Variable vopp : V -> V.

  Fixpoint vsum (l : list V) : V := match l with [] => vzero | x :: r => vadd x (vsum r) end.

  Record astate := mkA { st_areas : list (Z * V); st_new : list Z; st_total : V; st_cont : V }.

  Fixpoint area_get (id : Z) (l : list (Z * V)) : option V :=
    match l with
    | [] => None
    | (i, v) :: r => if i =? id then Some v else area_get id r
    end.

  (* area.value := w ; an area the log has not seen yet is entered at the end *)
  Fixpoint area_set (id : Z) (w : V) (l : list (Z * V)) : list (Z * V) :=
    match l with
    | [] => [(id, w)]
    | (i, v) :: r => if i =? id then (i, w) :: r else (i, v) :: area_set id w r
    end.

  Fixpoint area_del (id : Z) (l : list (Z * V)) : list (Z * V) :=
    match l with
    | [] => []
    | (i, v) :: r => if i =? id then r else (i, v) :: area_del id r
    end.

  Definition area_val (id : Z) (l : list (Z * V)) : V :=
    match area_get id l with Some v => v | None => vzero end.

  Inductive aevent :=
  | AInit
  | APre (id : Z)
  | AEval (id : Z) (x : V) (to_total to_cont : bool)
  | ARemove (ids : list Z)
  | AResetDW
  | AEvalDW (x : V)
  | ASide (id : Z) (x : V)
  | AEstimate (id : Z)
  | AResetTotal
  | AReinit
  | AFinalBegin.

  Definition remove_one (s : astate) (id : Z) : astate :=
    let v := area_val id (st_areas s) in
    mkA (area_del id (st_areas s)) (st_new s) (vadd (st_total s) (vopp v)) (vadd (st_cont s) (vopp v)).

  Definition apply_event (s : astate) (e : aevent) : astate :=
    match e with
    | AInit => mkA (st_areas s) (st_new s) vzero (st_cont s)
    | APre id => mkA (area_set id vzero (st_areas s)) (st_new s) (st_total s) (st_cont s)
    | AEval id x bt bc =>
        mkA (area_set id (vadd (area_val id (st_areas s)) x) (st_areas s)) (st_new s)
            (if bt then vadd (st_total s) x else st_total s) (if bc then vadd (st_cont s) x else st_cont s)
    | ARemove ids => fold_left remove_one ids s
    | AResetDW => mkA (st_areas s) (st_new s) vzero vzero
    | AEvalDW x => mkA (st_areas s) (st_new s) (vadd (st_total s) x) (vadd (st_cont s) x)
    | ASide id x =>
        match area_get id (st_areas s) with
        | Some v => mkA (area_set id (vadd v x) (st_areas s)) (st_new s) (st_total s) (st_cont s)
        | None => s
        end
    | AEstimate _ => s
    | AResetTotal => mkA (st_areas s) (st_new s) vzero (st_cont s)
    | AReinit => mkA (st_areas s) (map fst (st_areas s)) (st_total s) vzero
    | AFinalBegin => mkA (st_areas s) (st_new s) vzero vzero
    end.

  Definition apply_events (es : list aevent) (s : astate) : astate := fold_left apply_event es s.

  (* ---------------------------------------------------------------- the driver's steps, composed of raw events *)
  (* parts id = the contributions c * (operation applied to component grid) of the component grids computed for area id *)
  Definition parts_t := Z -> list V.

  Definition eval_area_events (parts : parts_t) (id : Z) : list aevent :=
    map (fun x => AEval id x true true) (parts id).

  (* evaluate_operation of SpatiallyAdaptivBase: preprocess the NEW areas, evaluate them on all component grids.
     clear = false : the code as it is (the new-object marker stays set until the next refine());
     clear = true  : the repaired variant (marker cleared once the new areas are evaluated). *)
  Definition evaluate_new (clear : bool) (parts : parts_t) (s : astate) : astate :=
    let ids := st_new s in
    let s2 := apply_events (flat_map (eval_area_events parts) ids) (apply_events (map APre ids) s) in
    if clear then mkA (st_areas s2) [] (st_total s2) (st_cont s2) else s2.

  (* refine(): clear_new_objects; the refined objects are replaced by their children (marked new, value not yet set);
     refinement_postprocessing: apply_remove + process_removed_objects *)
  Definition refine_step (removed added : list Z) (s : astate) : astate :=
    apply_event (mkA (st_areas s ++ map (fun id => (id, vzero)) added) added (st_total s) (st_cont s)) (ARemove removed).

  (* evaluate_final_combi as it is: compute_solutions over ALL areas, nothing reset *)
  Definition final_combi_asis (parts : parts_t) (s : astate) : astate :=
    apply_events (flat_map (eval_area_events parts) (map fst (st_areas s))) s.

  (* re-evaluation that starts from a zero accumulator *)
  Definition reevaluate (parts : parts_t) (s : astate) : astate :=
    let ids := map fst (st_areas s) in
    apply_events (flat_map (eval_area_events parts) ids)
                 (apply_events (map APre ids) (mkA (st_areas s) (st_new s) vzero vzero)).

  (* dimension-wise strategy: one "area" (the whole meta container), reset at every evaluation *)
  Definition evaluate_dw (xs : list V) (s : astate) : astate := apply_events (AResetDW :: map AEvalDW xs) s.
  Definition final_combi_dw_asis (xs : list V) (s : astate) : astate := apply_events (map AEvalDW xs) s.

  (* recalculate_frequently as it is: after the refinement every object is marked new again and the container value is
     reset, the running total is kept; repaired: the running total is reset as well *)
  Definition recalc_asis (s : astate) : astate := apply_event s AReinit.
  Definition recalc_fixed (s : astate) : astate := apply_event (apply_event s AReinit) AResetTotal.

  Inductive dstep :=
  | DEvaluate (parts : parts_t)
  | DRefine (removed added : list Z)
  | DEvaluateDW (xs : list V)
  | DSide (id : Z) (x : V)          (* side evaluation (apply_to_combi_result = False, no container) *)
  | DEstimate (id : Z)              (* error-estimate evaluation *)
  | DFinalCombi (parts : parts_t).  (* public evaluate_final_combi() on the live object between two legs of a run *)

  Definition apply_step (clear : bool) (s : astate) (st : dstep) : astate :=
    match st with
    | DEvaluate parts => evaluate_new clear parts s
    | DRefine removed added => refine_step removed added s
    | DEvaluateDW xs => evaluate_dw xs s
    | DSide id x => apply_event s (ASide id x)
    | DEstimate id => apply_event s (AEstimate id)
    | DFinalCombi parts => reevaluate parts s
    end.

  (* a re-evaluation from scratch that leaves every object marked new behind (seeded defect: reinit_new_objects instead of
     refinement.value = 0 in evaluate_final_combi) *)
  Definition final_combi_marks_new (parts : parts_t) (s : astate) : astate :=
    let s' := reevaluate parts s in mkA (st_areas s') (map fst (st_areas s')) (st_total s') (st_cont s').

  Definition is_side (st : dstep) : bool := match st with DSide _ _ | DEstimate _ => true | _ => false end.
  (* the driver without its side evaluations *)
  Definition strip_sides (steps : list dstep) : list dstep := filter (fun st => negb (is_side st)) steps.

  (* the state with the (meaningless) values of the not yet evaluated new areas blanked out *)
  Fixpoint memZ (x : Z) (l : list Z) : bool := match l with [] => false | y :: r => (y =? x) || memZ x r end.
  Definition zero_new_areas (news : list Z) (l : list (Z * V)) : list (Z * V) :=
    map (fun p => if memZ (fst p) news then (fst p, vzero) else p) l.
  Definition zero_new (s : astate) : astate :=
    mkA (zero_new_areas (st_new s) (st_areas s)) (st_new s) (st_total s) (st_cont s).

  Definition run_steps (clear : bool) (steps : list dstep) (s : astate) : astate := fold_left (apply_step clear) steps s.

  (* initial state: the initial areas are all new, nothing accumulated *)
  Definition a_init (ids : list Z) : astate := mkA (map (fun id => (id, vzero)) ids) ids vzero vzero.
End Accum.

Arguments mkA {V}.
Arguments st_areas {V}.
Arguments st_new {V}.
Arguments st_total {V}.
Arguments st_cont {V}.
Arguments AInit {V}.
Arguments APre {V}.
Arguments AEval {V}.
Arguments ARemove {V}.
Arguments AResetDW {V}.
Arguments AEvalDW {V}.
Arguments ASide {V}.
Arguments AEstimate {V}.
Arguments AResetTotal {V}.
Arguments AReinit {V}.
Arguments AFinalBegin {V}.
Arguments DFinalCombi {V}.
Arguments DEvaluate {V}.
Arguments DRefine {V}.
Arguments DEvaluateDW {V}.
Arguments DSide {V}.
Arguments DEstimate {V}.

(* ------------------------------------------------------------------ StandardCombi.get_points_and_weights (lines 884-897):
   the component rules concatenated, each weight multiplied by the combination coefficient *)
From Coq Require Import QArith Qcanon.
From SG Require Import Base.QcUtil.

Definition rule (P : Type) := list (P * Qc).

Definition combined_rule {P} (scheme : list (Qc * rule P)) : rule P :=
  flat_map (fun cr => map (fun pw => (fst pw, (snd pw * fst cr)%Qc)) (snd cr)) scheme.

Definition apply_rule {P} (f : P -> Qc) (r : rule P) : Qc := sumQ (map (fun pw => (snd pw * f (fst pw))%Qc) r).

(* the coefficient-weighted sum of the component quadratures *)
Definition combine_components {P} (f : P -> Qc) (scheme : list (Qc * rule P)) : Qc :=
  sumQ (map (fun cr => (fst cr * apply_rule f (snd cr))%Qc) scheme).

(* ------------------------------------------------------------------ executable check of the accumulator invariant on a state
   over Qc (evaluated through the entry point on every replayed snapshot; soundness: Proofs/AccumProofs.v inv_checkb_sound) *)
Fixpoint nodupZb (l : list Z) : bool :=
  match l with [] => true | x :: r => negb (memZ x r) && nodupZb r end.

Definition inv_checkb (s : astate Qc) : bool :=
  nodupZb (map fst (st_areas s)) && Qc_eq_bool (st_total s) (vsum Qc 0%Qc Qcplus (map snd (st_areas s))) && Qc_eq_bool (st_cont s) (st_total s).

(* ------------------------------------------------------------------ the published rule along a history of the dimension-wise strategy.
   The component rules (tensor weights over the CURRENT 1D point sets) are a function of (scheme, refinement); a history is the list
   of these schemes-with-rules, one per stop.  At each stop the driver evaluates (Accum.evaluate_dw) the contributions
   c_l * Q_l f and the user may ask for the combined rule. *)
Definition contributions {P} (f : P -> Qc) (scheme : list (Qc * rule P)) : list Qc :=
  map (fun cr => (fst cr * apply_rule f (snd cr))%Qc) scheme.

(* per stop: (published rule applied to f, reported value) *)
Fixpoint dw_history {P} (f : P -> Qc) (stops : list (list (Qc * rule P))) (s : astate Qc) : list (Qc * Qc) :=
  match stops with
  | [] => []
  | sch :: r => let s' := evaluate_dw Qc 0%Qc Qcplus Qcopp (contributions f sch) s in
                (apply_rule f (combined_rule sch), st_total s') :: dw_history f r s'
  end.

(* a rule remembered from the stop at which it was first assembled (seeded defect: memoised per scheme, not per refinement) *)
Fixpoint dw_history_memo {P} (f : P -> Qc) (memo : option (rule P)) (stops : list (list (Qc * rule P))) (s : astate Qc) : list (Qc * Qc) :=
  match stops with
  | [] => []
  | sch :: r => let s' := evaluate_dw Qc 0%Qc Qcplus Qcopp (contributions f sch) s in
                let rl := match memo with Some m => m | None => combined_rule sch end in
                (apply_rule f rl, st_total s') :: dw_history_memo f (Some rl) r s'
  end.
