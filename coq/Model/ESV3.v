(* Coarsening version 3 of SpatiallyAdaptiveExtendScheme.coarsen_grid (undocumented, `assert 3 >= version >= 0` accepts it) —
   definitions only.  Python (sparseSpACE/spatiallyAdaptiveExtendSplit.py, branch `elif self.version == 3`):
       num_sub_diagonal = (self.lmax[0] + self.dim - 1) - np.sum(levelvector); assert (num_sub_diagonal < self.dim)
       currentDirection = 0
       while coarsening > 0:
           if temp[currentDirection] > self.lmin[currentDirection]: temp[currentDirection] -= 1
           coarsening -= 1
           currentDirection = (currentDirection + 1) % self.dim
   The dictionary levelvec_dict is not used, every component grid is computed (area_is_null stays False). *)
From Coq Require Import ZArith List Bool QArith Qcanon.
From SG Require Import Base.QcUtil Model.CombiScheme Model.ExtendSplit.
Import ListNotations.
Open Scope Z_scope.

(* if temp[i] > lmin: temp[i] -= 1 *)
Fixpoint dec_nth (i : nat) (lmin : Z) (t : lv) : lv :=
  match t, i with
  | [], _ => []
  | x :: r, O => (if lmin <? x then x - 1 else x) :: r
  | x :: r, S i' => x :: dec_nth i' lmin r
  end.

(* the while loop: fuel = coarsening, cur = currentDirection *)
Fixpoint v3_loop (fuel : nat) (dim : nat) (lmin : Z) (cur : nat) (t : lv) : lv :=
  match fuel with
  | O => t
  | S f => v3_loop f dim lmin (Nat.modulo (cur + 1) dim) (dec_nth cur lmin t)
  end.

Definition coarsen_grid3 (cp : cparams) (coarsening : Z) (levelvector : lv) : lv * bool :=
  (sub_lmin (cp_lmin cp) (v3_loop (Z.to_nat coarsening) (cp_dim cp) (cp_lmin cp) 0 levelvector), true).

(* the assert of version 3 (hard-codes minimum level 1 like the pinned versions 1,2; it only fails for lmin = 0) *)
Definition coarsen_assert3_ok (cp : cparams) (levelvector : lv) : bool :=
  (cp_lmax cp + Z.of_nat (cp_dim cp) - 1) - sumZ levelvector <? Z.of_nat (cp_dim cp).

Definition coarsen_all3 (cp : cparams) (coarsening : Z) (sch : list (lv * Z)) : list (lv * Z * (lv * bool)) :=
  map (fun lc => (fst lc, snd lc, coarsen_grid3 cp coarsening (fst lc))) sch.

Definition local_combi3 (cp : cparams) (coarsening : Z) : list (lv * Z) :=
  computed_grids (coarsen_all3 cp coarsening (the_scheme cp)).

(* coarsen_grid for all four versions *)
Definition coarsen_results (cp : cparams) (coarsening : Z) (dict : ldict) : list (lv * Z * (lv * bool)) :=
  if cp_version cp =? 3 then coarsen_all3 cp coarsening (the_scheme cp)
  else fst (coarsen_all cp coarsening dict (the_scheme cp)).
