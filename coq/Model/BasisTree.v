(* C10 — the knot selection of the hierarchical Lagrange grids as a recursion over the REFINEMENT TREE (definitions only;
   lemmas: Proofs/BasisTreeP.v).
   A 1-D refinement is a binary tree: RNode l x r is the point x inserted into an interval (u, v) of neighbouring points, with
   the refinements l of (u, x) and r of (x, v); its level is max(level u, level v) + 1 (the level assignment of the
   single-dimension refinement; x need not be the midpoint).
   GlobalLagrangeGrid.compute_1D_quad_weights builds the knots of x as sorted(parents[get_parent(x)] + [x]).  In the tree the
   parent of the root of (u, v) is the deeper one of u, v, whose own knot list is  kl ++ kr  with kl ending in u and kr starting
   with v: so the knots of x are  kl ++ x :: kr,  the left subtree continues with (kl, x :: kr), the right one with
   (kl ++ [x], kr).  No scan for the parent, no dictionary - this is what makes an induction over the tree possible.
   The entry point compares this recursion with the code-shaped list model (Model/Basis.lagrange_system) on every explored
   grid; Proofs/BasisTreeP.v proves that its systems are accepted by the structural checker for EVERY tree. *)
From Coq Require Import ZArith List QArith Qcanon Bool Arith.
From SG Require Import Base.QcUtil Model.Basis.
Import ListNotations.
Open Scope Qc_scope.

Inductive rtree : Type :=
| RLeaf
| RNode (l : rtree) (x : Qc) (r : rtree).

Fixpoint rt_points (t : rtree) : list Qc :=
  match t with RLeaf => [] | RNode l x r => rt_points l ++ x :: rt_points r end.

Fixpoint rt_levels (lu lv : nat) (t : rtree) : list nat :=
  match t with
  | RLeaf => []
  | RNode l x r => let lx := S (Nat.max lu lv) in rt_levels lu lx l ++ lx :: rt_levels lx lv r
  end.

(* the tail of the level loop: window of p+1 knots, LagrangeBasisRestricted(p, knots.index(x), knots) *)
Definition knot_basis (p : nat) (K : list Qc) (x : Qc) : option basis :=
  match window p K x with
  | Some kw => match index_of x kw with Some ix => Some (BRLag kw ix) | None => None end
  | None => None
  end.

Fixpoint rt_system (p : nat) (kl kr : list Qc) (t : rtree) : option (list (Qc * basis)) :=
  match t with
  | RLeaf => Some []
  | RNode l x r =>
    match rt_system p kl (x :: kr) l, knot_basis p (kl ++ x :: kr) x, rt_system p (kl ++ [x]) kr r with
    | Some sl, Some bf, Some sr => Some (sl ++ (x, bf) :: sr)
    | _, _, _ => None
    end
  end.

(* the whole 1-D grid on [a, b]: with boundary the two level-0 points carry the linear functions on the knots [a, b] and every
   knot list contains a and b; without boundary (unmodified basis) the level-1 knot list is the level-1 point alone *)
Definition tree_points (a b : Qc) (t : rtree) : list Qc := a :: rt_points t ++ [b].
Definition tree_levels (t : rtree) : list nat := O :: rt_levels 0 0 t ++ [O].

Definition tree_system (p : nat) (boundary : bool) (a b : Qc) (t : rtree) : option (list (Qc * basis)) :=
  if boundary then
    match knot_basis p [a; b] a, rt_system p [a] [b] t, knot_basis p [a; b] b with
    | Some ba, Some s, Some bb => Some ((a, ba) :: s ++ [(b, bb)])
    | _, _, _ => None
    end
  else rt_system p [] [] t.

(* ------------------------------------------------------------------ reading a tree off the lists (pts, levs) *)
(* the root of the refinement of an interval whose ends have the levels lu, lv is the (unique) point of level max(lu,lv)+1 *)
Fixpoint split_at_level (lev : nat) (l : list (Qc * nat)) : option (list (Qc * nat) * Qc * list (Qc * nat)) :=
  match l with
  | [] => None
  | (x, lx) :: r =>
    if (lx =? lev)%nat then Some ([], x, r)
    else match split_at_level lev r with
         | Some (a, y, b) => Some ((x, lx) :: a, y, b)
         | None => None
         end
  end.

Fixpoint parse_tree (fuel : nat) (lu lv : nat) (l : list (Qc * nat)) : option rtree :=
  match l with
  | [] => Some RLeaf
  | _ =>
    match fuel with
    | O => None
    | S f =>
      let lx := S (Nat.max lu lv) in
      match split_at_level lx l with
      | None => None
      | Some (a, x, b) =>
        match parse_tree f lu lx a, parse_tree f lx lv b with
        | Some ta, Some tb => Some (RNode ta x tb)
        | _, _ => None
        end
      end
    end
  end.

(* (pts, levs) of a whole grid -> the tree of its interior points (None: not a refinement tree with these level labels) *)
Definition tree_of_lists (pts : list Qc) (levs : list nat) : option rtree :=
  match pts, levs with
  | _ :: _, O :: _ =>
    let inner := removelast (tl (combine pts levs)) in
    if (last levs 1%nat =? 0)%nat && (length pts =? length levs)%nat && (2 <=? length pts)%nat
    then parse_tree (length inner) 0 0 inner else None
  | _, _ => None
  end.

(* ------------------------------------------------------------------ comparison with the code-shaped list model (entry point) *)
Definition basis_eqb (b1 b2 : basis) : bool :=
  match b1, b2 with
  | BRLag k1 i1, BRLag k2 i2 => veq k1 k2 && (i1 =? i2)%nat
  | _, _ => false
  end.

Definition system_eqb (s1 s2 : list (Qc * basis)) : bool :=
  (length s1 =? length s2)%nat
  && forallb (fun ab => Qc_eqb (fst (fst ab)) (fst (snd ab)) && basis_eqb (snd (fst ab)) (snd (snd ab))) (combine s1 s2).

(* (the lists are a refinement tree, the tree recursion builds the same system as the level loop with get_parent,
    the structural checker accepts it) *)
Definition tree_check (p : nat) (boundary : bool) (a b : Qc) (pts : list Qc) (levs : list nat) : bool * bool * bool :=
  match tree_of_lists pts levs with
  | None => (false, false, false)
  | Some t =>
    match tree_system p boundary a b t, lagrange_system p boundary false a b pts levs with
    | Some s1, Some s2 => (true, system_eqb s1 s2, hier_okb s1 (level_order (interior boundary levs)))
    | _, _ => (true, false, false)
    end
  end.
