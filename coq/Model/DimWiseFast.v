(* C04: the entry point evaluates the combined integral / interpolant of MANY functions on one state; the stripes
   dw_stripe_coords o st d l (refinement-tree scan + subtraction-value loops) do not depend on the function, so they are
   tabulated once per state.  Definitions only; Proofs/DimWiseFast.v shows that the tabulated versions are EQUAL to
   dw_combi_integral / dw_combi_interp for every table range (unconditionally), so the theorems about the latter apply to
   what the entry point computes. *)
From Coq Require Import ZArith List Bool QArith Qcanon.
From SG Require Import Base.QcUtil Model.CombiScheme Model.RefTree.
From SG Require Model.StdCombi Model.Trap.
From SG Require Import Model.DimWise Model.DimWiseInterp Model.DimWiseExact.
Import ListNotations.
Open Scope Z_scope.

(* f tabulated on lo, lo+1, .., lo+n-1 (the table is built when memo is applied to f lo n); outside the table: f itself *)
Definition memo {A} (f : Z -> A) (lo : Z) (n : nat) : Z -> A :=
  let tbl := map (fun k => f (lo + Z.of_nat k)) (seq 0 n) in
  fun l => if lo <=? l then match nth_error tbl (Z.to_nat (l - lo)) with Some v => v | None => f l end else f l.

Definition ctab (o : dw_opts) (st : dw_state) (lo : Z) (n : nat) : list (Z -> list Qc) :=
  map (fun d => memo (fun l => dw_stripe_coords o st d l) lo n) (seq 0 (st_dim st)).

Definition coords_fast (o : dw_opts) (st : dw_state) (tab : list (Z -> list Qc)) (d : nat) (l : Z) : list Qc :=
  match nth_error tab d with Some T => T l | None => dw_stripe_coords o st d l end.

Definition dw_comp_integral_fast (o : dw_opts) (mb : bool) (st : dw_state) (tab : list (Z -> list Qc)) (a b : list Qc) (lv : lv)
           (gs : list (Qc -> Qc)) : option Qc :=
  prod_opt (map (fun dq => match dq with (d, (a0, b0, l0, g0)) =>
                             dw_quad1 (o_boundary o) mb a0 b0 (coords_fast o st tab d l0) g0 end)
                (combine (seq 0 (length lv)) (zip4 a b lv gs))).

Definition dw_combi_integral_fast (o : dw_opts) (mb : bool) (st : dw_state) (tab : list (Z -> list Qc)) (a b : list Qc)
           (gs : list (Qc -> Qc)) : option Qc :=
  sum_opt (map (fun kv => match dw_comp_integral_fast o mb st tab a b (fst kv) gs with
                          | Some v => Some (qc_of_Z (snd kv) * v)%Qc | None => None end)
               (combi_scheme_adaptive (st_scheme st))).

Definition dw_grids_fast (o : dw_opts) (st : dw_state) (tab : list (Z -> list Qc)) (lv : lv) : list (list Qc) :=
  map (fun dl => coords_fast o st tab (fst dl) (snd dl)) (combine (seq 0 (length lv)) lv).

Definition dw_combi_interp_fast (o : dw_opts) (st : dw_state) (tab : list (Z -> list Qc)) (a b : list Qc) (f : list Qc -> Qc)
           (x : list Qc) : Qc :=
  sumQ (map (fun kv => (qc_of_Z (snd kv) *
                        StdCombi.interpN (dw_grids_fast o st tab (fst kv)) (StdCombi.masked (o_boundary o) a b f) x)%Qc)
            (combi_scheme_adaptive (st_scheme st))).

(* the checker dw_keeps_initial_space, evaluated on already computed integrals *)
Definition keeps_of (a b : list Qc) (hats : list (lv * lv)) (ints : list (option Qc)) : bool :=
  forallb (fun hv : (lv * lv) * option Qc =>
             match snd hv with Some v => Qc_eqb v (hat_exact a b (fst (fst hv)) (snd (fst hv))) | None => false end)
          (combine hats ints).

(* products of linear functions prod_d (alpha_d x_d + beta_d) (entry sub 1; Proofs/DimWiseLinear.v) *)
Definition lin_fns (coef : list (Qc * Qc)) : list (Qc -> Qc) := map (fun ab => fun t : Qc => (fst ab * t + snd ab)%Qc) coef.

(* ---------------------------------------------------------------------------------------------------------- *)
(* exhaustive exploration of the histories in which every step splits exactly ONE interval (benefit 1 at position (d,i),
   0 elsewhere): explore n st = the checker dw_keeps_initial_space holds in st and in every state reachable from st by at
   most n such steps (Proofs/DimWiseBounded.v) *)
Definition positions (st : dw_state) : list (nat * nat) :=
  flat_map (fun dt : nat * list ival => map (fun i => (fst dt, i)) (seq 0 (length (snd dt))))
           (combine (seq 0 (length (st_trees st))) (st_trees st)).

Definition single_bens (st : dw_state) (di : nat * nat) : list (list Qc) :=
  map (fun dt : nat * list ival =>
         map (fun i => if Nat.eqb (fst dt) (fst di) && Nat.eqb i (snd di) then 1%Qc else 0%Qc) (seq 0 (length (snd dt))))
      (combine (seq 0 (length (st_trees st))) (st_trees st)).

Definition mem_pos (di : nat * nat) (l : list (nat * nat)) : bool :=
  existsb (fun u => Nat.eqb (fst di) (fst u) && Nat.eqb (snd di) (snd u)) l.

Fixpoint run_path (o : dw_opts) (path : list (nat * nat)) (st : dw_state) : option dw_state :=
  match path with
  | [] => Some st
  | di :: r => if mem_pos di (positions st)
               then match dw_step o (single_bens st di) st with Some st' => run_path o r st' | None => None end
               else None
  end.

Fixpoint explore (o : dw_opts) (a b : list Qc) (lmin lmax : Z) (n : nat) (st : dw_state) : bool :=
  dw_keeps_initial_space o st a b lmin lmax &&
  match n with
  | O => true
  | S n' => forallb (fun di => match dw_step o (single_bens st di) st with
                               | Some st' => explore o a b lmin lmax n' st'
                               | None => false
                               end) (positions st)
  end.
