(* Model of the regression operation of sparseSpACE/GridOperation.py (class Regression; grid without boundary
   points) over Qc.  DEFINITIONS ONLY.  Hat functions, index lists and hat domains are those of Model/Gram.v.

   Python                                   model
   build_A_matrix(_dimension_wise)          design_uniform / design_nonuniform      (hat values at the training points)
   build_C_matrix                           C_matrix_uniform true   (as coded: mass terms use levelvec[k])
                                            C_matrix_uniform false  (specification: mass terms use levelvec[m])
   build_C_matrix_dimension_wise            C_matrix_dw_coded       (as coded: every factor is taken from dimension d;
                                                                     touching supports count as overlapping)
                                            C_matrix_dw_spec        (gradient Gram matrix of the hat basis)
   build_left_matrix / build_right_vector   left_matrix / right_vector
   optimize_coefficients_* (last step)      normalise_coefficients  (coefs / sum(coefs), shared by the three variants)
   np.linalg.lstsq                          replaced by the verified residual checker residual_ok *)
From Coq Require Import ZArith List QArith Qcanon Bool.
From SG Require Import Base.QcUtil Model.Gram.
Import ListNotations.
Open Scope Qc_scope.

(* ------------------------------------------------------------------ small matrix algebra on lists of rows *)
Fixpoint transpose_n (n : nat) (A : list (list Qc)) : list (list Qc) :=      (* n = number of columns *)
  match n with
  | O => []
  | S k => map (fun row => hd 0 row) A :: transpose_n k (map (fun row => tl row) A)
  end.
Definition ncols (A : list (list Qc)) : nat := match A with [] => O | r :: _ => length r end.
Definition transpose (A : list (list Qc)) : list (list Qc) := transpose_n (ncols A) A.

(* A^T A from the columns of A *)
Definition gram_of_columns (cols : list (list Qc)) : list (list Qc) :=
  map (fun ci => map (fun cj => dotQ ci cj) cols) cols.

Definition mat_add (A B : list (list Qc)) : list (list Qc) := map2 (fun ra rb => map2 Qcplus ra rb) A B.
Definition mat_scale (c : Qc) (A : list (list Qc)) : list (list Qc) := map (map (fun x => c * x)) A.
Fixpoint identity_from (i n : nat) (k : nat) : list (list Qc) :=           (* rows i .. of the n x n identity *)
  match k with
  | O => []
  | S k' => map (fun j => if (i =? j)%nat then 1 else 0) (seq 0 n) :: identity_from (S i) n k'
  end.
Definition identity (n : nat) : list (list Qc) := identity_from 0 n n.

(* ------------------------------------------------------------------ design matrix: rows = samples, columns = hats *)
Definition design_uniform (lv : list Z) (data : list (list Qc)) : list (list Qc) :=
  map (fun x => map (fun iv => hat_u_nd hat_u lv iv x) (index_list lv)) data.
Definition design_nonuniform (stripes : list (list Qc)) (data : list (list Qc)) : list (list Qc) :=
  map (fun x => map (fun t => hat_nd hat_cv t x) (grid_hats stripes)) data.

(* ------------------------------------------------------------------ smoothing matrix, uniform grids *)
(* one factor of build_C_matrix; None = "do not overlap": temp_res = 0; break *)
Definition grad_term (l i j : Z) : option Qc :=
  if (i =? j)%Z then Some (pow2z (l + 1))
  else if (1 <? Z.abs (j - i))%Z then None
  else Some (- pow2z l).
Definition mass_term (l i j : Z) : option Qc :=
  if (i =? j)%Z then Some (diag1 l)
  else if (1 <? Z.abs (j - i))%Z then None
  else Some (off1 l).

(* temp_res of the inner loop over m for a fixed k.  coded = true: the mass terms use levelvec[k] (as written in the
   Python); coded = false: they use levelvec[m] (the gradient Gram matrix). *)
Fixpoint C_prod (coded : bool) (lk : Z) (k m : nat) (lv iv jv : list Z) : option Qc :=
  match lv, iv, jv with
  | l :: lv', i :: iv', j :: jv' =>
      let f := if (m =? k)%nat then grad_term l i j else mass_term (if coded then lk else l) i j in
      match f with
      | None => None
      | Some v => match C_prod coded lk k (S m) lv' iv' jv' with
                  | None => None
                  | Some w => Some (v * w)
                  end
      end
  | _, _, _ => Some 1
  end.

Definition C_val (coded : bool) (lv iv jv : list Z) : Qc :=
  sumQ (map (fun k => match C_prod coded (nth k lv 0%Z) k 0 lv iv jv with Some v => v | None => 0 end)
            (seq 0 (length lv))).

Definition C_matrix_uniform (coded : bool) (lv : list Z) : list (list Qc) :=
  sym_matrix (C_val coded lv) 0 (index_list lv).

(* ------------------------------------------------------------------ smoothing matrix, dimension-wise grids *)
Fixpoint qpow (x : Qc) (n : nat) : Qc := match n with O => 1 | S k => x * qpow x k end.

(* the n == d branch of build_C_matrix_dimension_wise *)
Definition grad1_coded (same_domain : bool) (ti tj : hatdom) : Qc :=
  if Qc_ltb (h_hi ti) (h_lo tj) || Qc_ltb (h_hi tj) (h_lo ti) then 0
  else if same_domain || Qc_eqb (h_p ti) (h_p tj) then
    let b1 := h_p ti - h_lo ti in let m1 := 1 / b1 in
    let b2 := h_hi ti - h_p ti in let m2 := 1 / b2 in
    b1 * (m1 * m1) + b2 * (m2 * m2)
  else if Qc_ltb (h_p ti) (h_p tj) then
    let b := h_p tj - h_p ti in let m := 1 / (h_p tj - h_p ti) in - (m * m * b)
  else
    let b := h_p ti - h_p tj in let m := 1 / (h_p ti - h_p tj) in - (m * m * b).

Definition same_domain (ti tj : list hatdom) : bool :=
  forallb2 (fun a b => Qc_eqb (h_lo a) (h_lo b) && Qc_eqb (h_hi a) (h_hi b)) ti tj.

(* as coded: in the loop over n the branch n <> d still indexes everything with d, i.e. it multiplies with the
   mass factor of dimension d once per other dimension; and when the two nodes differ in dimension d the statement
   `temp_res *= integral` is executed twice (once inside the `if`, once after the if/else) *)
Definition mass1_coded (a b : hatdom) : Qc :=
  let f := R1 a b in if negb (Qc_eqb (h_p a) (h_p b)) then f * f else f.

Definition C_val_dw_coded (ti tj : list hatdom) : Qc :=
  let sd := same_domain ti tj in
  let dim := length ti in
  sumQ (map2 (fun a b => grad1_coded sd a b * qpow (mass1_coded a b) (dim - 1)) ti tj).

(* specification: sum over d of (gradient factor in d) * product over n <> d of (mass factor in n) *)
Definition adjacent1 (ti tj : hatdom) : bool := Qc_eqb (h_p tj) (h_hi ti) || Qc_eqb (h_p tj) (h_lo ti).
Definition grad1_spec (ti tj : hatdom) : Qc :=
  if Qc_eqb (h_p ti) (h_p tj) then 1 / (h_p ti - h_lo ti) + 1 / (h_hi ti - h_p ti)
  else if adjacent1 ti tj then - (1 / Qc_abs (h_p ti - h_p tj))
  else 0.
Definition mass1_spec (ti tj : hatdom) : Qc :=
  if Qc_eqb (h_p ti) (h_p tj) || adjacent1 ti tj then R1 ti tj else 0.

Fixpoint dw_terms (pre : Qc) (ti tj : list hatdom) : Qc :=
  (* pre = product of the mass factors of the dimensions already passed *)
  match ti, tj with
  | a :: ti', b :: tj' =>
      pre * grad1_spec a b * prodQ (map2 mass1_spec ti' tj') + dw_terms (pre * mass1_spec a b) ti' tj'
  | _, _ => 0
  end.
Definition C_val_dw_spec (ti tj : list hatdom) : Qc := dw_terms 1 ti tj.

Definition C_matrix_dw_coded (stripes : list (list Qc)) : list (list Qc) := sym_matrix C_val_dw_coded 0 (grid_hats stripes).
Definition C_matrix_dw_spec (stripes : list (list Qc)) : list (list Qc) := sym_matrix C_val_dw_spec 0 (grid_hats stripes).

(* ------------------------------------------------------------------ the regularised system *)
(* mtype: 0 = identity, otherwise the smoothing matrix C given as argument *)
Definition left_matrix (A : list (list Qc)) (lam : Qc) (use_C : bool) (C : list (list Qc)) : list (list Qc) :=
  let m := qc_of_nat (length A) in
  let AtA := gram_of_columns (transpose A) in
  mat_add (mat_scale (1 / m) AtA) (mat_scale lam (if use_C then C else identity (ncols A))).

Definition right_vector (A : list (list Qc)) (y : list Qc) : list Qc :=
  let m := qc_of_nat (length A) in
  map (fun col => (1 / m) * dotQ col y) (transpose A).

(* verified residual checker for the LAPACK least-squares solve: every component of L alpha - r is bounded by
   tol * max_i (sum_j |L_ij| |alpha_j| + |r_i|)   (normwise backward error) *)
Definition abs_row_bound (row alpha : list Qc) (ri : Qc) : Qc :=
  dotQ (map Qc_abs row) (map Qc_abs alpha) + Qc_abs ri.
Fixpoint maxQ (l : list Qc) : Qc := match l with [] => 0 | x :: r => Qc_max x (maxQ r) end.
Definition residual_scale (L : list (list Qc)) (r alpha : list Qc) : Qc :=
  maxQ (map2 (fun row ri => abs_row_bound row alpha ri) L r).
Definition residual_ok (L : list (list Qc)) (r alpha : list Qc) (tol : Qc) : bool :=
  (length L =? length r)%nat &&
  let bound := tol * residual_scale L r alpha in
  forallb2 (fun row ri => Qc_leb (Qc_abs (dotQ row alpha - ri)) bound) L r.

(* last step of all three Opticom variants *)
Definition normalise_coefficients (cs : list Qc) : list Qc := let s := sumQ cs in map (fun c => c / s) cs.

(* derivative of the two branches of a hat, as constant polynomials (specification side) *)
Definition hat_left_slope (t : hatdom) : list Qc := [ 1 / (h_p t - h_lo t) ].
Definition hat_right_slope (t : hatdom) : list Qc := [ - (1 / (h_hi t - h_p t)) ].

(* ------------------------------------------------------------------ verified checker: positive semi-definite *)
(* exact symmetric elimination on a rational matrix given as rows (the Python oracle's is_psd, as a Coq function):
   first row p :: r, first column must equal the first row; p < 0 rejects; p = 0 needs r = 0; p > 0 continues with the
   Schur complement G' - r r^T / p.  Soundness: Proofs/RegressPSD.v *)
Definition mcol0 (G : list (list Qc)) : list Qc := map (fun row => hd 0 row) G.
Definition mtails (G : list (list Qc)) : list (list Qc) := map (fun row => tl row) G.
Definition schur (p : Qc) (r : list Qc) (G : list (list Qc)) : list (list Qc) :=
  map2 (fun ri row => map2 (fun rj x => x - ri * rj / p) r row) r G.
Fixpoint psd_rec (n : nat) (G : list (list Qc)) : bool :=
  match n with
  | O => true
  | S k => match G with
           | (p :: r) :: rest =>
               forallb2 Qc_eqb (mcol0 rest) r &&
               (if Qc_ltb p 0 then false
                else if Qc_eqb p 0 then forallb (fun x => Qc_eqb x 0) r && psd_rec k (mtails rest)
                else psd_rec k (schur p r (mtails rest)))
           | _ => false
           end
  end.
Definition psd_check (G : list (list Qc)) : bool :=
  let n := length G in forallb (fun row => (length row =? n)%nat) G && psd_rec n G.

(* residual checker with a cancellation-aware scale: the solve works on A and y, so its backward error is relative to
   |A^T| |y| / m, not to |A^T y| / m (which may cancel to 0 although y <> 0: duplicated samples with opposite targets).
   floor = max_i (|A|^T |y|)_i / m ; hat values are non-negative, so |A| = A. *)
Definition residual_floor (A : list (list Qc)) (y : list Qc) : Qc :=
  maxQ (right_vector (map (map Qc_abs) A) (map Qc_abs y)).
Definition residual_ok_floor (L : list (list Qc)) (r alpha : list Qc) (tol floor : Qc) : bool :=
  (length L =? length r)%nat &&
  let bound := tol * Qc_max (residual_scale L r alpha) floor in
  forallb2 (fun row ri => Qc_leb (Qc_abs (dotQ row alpha - ri)) bound) L r.

(* ------------------------------------------------------------------ Opticom (coefficient optimisation) *)
(* the step all six variants end with (after fix commit 3b1bdbd):
       length = np.sum(raw);  if length == 0 or not np.isfinite(length): return   # keep the combination coefficients
       coefficient_i = raw_i / length
   raw = None models a raw coefficient vector that is not finite (a division by a validation error 0: inf / nan) *)
Definition opticom_finish (raw : option (list Qc)) (coefs : list Qc) : list Qc :=
  match raw with
  | None => coefs
  | Some cs => let s := sumQ cs in if Qc_eqb s 0 then coefs else map (fun c => c / s) cs
  end.

(* sklearn.metrics.mean_squared_error(targets, predictions) *)
Definition mse (y p : list Qc) : Qc := sumQ (map2 (fun a b => (a - b) * (a - b)) y p) / qc_of_nat (length y).

(* option 3, optimize_coefficients_error_per_grid(_spatially_adaptive): coefficient_i / error_i; numpy turns x / 0 into
   inf or nan, the sum is then not finite *)
Definition error_per_grid_raw (coefs errs : list Qc) : option (list Qc) :=
  if existsb (fun e => Qc_eqb e 0) errs then None else Some (map2 (fun c e => c / e) coefs errs).

(* a component grid of the scheme: its level vector (uniform) or its stripes (dimension-wise), surpluses, coefficient;
   predictions = interpolate_points_component_grid at the validation points (hats times surpluses, summed) *)
Definition predict_uniform (lv : list Z) (alphas : list Qc) (pts : list (list Qc)) : list Qc := map (interp_uniform lv alphas) pts.
Definition predict_nonuniform (stripes : list (list Qc)) (alphas : list Qc) (pts : list (list Qc)) : list Qc :=
  map (interp (grid_hats stripes) alphas) pts.

Definition opticom3 (preds : list (list Qc)) (coefs vy : list Qc) : list Qc :=
  opticom_finish (error_per_grid_raw coefs (map (mse vy) preds)) coefs.

(* option 2, optimize_coefficients_minimize_whole_error: matrix[j][i] = prediction of grid i at validation point j;
   coefficients = lstsq(matrix, validation targets) (replaced by a certificate checked with residual_ok_floor on the normal
   equations matrix^T matrix c = matrix^T y, both sides divided by the number of validation points); then the common step *)
Definition opticom2_matrix (preds : list (list Qc)) : list (list Qc) := transpose preds.     (* rows = validation points *)
Definition opticom2_certified (preds : list (list Qc)) (vy raw : list Qc) (tol : Qc) : bool :=
  let Mx := opticom2_matrix preds in
  residual_ok_floor (left_matrix Mx 0 false []) (right_vector Mx vy) raw tol (residual_floor Mx vy).

(* ------------------------------------------------------------------ Opticom option 1 (Garcke), standard combination technique *)
(* sum_C_matrix_with_alphas AS CODED: the interpolated values alphas_i / alphas_j are indexed with the ONE-DIMENSIONAL indices
   index_list[i][m] - 1 of the two grid points (not with the point numbers), and all mass factors use levelvec[k] *)
Definition nthQ (l : list Qc) (i : Z) : Qc := nth (Z.to_nat i) l 0.
Fixpoint garcke_prod (lk : Z) (k m : nat) (iv jv : list Z) (ai aj : list Qc) : option Qc :=
  match iv, jv with
  | i :: iv', j :: jv' =>
      let im := (i - 1)%Z in let jm := (j - 1)%Z in
      let f := if (m =? k)%nat then
                 (if (im =? jm)%Z then Some (pow2z (lk + 1) * nthQ ai jm * nthQ aj jm)
                  else if (1 <? Z.abs (jm - im))%Z then None
                  else Some (- pow2z lk * (nthQ ai im * nthQ aj jm)))
               else
                 (if (im =? jm)%Z then Some (1 / (pow2z (lk - 1) * Qc3) * nthQ ai im * nthQ aj jm)
                  else if (1 <? Z.abs (jm - im))%Z then None
                  else Some (1 / (pow2z (lk - 1) * Qc12) * (nthQ ai im * nthQ aj jm))) in
      match f with
      | None => None
      | Some v => match garcke_prod lk k (S m) iv' jv' ai aj with None => None | Some w => Some (v * w) end
      end
  | _, _ => Some 1
  end.
Definition garcke_entry (lv : list Z) (ai aj : list Qc) (iv jv : list Z) : Qc :=
  sumQ (map (fun k => match garcke_prod (nth k lv 0%Z) k 0 iv jv ai aj with Some v => v | None => 0 end) (seq 0 (length lv))).
(* for i: for j >= i: sum += res; if i != j: sum += res *)
Fixpoint upper_sum {T} (e : T -> T -> Qc) (pts : list T) : Qc :=
  match pts with [] => 0 | t :: ts => e t t + (1 + 1) * sumQ (map (e t) ts) + upper_sum e ts end.
(* compute_regularization_term_opticom: both component solutions interpolated at the points of the grid of the
   componentwise maximal level vector *)
Definition level_points (lv : list Z) : list (list Qc) :=
  cross (map (fun l => map (fun n => qc_of_Z n / pow2z l) (zrange_from 1 (Z.to_nat (num_points l)))) lv).
Definition garcke_reg (lvi lvj : list Z) (ali alj : list Qc) : Qc :=
  let lv := map2 Z.max lvj lvi in
  let pts := level_points lv in
  upper_sum (garcke_entry lv (predict_uniform lvi ali pts) (predict_uniform lvj alj pts)) (index_list lv).
(* build_matrix_opticom: entry (i, j), i <= j, mirrored; vector = diagonal *)
Definition garcke_matrix (grids : list (list Z * list Qc)) (vdata : list (list Qc)) (lam : Qc) : list (list Qc) :=
  let nv := qc_of_nat (length vdata) in
  sym_matrix (fun gi gj =>
                dotQ (predict_uniform (fst gi) (snd gi) vdata) (predict_uniform (fst gj) (snd gj) vdata) * (1 / nv)
                + (if Qc_eqb lam 0 then 0 else lam * garcke_reg (fst gi) (fst gj) (snd gi) (snd gj))) 0 grids.
Fixpoint diag_of (M : list (list Qc)) (i : nat) : list Qc :=
  match M with [] => [] | row :: r => nth i row 0 :: diag_of r (S i) end.
Definition garcke_vector (M : list (list Qc)) : list Qc := diag_of M 0.
(* coefficients = lstsq(matrix, vector): certificate on the normal equations of that least-squares problem *)
Definition opticom1_certified (M : list (list Qc)) (raw : list Qc) (tol : Qc) : bool :=
  let v := garcke_vector M in
  residual_ok_floor (left_matrix M 0 false []) (right_vector M v) raw tol (residual_floor M v).
