(* Model of sparseSpACE/combiScheme.py (class CombiScheme) — definitions only.
   Python sets are duplicate-free lists; observables are compared as sorted sets by the harness. *)
From Coq Require Import ZArith List Bool.
Import ListNotations.
Open Scope Z_scope.

Definition lv := list Z.

Fixpoint lv_eqb (a b : lv) : bool :=
  match a, b with
  | [], [] => true
  | x :: a', y :: b' => (x =? y) && lv_eqb a' b'
  | _, _ => false
  end.

Definition mem (l : lv) (s : list lv) : bool := existsb (lv_eqb l) s.
Definition set_add (l : lv) (s : list lv) : list lv := if mem l s then s else s ++ [l].
Definition set_remove (l : lv) (s : list lv) : list lv := filter (fun k => negb (lv_eqb l k)) s.
Definition set_union (s t : list lv) : list lv := fold_left (fun acc l => set_add l acc) t s.
(* set(list): remove duplicates *)
Definition set_of_list (s : list lv) : list lv := set_union [] s.

(* l with component d changed by delta (identity when d is out of range) *)
Fixpoint bump (d : nat) (delta : Z) (l : lv) : lv :=
  match l, d with
  | [], _ => []
  | x :: r, O => (x + delta) :: r
  | x :: r, S d' => x :: bump d' delta r
  end.

Definition zrange (n : Z) : list Z := map Z.of_nat (seq 0 (Z.to_nat n)).

(* CombiScheme.getGrids(dim_left, values_left); dim_left = 0 does not terminate in Python and
   is excluded (dim >= 1 everywhere), the model returns [] there. *)
Fixpoint getGrids (dim_left : nat) (values_left : Z) : list lv :=
  match dim_left with
  | O => []
  | S n =>
    match n with
    | O => [[values_left]]
    | S _ => flat_map (fun index => map (cons (index + 1)) (getGrids n (values_left - index)))
                      (zrange values_left)
    end
  end.

Definition shift_all (c : Z) (gs : list lv) : list lv := map (map (fun l => l + c)) gs.

Definition init_active_index_set (lmax lmin : Z) (dim : nat) : list lv :=
  set_of_list (shift_all (lmin - 1) (getGrids dim (lmax - lmin + 1))).

(* for q in range(1, lmax-lmin+1) *)
Definition init_old_index_set (lmax lmin : Z) (dim : nat) : list lv :=
  set_of_list (flat_map (fun q0 => shift_all (lmin - 1) (getGrids dim (lmax - lmin + 1 - (q0 + 1))))
                        (zrange (lmax - lmin))).

Record scheme := mkScheme {
  s_dim : nat;
  s_lmin : Z;
  s_lmax : Z;
  s_lmax_adaptive : Z;
  s_active : list lv;
  s_old : list lv
}.

(* init_adaptive_combi_scheme; None = one of the asserts fails *)
Definition init_scheme (dim : nat) (lmax lmin : Z) : option scheme :=
  if (lmax >=? lmin) && (lmax >=? 0) && (lmin >=? 0) then
    Some (mkScheme dim lmin lmax lmax (init_active_index_set lmax lmin dim) (init_old_index_set lmax lmin dim))
  else None.

(* __refine_scheme(d, levelvec): returns (added?, new state) *)
Definition refine_scheme (d : nat) (levelvec : lv) (s : scheme) : bool * scheme :=
  let l' := bump d 1 levelvec in
  let ok := forallb (fun dim =>
                let copy := bump dim (-1) l' in
                negb (negb (mem copy (s_old s)) && negb (nth dim copy 0 <? s_lmin s)))
              (seq 0 (s_dim s)) in
  if ok then
    (true, mkScheme (s_dim s) (s_lmin s) (s_lmax s) (Z.max (s_lmax_adaptive s) (nth d l' 0))
                    (set_add l' (s_active s)) (s_old s))
  else (false, s).

(* update_adaptive_combi(levelvec): None = Python returns None (not refinable), Some dims otherwise *)
Definition update_scheme (s : scheme) (levelvec : lv) : option (list nat) * scheme :=
  if mem levelvec (s_active s) then
    let s1 := mkScheme (s_dim s) (s_lmin s) (s_lmax s) (s_lmax_adaptive s)
                       (set_remove levelvec (s_active s)) (set_add levelvec (s_old s)) in
    let '(dims, s2) :=
      fold_left (fun (acc : list nat * scheme) d =>
                   let '(ds, st) := acc in
                   let '(b, st') := refine_scheme d levelvec st in
                   (if b then ds ++ [d] else ds, st'))
                (seq 0 (s_dim s)) ([], s1) in
    (Some dims, s2)
  else (None, s).

Definition update (s : scheme) (l : lv) : scheme := snd (update_scheme s l).

Definition index_set (s : scheme) : list lv := set_union (s_active s) (s_old s).

(* get_cross_product of the per-dimension stencils *)
Fixpoint cross (ls : list (list Z)) : list (list Z) :=
  match ls with
  | [] => [[]]
  | a :: r => flat_map (fun x => map (cons x) (cross r)) a
  end.

Definition stencil_of (lmin : Z) (g : lv) : list (list Z) :=
  map (fun gd => if gd <=? lmin then [0] else [0; -1]) g.

Definition sumZ (l : list Z) : Z := fold_right Z.add 0 l.

(* -(abs(sum(s)) % 2) + (abs(sum(s) - 1) % 2) *)
Definition update_coefficient (s : list Z) : Z :=
  - (Z.abs (sumZ s) mod 2) + (Z.abs (sumZ s - 1) mod 2).

Fixpoint lv_add (a b : lv) : lv :=
  match a, b with
  | x :: a', y :: b' => (x + y) :: lv_add a' b'
  | _, _ => []
  end.

(* the Python dict: grid_dict[levelvec] += c, inserting when absent (insertion order kept) *)
Fixpoint dict_add (k : lv) (v : Z) (dct : list (lv * Z)) : list (lv * Z) :=
  match dct with
  | [] => [(k, v)]
  | (k', v') :: r => if lv_eqb k k' then (k', v' + v) :: r else (k', v') :: dict_add k v r
  end.

Definition contributions (lmin : Z) (idx : list lv) : list (lv * Z) :=
  flat_map (fun g => map (fun s => (lv_add g s, update_coefficient s)) (cross (stencil_of lmin g))) idx.

Definition accumulate (cs : list (lv * Z)) : list (lv * Z) :=
  fold_left (fun dct kv => dict_add (fst kv) (snd kv) dct) cs [].

(* get_coefficients_to_index_set(index_set) *)
Definition coefficients (lmin : Z) (idx : list lv) : list (lv * Z) :=
  filter (fun kv => negb (snd kv =? 0)) (accumulate (contributions lmin idx)).

Definition combi_scheme_adaptive (s : scheme) : list (lv * Z) :=
  coefficients (s_lmin s) (index_set s).

(* closed-form scheme (getCombiScheme on a non-initialised CombiScheme) *)
Fixpoint fact (n : nat) : Z := match n with O => 1 | S m => Z.of_nat n * fact m end.
Definition binom (n k : nat) : Z := fact n / (fact k * fact (n - k)).

Definition combi_scheme_standard (dim : nat) (lmin lmax : Z) : list (lv * Z) :=
  flat_map (fun q =>
      let c := (if Nat.even q then 1 else -1) * binom (dim - 1) q in
      map (fun g => (map (fun l => l + (lmin - 1)) g, c)) (getGrids dim (lmax - lmin + 1 - Z.of_nat q)))
    (seq 0 (Z.to_nat (Z.min (Z.of_nat dim) (lmax - lmin + 1)))).

(* componentwise >= *)
Fixpoint lv_geb (a b : lv) : bool :=
  match a, b with
  | [], [] => true
  | x :: a', y :: b' => (y <=? x) && lv_geb a' b'
  | _, _ => false
  end.

(* sum of the coefficients of all returned grids dominating l *)
Definition dominating_sum (cs : list (lv * Z)) (l : lv) : Z :=
  sumZ (map (fun kv => if lv_geb (fst kv) l then snd kv else 0) cs).
