(* C13 - "the reported point count equals the number of distinct integrand evaluations performed": the driver's evaluations as
   operations on the evaluation cache of C12 (Model/FunCache.v).
     DvPerform            performSpatiallyAdaptiv: operation.initialize() -> f.reset_dictionary()      (the harness' log restarts too)
     DvEval calls         one evaluate_operation: the calls of the quadrature AND of the surplus computation of the error estimator -
                          OSingle / OBatch when they go through Function.__call__ (since repair 7730064 all of them do),
                          OVec when eval_vectorized is called directly (the path before the repair: evaluated, not cached) -
                          followed by get_total_num_points() = f.get_f_dict_size(), the count that is reported and decided on
     DvRestart b          the restart of recalculate_frequently inside refine(): b = false: operation.reset_result() (the code),
                          b = true: operation.initialize(), which also empties the cache (seeded change C13r4)
   Definitions only. *)
From Coq Require Import ZArith List Bool.
From SG Require Import Base.QcUtil Model.FunCache.
Import ListNotations.

Inductive dev := DvPerform | DvEval (calls : list op) | DvRestart (reset_cache : bool).

Definition is_call (o : op) : bool := match o with OSingle _ | OBatch _ => true | _ => false end.
Definition through_cache (calls : list op) : bool := forallb is_call calls.

Fixpoint wf_history (h : list dev) : bool :=
  match h with
  | [] => true
  | DvPerform :: r => wf_history r
  | DvEval calls :: r => through_cache calls && wf_history r
  | DvRestart b :: r => negb b && wf_history r
  end.

(* points the integrand is asked for / evaluated at by the calls of one evaluation *)
Fixpoint touched (acc : list point) (calls : list op) : list point :=
  match calls with
  | [] => acc
  | OSingle p :: r => touched (acc ++ [p]) r
  | OBatch ps :: r => touched (acc ++ ps) r
  | OVec ps :: r => touched (acc ++ ps) r
  | _ :: r => touched acc r
  end.

(* what an independent observer of the integrand counts: distinct points touched since the last performSpatiallyAdaptiv *)
Fixpoint evaluated_counts (acc : list point) (h : list dev) : list nat :=
  match h with
  | [] => []
  | DvPerform :: r => evaluated_counts [] r
  | DvEval calls :: r => let acc' := touched acc calls in length (distinct acc') :: evaluated_counts acc' r
  | DvRestart _ :: r => evaluated_counts acc r
  end.

Section Count.
  Variable eval : point -> value.
  Variable olen : nat.

  (* what the driver reports: the size of the cache after every evaluation *)
  Fixpoint reported (vr : variant) (st : state) (h : list dev) : list nat :=
    match h with
    | [] => []
    | DvPerform :: r => reported vr (fst (step eval olen vr st OReset)) r
    | DvEval calls :: r => let st' := final eval olen vr st calls in length (fd st') :: reported vr st' r
    | DvRestart b :: r => reported vr (if b then fst (step eval olen vr st OReset) else st) r
    end.
End Count.
