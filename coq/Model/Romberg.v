(* Model of sparseSpACE/Extrapolation.py — definitions only (C11).
   Exact-arithmetic model over Qc of
     - ExtrapolationCoefficients.get_romberg_coefficient, RombergTrapezoidalWeights, RombergSimpsonWeights
     - ExtrapolationGrid.set_grid / __init_grid_slices (step-width assertion), compute_support_sequence,
       RombergGridSlice / TrapezoidalGridSlice weights, default container grouping (UNIT, GROUPED, GROUPED_OPTIMIZED),
       adjust_containers, RombergGridSliceContainer / SimpsonRombergGridSliceContainer, final dictionary collection
     - GridBinaryTree.init_tree / force_full_tree_invariant / get_grid / get_grid_levels
     - BalancedExtrapolationGrid.set_grid / get_weights (Neville tableau of leaf mid-point rules)
   Python dictionaries keyed by grid points are association lists sorted by key ([dict_add]); a Python `assert`
   that fails is [None].  Lagrange containers and constant subtraction are not modelled (outside the property). *)
From Coq Require Import ZArith List QArith Qcanon Bool Arith.
From SG Require Import Base.QcUtil.
Import ListNotations.
Open Scope Qc_scope.

(* ------------------------------------------------------------------------------------------------ *)
(* Extrapolation coefficients *)

Definition pow2 (j : nat) : Qc := Qc2 ^ j.

(* ExtrapolationCoefficients.get_step_width *)
Definition step_width (a b : Qc) (j : nat) : Qc := (b - a) / pow2 j.

Fixpoint prodQ (l : list Qc) : Qc := match l with [] => 1 | x :: r => x * prodQ r end.

(* one factor of the loop in get_romberg_coefficient *)
Definition coeff_factor (a b : Qc) (j e i : nat) : Qc :=
  if Nat.eqb i j then 1
  else (step_width a b i ^ e) / (step_width a b i ^ e - step_width a b j ^ e).

(* get_romberg_coefficient(m, j, exponent) *)
Definition romberg_coefficient (a b : Qc) (e m j : nat) : Qc :=
  prodQ (map (coeff_factor a b j e) (seq 0 (S m))).

(* the same with the extrapolation restricted to the levels lo..m (lo = 0 is the code as it is; lo = 1 is the repair
   proposed in fixes/C11-simpson-romberg-level0.patch for the Simpson coefficients) *)
Definition romberg_coefficient_from (lo : nat) (a b : Qc) (e m j : nat) : Qc :=
  if (j <? lo)%nat then 0 else prodQ (map (coeff_factor a b j e) (seq lo (S m - lo))).

(* SWITCH: first level taking part in RombergSimpsonCoefficients.get_coefficient.  0 = current code. *)
Definition simpson_min_level : nat := 1.

(* ExtrapolationVersion: exponent 2 = ROMBERG_DEFAULT, 1 = ROMBERG_LINEAR, 3 = ROMBERG_SIMPSON *)
Definition Qc3 : Qc := Q2Qc (3 # 1).
Definition Qc4 : Qc := Q2Qc (4 # 1).

(* RombergTrapezoidalWeights.get_boundary_point_weight(max_level) *)
Definition trap_boundary_weight (a b : Qc) (e m : nat) : Qc :=
  sumQ (map (fun j => (romberg_coefficient a b e m j * step_width a b j) / Qc2) (seq 0 (S m))).

(* RombergTrapezoidalWeights.get_inner_point_weight(level, max_level); assert 1 <= level <= max_level *)
Definition trap_inner_weight (a b : Qc) (e l m : nat) : option Qc :=
  if (1 <=? l)%nat && (l <=? m)%nat then
    Some (sumQ (map (fun j => romberg_coefficient a b e m j * step_width a b j) (seq l (S m - l))))
  else None.

(* RombergSimpsonWeights (exponent 3) *)
Definition simpson_boundary_weight_from (lo : nat) (a b : Qc) (m : nat) : Qc :=
  sumQ (map (fun j => romberg_coefficient_from lo a b 3 m j * step_width a b j) (seq 0 (S m))) / Qc3.

Definition simpson_inner_weight_from (lo : nat) (a b : Qc) (l m : nat) : option Qc :=
  if (1 <=? l)%nat && (l <=? m)%nat then
    Some (((romberg_coefficient_from lo a b 3 m l * Qc4) / Qc3) * step_width a b l
          + sumQ (map (fun j => ((romberg_coefficient_from lo a b 3 m j * step_width a b j) * Qc2) / Qc3)
                      (seq (S l) (m - l))))
  else None.

Definition simpson_boundary_weight := simpson_boundary_weight_from simpson_min_level.
Definition simpson_inner_weight := simpson_inner_weight_from simpson_min_level.

(* ------------------------------------------------------------------------------------------------ *)
(* list helpers: min(...) and .index(...) of Python *)

Fixpoint list_min (x : nat) (l : list nat) : nat :=
  match l with [] => x | y :: r => list_min (Nat.min x y) r end.
Fixpoint index_of (x : nat) (l : list nat) : nat :=
  match l with [] => O | y :: r => if Nat.eqb x y then O else S (index_of x r) end.
(* l.index(min(l)) : position of the first minimum *)
Definition argmin (l : list nat) : nat :=
  match l with [] => O | x :: r => index_of (list_min x r) l end.
Definition list_max (l : list nat) : nat := fold_right Nat.max O l.

Definition slice_list {A} (l : list A) (start stop : nat) : list A := firstn (stop - start) (skipn start l).

(* ------------------------------------------------------------------------------------------------ *)
(* compute_support_sequence.  [fuel] bounds stop - start; at fuel 0 we have stop <= start and Python returns [] too. *)

Fixpoint supp_rec (fuel : nat) (levels : list nat) (start stop fs : nat) : list (nat * nat) :=
  match fuel with
  | O => []
  | S f =>
    if (stop <=? start)%nat then []
    else
      let sl := slice_list levels (S start) stop in
      match sl with
      | [] => []
      | _ =>
        let nb := (S start + argmin sl)%nat in
        let se := if (nb <=? fs)%nat then (nb, stop) else (start, nb) in
        se :: supp_rec f levels (fst se) (snd se) fs
      end
  end.

Definition support_sequence_idx (levels : list nat) (fs : nat) : list (nat * nat) :=
  let n := length levels in
  (O, (n - 1)%nat) :: supp_rec n levels O (n - 1)%nat fs.

Definition nthQ (l : list Qc) (i : nat) : Qc := nth i l 0.

Definition support_sequence (grid : list Qc) (levels : list nat) (fs : nat) : list (Qc * Qc) :=
  map (fun se => (nthQ grid (fst se), nthQ grid (snd se))) (support_sequence_idx levels fs).

(* ------------------------------------------------------------------------------------------------ *)
(* slices *)

Record slice := mkSlice {
  sl_l : Qc; sl_r : Qc;        (* interval *)
  sl_ll : nat; sl_rl : nat;    (* levels of the two end points *)
  sl_supp : list (Qc * Qc)     (* support sequence *)
}.
Definition sl_width (s : slice) : Qc := sl_r s - sl_l s.
Definition sl_max_level (s : slice) : nat := Nat.max (sl_ll s) (sl_rl s).

(* ExtrapolationGridSlice.__init__ asserts *)
Definition slice_ok (s : slice) : bool :=
  Qc_ltb (sl_l s) (sl_r s) && Nat.eqb (length (sl_supp s)) (S (sl_max_level s)).

(* a weight dictionary restricted to what is observable: the contributions (grid point, weight) *)
Definition contrib := (Qc * Qc)%type.

(* RombergGridSlice.get_weight_for_left_and_right_support_point; None = one of its asserts fails *)
Definition romberg_slice_pair (s : slice) (L R : Qc) : option (Qc * Qc) :=
  if Qc_leb L (sl_l s) && Qc_leb (sl_r s) R && negb (Qc_eqb L R) then
    let w := sl_width s in
    let support_point_ratio := L / (L - R) in
    let slice_support_ratio := Qchalf * ((sl_r s + sl_l s) / (L - R)) in
    Some (w * (1 - support_point_ratio + slice_support_ratio), w * (support_point_ratio - slice_support_ratio))
  else None.

Fixpoint opt_concat {A} (l : list (option (list A))) : option (list A) :=
  match l with
  | [] => Some []
  | Some x :: r => match opt_concat r with Some y => Some (x ++ y) | None => None end
  | None :: _ => None
  end.

(* RombergGridSlice.get_final_weights (extrapolation version ROMBERG_DEFAULT, exponent 2) *)
Definition romberg_slice_final (s : slice) : option (list contrib) :=
  match sl_supp s with
  | [] => None
  | (a, b) :: _ =>
    let m := sl_max_level s in
    opt_concat (map (fun level =>
        let '(L, R) := nth level (sl_supp s) (0, 0) in
        match romberg_slice_pair s L R with
        | Some (wl, wr) =>
          let c := romberg_coefficient a b 2 m level in
          Some [(L, c * wl); (R, c * wr)]
        | None => None
        end) (seq 0 (S m)))
  end.

(* TrapezoidalGridSlice.get_final_weights *)
Definition trapezoid_slice_final (s : slice) : option (list contrib) :=
  Some [(sl_l s, sl_width s / Qc2); (sl_r s, sl_width s / Qc2)].

(* SliceVersion: 1 = ROMBERG_DEFAULT, 2 = TRAPEZOID *)
Inductive slice_version := SV_Romberg | SV_Trapezoid.
Definition slice_final (sv : slice_version) (s : slice) : option (list contrib) :=
  match sv with SV_Romberg => romberg_slice_final s | SV_Trapezoid => trapezoid_slice_final s end.

(* ------------------------------------------------------------------------------------------------ *)
(* __init_grid_slices: one slice per pair of neighbours, with the step width assertion *)

Fixpoint zip_levels (grid : list Qc) (levels : list nat) : list (Qc * nat) :=
  match grid, levels with x :: g, l :: ls => (x, l) :: zip_levels g ls | _, _ => [] end.

Definition make_slice (grid : list Qc) (levels : list nat) (a b : Qc) (i : nat) : option slice :=
  let sp := nthQ grid i in let ep := nthQ grid (S i) in
  let slv := nth i levels O in let elv := nth (S i) levels O in
  let w := ep - sp in
  if Qc_eqb w (step_width a b (Nat.max slv elv)) then
    let s := mkSlice sp ep slv elv (support_sequence grid levels i) in
    if slice_ok s then Some s else None
  else None.

Fixpoint opt_list {A} (l : list (option A)) : option (list A) :=
  match l with
  | [] => Some []
  | Some a :: r => match opt_list r with Some r' => Some (a :: r') | None => None end
  | None :: _ => None
  end.

Definition init_grid_slices (grid : list Qc) (levels : list nat) : option (list slice) :=
  let a := nthQ grid 0 in let b := nthQ grid (length grid - 1) in
  opt_list (map (make_slice grid levels a b) (seq 0 (length grid - 1))).

(* ------------------------------------------------------------------------------------------------ *)
(* containers *)

Inductive grouping := G_Unit | G_Grouped | G_Optimized.

(* __initialize_default_containers, slice by slice; [cur] is the last container in reverse order *)
Fixpoint group_aux (unit : bool) (cur : list slice) (curw : Qc) (rest : list slice) : list (list slice) :=
  match rest with
  | [] => [rev cur]
  | s :: r =>
    if unit || negb (Qc_eqb (sl_width s) curw) then rev cur :: group_aux unit [s] (sl_width s) r
    else group_aux unit (s :: cur) curw r
  end.

Definition initial_containers (g : grouping) (slices : list slice) : list (list slice) :=
  match slices with
  | [] => []
  | s :: r => group_aux (match g with G_Unit => true | _ => false end) [s] (sl_width s) r
  end.

(* is n a power of two: (math.log(n, 2)).is_integer() *)
Fixpoint is_pow2_fuel (fuel n : nat) : bool :=
  match fuel with
  | O => false
  | S f => if Nat.eqb n 1 then true else if Nat.even n && negb (Nat.eqb n 0) then is_pow2_fuel f (Nat.div2 n) else false
  end.
Definition is_pow2 (n : nat) : bool := is_pow2_fuel (S n) n.

(* find_closest_power_below(n): the largest power of two <= n (1 for n <= 1) *)
Fixpoint pow2_below_fuel (fuel n p : nat) : nat :=
  match fuel with
  | O => p
  | S f => if (2 * p <=? n)%nat then pow2_below_fuel f n (2 * p)%nat else p
  end.
Definition pow2_below (n : nat) : nat := pow2_below_fuel n n 1%nat.

(* split_into_containers_with_power_two_sizes *)
Fixpoint split_pow2 (fuel : nat) (c : list slice) : list (list slice) :=
  match fuel with
  | O => []
  | S f =>
    match c with
    | [] => []
    | _ => let k := pow2_below (length c) in firstn k c :: split_pow2 f (skipn k c)
    end
  end.

(* adjust_containers *)
Definition adjust_containers (g : grouping) (cs : list (list slice)) : list (list slice) :=
  flat_map (fun c =>
    if is_pow2 (length c) then [c]
    else match g with
         | G_Optimized => split_pow2 (length c) c
         | _ => map (fun s => [s]) c
         end) cs.

(* __get_normalized_grid_levels(start, stop, level); [fuel] bounds stop - start + 1 *)
Fixpoint norm_levels_rec (fuel : nat) (start stop level : nat) : list nat :=
  match fuel with
  | O => []
  | S f =>
    if (stop <? start)%nat then []
    else if Nat.eqb start stop then [level]
    else
      let middle := Nat.div2 (start + stop) in
      norm_levels_rec f start (middle - 1)%nat (S level) ++ [level] ++ norm_levels_rec f (S middle) stop (S level)
  end.

(* get_normalized_grid_levels for a container with >= 2 slices whose size is a power of two (n grid points) *)
Definition normalized_levels (n : nat) : list nat :=
  [O] ++ norm_levels_rec n 1%nat (n - 2)%nat 1%nat ++ [O].

Inductive container_version := CV_Default | CV_Simpson.

Definition container_grid (c : list slice) : list Qc :=
  map sl_l c ++ [sl_r (last c (mkSlice 0 0 O O []))].

Definition container_left (c : list slice) : Qc := match c with s :: _ => sl_l s | [] => 0 end.
Definition container_right (c : list slice) : Qc := sl_r (last c (mkSlice 0 0 O O [])).

(* Romberg / SimpsonRomberg GridSliceContainer.get_final_weights *)
Definition container_final_from (lo : nat) (sv : slice_version) (cv : container_version) (c : list slice) : option (list contrib) :=
  match c with
  | [] => None
  | [s] => slice_final sv s
  | _ =>
    let a := container_left c in let b := container_right c in
    let grid := container_grid c in
    let n := length grid in
    let nl := normalized_levels n in
    let m := list_max nl in
    opt_list (map (fun i =>
        let point := nthQ grid i in
        if Nat.eqb i 0 || Nat.eqb i (n - 1) then
          Some (point, match cv with CV_Default => trap_boundary_weight a b 2 m | CV_Simpson => simpson_boundary_weight_from lo a b m end)
        else
          match (match cv with CV_Default => trap_inner_weight a b 2 (nth i nl O) m
                             | CV_Simpson => simpson_inner_weight_from lo a b (nth i nl O) m end) with
          | Some w => Some (point, w)
          | None => None
          end) (seq 0 n))
  end.

Definition container_final := container_final_from simpson_min_level.

(* ------------------------------------------------------------------------------------------------ *)
(* dictionaries keyed by grid points: association lists sorted by key *)

Fixpoint dict_add (k v : Qc) (d : list (Qc * Qc)) : list (Qc * Qc) :=
  match d with
  | [] => [(k, v)]
  | (k', v') :: r =>
    if Qc_eqb k k' then (k', v' + v) :: r
    else if Qc_ltb k k' then (k, v) :: d
    else (k', v') :: dict_add k v r
  end.
Definition dict_of (cs : list contrib) : list (Qc * Qc) :=
  fold_left (fun d kv => dict_add (fst kv) (snd kv) d) cs [].
Fixpoint dict_get (k : Qc) (d : list (Qc * Qc)) : Qc :=
  match d with [] => 0 | (k', v) :: r => if Qc_eqb k k' then v else dict_get k r end.

(* ------------------------------------------------------------------------------------------------ *)
(* GridBinaryTree *)

Inductive tree := TLeaf | TNode (l : tree) (p : Qc) (r : tree).

(* __init_tree_rec on the inner points (list of (point, level)), split at the first minimal level *)
Fixpoint build_tree (fuel : nat) (pts : list (Qc * nat)) : tree :=
  match fuel with
  | O => TLeaf
  | S f =>
    match pts with
    | [] => TLeaf
    | _ =>
      let i := argmin (map snd pts) in
      TNode (build_tree f (firstn i pts)) (fst (nth i pts (0, O))) (build_tree f (skipn (S i) pts))
    end
  end.

Definition tree_point (t : tree) : Qc := match t with TLeaf => 0 | TNode _ p _ => p end.

(* force_full_tree_invariant: every node with exactly one child gets the mirrored sibling as a new leaf *)
Fixpoint force_full (t : tree) : tree :=
  match t with
  | TLeaf => TLeaf
  | TNode l p r =>
    match l, r with
    | TLeaf, TLeaf => TNode TLeaf p TLeaf
    | TNode _ pl _, TLeaf => TNode (force_full l) p (TNode TLeaf (p + (p - pl)) TLeaf)
    | TLeaf, TNode _ pr _ => TNode (TNode TLeaf (p - (pr - p)) TLeaf) p (force_full r)
    | _, _ => TNode (force_full l) p (force_full r)
    end
  end.

Fixpoint tree_points (t : tree) : list Qc :=
  match t with TLeaf => [] | TNode l p r => tree_points l ++ [p] ++ tree_points r end.
Fixpoint tree_levels (lev : nat) (t : tree) : list nat :=
  match t with TLeaf => [] | TNode l p r => tree_levels (S lev) l ++ [lev] ++ tree_levels (S lev) r end.

Definition inner {A} (l : list A) : list A := removelast (tl l).

(* init_tree: asserts boundary levels 0 and a non-empty tree *)
Definition init_tree (grid : list Qc) (levels : list nat) : option tree :=
  match levels with
  | O :: _ =>
    if Nat.eqb (last levels 1%nat) O then
      let pts := inner (zip_levels grid levels) in
      match pts with [] => None | _ => Some (build_tree (length pts) pts) end
    else None
  | _ => None
  end.

Definition tree_grid (a b : Qc) (t : tree) : list Qc * list nat :=
  ([a] ++ tree_points t ++ [b], [O] ++ tree_levels 1 t ++ [O]).

(* ------------------------------------------------------------------------------------------------ *)
(* ExtrapolationGrid.set_grid + get_weights *)

Record ext_result := mkExt {
  er_grid : list Qc; er_levels : list nat;
  er_container_sizes : list nat;
  er_dict : list (Qc * Qc)          (* the collected weight dictionary, sorted by grid point *)
}.
(* get_weights: the dictionary values in the order of the sorted keys *)
Definition er_weights (r : ext_result) : list Qc := map snd (er_dict r).

Definition extrapolation_grid_from (lo : nat) (g : grouping) (sv : slice_version) (cv : container_version) (force : bool)
           (grid0 : list Qc) (levels0 : list nat) : option ext_result :=
  if Nat.eqb (length grid0) (length levels0) && (2 <=? length grid0)%nat then
    match (if force then
             match init_tree grid0 levels0 with
             | Some t => Some (tree_grid (nthQ grid0 0) (nthQ grid0 (length grid0 - 1)) (force_full t))
             | None => None
             end
           else Some (grid0, levels0)) with
    | None => None
    | Some (grid, levels) =>
      match init_grid_slices grid levels with
      | None => None
      | Some slices =>
        let cs := adjust_containers g (initial_containers g slices) in
        match opt_concat (map (container_final_from lo sv cv) cs) with
        | None => None
        | Some contribs => Some (mkExt grid levels (map (@length slice) cs) (dict_of contribs))
        end
      end
    end
  else None.

Definition extrapolation_grid := extrapolation_grid_from simpson_min_level.

(* ------------------------------------------------------------------------------------------------ *)
(* BalancedExtrapolationGrid *)

Inductive btree := BLeaf | BNode (lo hi : Qc) (l r : btree).

(* init_tree_rec: a node stores the boundaries of its cell; its grid point is the mid-point of the cell *)
Fixpoint build_btree (fuel : nat) (lo : Qc) (pts : list (Qc * nat)) (hi : Qc) : btree :=
  match fuel with
  | O => BLeaf
  | S f =>
    match pts with
    | [] => BLeaf
    | _ =>
      let i := argmin (map snd pts) in
      let p := fst (nth i pts (0, O)) in
      BNode lo hi (build_btree f lo (firstn i pts) p) (build_btree f p (skipn (S i) pts) hi)
    end
  end.

Definition b_is_leaf (t : btree) : bool := match t with BNode _ _ BLeaf BLeaf => true | _ => false end.

(* every node has both children or none *)
Fixpoint b_balanced (t : btree) : bool :=
  match t with
  | BLeaf => true
  | BNode _ _ BLeaf BLeaf => true
  | BNode _ _ BLeaf _ => false
  | BNode _ _ _ BLeaf => false
  | BNode _ _ l r => b_balanced l && b_balanced r
  end.

Definition midpoint (lo hi : Qc) : Qc := (lo + hi) / Qc2.

(* get_leafs_or_max_level_nodes(max_level) turned into the weight dictionary entries (grid_point, step width);
   [lev] is the level of the node (root 1) *)
Fixpoint b_rule (lev maxl : nat) (t : btree) : list contrib :=
  match t with
  | BLeaf => []
  | BNode lo hi l r =>
    if (maxl <? lev)%nat then []
    else if Nat.eqb lev maxl || b_is_leaf t then [(midpoint lo hi, hi - lo)]
    else b_rule (S lev) maxl l ++ b_rule (S lev) maxl r
  end.

(* dictionary assignment d[k] = v *)
Fixpoint dict_set (k v : Qc) (d : list (Qc * Qc)) : list (Qc * Qc) :=
  match d with
  | [] => [(k, v)]
  | (k', v') :: r =>
    if Qc_eqb k k' then (k', v) :: r
    else if Qc_ltb k k' then (k, v) :: d
    else (k', v') :: dict_set k v r
  end.
Definition dict_assign (cs : list contrib) : list (Qc * Qc) :=
  fold_left (fun d kv => dict_set (fst kv) (snd kv) d) cs [].

Definition scale_dict (c : Qc) (d : list (Qc * Qc)) : list contrib := map (fun kv => (fst kv, c * snd kv)) d.

(* extrapolate_dicts_one_step(left, top_left, k): key-wise (1-c)*left + c*top_left, missing entries count as 0 *)
Definition extrapolate_one_step (dleft dtop : list (Qc * Qc)) (k : nat) : list (Qc * Qc) :=
  let c := (- (1)) / (Qc4 ^ k - 1) in
  dict_of (scale_dict (1 - c) dleft ++ scale_dict c dtop).

(* next column of the tableau: entries i = j .. max_level-1 from the previous column (entries j-1 .. max_level-1) *)
Fixpoint next_column (k : nat) (col : list (list (Qc * Qc))) : list (list (Qc * Qc)) :=
  match col with
  | dtop :: ((dleft :: _) as rest) => extrapolate_one_step dleft dtop k :: next_column k rest
  | _ => []
  end.

(* columns 1 .. : repeat until the column has a single entry *)
Fixpoint tableau (fuel k : nat) (col : list (list (Qc * Qc))) : list (Qc * Qc) :=
  match fuel with
  | O => last col []
  | S f =>
    match col with
    | [] => []
    | [x] => x
    | _ => tableau f (S k) (next_column k col)
    end
  end.

(* set_grid (asserts) + the final entry of the tableau in get_weights *)
Definition balanced_dict (grid : list Qc) (levels : list nat) : option (list (Qc * Qc)) :=
  match levels with
  | O :: _ =>
    if Nat.eqb (last levels 1%nat) O then
      let pts := inner (zip_levels grid levels) in
      match pts with
      | [] => None
      | _ =>
        let t := build_btree (length pts) (nthQ grid 0) pts (nthQ grid (length grid - 1)) in
        if b_balanced t then
          let maxl := list_max levels in
          let col0 := map (fun i => dict_assign (b_rule 1 i t)) (seq 1 maxl) in
          Some (tableau maxl 1 col0)
        else None
      end
    else None
  | _ => None
  end.

(* get_weights: weight_dict_table[-1][-1][grid_point] for every grid point (defaultdict: missing = 0) *)
Definition balanced_weights (grid : list Qc) (levels : list nat) : option (list Qc) :=
  match balanced_dict grid levels with
  | Some final => Some (map (fun g => dict_get g final) grid)
  | None => None
  end.

(* run-time checker used with [balanced_weights]: all keys of the final dictionary are grid points, no duplicates *)
Definition memQ (x : Qc) (l : list Qc) : bool := existsb (Qc_eqb x) l.
Fixpoint nodupQ (l : list Qc) : bool := match l with [] => true | x :: r => negb (memQ x r) && nodupQ r end.
Definition keys_in_grid (d : list (Qc * Qc)) (grid : list Qc) : bool :=
  forallb (fun k => memQ k grid) (map fst d) && nodupQ (map fst d) && nodupQ grid.
