(* C02: vector-valued functions and tensor-grid requests AS THE CODE ACCUMULATES THEM (StandardCombi.__call__ / interpolate_grid,
   Interpolation.interpolate_points).  The code keeps a matrix `interpolation` (rows = evaluation points, columns = output
   components of the function), starts from zeros and adds, for every component grid of the scheme in list order,
   interpolate_points(points, component_grid) * coefficient; interpolate_points runs one multilinear interpolation per output
   component (values[:, d]).  interpolate_grid does the same on  list(get_cross_product(grid_coordinates)) = itertools.product:
   the FIRST coordinate array varies slowest, the last fastest - crossQ of Model/StdCombi.v has exactly this order
   (Proofs/StdVec.v: crossQ_nth).  Definitions only. *)
From Coq Require Import ZArith List Bool QArith Qcanon.
From SG Require Import Base.QcUtil Model.CombiScheme Model.StdCombi.
Import ListNotations.
Local Open Scope Qc_scope.

Definition vadd (u v : list Qc) : list Qc := map (fun p => fst p + snd p) (combine u v).
Definition madd (A B : list (list Qc)) : list (list Qc) := map (fun p => vadd (fst p) (snd p)) (combine A B).
Definition mscale (c : Qc) (A : list (list Qc)) : list (list Qc) := map (map (fun v => v * c)) A.
Definition mzero (n m : nat) : list (list Qc) := repeat (repeat 0 m) n.

(* k-th output component of a vector-valued function *)
Definition out_comp (F : list Qc -> list Qc) (k : nat) (p : list Qc) : Qc := nth k (F p) 0.

(* interpolate_points on one component grid: rows = points, columns = output components *)
Definition comp_interp_matrix (boundary : bool) (a b : list Qc) (l : lv) (F : list Qc -> list Qc) (nout : nat)
  (pts : list (list Qc)) : list (list Qc) :=
  map (fun x => map (fun k => comp_interp boundary a b l (out_comp F k) x) (seq 0 nout)) pts.

(* __call__: zeros, then += interpolate_points(..) * coefficient per component grid, in list order *)
Definition combi_interp_matrix (boundary : bool) (a b : list Qc) (cs : list (lv * Z)) (F : list Qc -> list Qc) (nout : nat)
  (pts : list (list Qc)) : list (list Qc) :=
  fold_left (fun acc kv => madd acc (mscale (qc_of_Z (snd kv)) (comp_interp_matrix boundary a b (fst kv) F nout pts)))
            cs (mzero (length pts) nout).

(* interpolate_grid: the same on the cross product of the 1D coordinate arrays, first array slowest *)
Definition combi_interp_grid (boundary : bool) (a b : list Qc) (cs : list (lv * Z)) (F : list Qc -> list Qc) (nout : nat)
  (coords : list (list Qc)) : list (list Qc) :=
  combi_interp_matrix boundary a b cs F nout (crossQ coords).

(* a vector-valued function from its components *)
Definition vec_fun (fs : list (list Qc -> Qc)) (p : list Qc) : list Qc := map (fun f => f p) fs.
