(* C08 — local tensor quadrature grids of sparseSpACE/Grid.py over Qc: definitions only.
   Modelled line by line:
     Grid1d.set_current_area (border logic lowerBorder/upperBorder, spacing)        Grid.py:213-246
     TrapezoidalGrid1D  level_to_num_points_1d, get_1D_level_points, get_1d_weight,
                        weight_composite_trapezoidal (incl. modified basis)           Grid.py:779-840
     SimpsonGrid1D.get_1D_level_weights                                              Grid.py:859-872
     ClenshawCurtisGrid1D / LejaGrid1D / GaussGrid1D / LagrangeGrid1D / BSplineGrid1D
                        level_to_num_points_1d + the slice taken by the border logic (counts only;
                        their nodes are irrational / weights come out of Gauss quadrature: certified moments)
     Grid.setCurrentArea / getPoints / get_weights / integrate (tensor product)      Model/Tensor.v
   `isclose(start, a)` and `end == b` are modelled as equality (inputs live on a dyadic lattice).
   Indices and counts are nat (levels are small); coordinates and weights are Qc. *)
From Coq Require Import ZArith List QArith Qabs Qcanon Bool Arith.
From SG Require Import Base.QcUtil Model.Tensor.
Import ListNotations.
Open Scope Qc_scope.

Definition b2n (b : bool) : nat := if b then 1%nat else 0%nat.

(* number of points of a level including both end points *)
Definition npwb_of_level (l : nat) : nat := (2 ^ l + 1)%nat.

Definition touch_l (a s : Qc) : bool := Qc_eqb s a.     (* isclose(self.start, self.a) *)
Definition touch_r (b e : Qc) : bool := Qc_eqb e b.     (* self.end == self.b *)

(* TrapezoidalGrid1D / SimpsonGrid1D / LagrangeGrid1D / BSplineGrid1D .level_to_num_points_1d *)
Definition num_points_eq (bnd tl tr : bool) (npwb : nat) : nat :=
  (npwb - (if bnd then 0 else b2n tl + b2n tr))%nat.

(* LejaGrid1D.level_to_num_points_1d: independent of the sub-box *)
Definition leja_npwb (l : nat) : nat := match l with O => 2%nat | _ => (2 * (l + 1) - 1)%nat end.
Definition num_points_leja (bnd : bool) (l : nat) : nat := (leja_npwb l - (if bnd then 0 else 2))%nat.

(* ClenshawCurtisGrid1D.level_to_num_points_1d: compares with the constants 0 and 1, not with a and b *)
Definition num_points_cc (bnd : bool) (s e : Qc) (npwb : nat) : nat :=
  (npwb - (if bnd then 0 else b2n (Qc_eqb s 0) + b2n (Qc_eqb e 1)))%nat.

(* Grid1d.set_current_area: (lowerBorder, upperBorder) *)
Definition borders (bnd : bool) (np npwb : nat) (tl tr : bool) : nat * nat :=
  if negb bnd && (np <? npwb)%nat
  then ((if tl then 1%nat else 0%nat), (if tr then (npwb - 1)%nat else npwb))
  else (0%nat, np).

(* self.spacing = (end - start) / (num_points_with_boundary - 1) *)
Definition spacing (s e : Qc) (npwb : nat) : Qc := (e - s) / qn (npwb - 1).

(* np.linspace(s, e, npwb)[i] *)
Definition lin (s h : Qc) (i : nat) : Qc := s + qn i * h.

(* python slice  arr[lo:up]  of an array of length n given by its index function *)
Definition slice_idx (lo up n : nat) : list nat := seq lo (Nat.min up n - lo).

(* TrapezoidalGrid1D.get_1D_level_points *)
Definition trap_points (bnd : bool) (np npwb lo up : nat) (s e : Qc) : list Qc :=
  if negb bnd && (np =? 1)%nat then [(e + s) / Qc2]
  else map (lin s (spacing s e npwb)) (slice_idx lo up npwb).

(* TrapezoidalGrid1D.weight_composite_trapezoidal *)
Definition wct (bnd : bool) (np npwb lo : nat) (h : Qc) (i : nat) : Qc :=
  if negb bnd && (np =? 1)%nat then h
  else h * (if ((i + lo =? 0) || (i + lo =? npwb - 1))%nat then Qchalf else 1).

(* TrapezoidalGrid1D.get_1d_weight *)
Definition trap_weight (modb bnd : bool) (np npwb lo up : nat) (s e : Qc) (i : nat) : Qc :=
  let h := spacing s e npwb in
  let c := wct bnd np npwb lo h in
  if modb then
    if (np =? 1)%nat then e - s
    else if (np =? 2)%nat then
      if (lo =? 1)%nat then (if (i =? 0)%nat then e - s else 0)
      else if (up =? npwb - 1)%nat then (if (i =? 1)%nat then e - s else 0)
      else c i
    else
      if ((i =? 0) && (lo =? 1))%nat then Qc2 * h
      else if ((i =? 1) && (lo =? 1))%nat then
        (if ((np =? 3) && (up =? npwb - 1))%nat then 0 else c i * Qchalf)
      else if ((i =? np - 1) && (up =? npwb - 1))%nat then Qc2 * h
      else if ((i =? np - 2) && (up =? npwb - 1))%nat then c i * Qchalf
      else c i
  else c i.

(* Grid1d.get_1D_level_weights *)
Definition trap_weights (modb bnd : bool) (np npwb lo up : nat) (s e : Qc) : list Qc :=
  map (trap_weight modb bnd np npwb lo up s e) (seq 0 np).

(* SimpsonGrid1D.get_1D_level_weights, the array before the boundary slice:
   ones(npwb)*spacing/3 ; [1:-1:2] *= 4 ; [2:-1:2] *= 2 *)
Definition simpson_w (npwb : nat) (h : Qc) (i : nat) : Qc :=
  h * / qn 3
  * (if ((1 <=? i) && (i <? npwb - 1) && Nat.odd i)%nat then qn 4 else 1)
  * (if ((2 <=? i) && (i <? npwb - 1) && Nat.even i)%nat then qn 2 else 1).

(* fixed = true : the slice [lowerBorder:upperBorder] (proposed repair, fixes/C08-simpson-boundary-slice.patch)
   fixed = false: the slice [1:-1] of the code as it is (wrong length on sub-boxes) *)
Definition simpson_weights (fixed bnd : bool) (np npwb lo up : nat) (s e : Qc) : list Qc :=
  let h := spacing s e npwb in
  if (npwb <? 3)%nat then map (wct bnd np npwb lo h) (seq 0 np)
  else if bnd then map (simpson_w npwb h) (seq 0 npwb)
  else if fixed then map (simpson_w npwb h) (slice_idx lo up npwb)
  else map (simpson_w npwb h) (slice_idx 1 (npwb - 1) npwb).

(* ---- one dimension of a Trapezoidal / Simpson grid after set_current_area ---- *)
Record dim1 := { d_a : Qc; d_b : Qc; d_s : Qc; d_e : Qc; d_level : nat }.

Inductive eqfam := FTrap | FTrapMod | FSimpson | FSimpsonAsIs.

Definition eq_np (bnd : bool) (x : dim1) : nat :=
  num_points_eq bnd (touch_l (d_a x) (d_s x)) (touch_r (d_b x) (d_e x)) (npwb_of_level (d_level x)).

Definition eq_borders (bnd : bool) (x : dim1) : nat * nat :=
  borders bnd (eq_np bnd x) (npwb_of_level (d_level x)) (touch_l (d_a x) (d_s x)) (touch_r (d_b x) (d_e x)).

Definition eq_points (bnd : bool) (x : dim1) : list Qc :=
  let '(lo, up) := eq_borders bnd x in
  trap_points bnd (eq_np bnd x) (npwb_of_level (d_level x)) lo up (d_s x) (d_e x).

Definition eq_weights (f : eqfam) (bnd : bool) (x : dim1) : list Qc :=
  let '(lo, up) := eq_borders bnd x in
  let np := eq_np bnd x in
  let npwb := npwb_of_level (d_level x) in
  match f with
  | FTrap => trap_weights false bnd np npwb lo up (d_s x) (d_e x)
  | FTrapMod => trap_weights true bnd np npwb lo up (d_s x) (d_e x)
  | FSimpson => simpson_weights true bnd np npwb lo up (d_s x) (d_e x)
  | FSimpsonAsIs => simpson_weights false bnd np npwb lo up (d_s x) (d_e x)
  end.

(* Grid.setCurrentArea + levelToNumPoints + getPoints + get_weights + integrate *)
Definition grid_num_points (bnd : bool) (xs : list dim1) : list nat := map (eq_np bnd) xs.
Definition grid_coords (bnd : bool) (xs : list dim1) : list (list Qc) := map (eq_points bnd) xs.
Definition grid_weights1 (f : eqfam) (bnd : bool) (xs : list dim1) : list (list Qc) := map (eq_weights f bnd) xs.
Definition grid_points (bnd : bool) (xs : list dim1) : list (list Qc) := cross (grid_coords bnd xs).
Definition grid_weights (f : eqfam) (bnd : bool) (xs : list dim1) : list Qc :=
  tensor_weights (grid_weights1 f bnd xs).
Definition grid_integrate_monomial (f : eqfam) (bnd : bool) (xs : list dim1) (exps : list nat) : Qc :=
  integrate_rule (prodf (map mono exps)) (grid_coords bnd xs) (grid_weights1 f bnd xs).
Definition box_volume (xs : list dim1) : Qc := prodQ (map (fun x => d_e x - d_s x) xs).
Definition box_moment (xs : list dim1) (exps : list nat) : Qc :=
  prodQ (map (fun xk => mint (snd xk) (d_s (fst xk)) (d_e (fst xk))) (combine xs exps)).

(* ---- counts for the other families: announced number of points and length of the slice actually taken ---- *)
Inductive cntfam := CEq | CCC | CLeja | CGauss.

Definition cnt_npwb (f : cntfam) (l : nat) : nat :=
  match f with CLeja => leja_npwb l | _ => npwb_of_level l end.

Definition cnt_np (f : cntfam) (bnd : bool) (a b s e : Qc) (l : nat) : nat :=
  match f with
  | CEq => num_points_eq bnd (touch_l a s) (touch_r b e) (npwb_of_level l)
  | CCC => num_points_cc bnd s e (npwb_of_level l)
  | CLeja => num_points_leja bnd l
  | CGauss => npwb_of_level l
  end.

(* (announced, npwb, lowerBorder, upperBorder, number of indices in the slice [lo:up] of an npwb-array) *)
Definition cnt_info (f : cntfam) (bnd : bool) (a b s e : Qc) (l : nat) : nat * nat * nat * nat * nat :=
  let np := cnt_np f bnd a b s e l in
  let npwb := cnt_npwb f l in
  let '(lo, up) := borders bnd np npwb (touch_l a s) (touch_r b e) in
  (np, npwb, lo, up, length (slice_idx lo up npwb)).

(* ---- verified checker for rules with irrational nodes / Gauss-quadrature based weights ----
   moments_ok pts wts s e k rtol = true  iff  the lists have equal length and for every degree j <= k
     | sum_i w_i x_i^j  -  (e^(j+1) - s^(j+1))/(j+1) |  <=  rtol * sum_i |w_i| |x_i|^j
   evaluated in exact rational arithmetic on the floats returned by the implementation.
   The powers x_i^j are carried along incrementally (pw = map (mono j) pts); the final comparison is done on the
   underlying (unreduced) rationals to avoid a gcd of large numbers. *)
Definition moment (j : nat) (pts wts : list Qc) : Qc := apply1 (mono j) pts wts.
Definition abs_moment (j : nat) (pts wts : list Qc) : Qc :=
  dotQ (map Qc_abs (map (mono j) pts)) (map Qc_abs wts).
Definition resid_ok (m exact rtol am : Qc) : bool :=
  Qle_bool (Qabs (this m - this exact)%Q) (this rtol * this am)%Q.
Fixpoint mul2 (a b : list Qc) : list Qc :=
  match a, b with x :: a', y :: b' => x * y :: mul2 a' b' | _, _ => [] end.
(* first failing degree in j .. j+n-1, given pw = map (mono j) pts *)
Fixpoint moments_scan (n j : nat) (pw pts wts : list Qc) (s e rtol : Qc) : option nat :=
  match n with
  | O => None
  | S n' =>
    if resid_ok (dotQ pw wts) (mint j s e) rtol (dotQ (map Qc_abs pw) (map Qc_abs wts))
    then moments_scan n' (S j) (mul2 pts pw) pts wts s e rtol
    else Some j
  end.
Definition moments_first_bad (pts wts : list Qc) (s e : Qc) (k : nat) (rtol : Qc) : option nat :=
  moments_scan (S k) 0 (map (mono 0) pts) pts wts s e rtol.
Definition moments_ok (pts wts : list Qc) (s e : Qc) (k : nat) (rtol : Qc) : bool :=
  (length pts =? length wts)%nat
  && match moments_first_bad pts wts s e k rtol with None => true | Some _ => false end.

(* d-dimensional version on an explicit tensor rule and an explicit list of exponent vectors *)
Definition nd_moment (exps : list nat) (pts : list (list Qc)) (wts : list Qc) : Qc :=
  dotQ (map (prodf (map mono exps)) pts) wts.
Definition nd_abs_moment (exps : list nat) (pts : list (list Qc)) (wts : list Qc) : Qc :=
  dotQ (map Qc_abs (map (prodf (map mono exps)) pts)) (map Qc_abs wts).
Definition nd_exact (exps : list nat) (box : list (Qc * Qc)) : Qc :=
  prodQ (map (fun kb => mint (fst kb) (fst (snd kb)) (snd (snd kb))) (combine exps box)).
Definition nd_moment_ok (pts : list (list Qc)) (wts : list Qc) (box : list (Qc * Qc)) (rtol : Qc) (exps : list nat) : bool :=
  let v := map (prodf (map mono exps)) pts in
  (length exps =? length box)%nat
  && resid_ok (dotQ v wts) (nd_exact exps box) rtol (dotQ (map Qc_abs v) (map Qc_abs wts)).
Definition nd_moments_ok (pts : list (list Qc)) (wts : list Qc) (box : list (Qc * Qc)) (expss : list (list nat)) (rtol : Qc) : bool :=
  (length pts =? length wts)%nat
  && forallb (fun p => (length p =? length box)%nat) pts
  && forallb (nd_moment_ok pts wts box rtol) expss.

(* all points of a tensor rule lie inside the box *)
Definition inside_box (box : list (Qc * Qc)) (p : list Qc) : bool :=
  (length p =? length box)%nat
  && forallb (fun xb => Qc_leb (fst (snd xb)) (fst xb) && Qc_leb (fst xb) (snd (snd xb))) (combine p box).
