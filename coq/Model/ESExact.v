(* C04, extend-split: the combined integral of a monomial over the areas of an extend-split state, composed from the models
   of C07 (areas = boxes with a local combination of component grids, Model/ExtendSplit.v) and C08 (tensor trapezoidal
   rule with boundary points on a sub-box, Model/LocalGrids.v), and the checker "the monomial moments of the areas add up
   to the moment of the domain". Definitions only. *)
From Coq Require Import ZArith List Bool QArith Qcanon.
From SG Require Import Base.QcUtil Model.CombiScheme Model.Tensor Model.LocalGrids Model.ExtendSplit.
Import ListNotations.
Open Scope Qc_scope.

Fixpoint dims_of (a b s e : list Qc) (l : lv) : list dim1 :=
  match a, b, s, e, l with
  | a0 :: a', b0 :: b', s0 :: s', e0 :: e', l0 :: l' =>
    {| d_a := a0; d_b := b0; d_s := s0; d_e := e0; d_level := Z.to_nat l0 |} :: dims_of a' b' s' e' l'
  | _, _, _, _, _ => []
  end.

(* one area: box and the computed component grids (coarsened level vector, coefficient) of its local combination *)
Definition area_integral (a b : list Qc) (ar : box * list (lv * Z)) (exps : list nat) : Qc :=
  sumQ (map (fun g => qc_of_Z (snd g) * grid_integrate_monomial FTrap true (dims_of a b (fst (fst ar)) (snd (fst ar)) (fst g)) exps)
            (snd ar)).

Definition es_integral (a b : list Qc) (areas : list (box * list (lv * Z))) (exps : list nat) : Qc :=
  sumQ (map (fun ar => area_integral a b ar exps) areas).

(* exact integral of x^exps over a box *)
Fixpoint bmom (s e : list Qc) (exps : list nat) : Qc :=
  match s, e, exps with
  | s0 :: s', e0 :: e', k :: exps' => mint k s0 e0 * bmom s' e' exps'
  | _, _, _ => 1
  end.

(* all exponent vectors in {0,1}^d *)
Fixpoint multilinear_exps (d : nat) : list (list nat) :=
  match d with
  | O => [[]]
  | S d' => flat_map (fun r => [0%nat :: r; 1%nat :: r]) (multilinear_exps d')
  end.

Definition moments_additive (a b : list Qc) (boxes : list box) : bool :=
  forallb (fun exps => Qc_eqb (sumQ (map (fun bx => bmom (fst bx) (snd bx) exps) boxes)) (bmom a b exps))
          (multilinear_exps (length a)).
