(* The two float-decided branches of the dimension-wise strategy in binary64 (Coq's primitive floats = IEEE 754 binary64,
   round to nearest even - the arithmetic CPython floats use), and the tables of the inputs on which binary64 and exact
   arithmetic decide differently, COMPUTED BY COQ (Eval vm_compute) instead of by the harness - definitions only.
     rebalance_interval:      abs(pos / (n-2) - 0.5) > abs(pos1 / (n-2) - 0.5) + safety_factor
     get_subtraction_value 3: sv / dim - int(sv / dim) > d / dim
   The tables are plain lists of naturals (fully evaluated), so the extracted model does not contain floats. *)
From Coq Require Import ZArith List Bool QArith Qcanon Arith Floats Uint63.
From SG Require Import Base.QcUtil Model.RefTree Model.DimWise.
Import ListNotations.

Definition f_of_nat (n : nat) : float := PrimFloat.of_uint63 (Uint63.of_Z (Z.of_nat n)).

(* the Python expression of rebalance_interval, operation by operation (pos, pos1, m = end-start-2 are ints: int / int is the
   correctly rounded quotient, which for these small ints is the quotient of the two exactly converted floats) *)
Definition rb_dec_float (sf : float) (pos pos1 m : nat) : bool :=
  PrimFloat.ltb (PrimFloat.add (PrimFloat.abs (PrimFloat.sub (PrimFloat.div (f_of_nat pos1) (f_of_nat m)) 0.5%float)) sf)
                (PrimFloat.abs (PrimFloat.sub (PrimFloat.div (f_of_nat pos) (f_of_nat m)) 0.5%float)).

(* exact rational value of a finite float *)
Definition Qc_of_float (x : float) : Qc :=
  match Prim2SF x with
  | S754_finite s m e =>
    let v := (if (0 <=? e)%Z then Q2Qc (inject_Z (Zpos m * 2 ^ e)) else Q2Qc (Zpos m # (2 ^ Z.to_pos (- e)))) in
    if s then (- v)%Qc else v
  | _ => 0%Qc
  end.

Definition rb_exc_float (sf : float) (max_m : nat) : list (nat * nat * nat) :=
  let sfq := Qc_of_float sf in
  flat_map (fun m => flat_map (fun pos => flat_map (fun pos1 =>
     if Bool.eqb (rb_dec_float sf pos pos1 m) (rebalance_dec_exact sfq pos pos1 m) then [] else [(pos, pos1, m)])
     (seq 0 (m + 2))) (seq 0 (m + 2))) (seq 1 max_m).

Definition RB_BOUND : nat := 64.

(* the safety factors of the harness families (Python literals 0.1, 0.0, 0.125, 0.25, 0.05) *)
Definition sf_010 : float := 0x1.999999999999ap-4%float.     (* 0.1 *)
Definition sf_000 : float := 0%float.
Definition sf_0125 : float := 0.125%float.
Definition sf_025 : float := 0.25%float.
Definition sf_005 : float := 0x1.999999999999ap-5%float.     (* 0.05 *)

Definition rb_tab_010 : list (nat * nat * nat) := Eval vm_compute in rb_exc_float sf_010 RB_BOUND.
Definition rb_tab_000 : list (nat * nat * nat) := Eval vm_compute in rb_exc_float sf_000 RB_BOUND.
Definition rb_tab_0125 : list (nat * nat * nat) := Eval vm_compute in rb_exc_float sf_0125 RB_BOUND.
Definition rb_tab_025 : list (nat * nat * nat) := Eval vm_compute in rb_exc_float sf_025 RB_BOUND.
Definition rb_tab_005 : list (nat * nat * nat) := Eval vm_compute in rb_exc_float sf_005 RB_BOUND.

Definition q_010 : Qc := Eval vm_compute in Qc_of_float sf_010.
Definition q_000 : Qc := Eval vm_compute in Qc_of_float sf_000.
Definition q_0125 : Qc := Eval vm_compute in Qc_of_float sf_0125.
Definition q_025 : Qc := Eval vm_compute in Qc_of_float sf_025.
Definition q_005 : Qc := Eval vm_compute in Qc_of_float sf_005.

(* the certified table of a safety factor given by its exact value (empty for a value without table) *)
Definition rb_cert_table (sf : Qc) : list (nat * nat * nat) :=
  if Qc_eqb sf q_010 then rb_tab_010 else if Qc_eqb sf q_000 then rb_tab_000 else if Qc_eqb sf q_0125 then rb_tab_0125
  else if Qc_eqb sf q_025 then rb_tab_025 else if Qc_eqb sf q_005 then rb_tab_005 else [].
Definition rb_cert_bound (sf : Qc) : nat :=
  if Qc_eqb sf q_010 || Qc_eqb sf q_000 || Qc_eqb sf q_0125 || Qc_eqb sf q_025 || Qc_eqb sf q_005 then RB_BOUND else 0%nat.

(* version 3: sv / dim - int(sv / dim) > d / dim for ints 0 <= sv, 0 <= d < dim.  int(x) of the quotient x is computed as the
   integer quotient k = sv div dim; v3_int_ok checks IN BINARY64 that k <= x < k + 1, i.e. that truncation gives k *)
Definition v3_dec_float (dim : nat) (sv : Z) (d : nat) : bool :=
  let x := PrimFloat.div (PrimFloat.of_uint63 (Uint63.of_Z sv)) (f_of_nat dim) in
  let k := PrimFloat.of_uint63 (Uint63.of_Z (sv / Z.of_nat dim)) in
  PrimFloat.ltb (PrimFloat.div (f_of_nat d) (f_of_nat dim)) (PrimFloat.sub x k).
Definition v3_int_ok (dim : nat) (sv : Z) : bool :=
  let x := PrimFloat.div (PrimFloat.of_uint63 (Uint63.of_Z sv)) (f_of_nat dim) in
  let k := PrimFloat.of_uint63 (Uint63.of_Z (sv / Z.of_nat dim)) in
  PrimFloat.leb k x && PrimFloat.ltb x (PrimFloat.add k 1%float).

Definition V3_SV_BOUND : nat := 64.
Definition V3_DIM_BOUND : nat := 6.
Definition v3_exc_float (dim : nat) : list (Z * nat) :=
  flat_map (fun sv => flat_map (fun d =>
     if Bool.eqb (v3_dec_float dim (Z.of_nat sv) d) (v3_dec_exact dim (Z.of_nat sv) d) then [] else [(Z.of_nat sv, d)])
     (seq 0 dim)) (seq 0 (S V3_SV_BOUND)).
Definition v3_tab (dim : nat) : list (Z * nat) :=
  Eval vm_compute in nth dim (map v3_exc_float (seq 0 (S V3_DIM_BOUND))) [].
Definition v3_cert_table (dim : nat) : list (Z * nat) := if Nat.leb dim V3_DIM_BOUND then v3_tab dim else [].
