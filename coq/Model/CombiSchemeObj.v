(* ONE CombiScheme object under an arbitrary history of public requests (C01): re-initialisation (adaptive and full
   grid), update requests, scheme requests (adaptive / closed form), queries.  Definitions only.
   The object is its dimension plus `None` (not initialised: initialized_adaptive = False, both sets empty) or the
   scheme state of Model/CombiScheme.v.  R_exc = the Python call raises (AssertionError of the `assert
   self.initialized_adaptive` / parameter asserts, IndexError for level vectors shorter than dim). *)
From Coq Require Import ZArith List Bool.
From SG Require Import Model.CombiScheme.
Import ListNotations.
Open Scope Z_scope.

(* init_full_grid(lmax, lmin): active = {}, old = init_old | init_active(lmax, lmin+i) for i in range(1+lmax-lmin) *)
Definition init_full_scheme (dim : nat) (lmax lmin : Z) : option scheme :=
  if (lmax >=? lmin) && (lmax >=? 0) && (lmin >=? 0) then
    Some (mkScheme dim lmin lmax lmax []
            (fold_left (fun old i => set_union old (init_active_index_set lmax (lmin + i) dim))
                       (zrange (1 + lmax - lmin)) (init_old_index_set lmax lmin dim)))
  else None.

Inductive op : Type :=
| OpInit (lmax lmin : Z)          (* init_adaptive_combi_scheme *)
| OpFull (lmax lmin : Z)          (* init_full_grid *)
| OpUpdate (l : lv)               (* update_adaptive_combi *)
| OpGet (lmin lmax : Z)           (* getCombiScheme(lmin, lmax, do_print) *)
| OpIndexSet                      (* get_index_set *)
| OpActive                        (* get_active_indices *)
| OpRefinable (l : lv)
| OpForward (l : lv)              (* has_forward_neighbour *)
| OpInSet (l : lv)
| OpOld (l : lv)                  (* is_old_index *)
| OpExtendable (l : lv).          (* extendable_level *)

Inductive result : Type :=
| R_exc
| R_unit
| R_dims (r : option (list nat))
| R_coeffs (cs : list (lv * Z))
| R_set (s : list lv)
| R_bool (b : bool)
| R_ext (b : bool) (d : Z).

Record obj := mkObj { o_dim : nat; o_st : option scheme }.

Definition fresh_obj (dim : nat) : obj := mkObj dim None.

Definition extendable (dim : nat) (l : lv) : bool * Z :=
  let '(c, e) := fold_left (fun (ce : Z * Z) d => if nth d l 0 >? 1 then (fst ce + 1, Z.of_nat d) else ce)
                           (seq 0 dim) (0, 0) in
  (c =? 1, e).

Definition step (o : obj) (p : op) : result * obj :=
  match p with
  | OpInit lmax lmin =>
      match init_scheme (o_dim o) lmax lmin with
      | Some s => (R_unit, mkObj (o_dim o) (Some s))
      | None => (R_exc, o)                       (* the asserts come first: nothing was changed *)
      end
  | OpFull lmax lmin =>
      match init_full_scheme (o_dim o) lmax lmin with
      | Some s => (R_unit, mkObj (o_dim o) (Some s))
      | None => (R_exc, o)
      end
  | OpUpdate l =>
      match o_st o with
      | None => (R_exc, o)
      | Some s => let '(r, s') := update_scheme s l in (R_dims r, mkObj (o_dim o) (Some s'))
      end
  | OpGet lmin lmax =>
      match o_st o with
      | None => (R_coeffs (combi_scheme_standard (o_dim o) lmin lmax), o)
      | Some s => (R_coeffs (combi_scheme_adaptive s), o)
      end
  | OpIndexSet =>
      match o_st o with
      | None => (R_set [], o)
      | Some s => (R_set (set_union (s_old s) (s_active s)), o)
      end
  | OpActive =>
      match o_st o with
      | None => (R_set [], o)
      | Some s => (R_set (s_active s), o)
      end
  | OpRefinable l =>
      match o_st o with
      | None => (R_exc, o)
      | Some s => (R_bool (mem l (s_active s)), o)
      end
  | OpForward l =>
      match o_st o with
      | None => (R_exc, o)
      | Some s =>
          if (length l <? o_dim o)%nat then (R_exc, o)
          else (R_bool (existsb (fun d => mem (bump d 1 l) (s_active s) || mem (bump d 1 l) (s_old s))
                                (seq 0 (o_dim o))), o)
      end
  | OpInSet l =>
      match o_st o with
      | None => (R_bool false, o)
      | Some s => (R_bool (mem l (s_active s) || mem l (s_old s)), o)
      end
  | OpOld l =>
      match o_st o with
      | None => (R_bool false, o)
      | Some s => (R_bool (mem l (s_old s)), o)
      end
  | OpExtendable l =>
      match o_st o with
      | None => (R_exc, o)
      | Some s =>
          if (length l <? o_dim o)%nat then (R_exc, o)
          else let '(b, e) := extendable (o_dim o) l in (R_ext b e, o)
      end
  end.

(* results and states after every request *)
Fixpoint run (o : obj) (ops : list op) : list (result * obj) :=
  match ops with
  | [] => []
  | p :: r => let ro := step o p in ro :: run (snd ro) r
  end.

Definition final (o : obj) (ops : list op) : obj := fold_left (fun o p => snd (step o p)) ops o.

Definition is_full (p : op) : bool := match p with OpFull _ _ => true | _ => false end.
