(* C15 — second part of the model of the weighted UQ quadrature: everything between the 1D weights and the reported
   expectation / variance.
     GlobalGrid.set_grid (one compute_1D_quad_weights per dimension, [1:-1] without boundary points)   (Grid.py:958-996)
     Grid.get_weights / getWeight (tensor product, itertools.product order: last dimension fastest)       (Grid.py:79-83,1013-1017)
     StandardCombi.get_points_and_weights (component weights times combination coefficient, concatenated) (StandardCombi.py:884-897)
     Grid.integrate on a vector valued function = sum_i w_i * f(x_i)
     UncertaintyQuantification.get_expectation_variance_Function = FunctionConcatenate([f, FunctionPower(f, 2)])
     UncertaintyQuantification.calculate_moment / calculate_expectation_and_variance, both paths
       (use_combiinstance_solution=True: the combined integral [moments 1 | moments 2];
        use_combiinstance_solution=False: nodes, weights and model evaluations)                           (GridOperation.py:3705-3740)
   Definitions only. *)
From Coq Require Import ZArith List QArith Qcanon Bool Arith.
From SG Require Import Base.QcUtil Model.Trap Model.UQ.
Import ListNotations.
Open Scope Qc_scope.

(* one dimension of a set_grid request: domain ends (used by the modified basis only) and the consecutive intervals of the
   1D point list with the moments of THIS dimension's distribution *)
Record dimreq := { d_a : Qc; d_b : Qc; d_ivs : list ival }.

(* weightsD of GlobalGrid.set_grid: compute_1D_quad_weights(...) resp. compute_1D_quad_weights(...)[1:-1] *)
Definition grid_weights_1d (boundary mb : bool) (r : dimreq) : option (list Qc) :=
  match wtrap boundary mb (d_a r) (d_b r) (d_ivs r) with
  | Some w => Some (if boundary then w else strip w)
  | None => None
  end.

(* self.weights after set_grid: a pure function of the request (no state of the grid object enters) *)
Definition set_grid_weights (boundary mb : bool) (dims : list dimreq) : option (list (list Qc)) :=
  opt_list (map (grid_weights_1d boundary mb) dims).

(* get_weights: np.prod over itertools.product over self.weights *)
Fixpoint tensor_weights (ws : list (list Qc)) : list Qc :=
  match ws with
  | [] => [1]
  | w :: r => let tr := tensor_weights r in flat_map (fun x => map (fun t => x * t) tr) w
  end.

(* getWeight(indexvector) *)
Fixpoint get_weight (ws : list (list Qc)) (idx : list nat) : Qc :=
  match ws, idx with
  | w :: r, i :: ir => nq w i * get_weight r ir
  | _, _ => 1
  end.

(* StandardCombi.get_points_and_weights: for every component grid (coefficient, 1D weight lists) the tensor weights times
   the coefficient, concatenated over the scheme *)
Definition combined_weights (comps : list (Qc * list (list Qc))) : list Qc :=
  flat_map (fun cw => map (fun w => w * fst cw) (tensor_weights (snd cw))) comps.

(* the same from set_grid requests; None when a component raises *)
Definition combined_weights_req (boundary : bool) (comps : list (Qc * list dimreq)) : option (list Qc) :=
  match opt_list (map (fun cr => match set_grid_weights boundary false (snd cr) with
                                 | Some ws => Some (fst cr, ws) | None => None end) comps) with
  | Some l => Some (combined_weights l)
  | None => None
  end.

(* vector arithmetic on model outputs *)
Fixpoint vadd (u v : list Qc) : list Qc :=
  match u, v with
  | x :: u', y :: v' => (x + y) :: vadd u' v'
  | _, _ => []
  end.
Definition vscale (c : Qc) (v : list Qc) : list Qc := map (fun t => c * t) v.

(* sum_i w_i * vals_i, K = output length *)
Fixpoint integrate_rule (K : nat) (w : list Qc) (vals : list (list Qc)) : list Qc :=
  match w, vals with
  | x :: w', v :: vals' => vadd (vscale x v) (integrate_rule K w' vals')
  | _, _ => repeat 0 K
  end.

(* FunctionConcatenate([f, FunctionPower(f, 2)]) at one point *)
Definition ev_function (v : list Qc) : list Qc := v ++ map (fun t => t * t) v.

(* calculate_expectation_and_variance(combiinstance): the combined integral of the expectation-variance function *)
Definition ev_combi (K : nat) (w : list Qc) (vals : list (list Qc)) : list Qc * list Qc :=
  expectation_and_variance (integrate_rule (K + K) w (map ev_function vals)).

(* calculate_expectation_and_variance(combiinstance, use_combiinstance_solution=False):
   calculate_moment(k) = sum_i f_evals[i] ** k * weights[i] for k = 1, 2 *)
Definition ev_nodes (K : nat) (w : list Qc) (vals : list (list Qc)) : list Qc * list Qc :=
  moments_to_expectation_variance (integrate_rule K w vals) (integrate_rule K w (map (map (fun t => t * t)) vals)).

(* component j of the model output over all nodes *)
Definition comp (j : nat) (vals : list (list Qc)) : list Qc := map (fun v => nq v j) vals.

Fixpoint prodQ (l : list Qc) : Qc := match l with [] => 1 | x :: r => x * prodQ r end.
