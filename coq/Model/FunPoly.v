(* C12 — the polynomial family of sparseSpACE/Function.py over exact rationals:
     ConstantValue, FunctionLinear, FunctionMultilinear, FunctionPolynomial, Polynomial1d, FunctionCompose (of these).
   Definitions only: `*_eval` / `*_int_cur` follow the Python loops of eval / getAnalyticSolutionIntegral as they
   are; `*_int_fixed` follow the code after fixes/C12-constantvalue-integral.patch and
   fixes/C12-multilinear-integral.patch. The reference is the formal integral of a multivariate polynomial
   (`mp_int`), defined independently of the classes on monomials:
       int_[a,b] prod_d x_d^(e_d) dx = prod_d (b_d^(e_d+1) - a_d^(e_d+1)) / (e_d+1). *)
From Coq Require Import ZArith List QArith Qcanon Bool Arith.
From SG Require Import Base.QcUtil.
Import ListNotations.
Open Scope Qc_scope.

Definition qn (n : nat) : Qc := qc_of_Z (Z.of_nat n).

(* ------------------------------------------------------------------ formal multivariate polynomials *)
Definition mono := (Qc * list nat)%type.          (* coefficient, exponent per dimension *)
Definition mpoly := list mono.

Fixpoint mono_eval (es : list nat) (x : list Qc) : Qc :=
  match es, x with
  | e :: es', xi :: x' => xi ^ e * mono_eval es' x'
  | _, _ => 1
  end.

Fixpoint mono_int (es : list nat) (a b : list Qc) : Qc :=
  match es, a, b with
  | e :: es', ai :: a', bi :: b' => (bi ^ (S e) - ai ^ (S e)) / qn (S e) * mono_int es' a' b'
  | _, _, _ => 1
  end.

Definition mp_eval (p : mpoly) (x : list Qc) : Qc := sumQ (map (fun m => fst m * mono_eval (snd m) x) p).
Definition mp_int (p : mpoly) (a b : list Qc) : Qc := sumQ (map (fun m => fst m * mono_int (snd m) a b) p).

Fixpoint prodQ (l : list Qc) : Qc := match l with [] => 1 | x :: r => x * prodQ r end.
Definition unit_vec (n d : nat) : list nat := map (fun i => if Nat.eqb i d then 1%nat else 0%nat) (seq 0 n).

(* ------------------------------------------------------------------ the classes *)
Inductive atom :=
| FConst (v : Qc)                       (* ConstantValue(value) *)
| FLinear (cs : list Qc)                (* FunctionLinear(coeffs):       prod_d c_d x_d *)
| FMultilinear (cs : list Qc)           (* FunctionMultilinear(coeffs):  sum_d c_d x_d *)
| FPolynomial (cs : list Qc) (deg : nat)(* FunctionPolynomial(coeffs, degree): prod_d c_d x_d^degree *)
| FPoly1d (cs : list Qc).               (* Polynomial1d(coefficients):   sum_i c_i x_0^i *)

Inductive fn :=
| FAtom (f : atom)
| FCompose (fs : list (atom * Qc)).     (* FunctionCompose([(f, factor), ...]) of atoms *)

(* results: a number, Python's None (function fell off its end), or an exception (index out of range) *)
Inductive ires := IVal (q : Qc) | INone | IErr.

(* for d in range(self.dim): result *= self.coeffs[d] * coordinates[d] ** deg      (result starts at `acc`) *)
Fixpoint prod_eval (deg : nat) (cs x : list Qc) (acc : Qc) : ires :=
  match cs, x with
  | [], _ => IVal acc
  | c :: cs', xi :: x' => prod_eval deg cs' x' (acc * (c * xi ^ deg))
  | _ :: _, [] => IErr
  end.

(* for d in range(self.dim): result += self.coeffs[d] * coordinates[d] *)
Fixpoint sum_eval (cs x : list Qc) (acc : Qc) : ires :=
  match cs, x with
  | [], _ => IVal acc
  | c :: cs', xi :: x' => sum_eval cs' x' (acc + c * xi)
  | _ :: _, [] => IErr
  end.

(* for i in range(len(coefficients)): value += coefficients[i] * x ** i            (i starts at `i0`) *)
Fixpoint poly1d_eval (cs : list Qc) (x : Qc) (i0 : nat) (acc : Qc) : Qc :=
  match cs with
  | [] => acc
  | c :: cs' => poly1d_eval cs' x (S i0) (acc + c * x ^ i0)
  end.

Definition atom_eval (f : atom) (x : list Qc) : ires :=
  match f with
  | FConst v => IVal v
  | FLinear cs => prod_eval 1 cs x 1
  | FMultilinear cs => sum_eval cs x 0
  | FPolynomial cs deg => prod_eval deg cs x 1
  | FPoly1d cs => match x with x0 :: _ => IVal (poly1d_eval cs x0 0 0) | [] => IErr end
  end.

(* ---- getAnalyticSolutionIntegral *)
(* ConstantValue: integral = 1.0; for d in range(len(start)): integral *= end[d] - start[d]; integral *= value *)
Fixpoint volume (a b : list Qc) (acc : Qc) : ires :=
  match a, b with
  | [], _ => IVal acc
  | ai :: a', bi :: b' => volume a' b' (acc * (bi - ai))
  | _ :: _, [] => IErr
  end.
Definition const_int_fixed (v : Qc) (a b : list Qc) : ires :=
  match volume a b 1 with IVal w => IVal (w * v) | r => r end.
Definition const_int_cur (v : Qc) (a b : list Qc) : ires :=
  match volume a b 1 with IVal _ => INone | r => r end.        (* the `return` is missing *)

(* FunctionLinear / FunctionPolynomial:
   result *= coeffs[d] * (end[d]**(deg+1)/(deg+1) - start[d]**(deg+1)/(deg+1)) *)
Fixpoint prod_int (deg : nat) (cs a b : list Qc) (acc : Qc) : ires :=
  match cs, a, b with
  | [], _, _ => IVal acc
  | c :: cs', ai :: a', bi :: b' =>
      prod_int deg cs' a' b' (acc * (c * (bi ^ (S deg) / qn (S deg) - ai ^ (S deg) / qn (S deg))))
  | _, _, _ => IErr
  end.

(* FunctionMultilinear as it is: result += coeffs[d] * (end[d]**2/2 - start[d]**2/2) *)
Fixpoint multilin_int_cur (cs a b : list Qc) (acc : Qc) : ires :=
  match cs, a, b with
  | [], _, _ => IVal acc
  | c :: cs', ai :: a', bi :: b' => multilin_int_cur cs' a' b' (acc + c * (bi ^ 2 / qn 2 - ai ^ 2 / qn 2))
  | _, _, _ => IErr
  end.

(* FunctionMultilinear after the fix: every term is multiplied by the lengths of the other dimensions
     other = 1.0; for e in range(self.dim): if e != d: other *= end[e] - start[e]
     result += coeffs[d] * (end[d]**2/2 - start[d]**2/2) * other *)
Fixpoint other_lengths (d : nat) (e : nat) (a b : list Qc) (acc : Qc) : Qc :=
  match a, b with
  | ai :: a', bi :: b' => other_lengths d (S e) a' b' (if Nat.eqb e d then acc else acc * (bi - ai))
  | _, _ => acc
  end.
Fixpoint multilin_int_fixed_loop (n : nat) (A B : list Qc) (d : nat) (cs a b : list Qc) (acc : Qc) : ires :=
  match cs, a, b with
  | [], _, _ => IVal acc
  | c :: cs', ai :: a', bi :: b' =>
      multilin_int_fixed_loop n A B (S d) cs' a' b'
        (acc + c * (bi ^ 2 / qn 2 - ai ^ 2 / qn 2) * other_lengths d 0 (firstn n A) (firstn n B) 1)
  | _, _, _ => IErr
  end.
Definition multilin_int_fixed (cs a b : list Qc) : ires :=
  if (Nat.leb (length cs) (length a) && Nat.leb (length cs) (length b))%bool
  then multilin_int_fixed_loop (length cs) a b 0 cs a b 0 else IErr.

(* Polynomial1d: anti_derivative_coefficients = [0, c_0/1, c_1/2, ...]; F(end[0]) - F(start[0]) *)
Fixpoint antider_coeffs (cs : list Qc) (i : nat) : list Qc :=
  match cs with [] => [] | c :: cs' => c * 1 / qn i :: antider_coeffs cs' (S i) end.
Definition poly1d_antider (cs : list Qc) : list Qc := 0 :: antider_coeffs cs 1.
Definition poly1d_int (cs a b : list Qc) : ires :=
  match a, b with
  | a0 :: _, b0 :: _ => IVal (poly1d_eval (poly1d_antider cs) b0 0 0 - poly1d_eval (poly1d_antider cs) a0 0 0)
  | _, _ => IErr
  end.

Definition atom_int (fixd : bool) (f : atom) (a b : list Qc) : ires :=
  match f with
  | FConst v => if fixd then const_int_fixed v a b else const_int_cur v a b
  | FLinear cs => prod_int 1 cs a b 1
  | FMultilinear cs => if fixd then multilin_int_fixed cs a b else multilin_int_cur cs a b 0
  | FPolynomial cs deg => prod_int deg cs a b 1
  | FPoly1d cs => poly1d_int cs a b
  end.

(* FunctionCompose: result = 0.0; for (f, factor): result += f.eval(x) * factor  (resp. the integrals).
   `None * factor` raises a TypeError: modelled as IErr. *)
Fixpoint compose_fold (g : atom -> ires) (fs : list (atom * Qc)) (acc : Qc) : ires :=
  match fs with
  | [] => IVal acc
  | (f, w) :: r => match g f with IVal q => compose_fold g r (acc + q * w) | _ => IErr end
  end.

Definition fn_eval (f : fn) (x : list Qc) : ires :=
  match f with FAtom g => atom_eval g x | FCompose fs => compose_fold (fun g => atom_eval g x) fs 0 end.
Definition fn_int (fixd : bool) (f : fn) (a b : list Qc) : ires :=
  match f with FAtom g => atom_int fixd g a b | FCompose fs => compose_fold (fun g => atom_int fixd g a b) fs 0 end.

(* FunctionLinear.eval_vectorized for one row: np.prod(coordinates * self.coeffs, axis=-1) *)
Fixpoint zip_mul (x cs : list Qc) : list Qc :=
  match x, cs with xi :: x', c :: cs' => xi * c :: zip_mul x' cs' | _, _ => [] end.
Definition linear_vectorized_row (cs x : list Qc) : Qc := prodQ (zip_mul x cs).

(* ------------------------------------------------------------------ denotation as a formal polynomial in n variables *)
Definition atom_denote (n : nat) (f : atom) : mpoly :=
  match f with
  | FConst v => [(v, repeat 0%nat n)]
  | FLinear cs => [(prodQ cs, repeat 1%nat n)]
  | FMultilinear cs => map (fun dc => (snd dc, unit_vec n (fst dc))) (combine (seq 0 n) cs)
  | FPolynomial cs deg => [(prodQ cs, repeat deg n)]
  | FPoly1d cs => map (fun ic => (snd ic, [fst ic])) (combine (seq 0 (length cs)) cs)
  end.
Definition scale_mp (w : Qc) (p : mpoly) : mpoly := map (fun m => (fst m * w, snd m)) p.
Definition fn_denote (n : nat) (f : fn) : mpoly :=
  match f with
  | FAtom g => atom_denote n g
  | FCompose fs => flat_map (fun fw => scale_mp (snd fw) (atom_denote n (fst fw))) fs
  end.

(* the dimension a class instance lives in (None: any) *)
Definition atom_dim_ok (n : nat) (f : atom) : bool :=
  match f with
  | FConst _ => true
  | FLinear cs | FMultilinear cs | FPolynomial cs _ => Nat.eqb (length cs) n
  | FPoly1d _ => Nat.eqb n 1
  end.
Definition fn_dim_ok (n : nat) (f : fn) : bool :=
  match f with FAtom g => atom_dim_ok n g | FCompose fs => forallb (fun fw => atom_dim_ok n (fst fw)) fs end.
