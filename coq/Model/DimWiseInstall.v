(* Dimension-wise strategy: refinement_postprocessing as a function of its own (dw_post), and the start of a run
   from an ARBITRARY refinement state (dw_install) — definitions only.

   The harness (harness/vp/props/dimwise.py, "installed states") replaces the objects of the containers of a freshly
   initialised SpatiallyAdaptiveSingleDimensions2 by RefinementObjectSingleDimension objects of a chosen shape
   (coarsening_level = 0) and calls refinement_postprocessing(): apply_remove(sort=True) with an empty popArray,
   searchPosition = 0, startNewObjects = 0, rebalancing (if switched on for the installation), then per dimension
   update_coarsening_values / raise_lmax / update_values.  This is dw_post applied to containers with fresh cursors. *)
From Coq Require Import ZArith List Bool QArith Qcanon Arith.
From SG Require Import Base.QcUtil Model.CombiScheme Model.RefTree Model.DimWise.
Import ListNotations.
Open Scope Z_scope.

(* the part of dw_step after the container part (Proofs/DimWiseInstallP.v: dw_step = meta_refine_step ; dw_post) *)
Definition dw_post (o : dw_opts) (st : dw_state) (m1 : meta) : option dw_state :=
  match (if o_rebal o then opt_map (fun c => rebalance (o_dec o) (c_objs c)) (m_conts m1)
         else Some (map c_objs (m_conts m1))) with
  | None => None
  | Some trees2 =>
    match coarsen_dims 0 trees2 (st_lmax st) (st_lmin st) (st_dim st) (st_scheme st) with
    | None => None
    | Some (trees3, lmaxs, s) =>
      Some (mkSt (st_dim st) (st_lmin st) lmaxs
                 (mkMeta (map (fun ct => mkCont (snd ct) (c_pop (fst ct)) (c_startNew (fst ct)) (c_search (fst ct)))
                              (combine (m_conts m1) trees3)) (m_cur m1))
                 s)
    end
  end.

Definition with_rebal (o : dw_opts) (rb : bool) : dw_opts :=
  mkOpts (o_version o) rb (o_boundary o) (o_margin o) (o_dec o) (o_v3 o).

(* sorted(objects, key=start) of apply_remove(sort=True) is applied to the installed list as well *)
Definition dw_install (o : dw_opts) (rb : bool) (trees : list (list ival)) (st : dw_state) : option dw_state :=
  if Nat.eqb (length trees) (st_dim st) then
    dw_post (with_rebal o rb) st (mkMeta (map (fun t => cont_of_tree (sort_by_start t)) trees) 0)
  else None.
