(* Wire encoding shared by the entry points of C03 and C06 (dimension-wise strategy) — definitions only. *)
From Coq Require Import ZArith List Bool QArith Qcanon Arith.
From SG Require Model.StdCombi.
From SG Require Import Base.Sx Base.QcUtil Model.CombiScheme Model.RefTree Model.DimWise Model.DimWiseInterp Model.DimWiseInstall
     Model.DimWiseFloat.
Import ListNotations.
Open Scope Z_scope.

Definition of_nat (n : nat) : sx := Zv (Z.of_nat n).
Definition of_ival (iv : ival) : sx :=
  Lv [of_Qc (i_start iv); of_Qc (i_end iv); Zv (i_l0 iv); Zv (i_l1 iv); Zv (i_coarse iv)].
Definition of_tree (t : list ival) : sx := Lv (map of_ival t).

Definition get_ival (s : sx) : option ival :=
  match s with
  | Lv [a; b; Zv l0; Zv l1; Zv c] =>
    match get_Qc a, get_Qc b with Some a, Some b => Some (mkIval a b l0 l1 c) | _, _ => None end
  | _ => None
  end.
Definition get_tree (s : sx) : option (list ival) :=
  match s with Lv l => opt_all (map get_ival l) | _ => None end.
Definition get_trees (s : sx) : option (list (list ival)) :=
  match s with Lv l => opt_all (map get_tree l) | _ => None end.
Definition get_LLLQc (s : sx) : option (list (list (list Qc))) :=
  match s with Lv l => opt_all (map get_LLQc l) | _ => None end.

Definition of_coeffs (cs : list (lv * Z)) : sx :=
  Lv (map (fun kv => Lv [of_LZ (fst kv); Zv (snd kv)]) cs).

Definition of_cont_book (c : cont) : sx :=
  Lv [of_LZ (map Z.of_nat (c_pop c)); of_nat (c_startNew c); of_nat (c_search c)].

Definition of_stripe (s : option (list (Qc * Z))) : sx :=
  match s with
  | Some l => Lv (map (fun pl => Lv [of_Qc (fst pl); Zv (snd pl)]) l)
  | None => sx_err 7
  end.

(* levels lmin .. lmax_d *)
Definition level_range (lo hi : Z) : list Z := map (fun k => lo + Z.of_nat k) (seq 0 (Z.to_nat (hi - lo + 1))).

Definition of_stripes (o : dw_opts) (st : dw_state) : sx :=
  Lv (map (fun d => Lv (map (fun l => Lv [Zv l; of_stripe (stripe_dim o st d l)])
                            (level_range (st_lmin st) (nth d (st_lmax st) 0))))
          (seq 0 (st_dim st))).

Definition of_points (o : dw_opts) (st : dw_state) (cs : list (lv * Z)) : sx :=
  Lv (map (fun kv => Lv [of_LZ (fst kv);
                         match get_points_component_grid o st (fst kv) with
                         | Some ps => of_LLQc ps
                         | None => sx_err 8
                         end]) cs).

Definition tree_ok_all (a b : list Qc) (lmaxs : list Z) (trees : list (list ival)) : list bool :=
  map (fun x => match x with (((a, b), lm), t) => tree_ok a b lm t end)
      (combine (combine (combine a b) lmaxs) trees).

(* what: 0 = C06 observables, 1 = + stripes, 2 = + stripes and component-grid points *)
Definition of_state (what : Z) (o : dw_opts) (a b : list Qc) (st : dw_state) : sx :=
  let cs := combi_scheme_adaptive (st_scheme st) in
  Lv [ Lv (map of_tree (st_trees st));
       of_LZ (st_lmax st);
       of_LLZ (s_active (st_scheme st));
       of_LLZ (s_old (st_scheme st));
       of_coeffs cs;
       Lv [Lv (map of_cont_book (m_conts (st_meta st))); of_nat (m_cur (st_meta st))];
       Lv (map sx_bool (tree_ok_all a b (st_lmax st) (st_trees st)));
       (if 1 <=? what then of_stripes o st else Lv []);
       (if 2 <=? what then of_points o st cs else Lv []) ].

Definition lengths_ok (bens : list (list Qc)) (st : dw_state) : bool :=
  Nat.eqb (length bens) (st_dim st) &&
  forallb (fun bt => Nat.eqb (length (fst bt)) (length (snd bt))) (combine bens (st_trees st)).

Fixpoint run_states (what : Z) (o : dw_opts) (a b : list Qc) (steps : list (list (list Qc))) (st : dw_state) : list sx :=
  match steps with
  | [] => []
  | bens :: r =>
    if lengths_ok bens st then
      match dw_step o bens st with
      | Some st' => of_state what o a b st' :: run_states what o a b r st'
      | None => [sx_err 5]
      end
    else [sx_err 6]
  end.

Definition get_triple (s : sx) : option (nat * nat * nat) :=
  match s with Lv [Zv a; Zv b; Zv c] => Some (Z.to_nat a, Z.to_nat b, Z.to_nat c) | _ => None end.
Definition get_pairZn (s : sx) : option (Z * nat) :=
  match s with Lv [Zv a; Zv b] => Some (a, Z.to_nat b) | _ => None end.

Definition mem_triple (t : nat * nat * nat) (l : list (nat * nat * nat)) : bool :=
  existsb (fun u => match t, u with (a, b, c), (a', b', c') => Nat.eqb a a' && Nat.eqb b b' && Nat.eqb c c' end) l.
Definition mem_pair (t : Z * nat) (l : list (Z * nat)) : bool :=
  existsb (fun u => (fst t =? fst u) && Nat.eqb (snd t) (snd u)) l.

(* the binary64 decisions = exact decision, flipped on the exceptions.  The exceptions come from the tables COMPUTED BY COQ with
   primitive floats (Model/DimWiseFloat.v: the five safety factors of the harness up to m = 64, version 3 up to dim 6, sv 64;
   Proofs/DimWiseFloatP.v: inside these bounds the decision IS the binary64 evaluation of the Python expression); the lists
   exc_rb / exc_v3 supplied by the harness (evaluating the Python expression) are only needed beyond these bounds *)
Definition mk_opts (version : Z) (rebal boundary : bool) (margin sf : Qc) (dim : nat)
           (exc_rb : list (nat * nat * nat)) (exc_v3 : list (Z * nat)) : dw_opts :=
  mkOpts version rebal boundary margin
         (fun pos pos1 m => xorb (rebalance_dec_exact sf pos pos1 m) (mem_triple (pos, pos1, m) (rb_cert_table sf ++ exc_rb)))
         (fun sv d => xorb (v3_dec_exact dim sv d) (mem_pair (sv, d) (v3_cert_table dim ++ exc_v3))).

(* decoding of the history header shared by sub 0 and sub 4 *)
Definition decode_history (x : sx) : option (Z * dw_opts * list Qc * list Qc * list (list (list Qc)) * dw_state) + Z :=
  match x with
  | Lv [Zv what; Zv dim; Zv lmin; Zv lmax; Zv version; rebal; boundary; margin; sf; a; b; exc_rb; exc_v3; steps] =>
    match get_bool rebal, get_bool boundary, get_Qc margin, get_Qc sf, get_LQc a, get_LQc b,
          get_L exc_rb, get_L exc_v3, get_LLLQc steps with
    | Some rebal, Some boundary, Some margin, Some sf, Some a, Some b, Some erb, Some ev3, Some steps =>
      match opt_all (map get_triple erb), opt_all (map get_pairZn ev3) with
      | Some erb, Some ev3 =>
        let o := mk_opts version rebal boundary margin sf (Z.to_nat dim) erb ev3 in
        match dw_init (Z.to_nat dim) lmin lmax a b with
        | Some st => inl (Some (what, o, a, b, steps, st))
        | None => inr 1
        end
      | _, _ => inr 3
      end
    | _, _, _, _, _, _, _, _, _ => inr 2
    end
  | _ => inr 0
  end.

Fixpoint run_checked (o : dw_opts) (steps : list (list (list Qc))) (st : dw_state) : option dw_state :=
  match steps with
  | [] => Some st
  | bens :: r => if lengths_ok bens st then match dw_step o bens st with Some st' => run_checked o r st' | None => None end
                 else None
  end.

(* sub 0: (what dim lmin lmax version rebal boundary margin sf a b exc_rb exc_v3 steps) -> (state0 state1 ...)
   sub 1: (a b lmaxs trees) -> tree_ok per dimension, on an implementation state
   sub 2: (sf (pos pos1 m) ...) -> exact decisions ; sub 3: (dim (sv d) ...) -> exact version-3 decisions
   sub 4: (history alpha beta points) -> combined interpolant of f = sum alpha_k x_k^2 + prod (beta_k + x_k) in the final
          state at the given points
   sub 5: (history install_rebalance trees) -> as sub 0, but the run starts from the state obtained by installing the given
          trees (one interval list per dimension, any levels, coarsening ignored) into the freshly initialised state and
          running refinement_postprocessing (Model/DimWiseInstall.v); state0 = the installed state
   sub 6: (history install_rebalance trees alpha beta points) -> as sub 4 for a run from an installed state
   sub 7: (sf dim) -> (bound, certified rebalancing exceptions of sf, certified version-3 exceptions of dim) *)
Definition entry_dimwise (sub : Z) (x : sx) : sx :=
  match sub, x with
  | 0, _ =>
    match decode_history x with
    | inl (Some (what, o, a, b, steps, st)) => Lv (of_state what o a b st :: run_states what o a b steps st)
    | inl None => sx_err 9
    | inr e => sx_err e
    end
  | 1, Lv [a; b; lmaxs; trees] =>
    match get_LQc a, get_LQc b, get_LZ lmaxs, get_trees trees with
    | Some a, Some b, Some lmaxs, Some trees => Lv (map sx_bool (tree_ok_all a b lmaxs trees))
    | _, _, _, _ => sx_err 2
    end
  | 2, Lv (sf :: qs) =>
    match get_Qc sf, opt_all (map get_triple qs) with
    | Some sf, Some qs => Lv (map (fun t => match t with (p, p1, m) => sx_bool (rebalance_dec_exact sf p p1 m) end) qs)
    | _, _ => sx_err 2
    end
  | 3, Lv (Zv dim :: qs) =>
    match opt_all (map get_pairZn qs) with
    | Some qs => Lv (map (fun t => sx_bool (v3_dec_exact (Z.to_nat dim) (fst t) (snd t))) qs)
    | None => sx_err 2
    end
  | 4, Lv [h; al; be; pts] =>
    match decode_history h, get_LQc al, get_LQc be, get_LLQc pts with
    | inl (Some (_, o, a, b, steps, st)), Some al, Some be, Some pts =>
      match run_checked o steps st with
      | Some st' =>
        (* guard: every component has all its stripes and a level vector of the right length *)
        if forallb (fun kv => match get_point_coord_for_each_dim o st' (fst kv) with
                              | Some _ => Nat.eqb (length (fst kv)) (st_dim st') | None => false end)
                   (combi_scheme_adaptive (st_scheme st'))
        then Lv (map (fun p => of_Qc (dw_combi_interp o st' a b (StdCombi.fun_poly al be) p)) pts)
        else sx_err 8
      | None => sx_err 5
      end
    | inr e, _, _, _ => sx_err e
    | _, _, _, _ => sx_err 2
    end
  | 5, Lv [h; rb; trees] =>
    match decode_history h, get_bool rb, get_trees trees with
    | inl (Some (what, o, a, b, steps, st)), Some rb, Some trees =>
      match dw_install o rb trees st with
      | Some st1 => Lv (of_state what o a b st1 :: run_states what o a b steps st1)
      | None => sx_err 4
      end
    | inr e, _, _ => sx_err e
    | _, _, _ => sx_err 2
    end
  | 6, Lv [h; rb; trees; al; be; pts] =>
    match decode_history h, get_bool rb, get_trees trees, get_LQc al, get_LQc be, get_LLQc pts with
    | inl (Some (_, o, a, b, steps, st)), Some rb, Some trees, Some al, Some be, Some pts =>
      match (match dw_install o rb trees st with Some st1 => run_checked o steps st1 | None => None end) with
      | Some st' =>
        if forallb (fun kv => match get_point_coord_for_each_dim o st' (fst kv) with
                              | Some _ => Nat.eqb (length (fst kv)) (st_dim st') | None => false end)
                   (combi_scheme_adaptive (st_scheme st'))
        then Lv (map (fun p => of_Qc (dw_combi_interp o st' a b (StdCombi.fun_poly al be) p)) pts)
        else sx_err 8
      | None => sx_err 5
      end
    | inr e, _, _, _, _, _ => sx_err e
    | _, _, _, _, _, _ => sx_err 2
    end
  | 7, Lv [sf; Zv dim] =>
    match get_Qc sf with
    | Some sf => Lv [Zv (Z.of_nat (rb_cert_bound sf));
                     Lv (map (fun t => match t with (p, p1, m) => Lv [of_nat p; of_nat p1; of_nat m] end) (rb_cert_table sf));
                     Lv (map (fun t => Lv [Zv (fst t); of_nat (snd t)]) (v3_cert_table (Z.to_nat dim)))]
    | None => sx_err 2
    end
  | _, _ => sx_err 0
  end.
