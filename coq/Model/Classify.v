(* C19 — executable model of class Classification (sparseSpACE/DEMachineLearning.py): scaling fixed at learning time,
   out-of-range filter, arg-max over the per-class densities, evaluation summary and bookkeeping over repeated calls.
   Definitions only.  The densities themselves are INPUTS (read from the real classificators by the harness; the learned
   densities are the business of C16/C17).  DataSet operations come from Model/DataSet.v (C18).
   The float literals of the Python source are represented by their exact binary64 values. *)
From Coq Require Import ZArith List QArith Qcanon Bool.
From SG Require Import Base.QcUtil Model.DataSet.
Import ListNotations.
Open Scope Qc_scope.

Definition c_lo : Qc := Q2Qc (5764607523034235 # 1152921504606846976).     (* 0.005  *)
Definition c_hi : Qc := Q2Qc (8962163258467287 # 9007199254740992).        (* 0.995  *)
Definition c_lo_cut : Qc := Q2Qc (2824657686286775 # 576460752303423488).   (* 0.0049 *)
Definition c_hi_cut : Qc := Q2Qc (8963063978392761 # 9007199254740992).     (* 0.9951 *)
Definition c_099 : Qc := Q2Qc (4458563631096791 # 4503599627370496).        (* 0.99   *)

(* ---------------------------------------------------------------- arg-max (numpy: index of the FIRST maximum) *)
Fixpoint argmax_from (best : Qc) (bi : nat) (i : nat) (l : list Qc) : nat :=
  match l with
  | [] => bi
  | x :: r => if Qc_ltb best x then argmax_from x i (S i) r else argmax_from best bi (S i) r
  end.
Definition argmax (l : list Qc) : nat := match l with [] => O | x :: r => argmax_from x O 1 r end.

(* code variants: two repairs are proposed (fixes/C19-*.patch); the harness selects the variant by probing the implementation.
   `c_as_found` is the code as it is in the repository today. *)
Record cvariant := mkCV {
  cv_store : bool;      (* test_data keeps the results of its three concatenate calls (testing data grows with the tested samples) *)
  cv_labels : bool }.   (* _classificate returns the LABEL of the arg-max classificator instead of its index *)
Definition c_as_found : cvariant := mkCV false false.
Definition c_repaired : cvariant := mkCV true true.

(* _classificate: one density per class for every sample; class_labels = label of the i-th classificator *)
Definition class_of (cv : cvariant) (class_labels : list Z) (i : nat) : Z :=
  if cv_labels cv then nth i class_labels (Z.of_nat i) else Z.of_nat i.
Definition classificate (cv : cvariant) (class_labels : list Z) (dens : list (list Qc)) : list Z :=
  map (fun l => class_of cv class_labels (argmax l)) dens.

(* ---------------------------------------------------------------- position of a new sample in the learning-time scaling *)
(* _internal_scaling on unscaled data: shift_value(-data_min), scale_factor(scale), shift_value(0.005) *)
Definition scale_point (mn fac x : row) : row := map (fun y => y + c_lo) (vmul (vadd x (vneg mn)) fac).
Definition out_of_range (p : row) : bool := existsb (fun y => Qc_ltb y c_lo_cut) p || existsb (fun y => Qc_ltb c_hi_cut y) p.
Definition out_indices (vs : list row) : list Z :=
  map (fun ip => Z.of_nat (fst ip)) (filter (fun ip => out_of_range (snd ip)) (combine (seq 0 (length vs)) vs)).

(* ---------------------------------------------------------------- the classification object *)
Record cstate := mkC {
  c_min : row;                 (* _data_range[0] *)
  c_max : row;                 (* _data_range[1] *)
  c_fac : row;                 (* _scale_factor *)
  c_scaled_attrs : ds;         (* the scaling attributes of _scaled_data (rows irrelevant) *)
  c_class_labels : list Z;     (* label of the i-th classificator (order of _learning_data.split_labels()) *)
  c_test_labels : list Z;      (* labels of _testing_data *)
  c_calc : list Z;             (* _calculated_classes_testset *)
  c_performed : bool }.

(* _internal_scaling: (data set afterwards, raised?).  The input data set is modified in place also when the call fails later. *)
Definition internal_scaling (v : variant) (st : cstate) (d : ds) : ds * bool :=
  let go (d1 : ds) : ds * bool :=
    match remove_samples v (out_indices (values d1)) d1 with
    | (d2, Some _) => (d2, false)
    | (d2, None) => (d2, true)
    end in
  if scaled d then
    match same_scaling v (c_scaled_attrs st) d with
    | Some true => go d
    | _ => (d, true)
    end
  else
    let '(d1, e1) := shift_value (AArr (vneg (c_min st))) false d in
    if e1 then (d1, true) else
    let '(d2, e2) := scale_factor (AArr (c_fac st)) false d1 in
    if e2 then (d2, true) else
    let '(d3, e3) := shift_value (AScalar c_lo) false d2 in
    if e3 then (d3, true) else go d3.

(* evaluation summary: (wrong, total, percentage correct) *)
Fixpoint count_wrong (labels classes : list Z) : Z :=
  match labels, classes with
  | l :: ls, c :: cs => (if Z.eqb l c then 0 else 1) + count_wrong ls cs
  | _, _ => 0
  end%Z.
Definition summary (labels classes : list Z) : Z * Z * Qc :=
  let w := count_wrong labels classes in
  let t := Z.of_nat (length classes) in
  (w, t, 1 - Q2Qc (inject_Z w) / Q2Qc (inject_Z t)).

Inductive outcome :=
| ORaise (input_after : ds)                                      (* the call raises; the passed data set as it is afterwards *)
| OCall (input_after : ds) (classes : list Z)                    (* __call__: classes of the retained samples, in order *)
| OTest (input_after : ds) (classes : list Z) (s : Z * Z * Qc).  (* test_data: classes of the retained labelled samples, summary *)

(* __call__(data): dens = densities at the retained samples (rows) per class (columns) *)
Definition call (v : variant) (cv : cvariant) (st : cstate) (d : ds) (dens : list (list Qc)) : cstate * outcome :=
  if negb (c_performed st) then (st, ORaise d)
  else if is_empty d then (st, ORaise d)
  else
    let '(d1, e) := internal_scaling v st d in
    if e then (st, ORaise d1)
    else if is_empty d1 then (st, ORaise d1)
    else if negb (Nat.eqb (length dens) (length (rows d1))) then (st, ORaise d1)   (* harness protocol error *)
    else (st, OCall d1 (classificate cv (c_class_labels st) dens)).

(* test_data(data): dens = densities at the retained LABELLED samples *)
Definition test_data (v : variant) (cv : cvariant) (st : cstate) (d : ds) (dens : list (list Qc)) : cstate * outcome :=
  if negb (c_performed st) then (st, ORaise d)
  else if is_empty d then (st, ORaise d)
  else
    let '(d1, e) := internal_scaling v st d in
    if e then (st, ORaise d1)
    else if is_empty d1 then (st, ORaise d1)
    else
      let '(omitted, used) := split_without_labels d1 in
      (* as found, the three concatenate calls discard their results: _omitted_data, _scaled_data, _testing_data stay as they are *)
      if is_empty used then (st, ORaise d1)                       (* the classificators raise on an empty array *)
      else if negb (Nat.eqb (length dens) (length (rows used))) then (st, ORaise d1)
      else
        let cls := classificate cv (c_class_labels st) dens in
        let tl := if cv_store cv then c_test_labels st ++ map snd (rows used) else c_test_labels st in
        (mkC (c_min st) (c_max st) (c_fac st) (c_scaled_attrs st) (c_class_labels st) tl (c_calc st ++ cls) (c_performed st),
         OTest d1 cls (summary (map snd (rows used)) cls)).

(* evaluate(): None = raises *)
Definition evaluate (st : cstate) : option (Z * Z * Qc) :=
  if negb (c_performed st) then None
  else match c_test_labels st with
  | [] => None
  | _ => if Nat.eqb (length (c_test_labels st)) (length (c_calc st)) then Some (summary (c_test_labels st) (c_calc st)) else None
  end.

(* ---------------------------------------------------------------- initialisation: the scaling fixed at learning time *)
Record init_result := mkInit {
  i_min : row; i_max : row; i_fac : row;
  i_scaled : ds;        (* the labelled samples in the learning scaling (before shuffle / move_boundaries / splitting) *)
  i_omitted : ds }.     (* the unlabelled samples, scaled alike *)

Definition scale_omitted (mn fac : row) (om : ds) : ds :=
  if is_empty om then om
  else
    let d1 := fst (shift_value (AArr (vneg mn)) true om) in
    let d2 := fst (scale_factor (AArr fac) true d1) in
    fst (shift_value (AScalar c_lo) true d2).

(* Classification._initialize up to the shuffle; data_range = None | Some (min, max) given by the user *)
Definition initialize (v : variant) (d : ds) (data_range : option (row * row)) : option init_result :=
  let '(omitted, used) := split_without_labels d in
  if is_empty used then None
  else match data_range with
  | None =>
    match scale_range c_lo c_hi true used with
    | (sd, false) =>
      match omin sd, omax sd, sfactor sd with
      | Some mn, Some mx, FArr fac => Some (mkInit mn mx fac sd (scale_omitted mn fac omitted))
      | _, _, _ => None
      end
    | (_, true) => None
    end
  | Some (mn, mx) =>
    if existsb (fun b => b) (map2 Qc_leb mx mn) then None            (* "Invalid dataset range." *)
    else
      let fac := map (fun r => c_099 / r) (vsub mx mn) in
      let st := mkC mn mx fac used [] [] [] false in
      match internal_scaling v st used with
      | (sd, false) => Some (mkInit mn mx fac sd (scale_omitted mn fac omitted))
      | (_, true) => None
      end
  end.
