(* C18 (phase 3) - the store machine over data sets with offset: ONE definition that the wire entry point (Entry/C18.v, what the
   extracted driver runs in the correspondence) executes and that the history theorems (Proofs/DataSetHistory.v: tstep = this machine
   plus ghost reference lists, see tstep_is_sstep) are about.  Definitions only. *)
From Coq Require Import ZArith List QArith Qcanon Bool.
From SG Require Import Base.QcUtil Model.DataSet Model.DataSetOff.
Import ListNotations.
Open Scope Qc_scope.

(* one DataSet operation on the data set with handle h of a store *)
Inductive sop :=
| SRange (h : nat) (lo hi : Qc) (ov : bool)
| SFactor (h : nat) (a : arg) (ov : bool)
| SShift (h : nat) (a : arg) (ov : bool)
| SRevert (h : nat)
| SShuffle (h : nat) (perm : list nat)
| SMbf (h : nat) (idx : list nat)
| SSplitLabels (h : nat)
| SSplitPieces (h : nat) (p : Qc)
| SSplitWL (h : nat)
| SRemove (h : nat) (idx : list Z)
| SConcat (h h2 : nat)
| SCopy (h : nat)
| SRemoveLabels (h : nat) (p : Qc) (idx : list nat)      (* idx: the rnd.sample result *)
| SOneVsOthers (h : nat) (order : list Z).              (* read-only: its result sets (rational labels) are not data sets of the store *)

(* what the call hands back (next to the new store) *)
Inductive sres :=
| RNoHandle
| RState (e : bool) (d : dso)                 (* in-place methods: (raised, state afterwards) *)
| RRaise
| RSets (l : list dso)                        (* new data sets, appended to the store *)
| RRemoved (d' : dso) (r : option dso)
| RConcat (c : concat_result_o)
| ROvo (r : option (list (list (row * Qc)))).

Definition upd_state (st : list dso) (h : nat) (r : result_o) : list dso * sres :=
  let '(d', e) := r in (upd h d' st, RState e d').

Definition sstep_res (v : variant2) (st : list dso) (o : sop) : list dso * sres :=
  let vo := v_offset v in
  match o with
  | SRange h lo hi ov => match nth_error st h with None => (st, RNoHandle) | Some d => upd_state st h (scale_range_o vo lo hi ov d) end
  | SFactor h a ov => match nth_error st h with None => (st, RNoHandle) | Some d => upd_state st h (scale_factor_o vo a ov d) end
  | SShift h a ov => match nth_error st h with None => (st, RNoHandle) | Some d => upd_state st h (shift_value_o vo a ov d) end
  | SRevert h => match nth_error st h with None => (st, RNoHandle) | Some d => upd_state st h (revert_o vo d) end
  | SShuffle h perm => match nth_error st h with None => (st, RNoHandle) | Some d => upd_state st h (shuffle_o perm d) end
  | SMbf h idx => match nth_error st h with None => (st, RNoHandle) | Some d => upd_state st h (mbf_o idx d) end
  | SSplitLabels h =>
    match nth_error st h with None => (st, RNoHandle) | Some d =>
      if update_internal_raises (base d) && negb (is_empty (base d)) then (st, RRaise)
      else (st ++ split_labels_o d, RSets (split_labels_o d)) end
  | SSplitPieces h p =>
    match nth_error st h with None => (st, RNoHandle) | Some d =>
      if update_internal_raises (base d) then (st, RRaise)
      else let '(a, b) := split_pieces_o p d in (st ++ [a; b], RSets [a; b]) end
  | SSplitWL h =>
    match nth_error st h with None => (st, RNoHandle) | Some d =>
      if update_internal_raises (base d) then (st, RRaise)
      else let '(a, b) := split_without_labels_o d in (st ++ [a; b], RSets [a; b]) end
  | SRemove h idx =>
    match nth_error st h with None => (st, RNoHandle) | Some d =>
      let '(d', r) := remove_samples_o v idx d in
      (match r with None => upd h d' st | Some r' => upd h d' st ++ [r'] end, RRemoved d' r) end
  | SConcat h h2 =>
    match nth_error st h, nth_error st h2 with
    | Some d, Some d2 =>
      let c := concatenate_o v d d2 in
      (match c with CNewO r => st ++ [r] | _ => st end, RConcat c)
    | _, _ => (st, RNoHandle)
    end
  | SCopy h => match nth_error st h with None => (st, RNoHandle) | Some d => (st ++ [copy_o d], RSets [copy_o d]) end
  | SRemoveLabels h p idx =>
    match nth_error st h with None => (st, RNoHandle) | Some d =>
      if update_internal_raises (base d) then (st, RState true d)
      else (upd h (remove_labels_o p idx d) st, RState false (remove_labels_o p idx d)) end
  | SOneVsOthers h order =>
    match nth_error st h with None => (st, RNoHandle) | Some d =>
      if update_internal_raises (base d) && negb (is_empty (base d)) then (st, RRaise)
      else (st, ROvo (split_one_vs_others order (base d))) end
  end.

Definition sstep (v : variant2) (st : list dso) (o : sop) : list dso := fst (sstep_res v st o).
Fixpoint srun (v : variant2) (st : list dso) (ops : list sop) : list dso :=
  match ops with [] => st | o :: r => srun v (sstep v st o) r end.
