(* C10 — piecewise-polynomial view of the basis classes and the basis integrals (definitions only; lemmas:
   Proofs/BasisPieces.v, Proofs/BasisRepro.v).
   Mirrors the get_integral loops of sparseSpACE/BasisFunctions.py (BSpline, HierarchicalNotAKnotBSpline[Modified]:
   sum over the knot intervals [knots[i], knots[i+1]] clipped to [a, b] of a Gauss-Legendre rule with int(p/2)+1 nodes,
   exact for the polynomial piece of degree <= p; LagrangeBasis: one rule over [a, b]; LagrangeBasisRestricted[Modified]:
   one rule over get_boundaries()) and IntegratorHierarchicalBasisFunctions.__call__ (integral = <surpluses, weights>,
   weights = tensor product of the 1-D basis integrals).
   The Gauss rule itself (irrational nodes) is replaced by the formal integral of the piece (Base/PolyInt.pintegral). *)
From Coq Require Import ZArith List QArith Qcanon Bool Arith.
From SG Require Import Base.QcUtil Base.PolyInt Base.PolyQ Model.Basis.
Import ListNotations.
Open Scope Qc_scope.

(* ------------------------------------------------------------------ BSpline: the polynomial on one knot interval *)
(* piece of B_{k,p} on [t_j, t_{j+1}): the Cox-de Boor recursion of recursive_eval on coefficient lists
   (Proofs/BasisPieces.bs_eval_is_piece: bs_eval t p k x = peval (bs_piece t p k j) x for t_j <= x < t_{j+1}) *)
Fixpoint bs_piece (t : list Qc) (p k j : nat) {struct p} : poly :=
  match p with
  | O => if (j =? k)%nat then [1] else []
  | S p' =>
      padd (plin (nthQ t k) (1 / (nthQ t (k + p) - nthQ t k)) (bs_piece t p' k j))
           (plin (nthQ t (k + p + 1)) (- (1 / (nthQ t (k + p + 1) - nthQ t (k + 1)))) (bs_piece t p' (k + 1) j))
  end.

(* HierarchicalNotAKnotBSpline: Lagrange polynomial (one polynomial on every interval) or B-spline piece *)
Definition nak_piece (p idx level : nat) (knots : list Qc) (j : nat) : poly :=
  if nak_is_lagrange p level then lag_poly (nthQ knots idx) (others idx knots) else bs_piece knots p idx j.

(* HierarchicalNotAKnotBSplineModified.__call__ on the interval j *)
Definition nakmod_piece (p idx level : nat) (knots : list Qc) (a b : Qc) (j : nat) : poly :=
  if (level =? 1)%nat then [1]
  else if ((2 <=? level) && ((idx =? 1) || (idx =? 2 ^ level - 1)))%nat then
    let r := nak_piece p idx level knots j in
    if (idx =? 1)%nat then
      if (1 <? p)%nat
      then padd r (pscale (- (nak_d2 p idx level knots a / nak_d2 p 0 level knots a)) (nak_piece p 0 level knots j))
      else padd r (pscale Qc2 (nak_piece p 0 level knots j))
    else
      if (1 <? p)%nat
      then padd r (pscale (- (nak_d2 p idx level knots b / nak_d2 p (2 ^ level) level knots b))
                          (nak_piece p (2 ^ level) level knots j))
      else padd r (pscale Qc2 (nak_piece p (2 ^ level) level knots j))
  else nak_piece p idx level knots j.

(* LagrangeBasisRestrictedModified inside its support *)
Definition rlm_poly (p : nat) (knots : list Qc) (idx : nat) (a b : Qc) (level : nat) : poly :=
  let lp i := lag_poly (nthQ knots i) (others i knots) in
  if (level =? 1)%nat then [1] else
  if rlm_left knots idx a then
    if (1 <? p)%nat then padd (lp idx) (pscale (- (lag_d2 knots idx a / lag_d2 knots 0 a)) (lp 0%nat))
    else padd (lp idx) (pscale Qc2 (lp 0%nat))
  else if rlm_right knots idx b then
    let last := (length knots - 1)%nat in
    if (1 <? p)%nat then padd (lp idx) (pscale (- (lag_d2 knots idx b / lag_d2 knots last b)) (lp last))
    else padd (lp idx) (pscale Qc2 (lp last))
  else lp idx.

(* the polynomial a basis object evaluates on the interval [knots[j], knots[j+1]) of ITS OWN knot vector
   (restricted Lagrange bases: inside their support) *)
Definition bpiece (bf : basis) (j : nat) : poly :=
  match bf with
  | BLag knots idx => lag_poly (nthQ knots idx) (others idx knots)
  | BRLag knots idx => lag_poly (nthQ knots idx) (others idx knots)
  | BRLagMod p knots idx a b level => rlm_poly p knots idx a b level
  | BBsp p knots k => bs_piece knots p k j
  | BNak p idx level knots => nak_piece p idx level knots j
  | BNakMod p idx level knots a b => nakmod_piece p idx level knots a b j
  end.

(* ------------------------------------------------------------------ get_integral *)
(* for i in range(start, stop): if knots[i+1] >= a and knots[i] <= b: Gauss rule on [max(knots[i], a), min(knots[i+1], b)] *)
Definition piece_loop (piece : nat -> poly) (t : list Qc) (start stop : nat) (lo hi : Qc) : Qc :=
  sumQ (map (fun i => if Qc_leb lo (nthQ t (i + 1)) && Qc_leb (nthQ t i) hi
                      then pintegral (piece i) (Qc_max (nthQ t i) lo) (Qc_min (nthQ t (i + 1)) hi)
                      else 0)
            (seq start (stop - start))).

(* startIndex / endIndex of the not-a-knot classes *)
Definition nak_range (p idx level : nat) (knots : list Qc) : nat * nat :=
  if nak_is_lagrange p level then (O, (length knots - 1)%nat) else (idx, (idx + p + 1)%nat).

Definition bintegral (bf : basis) (lo hi : Qc) : Qc :=
  match bf with
  | BLag knots idx => lag_integral knots idx lo hi
  | BRLag knots idx => rl_integral knots idx
  | BRLagMod p knots idx a b level => pintegral (rlm_poly p knots idx a b level) (rlm_lo knots idx a level) (rlm_hi knots idx b level)
  | BBsp p knots k => piece_loop (bs_piece knots p k) knots k (k + p + 1) lo hi
  | BNak p idx level knots =>
      let '(s, e) := nak_range p idx level knots in piece_loop (nak_piece p idx level knots) knots s e lo hi
  | BNakMod p idx level knots a b =>
      let '(s, e) := nak_range p idx level knots in piece_loop (nakmod_piece p idx level knots a b) knots s e lo hi
  end.

(* ------------------------------------------------------------------ the integral of a component grid *)
(* IntegratorHierarchicalBasisFunctions.__call__: np.inner(surpluses, grid.get_weights()) with
   get_weights() = [prod_d weights[d][i_d] for all index vectors in product order] *)
Fixpoint quad_nd (ws : list (list Qc)) (sur : list Qc) : Qc :=
  match ws with
  | [] => nthQ sur 0
  | w :: rest =>
    let len := prodN (map (@length Qc) rest) in
    sumQ (map (fun wc => fst wc * quad_nd rest (snd wc)) (combine w (chunks (length w) len sur)))
  end.

Definition sys_weights (sy : list (Qc * basis)) (lo hi : Qc) : list Qc := map (fun xb => bintegral (snd xb) lo hi) sy.

(* ------------------------------------------------------------------ well-formedness of a basis object *)
(* decidable side condition of Proofs/BasisPieces.basis_is_piecewise_polynomial: strictly increasing knot vector and
   `assert(index <= len(knots) - p - 2)` of the BSpline constructor (also for the two border splines of the
   modified class); evaluated through the entry point on every system the model builds *)
Definition basis_wf (bf : basis) : bool :=
  match bf with
  | BBsp p knots k => strictly_increasing knots && (k + p + 1 <? length knots)%nat
  | BNak p idx level knots =>
      nak_is_lagrange p level || (strictly_increasing knots && (idx + p + 1 <? length knots)%nat)
  | BNakMod p idx level knots _ _ =>
      nak_is_lagrange p level
      || (strictly_increasing knots && (idx + p + 1 <? length knots)%nat && (2 ^ level + p + 1 <? length knots)%nat)
  | _ => true
  end.

(* ------------------------------------------------------------------ HierarchizationLSG, code-shaped *)
(* hierarchize_poles_for_dim works on the FLAT array grid_values[n, :] with explicit index arithmetic:
     offsets[d]  = prod(numPoints[d+1:])
     point_indeces = get_cross_product_range(numPoints with numPoints[d] = 1)       (itertools.product order)
     pole_coordinates[i] = i * offsets[d] + sum(point_index * offsets)
   gather the pole, solve the 1-D system, scatter the result back; dimension after dimension.
   Proofs/BasisFlat.v: this equals the tensor recursion hier_nd of Model/Basis.v for every shape. *)
Definition offsets (np : list nat) : list nat := map (fun d => prodN (skipn (S d) np)) (seq 0 (length np)).

Fixpoint dotN (a b : list nat) : nat :=
  match a, b with
  | x :: a', y :: b' => (x * y + dotN a' b')%nat
  | _, _ => O
  end.

Fixpoint cross_range (np : list nat) : list (list nat) :=
  match np with
  | [] => [[]]
  | n :: r => flat_map (fun i => map (cons i) (cross_range r)) (seq 0 n)
  end.

Fixpoint set_nth (d : nat) (x : nat) (l : list nat) : list nat :=
  match l, d with
  | [], _ => []
  | _ :: r, O => x :: r
  | a :: r, S d' => a :: set_nth d' x r
  end.

Fixpoint upd (g : list Qc) (i : nat) (x : Qc) : list Qc :=
  match g, i with
  | [], _ => []
  | _ :: r, O => x :: r
  | a :: r, S i' => a :: upd r i' x
  end.

(* for i in range(numPoints[d]): grid_values[n, pole_coordinates[i]] = hierarchized_values[i] *)
Definition scatter (g : list Qc) (cs : list nat) (h : list Qc) : list Qc :=
  fold_left (fun g' ch => upd g' (fst ch) (snd ch)) (combine cs h) g.

(* the 1-D solve of one pole of one component (scalar right-hand side) *)
Definition solve1Q (s : sys1) (v : list Qc) : option (list Qc) :=
  match s_ord s with
  | Some o => Some (fsubQ (colloc (s_basis s)) v o)
  | None => match solve_checked (colloc (s_basis s)) (map (fun x => [x]) v) with
            | Some X => Some (map (fun r => nthQ r 0) X)
            | None => None
            end
  end.

Definition sweep_dim (s : sys1) (np : list nat) (d : nat) (g : list Qc) : option (list Qc) :=
  match s_basis s with
  | [(x, bf)] => if Qc_eqb (beval bf x) 1 then Some g else None        (* numPoints[d] == 1: assert, return *)
  | _ =>
    let offs := offsets np in
    let base := map (fun i => (i * nth d offs O)%nat) (seq 0 (nth d np O)) in
    fold_left (fun acc pidx =>
                 match acc with
                 | None => None
                 | Some g' =>
                   let cs := map (fun b => (b + dotN pidx offs)%nat) base in
                   match solve1Q s (map (nthQ g') cs) with
                   | None => None
                   | Some h => Some (scatter g' cs h)
                   end
                 end)
              (cross_range (set_nth d 1%nat np)) (Some g)
  end.

Definition hier_flat (ss : list sys1) (v : list Qc) : option (list Qc) :=
  let np := map s_n ss in
  fold_left (fun acc ds => match acc with None => None | Some g => sweep_dim (snd ds) np (fst ds) g end)
            (combine (seq 0 (length ss)) ss) (Some v).

(* interpolate, code-shaped: for i, index in enumerate(get_cross_product_range(numPoints)):
     result += surplus[:, i] * prod_d evaluations[d][:, index[d]] *)
Definition interp_flat (ss : list sys1) (xs : list Qc) (sur : list Qc) : Qc :=
  let evals := map (fun sx => map (fun xb => beval (snd xb) (fst sx)) (s_basis (snd sx))) (combine xs ss) in
  sumQ (map (fun ii => nthQ sur (fst ii)
                       * prodQ (map (fun de => nthQ (snd de) (fst de)) (combine (snd ii) evals)))
            (combine (seq 0 (prodN (map s_n ss))) (cross_range (map s_n ss)))).
