(* C18 (deepening round) — additive extension of Model/DataSet.v.  Definitions only.
   (1) the proposed repair fixes/C18-revert-accumulated-offset.patch: class DataSet keeps, next to the accumulated _scaling_factor, the
       accumulated _scaling_offset (current sample = sample before the scaling * factor + offset) and revert_scaling undoes this affine map
       sample-wise instead of re-aligning the CURRENT minimum with _original_min;
   (2) the proposed repair fixes/C18-concatenate-refuses-different-maps.patch: concatenate refuses a non-empty other data set whose
       accumulated (factor, offset) differs from self's (_same_affine_scaling);
   (3) more of the anchored code: copy(), remove_labels (the rnd.sample index list is an input), the read-only getters.
   A data set with offset is a pair (ds, offset); every operation is the operation of Model/DataSet.v on the first component plus
   the offset bookkeeping, which is switched by the variant flag `vo` (false = code as found: the offset stays None and revert_scaling
   is the one of Model/DataSet.v).  As in Model/DataSet.v the boolean of a result means "the Python raises" and partial attribute
   updates before an exception are kept. *)
From Coq Require Import ZArith List QArith Qcanon Qround Bool.
From SG Require Import Base.QcUtil Model.DataSet.
Import ListNotations.
Open Scope Qc_scope.

(* _scaling_offset: None | float | ndarray  (same shapes as _scaling_factor) *)
Record dso := mkDSO { base : ds; soff : fac }.
Definition fresh_o (r : list sample) : dso := mkDSO (fresh r) FNone.
Definition lift (d : dso) (b : ds) : dso := mkDSO b (soff d).
Definition result_o := (dso * bool)%type.

Record variant2 := mkV2 {
  v_base : variant;    (* the two earlier repairs (both committed in the repository by now) *)
  v_offset : bool;     (* _scaling_offset bookkeeping + sample-wise revert_scaling *)
  v_refuse : bool }.   (* concatenate compares the accumulated affine maps of self and other *)
Definition as_found2 : variant2 := mkV2 repaired false false.
Definition repaired2 : variant2 := mkV2 repaired true true.

(* self._scaling_offset + a *)
Definition fac_add (f : fac) (a : arg) : fac :=
  match f, a with
  | FNone, _ => FNone
  | FScalar q, AScalar x => FScalar (q + x)
  | FScalar q, AArr l => FArr (map (fun x => q + x) l)
  | FArr l, AScalar x => FArr (map (fun y => y + x) l)
  | FArr l, AArr l' => FArr (vadd l l')
  end.
(* -self._scaling_offset *)
Definition fac_neg (f : fac) : arg :=
  match f with FNone => AScalar 0 | FScalar q => AScalar (- q) | FArr l => AArr (vneg l) end.

Definition is_first (ov : bool) (b : ds) : bool := negb (scaled b) || ov.

(* ---------------------------------------------------------------- scaling operations with offset bookkeeping *)
Definition scale_range_o (vo : bool) (lo hi : Qc) (ov : bool) (d : dso) : result_o :=
  let '(b', e) := scale_range lo hi ov (base d) in
  if e || negb vo then (lift d b', e)
  else match data_min (values (base d)), data_max (values (base d)) with
  | Some mn, Some mx =>
    let sc := mm_scale lo hi mn mx in
    let mi := mm_min lo mn sc in
    if is_first ov (base d) then (mkDSO b' (FArr mi), false)                 (* self._scaling_offset = scaler.min_ *)
    else match soff d with
    | FNone => (lift d b', true)                                              (* None * scale_: TypeError, after data/range/factor were updated *)
    | o => (mkDSO b' (fac_add (fac_mul o (AArr sc)) (AArr mi)), false)        (* offset * scale_ + min_ *)
    end
  | _, _ => (lift d b', e)
  end.

Definition scale_factor_o (vo : bool) (a : arg) (ov : bool) (d : dso) : result_o :=
  let '(b', e) := scale_factor a ov (base d) in
  if e || negb vo then (lift d b', e)
  else if is_first ov (base d) then (mkDSO b' (FScalar 0), false)            (* self._scaling_offset = 0.0 *)
  else match soff d with
  | FNone => (lift d b', true)
  | o => (mkDSO b' (fac_mul o a), false)                                     (* offset * scaling_factor *)
  end.

Definition shift_value_o (vo : bool) (a : arg) (ov : bool) (d : dso) : result_o :=
  let '(b', e) := shift_value a ov (base d) in
  if e || negb vo then (lift d b', e)
  else if is_first ov (base d) then (mkDSO b' (fac_of_arg a), false)         (* self._scaling_offset = shift_val *)
  else match soff d with
  | FNone => (lift d b', true)
  | o => (mkDSO b' (fac_add o a), false)                                     (* offset + shift_val *)
  end.

Definition clear_o (d : dso) : dso := mkDSO (clear_scaling (base d)) FNone.

(* revert_scaling.  Repaired: inverse_factor = 1.0 / factor; shift_value(-offset); scale_factor(inverse_factor); clear. *)
Definition revert_o (vo : bool) (d : dso) : result_o :=
  if negb vo then (let '(b', e) := revert_scaling (base d) in (lift d b', e))
  else match sfactor (base d) with
  | FNone => (d, true)                                   (* 1.0 / None *)
  | f =>
    if fac_has_zero f then (d, true)                     (* excluded from the generated inputs, as in Model/DataSet.v *)
    else match soff d with
    | FNone => (d, true)                                 (* -None *)
    | o =>
      let '(d1, e1) := shift_value_o true (fac_neg o) false d in
      if e1 then (d1, true)
      else let '(d2, e2) := scale_factor_o true (fac_inv f) false d1 in
           if e2 then (d2, true) else (clear_o d2, false)
    end
  end.

(* ---------------------------------------------------------------- sample-moving operations: _update_internal carries the offset *)
Definition shuffle_o (perm : list nat) (d : dso) : result_o :=
  let '(b', e) := shuffle_with perm (base d) in (lift d b', e).
Definition mbf_o (idx : list nat) (d : dso) : result_o :=
  let '(b', e) := move_boundaries_to_front idx (base d) in (lift d b', e).
Definition split_labels_o (d : dso) : list dso := map (lift d) (split_labels (base d)).
Definition split_pieces_o (p : Qc) (d : dso) : dso * dso :=
  let '(a, b) := split_pieces p (base d) in (lift d a, lift d b).
Definition split_without_labels_o (d : dso) : dso * dso :=
  let '(a, b) := split_without_labels (base d) in (lift d a, lift d b).
(* copy(): every attribute is taken over (arrays are copied: value semantics) *)
Definition copy_o (d : dso) : dso := d.

(* np.broadcast_to(x, (n,)): None -> an object array of None (Some None); float -> repeated; ndarray of length n or 1; else ValueError (None) *)
Definition bvec (n : nat) (f : fac) : option (option row) :=
  match f with
  | FNone => Some None
  | FScalar q => Some (Some (repeat q n))
  | FArr l => if Nat.eqb (length l) n then Some (Some l)
              else match l with [q] => Some (Some (repeat q n)) | _ => None end
  end.
Definition bvec_eq (n : nat) (f g : fac) : bool :=
  match bvec n f, bvec n g with
  | Some None, Some None => true
  | Some (Some x), Some (Some y) => row_eqb x y
  | _, _ => false
  end.
(* DataSet._same_affine_scaling (second repair) *)
Definition same_affine (a b : dso) : bool :=
  if negb (Bool.eqb (scaled (base a)) (scaled (base b))) then false
  else if negb (scaled (base a)) then true
  else if negb (Nat.eqb (ddim (base a)) (ddim (base b))) then false
  else bvec_eq (ddim (base a)) (sfactor (base a)) (sfactor (base b)) && bvec_eq (ddim (base a)) (soff a) (soff b).

Inductive concat_result_o := CNewO (d : dso) | CSelfO | COtherO | CRaiseO.
(* equal_scaling = self.same_scaling(concatenated_set) and (other.is_empty() or self._same_affine_scaling(other)) *)
Definition concatenate_o (v : variant2) (a b : dso) : concat_result_o :=
  match concatenate (v_base v) (base a) (base b) with
  | CNew r => if v_refuse v && negb (is_empty (base b) || same_affine a b) then CRaiseO else CNewO (lift a r)
  | CSelf => CSelfO
  | COther => COtherO
  | CRaise => CRaiseO
  end.

(* remove_samples: the removed set is list_concatenate of single-sample sets carrying self's attributes (a fresh empty set for no index);
   with the second repair each of those concatenations also compares the accumulated maps (of equal attributes: it can only fail when the
   factor/offset arrays do not broadcast to the sample dimension) *)
Definition self_affine_ok (d : dso) (n : nat) : bool :=
  negb (scaled (base d)) ||
  (match bvec n (sfactor (base d)) with Some _ => true | None => false end &&
   match bvec n (soff d) with Some _ => true | None => false end).
Definition remove_samples_o (v : variant2) (idx : list Z) (d : dso) : dso * option dso :=
  let '(b', r) := remove_samples (v_base v) idx (base d) in
  (lift d b',
   match r with
   | None => None
   | Some r' =>
     match idx with
     | [] => Some (fresh_o [])
     | _ => if v_refuse v && Nat.ltb 1 (length (rows r')) && negb (self_affine_ok d (dim_of (rows r'))) then None else Some (lift d r')
     end
   end).

(* ---------------------------------------------------------------- remove_labels
   labelless, labelfull = split_without_labels(); indices = rnd.sample(range(len(labelfull)), round(p' * len(labelfull))) - an INPUT here,
   validated by labels_idx_ok; labels[indices] = -1; self._data = labelfull (+ labelless).  Only _data changes. *)
Definition relabel_at (idx : list nat) (l : list sample) : list sample :=
  map (fun ir => if memn (fst ir) idx then (fst (snd ir), (-1)%Z) else snd ir) (combine (seq 0 (length l)) l).
Fixpoint nodupb (l : list nat) : bool := match l with [] => true | x :: r => negb (memn x r) && nodupb r end.
Definition labels_idx_ok (p : Qc) (idx : list nat) (d : ds) : bool :=
  let m := length (rows (snd (split_without_labels d))) in
  Nat.eqb (length idx) (split_index p m) && forallb (fun i => Nat.ltb i m) idx && nodupb idx.
Definition remove_labels (p : Qc) (idx : list nat) (d : ds) : ds :=
  let '(ll, lf) := split_without_labels d in
  let lf' := relabel_at idx (rows lf) in
  let r := match rows ll, rows lf with
           | [], _ => lf'
           | _, [] => rows ll
           | _, _ => lf' ++ rows ll
           end in
  set_rows_rebuilt d r.
Definition remove_labels_o (p : Qc) (idx : list nat) (d : dso) : dso := lift d (remove_labels p idx (base d)).

(* ---------------------------------------------------------------- read-only getters *)
Definition get_length (d : ds) : nat := if Nat.eqb (ddim d) 0 then O else length (rows d).
Definition get_labels_sorted (d : ds) : list Z := distinct_labels (rows d).           (* sorted(set(labels)) *)
Definition get_number_labels (d : ds) : nat := length (filter (fun z => Z.leb 0 z) (distinct_labels (rows d))).
Definition has_labelless (d : ds) : bool := existsb (fun s => Z.eqb (snd s) (-1)%Z) (rows d).

(* ---------------------------------------------------------------- phase 3: remove_labels as a row function; split_one_vs_others *)
(* remove_labels only rewrites _data: new rows = rl_rows idx (old rows) (Proofs/DataSetLabels.v: remove_labels_form) *)
Definition rl_rows (idx : list nat) (l : list sample) : list sample :=
  let ll := filter (fun s => Z.eqb (snd s) (-1)%Z) l in
  let lf := filter (fun s => Z.leb 0 (snd s)) l in
  match ll, lf with
  | [], _ => relabel_at idx lf
  | _, [] => ll
  | _, _ => relabel_at idx lf ++ ll
  end.

(* split_one_vs_others.  The result sets carry NON-INTEGER labels (1 for the class, max(-1, -(class size / size of the others)) for the
   rest), so they are lists of (sample, rational label) pairs with the attributes of self; they are not data sets of this model.
   `order` = self.get_labels() (CPython set order: an input, validated by label_order_ok).
   class_numbers[j] indexes the list of class sizes with the LABEL j (negative labels from the end): IndexError = None. *)
Definition count_label (j : Z) (l : list sample) : Z := Z.of_nat (length (filter (fun s => Z.eqb (snd s) j) l)).
Definition py_index {A} (l : list A) (j : Z) : option A :=
  let n := Z.of_nat (length l) in
  if Z.leb 0 j && Z.ltb j n then nth_error l (Z.to_nat j)
  else if Z.ltb j 0 && Z.leb (- n) j then nth_error l (Z.to_nat (n + j))
  else None.
Definition zsum (l : list Z) : Z := fold_right Z.add 0%Z l.
(* max(-1, -1 * (cn / others)); others = 0: numpy gives -inf, clipped to -1 *)
Definition ovo_label (cnj others : Z) : Qc :=
  if Z.leb others 0 then - (1) else Qc_max (- (1)) (Q2Qc (Qopp (cnj # Z.to_pos others))).
Definition ovo_set (order : list Z) (l : list sample) (j : Z) : option (list (row * Qc)) :=
  let cn := map (fun k => count_label k l) order in
  match py_index cn j with
  | None => None
  | Some cnj => Some (map (fun s => (fst s, if Z.eqb (snd s) j then 1 else ovo_label cnj (zsum cn - cnj))) l)
  end.
Fixpoint opt_list {A} (l : list (option A)) : option (list A) :=
  match l with
  | [] => Some []
  | None :: _ => None
  | Some x :: r => match opt_list r with Some r' => Some (x :: r') | None => None end
  end.
Definition split_one_vs_others (order : list Z) (d : ds) : option (list (list (row * Qc))) :=
  opt_list (map (ovo_set order (rows d)) order).
Fixpoint memz (x : Z) (l : list Z) : bool := match l with [] => false | y :: r => Z.eqb x y || memz x r end.
Definition label_order_ok (order : list Z) (d : ds) : bool :=
  forallb (fun x => memz x (distinct_labels (rows d))) order && forallb (fun x => memz x order) (distinct_labels (rows d))
  && Nat.eqb (length order) (length (distinct_labels (rows d))).
