(* C09 — the quadrature of the hierarchical Lagrange grid (GlobalLagrangeGrid / IntegratorHierarchicalBasisFunctions), definitions only.
     integrate(f) = sum_i surplus_i(f) * integral(basis_i)
   surplus = hierarchisation of the nodal values (Model/Basis.hier_nd: forward substitution along the level order for the Lagrange
   systems), integral(basis_i) = the weight GlobalLagrangeGrid.compute_1D_quad_weights stores (LagrangeBasisRestricted.get_integral:
   Gauss-Legendre with int(p/2)+1 nodes on the support, exact for these polynomials; the model takes the formal integral).
   The modified basis (boundary=False): level 1 is the constant 1 on [a,b]; next to a border the restricted polynomial plus a multiple
   of the border polynomial, integrated over the restricted support. *)
From Coq Require Import ZArith List QArith Qcanon Bool Arith.
From SG Require Import Base.QcUtil Base.PolyInt Base.PolyQ Model.Basis.
Import ListNotations.
Open Scope Qc_scope.

(* integral of LagrangeBasisRestrictedModified over its support *)
Definition rlm_integral (p : nat) (knots : list Qc) (idx : nat) (a b : Qc) (level : nat) : Qc :=
  if (level =? 1)%nat then b - a else
  let lo := rl_lo knots idx in let hi := rl_hi knots idx in
  let r := lag_integral knots idx lo hi in
  if rlm_left knots idx a then
    if (1 <? p)%nat then r - lag_d2 knots idx a / lag_d2 knots 0 a * lag_integral knots 0 lo hi
    else r + Qc2 * lag_integral knots 0 lo hi
  else if rlm_right knots idx b then
    let last := (length knots - 1)%nat in
    if (1 <? p)%nat then r - lag_d2 knots idx b / lag_d2 knots last b * lag_integral knots last lo hi
    else r + Qc2 * lag_integral knots last lo hi
  else r.

(* the weight stored for a basis function *)
Definition bintegral (bf : basis) : option Qc :=
  match bf with
  | BRLag knots idx => Some (rl_integral knots idx)
  | BRLagMod p knots idx a b level => Some (rlm_integral p knots idx a b level)
  | _ => None
  end.

Definition bweights (sy : list (Qc * basis)) : option (list Qc) := opt_list (map (fun xb => bintegral (snd xb)) sy).

(* integrate(f) for the nodal values v (one-dimensional grid, scalar function) *)
Definition hier_quad (s : sys1) (v : list Qc) : option Qc :=
  match hier_nd [s] v, bweights (s_basis s) with
  | Some sur, Some w => Some (dotQ sur w)
  | _, _ => None
  end.

(* the effective nodal weights: integrate of the one-hot vectors (what the harness reads off the implementation) *)
Definition one_hot (n j : nat) : list Qc := map (fun i => if (i =? j)%nat then 1 else 0) (seq 0 n).
Definition nodal_weights (s : sys1) : option (list Qc) :=
  opt_list (map (fun j => hier_quad s (one_hot (s_n s) j)) (seq 0 (s_n s))).

(* GlobalLagrangeGrid on one stripe: knot selection of the code-shaped list model, level order, weights *)
Definition lagrange_grid_sys (p : nat) (boundary modified : bool) (a b : Qc) (pts : list Qc) (levs : list nat) : option sys1 :=
  match lagrange_system p boundary modified a b pts levs with
  | Some sy => Some {| s_basis := sy; s_ord := Some (level_order (interior boundary levs)) |}
  | None => None
  end.
Definition lagrange_nodal_weights p boundary modified a b pts levs : option (list Qc) :=
  match lagrange_grid_sys p boundary modified a b pts levs with Some s => nodal_weights s | None => None end.
