(* The extend/split decision of automatic_extend_split and the split dimensions of split_single_dim as FUNCTIONS of the
   error numbers of the refined area — definitions only.
   Python: sparseSpACE/RefinementObject.py  RefinementObjectExtendSplit.refine
             benefit_split = self.parent_info.get_split_benefit(); benefit_extend = self.parent_info.get_extend_benefit()
             (switch_to_parent_estimation only for high-order grids: not modelled, the trapezoidal grid is not high order)
             if self.automatic_extend_split and benefit_extend < benefit_split: extend   ... elif benefit_extend >= benefit_split: split
           RefinementObjectExtendSplit.get_split_dims(threshold=0.9)
             max_error = max(self.twinErrors); dims = [d for d in range(dim) if self.twinErrors[d] >= max_error * threshold]
           split_area_single_dim: twinErrors of a child = [t * 0.5 ...] with twinErrors[d] = None; set_twin_error(d, e): stored for the
             area and its twin in dimension d.
   The benefit numbers / twin errors themselves come out of the float error-estimate arithmetic on the integrand (or are
   scripted by the harness); they are inputs.  Everything downstream of them is a function. *)
From Coq Require Import ZArith List Bool QArith Qcanon.
From SG Require Import Base.QcUtil Model.CombiScheme Model.ExtendSplit.
Import ListNotations.

(* extend iff benefit_extend < benefit_split *)
Definition auto_decide (benefit_extend benefit_split : Qc) : bool := Qc_ltb benefit_extend benefit_split.

(* get_split_dims: threshold 0.9 (the product max_error * 0.9 is taken exactly) *)
Definition maxQ (l : list Qc) : Qc := fold_left (fun m x => if Qc_ltb m x then x else m) l 0%Qc.
Definition split_dims_of (twin_errors : list Qc) : list nat :=
  let thr := (maxQ twin_errors * margin)%Qc in
  map fst (filter (fun ix => Qc_leb thr (snd ix)) (combine (seq 0 (length twin_errors)) twin_errors)).

(* the decision inputs of a refinement round computed from the numbers of the refined areas:
   per box (benefit_extend, benefit_split) and the twin errors *)
Definition numbers := (box * ((Qc * Qc) * list Qc))%type.

Definition decision_of (nm : numbers) : decision :=
  (fst nm, (auto_decide (fst (fst (snd nm))) (snd (fst (snd nm))), split_dims_of (snd (snd nm)))).

Definition step_numbers (st : state) (nums : list numbers) (bens : list (box * Z)) : state :=
  step st (mkStep (map decision_of nums) bens).

(* ---------------------------------------------------------------- twin bookkeeping of split_single_dim
   per live area (keyed by its box): twinErrors (None = not yet computed) and twins (the box of the twin per dimension) *)
Definition twin_entry := (box * (list (option Qc) * list (option box)))%type.

Fixpoint set_opt {A} (d : nat) (v : option A) (l : list (option A)) : list (option A) :=
  match l, d with
  | [], _ => []
  | _ :: r, O => v :: r
  | x :: r, S d' => x :: set_opt d' v r
  end.

Definition halve (t : option Qc) : option Qc := match t with Some x => Some (qc_half x) | None => None end.

(* split_area_single_dim(d) on one entry: two children; twinErrors halved, None in dimension d; twins copied, the two
   children become twins of each other in dimension d *)
Definition split_entry (d : nat) (e : twin_entry) : list twin_entry :=
  match halves d (fst e) with
  | [lo; hi] =>
    let te := set_opt d None (map halve (fst (snd e))) in
    [(lo, (te, set_opt d (Some hi) (snd (snd e)))); (hi, (te, set_opt d (Some lo) (snd (snd e))))]
  | _ => []
  end.

Definition split_entries (dims : list nat) (e : twin_entry) : list twin_entry :=
  fold_left (fun es d => flat_map (split_entry d) es) dims [e].

(* refine(): after all splits the twins in the split dimensions are re-paired among the final children: the twin in
   dimension d_j is the child that differs in the half taken in d_j only, i.e. the mirror box inside the parent *)
Definition mirror (parent : box) (d : nat) (b : box) : box :=
  let m := midpoint (fst parent) (snd parent) d in
  if Qc_eqb (nth d (fst b) 0%Qc) (nth d (fst parent) 0%Qc)
  then (set_nth d m (fst b), set_nth d (nth d (snd parent) 0%Qc) (snd b))
  else (set_nth d (nth d (fst parent) 0%Qc) (fst b), set_nth d m (snd b)).

Definition repair_twins (parent : box) (dims : list nat) (e : twin_entry) : twin_entry :=
  (fst e, (fst (snd e), fold_left (fun tw d => set_opt d (Some (mirror parent d (fst e))) tw) dims (snd (snd e)))).

Fixpoint tw_get (b : box) (es : list twin_entry) : option twin_entry :=
  match es with
  | [] => None
  | e :: r => if box_eqb b (fst e) then Some e else tw_get b r
  end.

Fixpoint tw_remove (b : box) (es : list twin_entry) : list twin_entry :=
  match es with
  | [] => []
  | e :: r => if box_eqb b (fst e) then r else e :: tw_remove b r
  end.

Definition tw_update (b : box) (f : twin_entry -> twin_entry) (es : list twin_entry) : list twin_entry :=
  map (fun e => if box_eqb b (fst e) then f e else e) es.

(* events of the twin bookkeeping, in the order in which they happen *)
Inductive twin_event :=
| TSet (b : box) (d : nat) (v : Qc)              (* set_twin_error(d, .) on the area b: stored value v, also for its twin *)
| TRefine (b : box) (extend : bool).             (* refine() of the area b; an extend keeps box, twinErrors and twins *)

Definition the_errors (te : list (option Qc)) : list Qc := map (fun t => match t with Some x => x | None => 0%Qc end) te.

(* returns the new table and, for a split, the dimensions get_split_dims chooses *)
Definition twin_step (es : list twin_entry) (ev : twin_event) : list twin_entry * option (box * list nat) :=
  match ev with
  | TSet b d v =>
    match tw_get b es with
    | Some e =>
      let es1 := tw_update b (fun e => (fst e, (set_opt d (Some v) (fst (snd e)), snd (snd e)))) es in
      (match nth d (snd (snd e)) None with
       | Some tb => tw_update tb (fun e => (fst e, (set_opt d (Some v) (fst (snd e)), snd (snd e)))) es1
       | None => es1
       end, None)
    | None => (es, None)
    end
  | TRefine b true => (es, None)
  | TRefine b false =>
    match tw_get b es with
    | Some e =>
      let dims := split_dims_of (the_errors (fst (snd e))) in
      (tw_remove b es ++ map (repair_twins b dims) (split_entries dims e), Some (b, dims))
    | None => (es, None)
    end
  end.

Fixpoint twin_run (es : list twin_entry) (evs : list twin_event) : list twin_entry * list (box * list nat) :=
  match evs with
  | [] => (es, [])
  | ev :: r =>
    let '(es1, o) := twin_step es ev in
    let '(es2, log) := twin_run es1 r in
    (es2, match o with Some x => x :: log | None => log end)
  end.

(* initialize_refinement with split_single_dim: the root is split in all dimensions *)
Definition twin_init (dim : nat) (a b : list Qc) : list twin_entry :=
  let root : twin_entry := ((a, b), (repeat None dim, repeat None dim)) in
  map (repair_twins (a, b) (seq 0 dim)) (split_entries (seq 0 dim) root).
