(* Model of the density-estimation linear system of sparseSpACE/GridOperation.py (class DensityEstimation,
   grid without boundary points, hat basis not modified), over the canonical rationals Qc.  DEFINITIONS ONLY.

   Python                                        model
   get_hat_domain_for_every_grid_point_vectorized  stripe_hats / grid_hats (points with lower/upper neighbour)
   calculate_R_value_analytically                R1 (one dimension, formulas as coded) / Rval (d dimensions)
   build_R_matrix_dimension_wise                 R_matrix_nonuniform / R_lumped_nonuniform
   build_R_matrix                                U1 / Uval / R_matrix_uniform / diag_val
   hat_function_non_symmetric                    hat_scalar
   hat_function_non_symmetric_completely_vectorized  hat_cv
   hat_function_non_symmetric_vectorized         hat_vec        (valid in the support only, like the code)
   hat_function / ..._completely_vectorized      hat_u          (uniform grids: max(1-|2^l x - i|,0))
   hat_function_in_support(_vectorized)          hat_u_insupp   (no clamping)
   calculate_B / calculate_B_dimension_wise      rhs (N < 200: completely vectorised) / rhs_large_* (N >= 200)
   solve_density_estimation(_dimension_wise)     normalise_uniform / normalise_weighted  (after the LAPACK solve,
                                                 which is replaced by a checked certificate: check_solution)
   GlobalTrapezoidalGrid.compute_weights[1:-1]   trap_interior / tensor_weights *)
From Coq Require Import ZArith List QArith Qcanon Bool Qround.
From SG Require Import Base.QcUtil.
Import ListNotations.
Open Scope Qc_scope.

(* ------------------------------------------------------------------ small numeric helpers *)
Definition Qc3 : Qc := Q2Qc (3 # 1).
Definition Qc12 : Qc := Q2Qc (12 # 1).
Definition qc_of_nat (n : nat) : Qc := qc_of_Z (Z.of_nat n).
Definition cube (x : Qc) : Qc := x * x * x.
Fixpoint prodQ (l : list Qc) : Qc := match l with [] => 1 | x :: r => x * prodQ r end.
(* 2 ** e for a Python int e (negative exponents give the reciprocal) *)
Definition pow2z (e : Z) : Qc :=
  if (0 <=? e)%Z then qc_of_Z (2 ^ e) else 1 / qc_of_Z (2 ^ (- e)).

Fixpoint map2 {A B C} (f : A -> B -> C) (a : list A) (b : list B) : list C :=
  match a, b with x :: a', y :: b' => f x y :: map2 f a' b' | _, _ => [] end.
Fixpoint forallb2 {A B} (f : A -> B -> bool) (a : list A) (b : list B) : bool :=
  match a, b with
  | [], [] => true
  | x :: a', y :: b' => f x y && forallb2 f a' b'
  | _, _ => false
  end.
Fixpoint cross {A} (ls : list (list A)) : list (list A) :=     (* itertools.product: last list varies fastest *)
  match ls with
  | [] => [[]]
  | l :: r => flat_map (fun a => map (cons a) (cross r)) l
  end.
Fixpoint mapi_from {A B} (i : nat) (f : nat -> A -> B) (l : list A) : list B :=
  match l with [] => [] | x :: r => f i x :: mapi_from (S i) f r end.
Definition mapi {A B} (f : nat -> A -> B) (l : list A) : list B := mapi_from 0 f l.

(* ------------------------------------------------------------------ hats on non-uniform 1D grids *)
(* a grid point with its lower and upper neighbour (the support of its hat is [lo, hi]) *)
Record hatdom := mkH { h_lo : Qc; h_p : Qc; h_hi : Qc }.

Fixpoint windows (xs : list Qc) : list hatdom :=
  match xs with
  | [] => []
  | a :: r => match r with p :: c :: _ => mkH a p c :: windows r | _ => [] end
  end.

(* stripes contain the domain boundary; a stripe with one inner point gets the domain [0,1] as coded *)
Definition stripe_hats (xs : list Qc) : list hatdom :=
  match xs with
  | [_; p; _] => [mkH 0 p 1]
  | _ => windows xs
  end.

Definition grid_hats (stripes : list (list Qc)) : list (list hatdom) := cross (map stripe_hats stripes).

(* hat_function_non_symmetric, one dimension *)
Definition hat_scalar (t : hatdom) (x : Qc) : Qc :=
  if Qc_leb (h_p t) x
  then Qc_max 0 (1 - (1 / (h_hi t - h_p t)) * (x - h_p t))
  else Qc_max 0 (1 - (1 / (h_p t - h_lo t)) * (h_p t - x)).

(* hat_function_non_symmetric_completely_vectorized, one dimension:
   value1 is filtered with (>1 -> 0, <0 -> 0), value2 with (>=1 -> 0, <0 -> 0), degenerate sides are skipped *)
Definition hat_cv (t : hatdom) (x : Qc) : Qc :=
  let v1 := if Qc_eqb (h_hi t) (h_p t) then 0
            else let v := 1 - (x - h_p t) / (h_hi t - h_p t) in
                 if Qc_ltb 1 v then 0 else if Qc_ltb v 0 then 0 else v in
  let v2 := if Qc_eqb (h_lo t) (h_p t) then 0
            else let v := 1 - (h_p t - x) / (h_p t - h_lo t) in
                 if Qc_leb 1 v then 0 else if Qc_ltb v 0 then 0 else v in
  v1 + v2.

(* hat_function_non_symmetric_vectorized, one dimension.  np.ceil(x - p + 10**-30) is 1 for x >= p and 0 for x < p,
   np.ceil(p - x) is 1 for x < p and 0 for x >= p  (coordinates in [0,1]; a non-zero difference of two
   binary64 numbers of that range is far larger than 10**-30).  No clamping: meaningful in the support only. *)
Definition hat_vec (t : hatdom) (x : Qc) : Qc :=
  (1 - (x - h_p t) / (h_hi t - h_p t)) * (if Qc_leb (h_p t) x then 1 else 0)
  + (1 - (h_p t - x) / (h_p t - h_lo t)) * (if Qc_ltb x (h_p t) then 1 else 0).

Definition hat_nd (f : hatdom -> Qc -> Qc) (ts : list hatdom) (x : list Qc) : Qc := prodQ (map2 f ts x).

(* uniform grids: hat number i (1 .. 2^l - 1) of level l *)
Definition hat_u_insupp (l i : Z) (x : Qc) : Qc := 1 - Qc_abs (pow2z l * x - qc_of_Z i).
Definition hat_u (l i : Z) (x : Qc) : Qc := Qc_max (hat_u_insupp l i x) 0.
Definition hat_u_nd (f : Z -> Z -> Qc -> Qc) (lv iv : list Z) (x : list Qc) : Qc :=
  prodQ (map2 (fun li xd => f (fst li) (snd li) xd) (combine lv iv) x).

(* ------------------------------------------------------------------ matrix entries, non-uniform (as coded) *)
Definition integral_calc (x m p q : Qc) : Qc :=
  Qchalf * (m * m) * (x * x) * (p + q) - (1 / Qc3) * (m * m) * cube x - x * (m * p + 1) * (m * q - 1).
Definition integral_1 (x m p : Qc) : Qc := - (cube (m * (p - x) - 1) / (Qc3 * m)).
Definition integral_2 (x m p : Qc) : Qc := - (cube (m * (p - x) + 1) / (Qc3 * m)).

Definition R1 (ti tj : hatdom) : Qc :=
  let pi := h_p ti in
  let pj := h_p tj in
  if negb (Qc_eqb pi pj) then
    let m := 1 / Qc_abs (pi - pj) in
    let a := Qc_min pi pj in
    let b := Qc_max pi pj in
    integral_calc b m a b - integral_calc a m a b
  else
    let left := if negb (Qc_eqb pi (h_lo ti))
                then let m1 := 1 / Qc_abs (pi - h_lo ti) in integral_1 pi m1 pi - integral_1 (h_lo ti) m1 pi
                else 0 in
    let right := if negb (Qc_eqb pi (h_hi tj))
                 then let m2 := 1 / Qc_abs (h_hi tj - pj) in integral_2 (h_hi ti) m2 pi - integral_2 pi m2 pi
                 else 0 in
    left + right.

(* adjacency test of the code: point_j inside the (closed) support of hat i, in every dimension *)
Definition in_dom (ti tj : hatdom) : bool := Qc_leb (h_lo ti) (h_p tj) && Qc_leb (h_p tj) (h_hi ti).

Definition Rval (ti tj : list hatdom) : Qc :=
  if forallb2 in_dom ti tj then prodQ (map2 R1 ti tj) else 0.

(* full matrix: the code computes the upper triangle (for i, for j >= i: R[i][j] = R[j][i] = res) and adds lambda
   on the diagonal.  Recursive form of the same double loop: row i is computed against the points j >= i and
   mirrored into column i of the remaining rows. *)
Fixpoint sym_matrix {A} (entry : A -> A -> Qc) (lam : Qc) (pts : list A) : list (list Qc) :=
  match pts with
  | [] => []
  | t :: ts =>
      let r := map (entry t) ts in
      (entry t t + lam :: r) :: map2 cons r (sym_matrix entry lam ts)
  end.

Definition R_matrix_nonuniform (pts : list (list hatdom)) (lam : Qc) : list (list Qc) := sym_matrix Rval lam pts.

(* mass lumping: only the diagonal, as a vector *)
Definition R_lumped_nonuniform (pts : list (list hatdom)) (lam : Qc) : list Qc :=
  map (fun t => Rval t t + lam) pts.

(* ------------------------------------------------------------------ matrix entries, uniform (as coded) *)
Definition diag1 (l : Z) : Qc := 1 / (pow2z (l - 1) * Qc3).
Definition off1 (l : Z) : Qc := 1 / (pow2z (l - 1) * Qc12).
Definition diag_val (lv : list Z) : Qc := prodQ (map diag1 lv).

(* one factor; None = "basis functions do not overlap" (res = 0; break) *)
Definition U1 (l i j : Z) : option Qc :=
  if (i =? j)%Z then Some (diag1 l)
  else
    let s := pow2z (l - 1) in
    if Qc_leb (Qc_min (qc_of_Z (i + 1) * s) (qc_of_Z (j + 1) * s))
              (Qc_max (qc_of_Z (i - 1) * s) (qc_of_Z (j - 1) * s))
    then None
    else Some (off1 l).

Fixpoint Uval_from (res : Qc) (lv iv jv : list Z) : Qc :=
  match lv, iv, jv with
  | l :: lv', i :: iv', j :: jv' =>
      match U1 l i j with
      | None => 0
      | Some f => Uval_from (res * f) lv' iv' jv'
      end
  | _, _, _ => res
  end.
Definition Uval (lv iv jv : list Z) : Qc := Uval_from 1 lv iv jv.

Fixpoint zrange_from (a : Z) (n : nat) : list Z := match n with O => [] | S k => a :: zrange_from (a + 1) k end.
Definition num_points (l : Z) : Z := 2 ^ l - 1.
Definition index_list (lv : list Z) : list (list Z) :=
  cross (map (fun l => zrange_from 1 (Z.to_nat (num_points l))) lv).

(* R[diag] += diag_val + lambda ; for i < j: R[i,j] = R[j,i] = res (left 0 when the hats do not overlap) *)
Fixpoint sym_matrix_d {A} (entry : A -> A -> Qc) (dg : Qc) (pts : list A) : list (list Qc) :=
  match pts with
  | [] => []
  | t :: ts =>
      let r := map (entry t) ts in
      (dg :: r) :: map2 cons r (sym_matrix_d entry dg ts)
  end.

Definition R_matrix_uniform (lv : list Z) (lam : Qc) : list (list Qc) :=
  sym_matrix_d (Uval lv) (diag_val lv + lam) (index_list lv).

(* the grid of a level vector written as stripes (used to state that both constructions agree) *)
Definition uniform_stripe (l : Z) : list Qc :=
  map (fun i => qc_of_Z i / pow2z l) (zrange_from 0 (Z.to_nat (2 ^ l + 1))).

(* ------------------------------------------------------------------ right-hand side *)
(* signs: [] = no class labels (sign 1), otherwise one label per sample *)
Fixpoint signed_sum (signs : list Qc) (vals : list Qc) : Qc :=
  match vals with
  | [] => 0
  | v :: vr => match signs with
               | [] => v + signed_sum [] vr
               | s :: sr => v * s + signed_sum sr vr
               end
  end.

(* N < threshold: all hats times all samples, summed over the samples, times 1/M *)
Definition rhs (pts : list (list hatdom)) (data : list (list Qc)) (signs : list Qc) : list Qc :=
  let M := qc_of_nat (length data) in
  map (fun t => signed_sum signs (map (hat_nd hat_cv t) data) * (1 / M)) pts.

Definition rhs_uniform (lv : list Z) (data : list (list Qc)) (signs : list Qc) : list Qc :=
  let M := qc_of_nat (length data) in
  map (fun iv => signed_sum signs (map (hat_u_nd hat_u lv iv) data) * (1 / M)) (index_list lv).

(* N >= threshold, non-uniform: per sample only the hats centred at the two closest stripe coordinates per dimension
   (take_closest via bisect_left; boundary values 0 and 1 are dropped), evaluated with the scalar hat.
   The scatter "b[index(h)] += ..." of the code is written as a gather over the hats. *)
Fixpoint bisect_left (xs : list Qc) (x : Qc) : nat :=
  match xs with [] => O | a :: r => if Qc_ltb a x then S (bisect_left r x) else O end.

Definition take_closest (xs : list Qc) (x : Qc) : list Qc :=
  let pos0 := bisect_left xs x in
  let pos := if (pos0 =? 0)%nat then 1%nat else pos0 in
  [nth (pos - 1) xs 0; nth pos xs 0].

Definition support_points (xs : list Qc) (x : Qc) : list Qc :=
  match xs with
  | [_; p; _] => [p]
  | _ => filter (fun h => negb (Qc_eqb h 0) && negb (Qc_eqb h 1)) (take_closest xs x)
  end.

Fixpoint memQ (a : Qc) (l : list Qc) : bool := match l with [] => false | b :: r => Qc_eqb a b || memQ a r end.

Definition is_neighbour (stripes : list (list Qc)) (t : list hatdom) (x : list Qc) : bool :=
  forallb2 (fun td sx => memQ (h_p td) (support_points (fst sx) (snd sx))) t (combine stripes x).

Definition rhs_large (stripes : list (list Qc)) (data : list (list Qc)) (signs : list Qc) : list Qc :=
  let M := qc_of_nat (length data) in
  map (fun t => signed_sum signs
                  (map (fun x => if is_neighbour stripes t x then hat_nd hat_scalar t x else 0) data) * (1 / M))
      (grid_hats stripes).

(* N >= threshold, uniform: get_hats_in_support (floor / ceil of x / meshsize, kept if 0 < s <= numPoints) and the
   unclamped product hat_function_in_support_vectorized *)
Definition qfloor (x : Qc) : Z := Qfloor (this x).
Definition qceil (x : Qc) : Z := Qceiling (this x).

Definition hats_in_support_1d (l : Z) (x : Qc) : list Z :=
  let y := x * pow2z l in
  filter (fun s => (0 <? s)%Z && (s <=? num_points l)%Z) [qfloor y; qceil y].

Definition in_unit_cube (x : list Qc) : bool := forallb (fun c => Qc_leb 0 c && Qc_leb c 1) x.

Definition is_hat_in_support (lv iv : list Z) (x : list Qc) : bool :=
  in_unit_cube x &&
  forallb2 (fun li xd => existsb (Z.eqb (snd li)) (hats_in_support_1d (fst li) xd)) (combine lv iv) x.

Definition rhs_uniform_large (lv : list Z) (data : list (list Qc)) (signs : list Qc) : list Qc :=
  let M := qc_of_nat (length data) in
  map (fun iv => signed_sum signs
                   (map (fun x => if is_hat_in_support lv iv x then hat_u_nd hat_u_insupp lv iv x else 0) data)
                 * (1 / M))
      (index_list lv).

(* ------------------------------------------------------------------ solve (certificate) and normalisation *)
Definition matvec (G : list (list Qc)) (x : list Qc) : list Qc := map (fun row => dotQ row x) G.

(* verified checker for the certificate of the linear solve: x solves G x = b exactly *)
Definition check_solution (G : list (list Qc)) (x b : list Qc) : bool :=
  forallb (fun row => (length row =? length x)%nat) G && forallb2 Qc_eqb (matvec G x) b.

Definition clip0 (a : Qc) : Qc := Qc_max a 0.     (* alphas.clip(min=0.0) *)

(* dimension-wise path: quadrature weights of the inner grid points *)
Definition normalise_weighted (labelled : bool) (w a : list Qc) : list Qc * Qc :=
  let W := sumQ w in
  let a1 := if labelled then let i1 := dotQ a w / W in map (fun x => x - i1) a else a in
  let I := dotQ (map clip0 a1) w / W in
  (if Qc_eqb I 0 then a1 else map (fun x => x / I) a1, I).

(* uniform path without boundary: plain means *)
Definition normalise_uniform (labelled : bool) (a : list Qc) : list Qc * Qc :=
  let n := qc_of_nat (length a) in
  let a1 := if labelled then let i1 := sumQ a / n in map (fun x => x - i1) a else a in
  let I := sumQ (map clip0 a1) / n in
  (if Qc_eqb I 0 then a1 else map (fun x => x / I) a1, I).

(* the quantity the property speaks about: weighted mean of the positive parts *)
Definition mean_pos (w a : list Qc) : Qc := dotQ (map clip0 a) w / sumQ w.

(* GlobalTrapezoidalGrid.compute_weights (basis not modified), inner points only *)
Fixpoint trap_interior (xs : list Qc) : list Qc :=
  match xs with
  | [] => []
  | a :: r => match r with
              | p :: c :: _ => (Qchalf * (p - a) + Qchalf * (c - p)) :: trap_interior r
              | _ => []
              end
  end.
Definition tensor_weights (stripes : list (list Qc)) : list Qc := map prodQ (cross (map trap_interior stripes)).

(* mass-lumped solves *)
Definition solve_lumped_nonuniform (R b : list Qc) : list Qc := map2 (fun bi ri => bi / ri) b R.
Definition solve_lumped_uniform (lv : list Z) (b : list Qc) : list Qc :=
  let scale := 1 / diag_val lv in map (fun bi => bi * scale) b.     (* lambda is not used on this path *)

(* interpolant of one component grid at a point *)
Definition interp (pts : list (list hatdom)) (alphas : list Qc) (x : list Qc) : Qc :=
  dotQ (map (fun t => hat_nd hat_cv t x) pts) alphas.
Definition interp_uniform (lv : list Z) (alphas : list Qc) (x : list Qc) : Qc :=
  dotQ (map (fun iv => hat_u_nd hat_u lv iv x) (index_list lv)) alphas.

(* ------------------------------------------------------------------ specification side: hats as polynomials *)
(* left branch (x - lo)/(p - lo) and right branch (hi - x)/(hi - p) of the hat, as coefficient lists c0 + c1 x *)
Definition hat_left_poly (t : hatdom) : list Qc := [ - h_lo t / (h_p t - h_lo t) ; 1 / (h_p t - h_lo t) ].
Definition hat_right_poly (t : hatdom) : list Qc := [ h_hi t / (h_hi t - h_p t) ; - (1 / (h_hi t - h_p t)) ].
