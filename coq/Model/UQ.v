(* C15 — model of the weighted UQ quadrature of sparseSpACE
     GlobalTrapezoidalGridWeighted.compute_weights / get_middle_weighted      (Grid.py:1103-1186)
     UncertaintyQuantification.moments_to_expectation_variance                 (GridOperation.py:3700-3710)
   The distribution enters only through its moments per interval (zeroth: cdf(x2)-cdf(x1), first: int x pdf(x) dx), which are
   INPUTS of the model (they come from chaospy / scipy in the implementation); the uniform distribution is also modelled in
   closed form. Grid points may be infinite (normal distribution on (-inf, inf)). Definitions only. *)
From Coq Require Import ZArith List QArith Qcanon Bool Arith.
From SG Require Import Base.QcUtil Model.Trap.
Import ListNotations.
Open Scope Qc_scope.

Inductive ext : Type := NegInf | Fin (q : Qc) | PosInf.

Definition ext_isinf (e : ext) : bool := match e with Fin _ => false | _ => true end.
Definition ext_val (e : ext) : Qc := match e with Fin q => q | _ => 0 end.
Definition ext_ltb (x y : ext) : bool :=
  match x, y with
  | NegInf, NegInf => false | NegInf, _ => true
  | Fin _, NegInf => false | Fin p, Fin q => Qc_ltb p q | Fin _, PosInf => true
  | PosInf, _ => false
  end.
Definition ext_lt (x y : ext) : Prop := ext_ltb x y = true.

(* one interval [x1,x2] of the grid with the moments the distribution object returned for it *)
Record ival := { i_x1 : ext; i_x2 : ext; i_m0 : Qc; i_m1 : Qc }.

(* method of undetermined coefficients: w1 + w2 = moment_0, w1 x1 + w2 x2 = moment_1 (Grid.py:1147-1158) *)
Definition w2_of (iv : ival) : Qc :=
  if ext_isinf (i_x1 iv) then i_m0 iv
  else if ext_isinf (i_x2 iv) then 0
  else (i_m1 iv - i_m0 iv * ext_val (i_x1 iv)) / (ext_val (i_x2 iv) - ext_val (i_x1 iv)).
Definition w1_of (iv : ival) : Qc := i_m0 iv - w2_of iv.

(* composite weights: weights[i] += w1, weights[i+1] += w2 over all intervals *)
Fixpoint accum (carry : Qc) (ivs : list ival) : list Qc :=
  match ivs with
  | [] => [carry]
  | iv :: r => (carry + w1_of iv) :: accum (w2_of iv) r
  end.

(* negative clipping with its assert (Grid.py:1166-1170); 10 ** -5 *)
Definition clip_tol : Qc := Q2Qc (1 # 100000).
Definition clip (w : Qc) : option Qc :=
  if Qc_leb 0 w then Some w else if Qc_ltb (- w) clip_tol then Some 0 else None.

Fixpoint opt_list {A} (l : list (option A)) : option (list A) :=
  match l with
  | [] => Some []
  | Some a :: r => match opt_list r with Some r' => Some (a :: r') | None => None end
  | None :: _ => None
  end.

(* weights[0] = weights[-1] = 0; weights[1:-1] *= 1/sum(weights[1:-1])   (n >= 2) *)
Definition renormalise (w : list Qc) : option (list Qc) :=
  let s := sumQ (strip w) in
  if Qc_eqb s 0 then None      (* division by zero: inf/nan weights in Python *)
  else Some (0 :: map (fun v => (1 / s) * v) (strip w) ++ [0]).

(* compute_weights for the unmodified basis. n = number of points = length ivs + 1 (n >= 2 here) *)
Definition wtrap_general (boundary : bool) (ivs : list ival) : option (list Qc) :=
  match opt_list (map clip (accum 0 ivs)) with
  | None => None
  | Some w => if boundary then Some w else renormalise w
  end.

(* the modified-basis branch: uniform distribution only; isclose(sum(weights), 1.0) with rel_tol 1e-9 *)
Definition isclose_one (s : Qc) : bool :=
  Qc_leb (Qc_abs (s - 1)) (Q2Qc (1 # 1000000000) * Qc_max (Qc_abs s) 1).
Definition wtrap_modified (x : list Qc) (a b : Qc) : option (list Qc) :=
  match compute_weights x a b true with
  | None => None
  | Some w => let w' := map (fun t => t / (b - a)) w in if isclose_one (sumQ w') then Some w' else None
  end.

(* the grid points behind a list of consecutive intervals *)
Definition pts_of (ivs : list ival) : list Qc :=
  match ivs with [] => [] | iv :: _ => ext_val (i_x1 iv) :: map (fun j => ext_val (i_x2 j)) ivs end.

(* GlobalTrapezoidalGridWeighted.compute_weights (Grid.py:1130-1182); None = raises (assert) or produces inf/nan *)
Definition wtrap (boundary mb : bool) (a b : Qc) (ivs : list ival) : option (list Qc) :=
  let n := S (length ivs) in
  if (n =? 1)%nat then Some [1]
  else if negb boundary && (n =? 3)%nat then Some [0; 1; 0]
  else if negb (boundary || (3 <? n)%nat) then None            (* assert boundary or num_points > 3 *)
  else if mb then wtrap_modified (pts_of ivs) a b
  else wtrap_general boundary ivs.

(* ------------------------------------------------------------------------------------------------
   the uniform distribution on [a,b] in closed form: moments of an interval *)
Definition uni_m0 (a b x1 x2 : Qc) : Qc := (x2 - x1) / (b - a).
Definition uni_m1 (a b x1 x2 : Qc) : Qc := (x2 * x2 - x1 * x1) * Qchalf / (b - a).
Fixpoint uni_ivals (a b : Qc) (x : list Qc) : list ival :=
  match x with
  | x1 :: ((x2 :: _) as t) => {| i_x1 := Fin x1; i_x2 := Fin x2; i_m0 := uni_m0 a b x1 x2; i_m1 := uni_m1 a b x1 x2 |} :: uni_ivals a b t
  | _ => []
  end.

(* the triangle distribution on [a,b] with mode c in closed form (piecewise quadratic cdf, piecewise cubic first moment) *)
Definition tri_cdf (a c b x : Qc) : Qc :=
  if Qc_leb x a then 0 else if Qc_leb b x then 1
  else if Qc_leb x c then (x - a) * (x - a) / ((b - a) * (c - a))
  else 1 - (b - x) * (b - x) / ((b - a) * (b - c)).
(* antiderivative of x * pdf(x), continuous, 0 at a *)
Definition tri_G (a c b x : Qc) : Qc :=
  let two := Qc2 in let three := Q2Qc (3 # 1) in
  let left t := two / ((b - a) * (c - a)) * (t * t * t / three - a * t * t / two - (a * a * a / three - a * a * a / two)) in
  let right t := two / ((b - a) * (b - c)) * ((b * t * t / two - t * t * t / three) - (b * c * c / two - c * c * c / three)) in
  if Qc_leb x a then 0
  else if Qc_leb x c then left x
  else if Qc_leb x b then left c + right x
  else left c + right b.
Fixpoint tri_ivals (a c b : Qc) (x : list Qc) : list ival :=
  match x with
  | x1 :: ((x2 :: _) as t) =>
    {| i_x1 := Fin x1; i_x2 := Fin x2; i_m0 := tri_cdf a c b x2 - tri_cdf a c b x1; i_m1 := tri_G a c b x2 - tri_G a c b x1 |}
    :: tri_ivals a c b t
  | _ => []
  end.

(* ------------------------------------------------------------------------------------------------
   get_middle_weighted(a, b, cdf, ppf): `mid0` is the value ppf(0.5*(cdf(a)+cdf(b))) returned by the distribution.
   Float semantics of the fallbacks: 0.5*(a+b) is NaN for (-inf)+(+inf) (None below; comparisons with NaN are false),
   +-inf when exactly one bound is infinite. 10 ** -14. *)
Definition eps14 : Qc := Q2Qc (1 # 100000000000000).
Definition half_sum (a b : ext) : option ext :=
  match a, b with
  | Fin p, Fin q => Some (Fin (Qchalf * (p + q)))
  | NegInf, PosInf | PosInf, NegInf => None
  | NegInf, _ | _, NegInf => Some NegInf
  | PosInf, _ | _, PosInf => Some PosInf
  end.
Definition ext_add_fin (e : ext) (d : Qc) : ext := match e with Fin q => Fin (q + d) | _ => e end.
Definition inside (a m b : ext) : bool := ext_ltb a m && ext_ltb m b.

Definition mid_fallback2 (a b : ext) (m : option ext) : option ext :=
  if ext_isinf a then Some (ext_add_fin b (- eps14))
  else if ext_isinf b then Some (ext_add_fin a eps14)
  else m.
(* None = NaN *)
Definition get_middle_weighted (a b mid0 : ext) : option ext :=
  if inside a mid0 b then Some mid0
  else
    let m := half_sum a b in
    match m with
    | Some m' => if inside a m' b then Some m' else mid_fallback2 a b m
    | None => mid_fallback2 a b m
    end.

(* ------------------------------------------------------------------------------------------------
   moments_to_expectation_variance *)
Fixpoint variances (mom1 mom2 : list Qc) : list Qc :=
  match mom1, mom2 with
  | ex :: r1, m2 :: r2 => let v := m2 - ex * ex in (if Qc_ltb v 0 then - v else v) :: variances r1 r2
  | _, _ => []
  end.
Definition moments_to_expectation_variance (mom1 mom2 : list Qc) : list Qc * list Qc := (mom1, variances mom1 mom2).

(* calculate_expectation_and_variance: the combined integral holds [moments 1 | moments 2] *)
Definition expectation_and_variance (integral : list Qc) : list Qc * list Qc :=
  let k := (length integral / 2)%nat in
  moments_to_expectation_variance (firstn k integral) (skipn k integral).

(* a quadrature rule (nodes are abstract: only the values matter) applied to model values f_i: first and second moment *)
Definition rule_mom1 (w f : list Qc) : Qc := dotQ w f.
Definition rule_mom2 (w f : list Qc) : Qc := dotQ w (map (fun t => t * t) f).
Definition variance_of (w f : list Qc) : Qc :=
  let v := rule_mom2 w f - rule_mom1 w f * rule_mom1 w f in if Qc_ltb v 0 then - v else v.
