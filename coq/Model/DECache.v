(* Model of the matrix-entry cache of DensityEstimation (reuse_old_values=True): GridOperation.py
   get_domain_overlap_width (the cache key) and the cached branch of build_R_matrix_dimension_wise.
   DEFINITIONS ONLY.  The cache self.old_R is never cleared: it lives across component grids and refinement steps,
   so a history is a list of grids processed with one cache. *)
From Coq Require Import ZArith List QArith Qcanon Bool.
From SG Require Import Base.QcUtil Model.Gram.
Import ListNotations.
Open Scope Qc_scope.

(* list.sort() on floats: insertion sort *)
Fixpoint insertQ (x : Qc) (l : list Qc) : list Qc :=
  match l with
  | [] => [x]
  | y :: r => if Qc_leb x y then x :: l else y :: insertQ x r
  end.
Fixpoint sortQ (l : list Qc) : list Qc := match l with [] => [] | x :: r => insertQ x (sortQ r) end.

(* per dimension: width of the overlap of the two supports, distance of the two nodes *)
Definition width1 (ti tj : hatdom) : Qc := Qc_abs (Qc_min (h_hi ti) (h_hi tj) - Qc_max (h_lo ti) (h_lo tj)).
Definition dist1 (ti tj : hatdom) : Qc := Qc_abs (h_p ti - h_p tj).

Definition key := (list Qc * list Qc)%type.

(* get_domain_overlap_width *)
Definition overlap_key (ti tj : list hatdom) : key :=
  if forallb2 in_dom ti tj
  then (sortQ (map2 width1 ti tj), sortQ (map2 dist1 ti tj))
  else (map (fun _ => 0) ti, map (fun _ => 0) ti).

Fixpoint list_eqb (a b : list Qc) : bool :=
  match a, b with
  | [], [] => true
  | x :: a', y :: b' => Qc_eqb x y && list_eqb a' b'
  | _, _ => false
  end.
Definition key_eqb (k1 k2 : key) : bool := list_eqb (fst k1) (fst k2) && list_eqb (snd k1) (snd k2).

Definition cache := list (key * Qc).
Fixpoint lookup (k : key) (c : cache) : option Qc :=
  match c with
  | [] => None
  | (k', v) :: r => if key_eqb k k' then Some v else lookup k r
  end.

(* if str(overlap) in self.old_R: res = self.old_R[...] else: res = calculate...; self.old_R[...] = res *)
Definition entry_cached (c : cache) (ti tj : list hatdom) : Qc * cache :=
  let k := overlap_key ti tj in
  match lookup k c with
  | Some v => (v, c)
  | None => let v := Rval ti tj in (v, (k, v) :: c)
  end.

Fixpoint row_cached (c : cache) (t : list hatdom) (ts : list (list hatdom)) : list Qc * cache :=
  match ts with
  | [] => ([], c)
  | u :: r => let '(v, c1) := entry_cached c t u in
              let '(vs, c2) := row_cached c1 t r in (v :: vs, c2)
  end.

(* the double loop  for i: for j >= i  with the cache threaded through, same shape as Gram.sym_matrix *)
Fixpoint sym_matrix_cached (c : cache) (lam : Qc) (pts : list (list hatdom)) : list (list Qc) * cache :=
  match pts with
  | [] => ([], c)
  | t :: ts =>
      let '(d, c1) := entry_cached c t t in
      let '(r, c2) := row_cached c1 t ts in
      let '(G, c3) := sym_matrix_cached c2 lam ts in
      ((d + lam :: r) :: map2 cons r G, c3)
  end.

(* a refinement history: the grids (as stripes) whose matrices are built one after the other with one cache *)
Fixpoint history_cached (c : cache) (lam : Qc) (grids : list (list (list Qc))) : list (list (list Qc)) * cache :=
  match grids with
  | [] => ([], c)
  | g :: r => let '(G, c1) := sym_matrix_cached c lam (grid_hats g) in
              let '(Gs, c2) := history_cached c1 lam r in (G :: Gs, c2)
  end.
Definition history_plain (lam : Qc) (grids : list (list (list Qc))) : list (list (list Qc)) :=
  map (fun g => R_matrix_nonuniform (grid_hats g) lam) grids.
