(* C04: model of the integral bookkeeping of the cell strategy (sparseSpACE/spatiallyAdaptiveCell.py SpatiallyAdaptiveCellScheme,
   RefinementObject.py RefinementObjectCell, GridOperation.py Integration.compute_subcell_with_interpolation) - definitions only.
   State: cell_dict (every cell ever created: box, level vector, active flag) and the container (the cells that are evaluated), in
   creation order.  A history is a list of rounds, each the list of container positions that do_refinement refines (which objects
   reach the benefit threshold is an INPUT read off the implementation; the theorems hold for every choice).
   Not modelled: benefits / error estimator, children lists (used only by get_cells_to_point), plotting. *)
From Coq Require Import ZArith List Bool QArith Qcanon.
From SG Require Import Base.QcUtil Model.CombiScheme Model.ExtendSplit Model.ESExact.
Import ListNotations.
Open Scope Z_scope.

Record cell := mkCell { c_s : list Qc; c_e : list Qc; c_lv : list Z; c_active : bool }.
Definition ckey (c : cell) : box := (c_s c, c_e c).

Definition find_cell (k : box) (dict : list cell) : option cell := find (fun c => box_eqb (ckey c) k) dict.

Definition qc_pow2 (l : Z) : Qc := qc_of_Z (2 ^ l).

(* `index_of_start % 2 == 1` for a float: true exactly for odd integers (Python's % takes the sign of the divisor) *)
Definition is_odd_int (x : Qc) : bool := (Qden (this x) =? 1)%positive && Z.odd (Qnum (this x)).

(* RefinementObjectCell.parent_cell_arbitrary_dim(d, levelvec, start, end, a, b, lmin) *)
Definition parent_key (a b : list Qc) (lmin : Z) (d : nat) (lv : list Z) (k : box) : option box :=
  let l := nth d lv 0 in
  if l <=? lmin then None
  else
    let w := ((nth d b 0 - nth d a 0) / qc_pow2 (l - 1))%Qc in
    if is_odd_int (nth d (fst k) 0 * qc_pow2 l)%Qc
    then Some (set_nth d (nth d (snd k) 0 - w)%Qc (fst k), snd k)
    else Some (fst k, set_nth d (nth d (fst k) 0 + w)%Qc (snd k)).

Fixpoint bump_lv (d : nat) (delta : Z) (lv : list Z) : list Z :=
  match lv, d with
  | [], _ => []
  | x :: r, O => (x + delta) :: r
  | x :: r, S d' => x :: bump_lv d' delta r
  end.

(* children_cell_arbitrary_dim: [upper half; lower half] *)
Definition children_keys (d : nat) (k : box) : list box :=
  let sp := (Qchalf * (nth d (snd k) 0 - nth d (fst k) 0))%Qc in
  [ (set_nth d (nth d (fst k) 0 + sp)%Qc (fst k), snd k); (fst k, set_nth d (nth d (snd k) 0 - sp)%Qc (snd k)) ].

Definition get_parents (a b : list Qc) (lmin : Z) (dim : nat) (lv : list Z) (k : box) : list box :=
  flat_map (fun d => match parent_key a b lmin d lv k with Some p => [p] | None => [] end) (seq 0 dim).

Record cstate := mkCS {
  cs_dim : nat; cs_lmin : Z; cs_a : list Qc; cs_b : list Qc;
  cs_dict : list cell;          (* cell_dict, creation order *)
  cs_objs : list box            (* keys of the container's objects, container order *)
}.

Definition set_inactive (k : box) (dict : list cell) : list cell :=
  map (fun c => if box_eqb (ckey c) k then mkCell (c_s c) (c_e c) (c_lv c) false else c) dict.

(* RefinementObjectCell.refine: the candidates of all dimensions, created one after the other *)
Definition try_create (a b : list Qc) (lmin : Z) (dim : nat) (lvc : list Z) (acc : list cell * list box) (cand : box)
  : list cell * list box :=
  let '(dict, news) := acc in
  match find_cell cand dict with
  | Some _ => acc
  | None =>
    if forallb (fun p => match find_cell p dict with Some pc => negb (c_active pc) | None => false end)
               (get_parents a b lmin dim lvc cand)
    then (dict ++ [mkCell (fst cand) (snd cand) lvc true], news ++ [cand])
    else acc
  end.

Definition refine_cell (st : cstate) (k : box) : cstate :=
  match find_cell k (cs_dict st) with
  | Some c =>
    if c_active c then
      let dict0 := set_inactive k (cs_dict st) in
      let '(dict1, news) :=
        fold_left (fun acc d => fold_left (try_create (cs_a st) (cs_b st) (cs_lmin st) (cs_dim st) (bump_lv d 1 (c_lv c))) (children_keys d k) acc)
                  (seq 0 (cs_dim st)) (dict0, []) in
      mkCS (cs_dim st) (cs_lmin st) (cs_a st) (cs_b st) dict1 (cs_objs st ++ news)
    else st
  | None => st
  end.

(* one refine round: the container positions that are refined (do_refinement only acts on active cells) *)
Definition refine_round (st : cstate) (positions : list nat) : cstate :=
  fold_left (fun s i => match nth_error (cs_objs s) i with Some k => refine_cell s k | None => s end) positions st.

(* initialize_refinement: root cell of level 0, split lmin times in every dimension *)
Definition split_cell (d : nat) (acc : list cell * list (box * list Z)) (klv : box * list Z) : list cell * list (box * list Z) :=
  let '(dict, out) := acc in
  let lv := bump_lv d 1 (snd klv) in
  fold_left (fun (acc2 : list cell * list (box * list Z)) ch =>
               let '(dict2, out2) := acc2 in
               match find_cell ch dict2 with
               | Some _ => acc2
               | None => (dict2 ++ [mkCell (fst ch) (snd ch) lv true], out2 ++ [(ch, lv)])
               end) (children_keys d (fst klv)) (dict, out).

Definition split_all_cells (d : nat) (acc : list cell * list (box * list Z)) : list cell * list (box * list Z) :=
  fold_left (split_cell d) (snd acc) (fst acc, []).

Fixpoint iter {A} (n : nat) (f : A -> A) (x : A) : A := match n with O => x | S m => iter m f (f x) end.

Definition cell_init (dim : nat) (lmin : Z) (a b : list Qc) : cstate :=
  let root := mkCell a b (repeat 0 dim) true in
  let '(dict, objs) :=
    fold_left (fun acc d => iter (Z.to_nat lmin) (split_all_cells d) acc) (seq 0 dim) ([root], [((a, b), repeat 0 dim)]) in
  mkCS dim lmin a b dict (map fst objs).

Definition cell_run (st : cstate) (rounds : list (list nat)) : cstate := fold_left refine_round rounds st.

(* ---------------------------------------------------------------------------------------------------------- *)
(* the integral: evaluate_operation_area + compute_subcell_with_interpolation *)
(* multilinear interpolation of f from the corners of the box (s,e) (scipy interpn, method linear, on the 2^d corner values) *)
Fixpoint interp_box (s e : list Qc) (f : list Qc -> Qc) (x : list Qc) : Qc :=
  match s, e, x with
  | s0 :: s', e0 :: e', x0 :: x' =>
    let t := ((x0 - s0) / (e0 - s0))%Qc in
    ((1 - t) * interp_box s' e' (fun r => f (s0 :: r)) x' + t * interp_box s' e' (fun r => f (e0 :: r)) x')%Qc
  | _, _, _ => f []
  end.

(* sum of the 2^d corner values of g on the box *)
Fixpoint corner_sum (s e : list Qc) (g : list Qc -> Qc) : Qc :=
  match s, e with
  | s0 :: s', e0 :: e' => (corner_sum s' e' (fun r => g (s0 :: r)) + corner_sum s' e' (fun r => g (e0 :: r)))%Qc
  | _, _ => g []
  end.

Fixpoint box_volume (s e : list Qc) : Qc :=
  match s, e with s0 :: s', e0 :: e' => ((e0 - s0) * box_volume s' e')%Qc | _, _ => 1%Qc end.

Fixpoint half_pow (n : nat) : Qc := match n with O => 1%Qc | S m => (Qchalf * half_pow m)%Qc end.

(* integral of the interpolant of `cell` over `sub`: factor = 0.5^dim * width, sum over the corners of sub *)
Definition subcell_integral (dim : nat) (cellk sub : box) (f : list Qc -> Qc) : Qc :=
  (half_pow dim * box_volume (fst sub) (snd sub) * corner_sum (fst sub) (snd sub) (interp_box (fst cellk) (snd cellk) f))%Qc.

(* relevant_parents_of_cell: the loop over the dimensions *)
Definition parents_step (a b : list Qc) (lmin : Z) (acc : list (box * list Z * Z)) (d : nat) : list (box * list Z * Z) :=
  acc ++ flat_map (fun e : box * list Z * Z =>
                     match parent_key a b lmin d (snd (fst e)) (fst (fst e)) with
                     | Some p => [(p, bump_lv d (-1) (snd (fst e)), - snd e)]
                     | None => []
                     end) acc.

Definition relevant_parents (a b : list Qc) (lmin : Z) (dim : nat) (k : box) (lv : list Z) : list (box * list Z * Z) :=
  fold_left (parents_step a b lmin) (seq 0 dim) [(k, lv, 1)].

Fixpoint sum_optQ (l : list (option Qc)) : option Qc :=
  match l with
  | [] => Some 0%Qc
  | Some x :: r => match sum_optQ r with Some y => Some (x + y)%Qc | None => None end
  | None :: _ => None
  end.

(* the contribution of one container cell; None = KeyError (a relevant parent is not in cell_dict) *)
Definition cell_contribution (st : cstate) (f : list Qc -> Qc) (k : box) : option Qc :=
  match find_cell k (cs_dict st) with
  | None => None
  | Some c =>
    sum_optQ (map (fun e : box * list Z * Z =>
                     match find_cell (fst (fst e)) (cs_dict st) with
                     | Some p => Some (qc_of_Z (snd e) * subcell_integral (cs_dim st) (ckey p) k f)%Qc
                     | None => None
                     end)
                  (relevant_parents (cs_a st) (cs_b st) (cs_lmin st) (cs_dim st) k (c_lv c)))
  end.

Definition cell_integral (st : cstate) (f : list Qc -> Qc) : option Qc :=
  sum_optQ (map (cell_contribution st f) (cs_objs st)).

(* test functions: monomials x^exps *)
Fixpoint qpow (x : Qc) (n : nat) : Qc := match n with O => 1%Qc | S m => (x * qpow x m)%Qc end.
Fixpoint monomial (exps : list nat) (x : list Qc) : Qc :=
  match exps, x with
  | k :: exps', x0 :: x' => (qpow x0 k * monomial exps' x')%Qc
  | _, _ => 1%Qc
  end.

(* ---------------------------------------------------------------------------------------------------------- *)
(* verified checker for the INITIAL state (Proofs/CellExactB.v, cstate_okb_sound): all cells of cell_dict are non-degenerate boxes of the
   right dimension, the container cells carry level vectors >= lmin of the right length, and the moments of the container cells
   without hierarchical parents add up to the moment of the domain for every multilinear monomial *)
Definition is_base (lmin : Z) (dim : nat) (lv : list Z) : bool := forallb (fun d => nth d lv 0 <=? lmin) (seq 0 dim).

Definition base_mom (lmin : Z) (dim : nat) (ex : list nat) (dict : list cell) (k : box) : Qc :=
  match find_cell k dict with Some c => if is_base lmin dim (c_lv c) then bmom (fst k) (snd k) ex else 0%Qc | None => 0%Qc end.

Fixpoint wfboxb (s e : list Qc) : bool :=
  match s, e with
  | [], [] => true
  | x :: s', y :: e' => Qc_ltb x y && wfboxb s' e'
  | _, _ => false
  end.

Definition cstate_okb (st : cstate) : bool :=
  forallb (fun c => wfboxb (c_s c) (c_e c) && Nat.eqb (length (c_s c)) (cs_dim st)) (cs_dict st) &&
  forallb (fun k => match find_cell k (cs_dict st) with
                    | Some c => forallb (fun l => cs_lmin st <=? l) (c_lv c) && Nat.eqb (length (c_lv c)) (cs_dim st)
                    | None => false end) (cs_objs st) &&
  forallb (fun ex => Qc_eqb (sumQ (map (base_mom (cs_lmin st) (cs_dim st) ex (cs_dict st)) (cs_objs st))) (bmom (cs_a st) (cs_b st) ex))
          (multilinear_exps (cs_dim st)).

Definition cell_init_okb (dim : nat) (lmin : Z) (a b : list Qc) : bool := cstate_okb (cell_init dim lmin a b).
