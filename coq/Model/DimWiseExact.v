(* C04, dimension-wise strategy: exact (Qc) combined integral of tensor-product functions on a DimWise model state, and the
   verified checker "all hierarchical hat functions of the initial sparse-grid space are still integrated exactly".
   Integration.calculate_operation_dimension_wise -> grid.set_grid(stripes) -> GlobalTrapezoidalGrid.compute_weights per
   dimension (Model/Trap.v, C09) -> tensor product of the 1D rules (end points stripped when boundary=False); the combined
   integral is the coefficient-weighted sum over the component grids. Definitions only. *)
From Coq Require Import ZArith List Bool QArith Qcanon.
From SG Require Import Base.QcUtil Model.CombiScheme Model.RefTree.
From SG Require Model.StdCombi Model.Trap.
From SG Require Import Model.DimWise Model.DimWiseInterp.
Import ListNotations.
Open Scope Z_scope.

(* 1D rule on the stripe x of dimension d: weights . values; None = compute_weights raises *)
Definition dw_quad1 (bd mb : bool) (a b : Qc) (x : list Qc) (g : Qc -> Qc) : option Qc :=
  match Trap.compute_weights x a b mb with
  | Some w => Some (if bd then dotQ w (map g x) else dotQ (Trap.strip w) (map g (Trap.strip x)))
  | None => None
  end.

Fixpoint prod_opt (l : list (option Qc)) : option Qc :=
  match l with
  | [] => Some 1%Qc
  | Some x :: r => match prod_opt r with Some y => Some (x * y)%Qc | None => None end
  | None :: _ => None
  end.

Fixpoint zip4 (a b : list Qc) (l : lv) (gs : list (Qc -> Qc)) : list (Qc * Qc * Z * (Qc -> Qc)) :=
  match a, b, l, gs with
  | a0 :: a', b0 :: b', l0 :: l', g0 :: g' => (a0, b0, l0, g0) :: zip4 a' b' l' g'
  | _, _, _, _ => []
  end.

(* component integral of the product function prod_d g_d(x_d) *)
Definition dw_comp_integral (o : dw_opts) (mb : bool) (st : dw_state) (a b : list Qc) (lv : lv) (gs : list (Qc -> Qc))
  : option Qc :=
  prod_opt (map (fun dq => match dq with (d, (a0, b0, l0, g0)) =>
                             dw_quad1 (o_boundary o) mb a0 b0 (dw_stripe_coords o st d l0) g0 end)
                (combine (seq 0 (length lv)) (zip4 a b lv gs))).

Fixpoint sum_opt (l : list (option Qc)) : option Qc :=
  match l with
  | [] => Some 0%Qc
  | Some x :: r => match sum_opt r with Some y => Some (x + y)%Qc | None => None end
  | None :: _ => None
  end.

Definition dw_combi_integral (o : dw_opts) (mb : bool) (st : dw_state) (a b : list Qc) (gs : list (Qc -> Qc)) : option Qc :=
  sum_opt (map (fun kv => match dw_comp_integral o mb st a b (fst kv) gs with
                          | Some v => Some (qc_of_Z (snd kv) * v)%Qc | None => None end)
               (combi_scheme_adaptive (st_scheme st))).

(* ---------------------------------------------------------------------------------------------------------- *)
(* hierarchical hat functions: level j >= 1 with odd index i (centre a + i h_j, half width h_j = (b-a)/2^j);
   level 0 with index 0 / 1 = the two boundary functions (only with boundary points) *)
Fixpoint hat_list (a b : list Qc) (j i : lv) : list (Qc -> Qc) :=
  match a, b, j, i with
  | a0 :: a', b0 :: b', j0 :: j', i0 :: i' => StdCombi.hat1 a0 b0 j0 i0 :: hat_list a' b' j' i'
  | _, _, _, _ => []
  end.

Definition step_w (a b : Qc) (l : Z) : Qc := ((b - a) / qc_of_Z (2 ^ l))%Qc.
(* exact integral over [a,b]: h for an interior hat, h/2 for the two boundary hats *)
Definition hat1_exact (a b : Qc) (j i : Z) : Qc :=
  if (i =? 0) || (i =? 2 ^ j) then (step_w a b j * Qchalf)%Qc else step_w a b j.
Fixpoint hat_exact (a b : list Qc) (j i : lv) : Qc :=
  match a, b, j, i with
  | a0 :: a', b0 :: b', j0 :: j', i0 :: i' => (hat1_exact a0 b0 j0 i0 * hat_exact a' b' j' i')%Qc
  | _, _, _, _ => 1%Qc
  end.

(* the hierarchical basis of the initial (lmin,lmax) sparse-grid space: level vectors j with
   sum_d max(j_d, lmin) <= lmax + (dim-1) lmin, levels from 0 (boundary on) or 1 *)
Definition odd_indices (j : Z) : list Z :=
  if j =? 0 then [0; 1] else map (fun k => 2 * Z.of_nat k + 1) (seq 0 (Z.to_nat (2 ^ (j - 1)))).

Definition initial_levels (dim : nat) (lmin lmax : Z) (bd : bool) : list lv :=
  filter (fun j => sumZ (map (Z.max lmin) j) <=? lmax + (Z.of_nat dim - 1) * lmin)
         (cross (repeat (map (fun k => (if bd then 0 else 1) + Z.of_nat k)
                             (seq 0 (Z.to_nat (lmax + (if bd then 1 else 0))))) dim)).

Definition initial_hats (dim : nat) (lmin lmax : Z) (bd : bool) : list (lv * lv) :=
  flat_map (fun j => map (fun i => (j, i)) (cross (map odd_indices j))) (initial_levels dim lmin lmax bd).

(* the checker: one hat / all hats of the initial space *)
Definition dw_keeps_hat (o : dw_opts) (st : dw_state) (a b : list Qc) (ji : lv * lv) : bool :=
  match dw_combi_integral o false st a b (hat_list a b (fst ji) (snd ji)) with
  | Some v => Qc_eqb v (hat_exact a b (fst ji) (snd ji))
  | None => false
  end.

Definition dw_keeps_initial_space (o : dw_opts) (st : dw_state) (a b : list Qc) (lmin lmax : Z) : bool :=
  forallb (dw_keeps_hat o st a b) (initial_hats (st_dim st) lmin lmax (o_boundary o)).

(* ---------------------------------------------------------------------------------------------------------- *)
(* executable form of the hypotheses of the positive theorem (Proofs/DimWiseExactProofs.v, hat_ok): per dimension the box is
   non-degenerate, the index is admissible, the stripe at level tau_d is non-empty and contains the kinks of the hat
   (or they lie outside (a,b)) *)
Definition gpoint_q (a b : Qc) (l i : Z) : Qc := (a + qc_of_Z i * ((b - a) / qc_of_Z (2 ^ l)))%Qc.

Fixpoint hat_okb (o : dw_opts) (st : dw_state) (a b : list Qc) (lmin : Z) (d0 : nat) (j i tau : lv) : bool :=
  match j, i, tau with
  | [], [], [] => true
  | j0 :: j', i0 :: i', t0 :: tau' =>
    let a0 := nth d0 a 0%Qc in
    let b0 := nth d0 b 0%Qc in
    let pts := dw_stripe_coords o st d0 t0 in
    let c := gpoint_q a0 b0 j0 i0 in
    let H := step_w a0 b0 j0 in
    match nth_error (st_trees st) d0 with Some _ => true | None => false end
    && Qc_ltb a0 b0 && (0 <=? j0) && (0 <=? i0) && (i0 <=? 2 ^ j0)
    && (o_boundary o || ((1 <=? i0) && (i0 <=? 2 ^ j0 - 1)))
    && (lmin <=? t0)
    && match pts with [] => false | _ => true end
    && forallb (fun k => existsb (Qc_eqb k) pts || Qc_leb k a0 || Qc_leb b0 k) [(c - H)%Qc; c; (c + H)%Qc]
    && hat_okb o st a b lmin (S d0) j' i' tau'
  | _, _, _ => false
  end.
