(* C09 — model of the global adaptive 1D trapezoidal rule of sparseSpACE/Grid.py
     GlobalTrapezoidalGrid.compute_weights   (Grid.py:1036-1089)
     GlobalGrid.set_grid                      (Grid.py:950-988, one dimension)
     Grid.get_weights / integrate             (tensor product, scalar-product integrator)
   plus the specification objects the theorems speak about (formal integral of the piecewise-linear
   interpolant, of the linearly extrapolated interpolant of the modified basis) and the verified
   checker `moments_ok` used for the high-order / Simpson / hierarchical global rules.
   Definitions only. Python floats -> Qc (exact arithmetic), Python lists -> list Qc, indices -> nat. *)
From Coq Require Import ZArith List QArith Qcanon Bool Arith.
From SG Require Import Base.QcUtil.
Import ListNotations.
Open Scope Qc_scope.

Definition nq (l : list Qc) (i : nat) : Qc := nth i l 0.
Definition sq (x : Qc) : Qc := x * x.

(* ------------------------------------------------------------------------------------------------
   compute_weights, general loop (the `else:` branch, Grid.py:1045-1081).
   X = grid_1D as an index function, n = len(grid_1D), mb = modified_basis.
   wl i  is what the block `if i > 0:` adds to weights[i], wr i what `if i < len(grid_1D) - 1:` adds. *)
Definition wl (mb : bool) (X : nat -> Qc) (n i : nat) : Qc :=
  if (i =? 0)%nat then 0
  else if mb && (i =? 1)%nat then
    let h_b := X (i + 1)%nat - X (i - 1)%nat in
    let h_a := X (i + 1)%nat - X i in
    sq h_b / (Qc2 * h_a)
  else if mb && (i =? 2)%nat then
    let h_b := X i - X (i - 2)%nat in
    let h_a := X i - X (i - 1)%nat in
    h_b - sq h_b / (Qc2 * h_a)
  else if mb && (i =? n - 2)%nat then 0
  else Qchalf * (X i - X (i - 1)%nat).

Definition wr (mb : bool) (X : nat -> Qc) (n i : nat) : Qc :=
  if negb (i <? n - 1)%nat then 0
  else if mb && (i =? n - 2)%nat then
    if (1 <? i)%nat then
      let h_b := X (i + 1)%nat - X (i - 1)%nat in
      let h_a := X i - X (i - 1)%nat in
      sq h_b / (Qc2 * h_a)
    else 0
  else if mb && (i =? n - 3)%nat then
    if (1 <? i)%nat then
      let h_b := X (i + 2)%nat - X i in
      let h_a := X (i + 1)%nat - X i in
      h_b - sq h_b / (Qc2 * h_a)
    else 0
  else if mb && (i =? 1)%nat then 0
  else Qchalf * (X (i + 1)%nat - X i).

(* weights[i] after the loop and after `weights[0] = weights[-1] = 0.0` (modified basis only) *)
Definition w_general (mb : bool) (X : nat -> Qc) (n i : nat) : Qc :=
  if mb && ((i =? 0)%nat || (i =? n - 1)%nat) then 0 else wl mb X n i + wr mb X n i.

Definition weights_general (mb : bool) (x : list Qc) : list Qc :=
  map (w_general mb (nq x) (length x)) (seq 0 (length x)).

(* the two special cases of the modified basis: 3 points, 4 points (these use a and b, not grid_1D[0], grid_1D[-1]) *)
Definition w4_2 (x : list Qc) (a b : Qc) : Qc :=
  (b * b * Qchalf - b * nq x 1 - a * a * Qchalf + a * nq x 1) / (nq x 2 - nq x 1).

Definition weights_raw (mb : bool) (x : list Qc) (a b : Qc) : list Qc :=
  if mb && (length x =? 3)%nat then [0; b - a; 0]
  else if mb && (length x =? 4)%nat then [0; - w4_2 x a b + b - a; w4_2 x a b; 0]
  else weights_general mb x.

(* weights[1:-1] *)
Definition strip {A} (l : list A) : list A := removelast (tl l).

(* 10 ** -12 *)
Definition assert_eps : Qc := Q2Qc (1 # 1000000000000).

(* the self-assert of the modified basis (Grid.py:1086-1088), in exact arithmetic *)
Definition mod_assert_ok (w : list Qc) (a b : Qc) : bool :=
  Qc_leb ((b - a) * (1 - assert_eps)) (sumQ (strip w)) && Qc_leb (sumQ (strip w)) ((b - a) * (1 + assert_eps)).

(* compute_weights: None = the Python raises (IndexError for fewer than 3 points with the modified basis,
   AssertionError of the self-assert). Deviation: the degenerate call (modified basis, one point, a = b) returns [0.0]
   in Python and None here. *)
Definition compute_weights (x : list Qc) (a b : Qc) (mb : bool) : option (list Qc) :=
  if mb && (length x <? 3)%nat then None
  else
    let w := weights_raw mb x a b in
    if mb then (if mod_assert_ok w a b then Some w else None) else Some w.

(* ------------------------------------------------------------------------------------------------
   GlobalGrid.set_grid for one dimension (Grid.py:968-984): sortedness assert (non-strict), weights,
   boundary stripping. The refinement levels are an argument because set_grid receives them; the trapezoidal
   rule ignores them. GlobalTrapezoidalGrid.__init__ asserts  not modified_basis or not boundary. *)
Fixpoint sorted_le (l : list Qc) : bool :=
  match l with
  | x0 :: ((x1 :: _) as t) => Qc_leb x0 x1 && sorted_le t
  | _ => true
  end.

Record grid1d := { g_coords : list Qc; g_weights : list Qc; g_levels : list Z; g_num_points : nat }.

Definition set_grid_1d (boundary mb : bool) (a b : Qc) (x : list Qc) (levels : list Z) : option grid1d :=
  if mb && boundary then None                               (* constructor assert *)
  else if negb (length levels =? length x)%nat then None    (* assert len(grid_levels[d]) == len(grid_points[d]) *)
  else if negb (sorted_le x) then None                      (* assert sorted *)
  else match compute_weights x a b mb with
       | None => None
       | Some w =>
         if boundary then Some {| g_coords := x; g_weights := w; g_levels := levels; g_num_points := length x |}
         else Some {| g_coords := strip x; g_weights := strip w; g_levels := strip levels;
                      g_num_points := length (strip x) |}
       end.

(* ------------------------------------------------------------------------------------------------
   Tensor product rule (Grid.get_weights = products over the cross product; IntegratorArbitraryGridScalarProduct
   = inner product with the function values). f is a product of 1D functions f_d. *)
Definition quad1 (w p : list Qc) (f : Qc -> Qc) : Qc := dotQ w (map f p).

Fixpoint tensor_quad (grids : list (list Qc * list Qc)) (fs : list (Qc -> Qc)) : Qc :=
  match grids, fs with
  | (p, w) :: gr, f :: fr => quad1 w p f * tensor_quad gr fr
  | [], [] => 1
  | _, _ => 0
  end.

(* the general (non-product) form used by the entry point: sum over the cross product of weights times f(point) *)
Fixpoint tensor_quad_gen (grids : list (list Qc * list Qc)) (f : list Qc -> Qc) : Qc :=
  match grids with
  | [] => f []
  | (p, w) :: gr => dotQ w (map (fun t => tensor_quad_gen gr (fun rest => f (t :: rest))) p)
  end.

(* ------------------------------------------------------------------------------------------------
   Specification objects. "Integral" is the formal integral of (piecewise) linear polynomials. *)
(* formal integral over [lo,hi] of  t |-> alpha * t + beta *)
Definition lin_int (alpha beta lo hi : Qc) : Qc := beta * (hi - lo) + alpha * (hi * hi - lo * lo) * Qchalf.
(* slope / intercept of the line through (x0,v0), (x1,v1) *)
Definition slope (x0 v0 x1 v1 : Qc) : Qc := (v1 - v0) / (x1 - x0).
Definition icept (x0 v0 x1 v1 : Qc) : Qc := v0 - slope x0 v0 x1 v1 * x0.
Definition line_eval (x0 v0 x1 v1 t : Qc) : Qc := slope x0 v0 x1 v1 * t + icept x0 v0 x1 v1.
(* formal integral over [lo,hi] of the line through (x0,v0), (x1,v1) *)
Definition line_int (x0 v0 x1 v1 lo hi : Qc) : Qc := lin_int (slope x0 v0 x1 v1) (icept x0 v0 x1 v1) lo hi.

Definition sum_range (f : nat -> Qc) (lo len : nat) : Qc := sumQ (map f (seq lo len)).

(* integral of the piecewise-linear interpolant of the values V on the grid X over [X lo, X (lo+m)] *)
Definition pl_int (X V : nat -> Qc) (lo m : nat) : Qc :=
  sum_range (fun j => line_int (X j) (V j) (X (S j)) (V (S j)) (X j) (X (S j))) lo m.

(* integral over [a,b] of the interpolant of the modified basis on n points x_0=a < ... < x_{n-1}=b with values at the
   inner points only: constant for n = 3; the line through the two inner points for n = 4; for n >= 5 the line through
   (x_1,v_1),(x_2,v_2) extrapolated over [x_0,x_2], piecewise linear on [x_2,x_{n-3}], the line through
   (x_{n-3},v_{n-3}),(x_{n-2},v_{n-2}) extrapolated over [x_{n-3},x_{n-1}]. *)
Definition mod_int (X V : nat -> Qc) (n : nat) (a b : Qc) : Qc :=
  if (n =? 3)%nat then V 1%nat * (b - a)
  else if (n =? 4)%nat then line_int (X 1%nat) (V 1%nat) (X 2%nat) (V 2%nat) a b
  else line_int (X 1%nat) (V 1%nat) (X 2%nat) (V 2%nat) (X 0%nat) (X 2%nat)
       + pl_int X V 2 (n - 5)
       + line_int (X (n - 3)%nat) (V (n - 3)%nat) (X (n - 2)%nat) (V (n - 2)%nat) (X (n - 3)%nat) (X (n - 1)%nat).

Fixpoint strictly_increasing (l : list Qc) : Prop :=
  match l with
  | x0 :: ((x1 :: _) as t) => x0 < x1 /\ strictly_increasing t
  | _ => True
  end.

(* ------------------------------------------------------------------------------------------------
   Verified checker for opaque 1D rules (high order, Simpson; floats returned by the implementation, exact rationals here):
   the rule (pts, wts) reproduces the monomial moments of [a,b] of degree 0..k-1 up to the tolerances tols (one per degree). *)
Fixpoint qpow (x : Qc) (k : nat) : Qc := match k with O => 1 | S k' => x * qpow x k' end.
Definition moment_exact (a b : Qc) (j : nat) : Qc := (qpow b (S j) - qpow a (S j)) / qc_of_Z (Z.of_nat (S j)).
Definition moment_rule (pts wts : list Qc) (j : nat) : Qc := dotQ wts (map (fun t => qpow t j) pts).
Definition moment_residual (pts wts : list Qc) (a b : Qc) (j : nat) : Qc := moment_rule pts wts j - moment_exact a b j.

Fixpoint moments_ok_from (pts wts : list Qc) (a b : Qc) (j : nat) (tols : list Qc) : bool :=
  match tols with
  | [] => true
  | t :: r => Qc_leb (Qc_abs (moment_residual pts wts a b j)) t && moments_ok_from pts wts a b (S j) r
  end.
Definition moments_ok (pts wts : list Qc) (a b : Qc) (tols : list Qc) : bool :=
  (length pts =? length wts)%nat && moments_ok_from pts wts a b 0 tols.

(* polynomials as coefficient lists (c_0 + c_1 t + ...), evaluation, formal integral over [a,b] *)
Fixpoint poly_eval_from (c : list Qc) (j : nat) (t : Qc) : Qc :=
  match c with [] => 0 | c0 :: r => c0 * qpow t j + poly_eval_from r (S j) t end.
Definition poly_eval (c : list Qc) (t : Qc) : Qc := poly_eval_from c 0 t.
Fixpoint poly_int_from (c : list Qc) (j : nat) (a b : Qc) : Qc :=
  match c with [] => 0 | c0 :: r => c0 * moment_exact a b j + poly_int_from r (S j) a b end.
Definition poly_int (c : list Qc) (a b : Qc) : Qc := poly_int_from c 0 a b.
Fixpoint weighted_tol (c tols : list Qc) : Qc :=
  match c, tols with c0 :: cr, t :: tr => Qc_abs c0 * t + weighted_tol cr tr | _, _ => 0 end.

(* all weights non-negative (stability clause) *)
Definition all_nonneg (w : list Qc) : bool := forallb (fun q => Qc_leb 0 q) w.
