(* C12 — model of the evaluation cache of sparseSpACE/Function.py (class Function):
     __init__ / reset_dictionary / __call__ (single and batch path) / eval_vectorized / deactivate_caching /
     get_f_dict_size.
   Definitions only. `eval` (the abstract method Function.eval, normalised to the list of its output components:
   a scalar return value v is the list [v], exactly what `if np.isscalar(f_value): f_value = [f_value]` does) and
   `olen` (output_length()) are Section variables: every theorem holds for EVERY pure evaluation function.

   Python dicts are modelled as association lists in insertion order with replace-on-existing-key semantics;
   keys are tuples of floats, modelled as lists of exact rationals (two tuples are the same key iff all components
   are ==, which is Leibniz equality on Qc; 0.0 and -0.0, 1 and 1.0 are the same key in both worlds).

   The code has two defects on this path (see findings/C12.json). The model carries a `variant`:
     cur   = the code as it is  (single point with caching deactivated -> UnboundLocalError,
                                 empty batch -> IndexError)
     fixed = the code with fixes/C12-call-nocache.patch and fixes/C12-empty-batch.patch applied. *)
From Coq Require Import ZArith List QArith Qcanon Bool Arith.
From SG Require Import Base.QcUtil.
Import ListNotations.

Definition point := list Qc.
Definition value := list Qc.
Definition dict := list (point * value).

(* equality of canonical rationals: numerators and denominators coincide (no cross multiplication: batches of a
   few thousand points are run through the extracted model) *)
Definition Qc_eqb_canon (a b : Qc) : bool :=
  Z.eqb (Qnum (this a)) (Qnum (this b)) && Pos.eqb (Qden (this a)) (Qden (this b)).

Fixpoint point_eqb (a b : point) : bool :=
  match a, b with
  | [], [] => true
  | x :: a', y :: b' => Qc_eqb_canon x y && point_eqb a' b'
  | _, _ => false
  end.

(* dict.get(key, None) *)
Fixpoint lookup (p : point) (d : dict) : option value :=
  match d with
  | [] => None
  | (q, w) :: r => if point_eqb p q then Some w else lookup p r
  end.

(* dict[key] = v : replaces the value of an existing key (position kept), appends a new key *)
Fixpoint insert (p : point) (v : value) (d : dict) : dict :=
  match d with
  | [] => [(p, v)]
  | (q, w) :: r => if point_eqb p q then (q, v) :: r else (q, w) :: insert p v r
  end.

(* dict.update(zip(keys, values)) : left to right, later duplicates overwrite *)
Fixpoint insert_all (kvs : list (point * value)) (d : dict) : dict :=
  match kvs with
  | [] => d
  | (p, v) :: r => insert_all r (insert p v d)
  end.

Fixpoint mem (p : point) (l : list point) : bool :=
  match l with [] => false | q :: r => point_eqb p q || mem p r end.

(* the set of distinct points of a list, in order of first occurrence *)
Definition add_point (p : point) (s : list point) : list point := if mem p s then s else s ++ [p].
Definition add_points (ps : list point) (s : list point) : list point := fold_left (fun s p => add_point p s) ps s.
Definition distinct (ps : list point) : list point := add_points ps [].

Record state := mkSt { fd : dict; ofd : dict; cache : bool }.   (* f_dict, old_f_dict, do_cache *)
Record variant := mkVar { fix_single : bool; fix_empty : bool }.
Definition cur := mkVar false false.
Definition fixed := mkVar true true.

Definition init : state := mkSt [] [] true.                      (* Function.__init__ *)

Inductive err := EUnbound | EIndex | EOutLen.
Inductive op :=
| OSingle (p : point)          (* f(p), p a tuple/list/1-d array of scalars *)
| OBatch (ps : list point)     (* f(ps), ps a sequence of points (possibly empty) *)
| OVec (ps : list point)       (* f.eval_vectorized(array(ps)) called directly *)
| OReset                       (* f.reset_dictionary() *)
| ODeact                       (* f.deactivate_caching() *)
| OSize.                       (* f.get_f_dict_size() *)
Inductive result :=
| RSingle (v : value)          (* 1-d array of shape (olen,) *)
| RBatch (vs : list value)     (* 2-d array of shape (#points, olen) *)
| RVec (vs : list value)       (* values of the vectorised implementation, one row per point *)
| RUnit
| RSize (n : nat)
| RErr (e : err).

Section Cache.
Variable eval : point -> value.
Variable olen : nat.

Definition check_len (v : value) : bool := Nat.eqb (length v) olen.
(* `assert len(f_value) == self.output_length()` followed by `return np.array(f_value)` *)
Definition ret_single (v : value) : result := if check_len v then RSingle v else RErr EOutLen.

(* Function.__call__, branch `np.isscalar(coordinates[0])` *)
Definition call_single (vr : variant) (st : state) (p : point) : state * result :=
  if cache st then
    match lookup p (fd st) with
    | Some v => (st, ret_single v)
    | None =>
      match lookup p (ofd st) with
      | Some v => (mkSt (insert p v (fd st)) (ofd st) (cache st), ret_single v)
      | None => let v := eval p in (mkSt (insert p v (fd st)) (ofd st) (cache st), ret_single v)
      end
    end
  else if fix_single vr then (st, ret_single (eval p))
  else (st, RErr EUnbound).     (* `coords` is only bound inside `if self.do_cache` *)

(* Function.__call__, else branch: always evaluates through eval_vectorized, reshapes to (#points, olen) and
   writes ALL points into f_dict (also when caching is deactivated) *)
Definition call_batch (vr : variant) (st : state) (ps : list point) : state * result :=
  match ps with
  | [] => if fix_empty vr then (st, RBatch []) else (st, RErr EIndex)     (* coordinates[0] of an empty sequence *)
  | _ => let vs := map eval ps in
         if forallb check_len vs
         then (mkSt (insert_all (combine ps vs) (fd st)) (ofd st) (cache st), RBatch vs)
         else (st, RErr EOutLen)
  end.

Definition call_vec (st : state) (ps : list point) : state * result :=
  let vs := map eval ps in if forallb check_len vs then (st, RVec vs) else (st, RErr EOutLen).

Definition step (vr : variant) (st : state) (o : op) : state * result :=
  match o with
  | OSingle p => call_single vr st p
  | OBatch ps => call_batch vr st ps
  | OVec ps => call_vec st ps
  | OReset => (mkSt [] [] (cache st), RUnit)
  | ODeact => (mkSt (fd st) (ofd st) false, RUnit)
  | OSize => (st, RSize (length (fd st)))
  end.

(* the whole history: result of every operation together with the state after it *)
Fixpoint run (vr : variant) (st : state) (ops : list op) : list (result * state) :=
  match ops with
  | [] => []
  | o :: r => let '(st', res) := step vr st o in (res, st') :: run vr st' r
  end.

Definition final (vr : variant) (st : state) (ops : list op) : state :=
  fold_left (fun s o => fst (step vr s o)) ops st.

(* ---------------------------------------------------------------------------------------------
   Specification of the observable behaviour: a function of the operation history alone.
   Abstract state: is caching on, and the set of distinct points counted since the last reset. *)
Fixpoint spec_run (vr : variant) (on : bool) (cnt : list point) (ops : list op) : list result :=
  match ops with
  | [] => []
  | OSingle p :: r =>
      (if on || fix_single vr then RSingle (eval p) else RErr EUnbound)
      :: spec_run vr on (if on then add_point p cnt else cnt) r
  | OBatch ps :: r =>
      (match ps with [] => if fix_empty vr then RBatch [] else RErr EIndex | _ => RBatch (map eval ps) end)
      :: spec_run vr on (add_points ps cnt) r
  | OVec ps :: r => RVec (map eval ps) :: spec_run vr on cnt r
  | OReset :: r => RUnit :: spec_run vr on [] r
  | ODeact :: r => RUnit :: spec_run vr false cnt r
  | OSize :: r => RSize (length cnt) :: spec_run vr on cnt r
  end.

(* what the property demands: every call returns eval of its argument(s), never an error *)
Fixpoint ideal_values (ops : list op) : list (option result) :=
  match ops with
  | [] => []
  | OSingle p :: r => Some (RSingle (eval p)) :: ideal_values r
  | OBatch ps :: r => Some (RBatch (map eval ps)) :: ideal_values r
  | OVec ps :: r => Some (RVec (map eval ps)) :: ideal_values r
  | _ :: r => None :: ideal_values r
  end.

(* points whose evaluation was requested through __call__ since the last reset (with repetitions) *)
Fixpoint requested (acc : list point) (ops : list op) : list point :=
  match ops with
  | [] => acc
  | OSingle p :: r => requested (acc ++ [p]) r
  | OBatch ps :: r => requested (acc ++ ps) r
  | OReset :: r => requested [] r
  | _ :: r => requested acc r
  end.

Definition no_deact (ops : list op) : bool :=
  forallb (fun o => match o with ODeact => false | _ => true end) ops.

End Cache.

(* evaluation function given by a finite table (used by the entry point: the table holds the values of the
   implementation's own `eval` at the points of the case) *)
Definition eval_tab (tab : dict) (p : point) : value := match lookup p tab with Some v => v | None => [] end.
