(* C10 — hierarchical bases: definitions only (lemmas: Proofs/Basis*.v).
   Mirrors sparseSpACE/BasisFunctions.py (LagrangeBasis, LagrangeBasisRestricted, LagrangeBasisRestrictedModified,
   BSpline, HierarchicalNotAKnotBSpline[Modified]), the knot selection of Grid.py (GlobalLagrangeGrid /
   LagrangeGrid1D.compute_1D_quad_weights with get_parent and the knot window; GlobalBSplineGrid /
   BSplineGrid1D with get_full_level_hierarchy and the not-a-knot knot vector), Hierarchization.py
   (HierarchizationLSG: pole-wise solve, dimension after dimension) and BasisGrid/GlobalBasisGrid.interpolate.
   Exact arithmetic over Qc; Python IndexError / assert False become None. *)
From Coq Require Import ZArith List QArith Qcanon Bool Arith.
From SG Require Import Base.QcUtil Base.PolyInt Base.PolyQ.
Import ListNotations.
Open Scope Qc_scope.

Definition nthQ (l : list Qc) (i : nat) : Qc := nth i l 0.
Fixpoint prodQ (l : list Qc) : Qc := match l with [] => 1 | x :: r => x * prodQ r end.

(* the list without position idx  (the loops `for i, knot in enumerate(knots): if self.index != i`) *)
Fixpoint others {A} (idx : nat) (l : list A) : list A :=
  match l, idx with
  | [], _ => []
  | _ :: r, O => r
  | a :: r, S i => a :: others i r
  end.

(* every element together with the remaining ones, order preserved  (double loops `i`, `j != i`) *)
Fixpoint loo {A} (l : list A) : list (A * list A) :=
  match l with
  | [] => []
  | a :: r => (a, r) :: map (fun bo => (fst bo, a :: snd bo)) (loo r)
  end.

(* ------------------------------------------------------------------ LagrangeBasis *)
(* self.factor = prod_{i != index} 1 / (knots[index] - knots[i]) *)
Definition lag_factor (c : Qc) (os : list Qc) : Qc := prodQ (map (fun k => 1 / (c - k)) os).

(* __call__ : prod_{i != index} (x - knots[i]) * factor *)
Definition lag_eval (knots : list Qc) (idx : nat) (x : Qc) : Qc :=
  let c := nthQ knots idx in
  let os := others idx knots in
  prodQ (map (fun k => x - k) os) * lag_factor c os.

(* derivative_for_index(x, S) where `os` = knots not in S:
   sum_i [ prod_{j != i} (x - k_j)/(c - k_j) ] * 1/(c - k_i) *)
Definition lag_dfi (c x : Qc) (os : list Qc) : Qc :=
  sumQ (map (fun io => prodQ (map (fun kj => (x - kj) / (c - kj)) (snd io)) * (1 / (c - fst io))) (loo os)).

Definition lag_d1 (knots : list Qc) (idx : nat) (x : Qc) : Qc :=
  lag_dfi (nthQ knots idx) x (others idx knots).

(* get_second_derivative: sum_{i != index} 1/(c - k_i) * derivative_for_index(x, [index, i]) *)
Definition lag_d2 (knots : list Qc) (idx : nat) (x : Qc) : Qc :=
  let c := nthQ knots idx in
  sumQ (map (fun io => 1 / (c - fst io) * lag_dfi c x (snd io)) (loo (others idx knots))).

(* the Lagrange polynomial  L(X) = prod_{k in os} (X - k) * 1/(c - k)  as a coefficient list (Base/PolyInt.poly);
   lag_eval evaluates it (Proofs/BasisLagrange.lagrange_eval_is_polynomial) *)
Fixpoint lag_poly (c : Qc) (os : list Qc) : poly :=
  match os with
  | [] => [1]
  | k :: r => plin k (1 / (c - k)) (lag_poly c r)
  end.

(* get_integral of the Lagrange classes = Gauss-Legendre with int(p/2)+1 nodes on [lo, hi] (exact for these
   polynomials); the model takes the formal integral of the polynomial *)
Definition lag_integral (knots : list Qc) (idx : nat) (lo hi : Qc) : Qc :=
  pintegral (lag_poly (nthQ knots idx) (others idx knots)) lo hi.

(* ------------------------------------------------------------------ LagrangeBasisRestricted *)
(* get_boundaries: knots[max(0, index-1)], knots[min(index+1, len-1)] *)
Definition rl_lo (knots : list Qc) (idx : nat) : Qc := nthQ knots (idx - 1).
Definition rl_hi (knots : list Qc) (idx : nat) : Qc := nthQ knots (Nat.min (idx + 1) (length knots - 1)).
Definition rl_in_support (knots : list Qc) (idx : nat) (x : Qc) : bool :=
  Qc_leb (rl_lo knots idx) x && Qc_leb x (rl_hi knots idx).
(* LagrangeBasisRestricted.get_integral integrates over get_boundaries() whatever (a, b) is passed *)
Definition rl_integral (knots : list Qc) (idx : nat) : Qc := lag_integral knots idx (rl_lo knots idx) (rl_hi knots idx).
Definition rl_eval knots idx x := if rl_in_support knots idx x then lag_eval knots idx x else 0.
Definition rl_d1 knots idx x := if rl_in_support knots idx x then lag_d1 knots idx x else 0.
Definition rl_d2 knots idx x := if rl_in_support knots idx x then lag_d2 knots idx x else 0.

(* ------------------------------------------------------------------ BSpline *)
(* recursive_eval(x, p, k) *)
Fixpoint bs_eval (t : list Qc) (p k : nat) (x : Qc) {struct p} : Qc :=
  if Qc_ltb x (nthQ t k) || Qc_ltb (nthQ t (k + p + 1)) x then 0 else
  match p with
  | O => if Qc_leb (nthQ t k) x && Qc_ltb x (nthQ t (k + 1)) then 1 else 0
  | S p' =>
      (x - nthQ t k) / (nthQ t (k + p) - nthQ t k) * bs_eval t p' k x
      + (nthQ t (k + p + 1) - x) / (nthQ t (k + p + 1) - nthQ t (k + 1)) * bs_eval t p' (k + 1) x
  end.

(* get_first_derivative_recursive(x, p, k)   (no support test in the code) *)
Fixpoint bs_d1 (t : list Qc) (p k : nat) (x : Qc) {struct p} : Qc :=
  match p with
  | O => 0
  | S p' =>
      let dh1 := 1 / (nthQ t (k + p) - nthQ t k) in
      let dh2 := 1 / (nthQ t (k + p + 1) - nthQ t (k + 1)) in
      dh1 * bs_eval t p' k x - dh2 * bs_eval t p' (k + 1) x
      + (x - nthQ t k) / (nthQ t (k + p) - nthQ t k) * bs_d1 t p' k x
      + (nthQ t (k + p + 1) - x) / (nthQ t (k + p + 1) - nthQ t (k + 1)) * bs_d1 t p' (k + 1) x
  end.

(* get_second_derivative_recursive(x, p, k) *)
Fixpoint bs_d2 (t : list Qc) (p k : nat) (x : Qc) {struct p} : Qc :=
  match p with
  | O => 0
  | S p' =>
      match p' with
      | O => 0
      | S _ =>
        let dh1 := 1 / (nthQ t (k + p) - nthQ t k) in
        let dh2 := 1 / (nthQ t (k + p + 1) - nthQ t (k + 1)) in
        Qc2 * (dh1 * bs_d1 t p' k x - dh2 * bs_d1 t p' (k + 1) x)
        + (x - nthQ t k) / (nthQ t (k + p) - nthQ t k) * bs_d2 t p' k x
        + (nthQ t (k + p + 1) - x) / (nthQ t (k + p + 1) - nthQ t (k + 1)) * bs_d2 t p' (k + 1) x
      end
  end.

(* ------------------------------------------------------------------ the basis objects a grid holds *)
Inductive basis : Type :=
| BLag (knots : list Qc) (idx : nat)                          (* LagrangeBasis *)
| BRLag (knots : list Qc) (idx : nat)                         (* LagrangeBasisRestricted *)
| BRLagMod (p : nat) (knots : list Qc) (idx : nat) (a b : Qc) (level : nat)   (* LagrangeBasisRestrictedModified *)
| BBsp (p : nat) (knots : list Qc) (k : nat)                  (* BSpline *)
| BNak (p idx level : nat) (knots : list Qc)                  (* HierarchicalNotAKnotBSpline *)
| BNakMod (p idx level : nat) (knots : list Qc) (a b : Qc).   (* HierarchicalNotAKnotBSplineModified *)

(* `self.level < log2(self.p + 1)`  <->  2^level < p+1 *)
Definition nak_is_lagrange (p level : nat) : bool := (2 ^ level <? p + 1)%nat.

Definition nak_eval (p idx level : nat) (knots : list Qc) (x : Qc) : Qc :=
  if nak_is_lagrange p level then lag_eval knots idx x else bs_eval knots p idx x.
Definition nak_d1 (p idx level : nat) (knots : list Qc) (x : Qc) : Qc :=
  if nak_is_lagrange p level then lag_d1 knots idx x else bs_d1 knots p idx x.
Definition nak_d2 (p idx level : nat) (knots : list Qc) (x : Qc) : Qc :=
  if nak_is_lagrange p level then lag_d2 knots idx x else bs_d2 knots p idx x.

(* LagrangeBasisRestrictedModified: is_left_border / is_right_border compare the NEIGHBOURING knot with the domain
   border.  The pinned constructor reads knots[index-1] (wraps to the last knot for index 0) and knots[index+1] (raises
   past the end); every grid that reaches it raises (finding C10-modified-global-lagrange-raises).  The model takes
   the guarded reading of the proposed fix (fixes/C10-modified-global-lagrange.patch): no neighbour, no border.  On
   every object that the pinned constructor builds with index >= 1 both readings agree. *)
Definition rlm_left (knots : list Qc) (idx : nat) (a : Qc) : bool :=
  match idx with O => false | S i => Qc_eqb (nthQ knots i) a end.
Definition rlm_right (knots : list Qc) (idx : nat) (b : Qc) : bool :=
  (idx + 1 <? length knots)%nat && Qc_eqb (nthQ knots (idx + 1)) b.
(* what the PINNED constructor needs in order not to raise (kept for reference; not used by the grid model) *)
Definition rlm_constructible (knots : list Qc) (idx : nat) : bool := (idx + 1 <? length knots)%nat.

(* generic over the observable (value / first / second derivative of the UNRESTRICTED LagrangeBasis methods, as
   __call__ and _modified_derivative use them): `obs i x` is the observable of LagrangeBasis(p, i, knots) at x,
   `one` the result on level 1 (1.0 for the value, 0.0 for the derivatives).
   The correction factor uses LagrangeBasis.get_second_derivative(self, border) (unrestricted). *)
(* get_boundaries of the modified class (fix 7946b5e): the level-1 function (the constant 1) is supported on the whole
   domain [a, b] - the knot window of a low order must not cut it to one half -, every other level keeps the two
   neighbouring knots of the restricted class *)
Definition rlm_lo (knots : list Qc) (idx : nat) (a : Qc) (level : nat) : Qc := if (level =? 1)%nat then a else rl_lo knots idx.
Definition rlm_hi (knots : list Qc) (idx : nat) (b : Qc) (level : nat) : Qc := if (level =? 1)%nat then b else rl_hi knots idx.
Definition rlm_in_support (knots : list Qc) (idx : nat) (a b : Qc) (level : nat) (x : Qc) : bool :=
  Qc_leb (rlm_lo knots idx a level) x && Qc_leb x (rlm_hi knots idx b level).

Definition rlm_obs (obs : nat -> Qc -> Qc) (one : Qc)
           (p : nat) (knots : list Qc) (idx : nat) (a b : Qc) (level : nat) (x : Qc) : Qc :=
  if rlm_in_support knots idx a b level x then
    if (level =? 1)%nat then one else
    let r := obs idx x in
    if rlm_left knots idx a then
      if (1 <? p)%nat then r - lag_d2 knots idx a / lag_d2 knots 0 a * obs 0%nat x
      else r + Qc2 * obs 0%nat x
    else if rlm_right knots idx b then
      let last := (length knots - 1)%nat in
      if (1 <? p)%nat then r - lag_d2 knots idx b / lag_d2 knots last b * obs last x
      else r + Qc2 * obs last x
    else r
  else 0.

Definition rlm_eval (p : nat) (knots : list Qc) (idx : nat) (a b : Qc) (level : nat) (x : Qc) : Qc :=
  rlm_obs (lag_eval knots) 1 p knots idx a b level x.
(* get_first_derivative / get_second_derivative = _modified_derivative(x, 1 | 2)  (fix c76483e: derivatives of the
   modified function; before that commit the class inherited the derivatives of the unmodified restricted basis) *)
Definition rlm_d1 (p : nat) (knots : list Qc) (idx : nat) (a b : Qc) (level : nat) (x : Qc) : Qc :=
  rlm_obs (lag_d1 knots) 0 p knots idx a b level x.
Definition rlm_d2 (p : nat) (knots : list Qc) (idx : nat) (a b : Qc) (level : nat) (x : Qc) : Qc :=
  rlm_obs (lag_d2 knots) 0 p knots idx a b level x.

(* HierarchicalNotAKnotBSplineModified: generic over the observable (value / first / second derivative) *)
Definition nakmod_obs (obs : nat -> Qc -> Qc) (one : Qc) (p idx level : nat) (knots : list Qc) (a b : Qc) (x : Qc) : Qc :=
  if (level =? 1)%nat then one
  else if ((2 <=? level) && ((idx =? 1) || (idx =? 2 ^ level - 1)))%nat then
    let r := obs idx x in
    if (idx =? 1)%nat then
      if (1 <? p)%nat then r - nak_d2 p idx level knots a / nak_d2 p 0 level knots a * obs 0%nat x
      else r + Qc2 * obs 0%nat x
    else
      if (1 <? p)%nat then r - nak_d2 p idx level knots b / nak_d2 p (2 ^ level) level knots b * obs (2 ^ level)%nat x
      else r + Qc2 * obs (2 ^ level)%nat x
  else obs idx x.

Definition beval (bf : basis) (x : Qc) : Qc :=
  match bf with
  | BLag knots idx => lag_eval knots idx x
  | BRLag knots idx => rl_eval knots idx x
  | BRLagMod p knots idx a b level => rlm_eval p knots idx a b level x
  | BBsp p knots k => bs_eval knots p k x
  | BNak p idx level knots => nak_eval p idx level knots x
  | BNakMod p idx level knots a b => nakmod_obs (fun i y => nak_eval p i level knots y) 1 p idx level knots a b x
  end.

Definition bd1 (bf : basis) (x : Qc) : Qc :=
  match bf with
  | BLag knots idx => lag_d1 knots idx x
  | BRLag knots idx => rl_d1 knots idx x
  | BRLagMod p knots idx a b level => rlm_d1 p knots idx a b level x
  | BBsp p knots k => bs_d1 knots p k x
  | BNak p idx level knots => nak_d1 p idx level knots x
  | BNakMod p idx level knots a b => nakmod_obs (fun i y => nak_d1 p i level knots y) 0 p idx level knots a b x
  end.

Definition bd2 (bf : basis) (x : Qc) : Qc :=
  match bf with
  | BLag knots idx => lag_d2 knots idx x
  | BRLag knots idx => rl_d2 knots idx x
  | BRLagMod p knots idx a b level => rlm_d2 p knots idx a b level x
  | BBsp p knots k => bs_d2 knots p k x
  | BNak p idx level knots => nak_d2 p idx level knots x
  | BNakMod p idx level knots a b => nakmod_obs (fun i y => nak_d2 p i level knots y) 0 p idx level knots a b x
  end.

(* ------------------------------------------------------------------ small list utilities over Qc *)
Fixpoint index_of (x : Qc) (l : list Qc) : option nat :=
  match l with
  | [] => None
  | y :: r => if Qc_eqb x y then Some O else match index_of x r with Some i => Some (S i) | None => None end
  end.
Definition memQ (x : Qc) (l : list Qc) : bool := match index_of x l with Some _ => true | None => false end.

Fixpoint insert_sorted (x : Qc) (l : list Qc) : list Qc :=
  match l with
  | [] => [x]
  | y :: r => if Qc_leb x y then x :: l else y :: insert_sorted x r
  end.
Definition sortQ (l : list Qc) : list Qc := fold_right insert_sorted [] l.

Fixpoint assocQ {A} (x : Qc) (l : list (Qc * A)) : option A :=
  match l with
  | [] => None
  | (y, v) :: r => if Qc_eqb x y then Some v else assocQ x r
  end.

Definition points_at_level (pts : list Qc) (levs : list nat) (l : nat) : list Qc :=
  map fst (filter (fun pl => (snd pl =? l)%nat) (combine pts levs)).

Definition max_level (levs : list nat) : nat := fold_right Nat.max O levs.

(* ------------------------------------------------------------------ knot selection, Lagrange grids *)
(* get_parent: nearest point of level (level_p - 1) to the left unless a coarser point comes first, then to the right *)
Fixpoint scan_parent (l : list (Qc * nat)) (target : nat) : option Qc :=
  match l with
  | [] => None
  | (x, lv) :: r => if (lv =? target)%nat then Some x else if (lv <? target)%nat then None else scan_parent r target
  end.

Definition get_parent (x : Qc) (pts : list Qc) (levs : list nat) : option Qc :=
  match index_of x pts with
  | None => None
  | Some ip =>
    let target := (nth ip levs O - 1)%nat in
    let pl := combine pts levs in
    match scan_parent (rev (firstn ip pl)) target with
    | Some q => Some q
    | None => scan_parent (skipn (S ip) pl) target
    end
  end.

(* the window of p+1 knots around x *)
Definition window (p : nat) (knots : list Qc) (x : Qc) : option (list Qc) :=
  if (p + 1 <? length knots)%nat then
    match index_of x knots with
    | None => None
    | Some ix =>
      let right := (length knots - ix - 1)%nat in
      if (ix <? (p + 1) / 2)%nat then Some (firstn (p + 1) knots)
      else if (right <? p / 2)%nat then Some (skipn (length knots - (p + 1)) knots)
      else Some (firstn (p + 1) (skipn (ix - (p + 1) / 2) knots))
    end
  else Some knots.

(* state of the level loop: parents dict (unwindowed knots per point) and the chosen (knots, index, level) per point *)
Definition lsel_state : Type := (list (Qc * list Qc) * list (Qc * (list Qc * nat * nat)))%type.

Definition lsel_point (p : nat) (boundary modified : bool) (pts : list Qc) (levs : list nat) (l : nat)
           (st : option lsel_state) (x : Qc) : option lsel_state :=
  match st with
  | None => None
  | Some (parents, out) =>
    let knots0 :=
      match l with
      | O => Some (points_at_level pts levs 0)
      | S O => if boundary || modified then Some (sortQ (points_at_level pts levs 0 ++ points_at_level pts levs 1))
               else Some (sortQ (points_at_level pts levs 1))
      | _ => match get_parent x pts levs with
             | None => None
             | Some par => match assocQ par parents with
                           | None => None
                           | Some kp => Some (sortQ (kp ++ [x]))
                           end
             end
      end in
    match knots0 with
    | None => None
    | Some k0 =>
      match window p k0 x with
      | None => None
      | Some kw => match index_of x kw with
                   | None => None
                   | Some ix => Some ((x, k0) :: parents, (x, (kw, ix, l)) :: out)
                   end
      end
    end
  end.

Definition lsel_levels (p : nat) (boundary modified : bool) (pts : list Qc) (levs : list nat) : option lsel_state :=
  let start := if boundary then O else 1%nat in
  fold_left (fun st l => fold_left (lsel_point p boundary modified pts levs l) (points_at_level pts levs l) st)
            (seq start (max_level levs + 1 - start)) (Some ([], [])).

(* the grid points that carry a basis: all (boundary) or [1:-1] *)
Definition interior {A} (boundary : bool) (l : list A) : list A :=
  if boundary then l else removelast (tl l).

Fixpoint opt_list {A} (l : list (option A)) : option (list A) :=
  match l with
  | [] => Some []
  | Some a :: r => match opt_list r with Some r' => Some (a :: r') | None => None end
  | None :: _ => None
  end.

(* GlobalLagrangeGrid.compute_1D_quad_weights (basis part): one (point, basis) per grid point, grid order.
   modified: LagrangeBasisRestrictedModified(p, index, knots, a, b, l).  The pinned code builds the level-1 knots of a
   boundary-free grid from the level-1 points only, so that the modified constructor always raises; the model follows
   the proposed fix (level-1 knots contain the two boundary points whenever the basis is modified), which is the only
   reading under which is_left_border / is_right_border can ever hold. *)
Definition lagrange_system (p : nat) (boundary modified : bool) (a b : Qc) (pts : list Qc) (levs : list nat)
  : option (list (Qc * basis)) :=
  match lsel_levels p boundary modified pts levs with
  | None => None
  | Some (_, out) =>
    opt_list (map (fun x => match assocQ x out with
                            | None => None
                            | Some (kw, ix, l) =>
                              Some (x, if modified then BRLagMod p kw ix a b l else BRLag kw ix)
                            end) (interior boundary pts))
  end.

(* ------------------------------------------------------------------ knot selection, B-spline grids *)
Definition qz (z : Z) : Qc := Q2Qc (inject_Z z).
Definition pow2 (l : nat) : Qc := qz (2 ^ Z.of_nat l).

(* one level of get_full_level_hierarchy: prev = complete[l-1], cur = level_coordinate_array[l] *)
Fixpoint fill_level (prev : list Qc) (cur : list Qc) : list Qc :=
  match prev with
  | [] => []
  | [z] => [z]
  | lo :: ((hi :: _) as prev') =>
    match cur with
    | [] => lo :: qc_half (hi + lo) :: fill_level prev' cur
    | c :: cur' => if Qc_ltb hi c then lo :: qc_half (hi + lo) :: fill_level prev' cur
                   else lo :: c :: fill_level prev' cur'
    end
  end.

Fixpoint full_hierarchy (pts : list Qc) (levs : list nat) (l : nat) : list Qc :=
  match l with
  | O => points_at_level pts levs 0
  | S l' => fill_level (full_hierarchy pts levs l') (points_at_level pts levs l)
  end.

(* knot vector of level l: plain level grid below log2(p+1), not-a-knot vector otherwise *)
Definition nak_knots (p l : nat) (a b : Qc) (complete : list Qc) : list Qc :=
  if nak_is_lagrange p l then complete else
  let h := (b - a) / pow2 l in
  let n := Z.of_nat (2 ^ l) in
  let pz := Z.of_nat p in
  let keep (i : Z) := (i <=? 0)%Z || (((pz + 1) / 2 <=? i)%Z && (i <=? n - (pz + 1) / 2)%Z) || (n <=? i)%Z in
  map (fun i : Z => if (i <? 0)%Z || (Z.of_nat (length complete) <=? i)%Z then a + qz i * h
                    else nthQ complete (Z.to_nat i))
      (filter keep (map (fun k => (Z.of_nat k - pz)%Z) (seq 0 (2 ^ l + 2 * p + 1)))).

Definition level_indices (l : nat) : list nat :=
  match l with O => [0; 1]%nat | _ => map (fun k => (2 * k + 1)%nat) (seq 0 (2 ^ (l - 1))) end.

(* GlobalBSplineGrid.compute_1D_quad_weights (basis part) *)
(* `md l i`: is the basis of index i on level l built with the modified class? *)
Definition bspline_assign_gen (p : nat) (boundary : bool) (md : nat -> nat -> bool) (a b : Qc) (pts : list Qc) (levs : list nat)
  : list (Qc * basis) :=
  let start := if boundary then O else 1%nat in
  flat_map (fun l =>
      let complete := full_hierarchy pts levs l in
      let knots := nak_knots p l a b complete in
      flat_map (fun i => let x := nthQ complete i in
                         if memQ x pts then [(x, if md l i then BNakMod p i l knots a b else BNak p i l knots)] else [])
               (level_indices l))
    (seq start (max_level levs + 1 - start)).
Definition bspline_assign (p : nat) (boundary modified : bool) (a b : Qc) (pts : list Qc) (levs : list nat)
  : list (Qc * basis) := bspline_assign_gen p boundary (fun _ _ => modified) a b pts levs.

(* later assignments overwrite earlier ones (self.basis[d][index] = spline) *)
Definition assoc_last {A} (x : Qc) (l : list (Qc * A)) : option A := assocQ x (rev l).

Definition bspline_system (p : nat) (boundary modified : bool) (a b : Qc) (pts : list Qc) (levs : list nat)
  : option (list (Qc * basis)) :=
  let asg := bspline_assign p boundary modified a b pts levs in
  opt_list (map (fun x => match assoc_last x asg with None => None | Some bf => Some (x, bf) end)
                (interior boundary pts)).

(* regular grid of level L on [s, e] with its hierarchical levels (local grids; test fixtures) *)
Definition regular_points (s e : Qc) (L : nat) : list Qc :=
  map (fun k => s + qz (Z.of_nat k) * ((e - s) / pow2 L)) (seq 0 (2 ^ L + 1)).
Fixpoint level_of_index (L : nat) (k : nat) {struct L} : nat :=
  match L with
  | O => O
  | S L' => if Nat.even k then level_of_index L' (k / 2) else L
  end.
Definition regular_levels (L : nat) : list nat := map (level_of_index L) (seq 0 (2 ^ L + 1)).

(* local grids (LagrangeGrid1D / BSplineGrid1D.set_current_area): slice [lowerBorder:upperBorder] of the level grid.
   lo_cut / hi_cut: isclose(start, a) / isclose(end, b), decided exactly.
   NOTE (finding C10-local-bspline-no-boundary-subarea-raises): the pinned code builds the level-0 splines only for
   boundary grids (`starting_level = 0 if self.boundary else 1`) and then crashes on every boundary-free sub-area whose
   end points stay in the grid.  Wherever the code does not crash the level-0 splines are sliced away, so building them
   always (as the model does, and as the proposed fix does) is indistinguishable from the code on every run that
   completes; on the crashing configurations the model defines the intended behaviour. *)
Definition local_slice {A} (boundary : bool) (lo_cut hi_cut : bool) (l : list A) : list A :=
  if boundary then l else
  let l1 := if lo_cut then tl l else l in
  if hi_cut then removelast l1 else l1.

(* which functions of a local modified B-spline grid are built with the modified class: the modification extrapolates
   towards the DOMAIN border, so it applies only at an end of the area that lies on the border (lo_cut / hi_cut); the
   level-1 function is the constant as soon as one end does.
   NOTE (finding C10-local-bspline-modified-subarea-unsolvable): the pinned code modifies both ends of every area; on
   every sub-area that keeps an end point the collocation matrix is then singular in exact arithmetic (LinAlgError or
   meaningless surpluses).  On the whole domain (both ends cut) this rule and the pinned code build the same functions
   (the modified class differs from the plain one only on level 1 and at the indices 1 and 2^l - 1). *)
Definition local_md (modified lo_cut hi_cut : bool) (l i : nat) : bool :=
  modified && (if (l =? 1)%nat then lo_cut || hi_cut
               else ((i =? 1)%nat && lo_cut) || ((i =? 2 ^ l - 1)%nat && hi_cut)).

Definition local_bspline_system (p L : nat) (boundary modified : bool) (a b s e : Qc) : option (list (Qc * basis)) :=
  let pts := regular_points s e L in
  let levs := regular_levels L in
  let asg := bspline_assign_gen p true (local_md modified (Qc_eqb s a) (Qc_eqb e b)) s e pts levs in
  opt_list (map (fun x => match assoc_last x asg with None => None | Some bf => Some (x, bf) end)
                (local_slice boundary (Qc_eqb s a) (Qc_eqb e b) pts)).

(* LagrangeGrid1D.compute_1D_quad_weights + set_current_area: the hierarchy of the full level grid of the area, then the
   slice [lowerBorder:upperBorder].
   NOTE (finding C10-local-lagrange-no-boundary-raises): the pinned code derives levels and parents from the already
   sliced coordinate list and raises on every boundary-free grid; the model follows the proposed fix (hierarchy on the
   full level grid, slice at the end, as BSplineGrid1D does).  With boundary = true nothing is sliced and both agree. *)
Definition local_lagrange_system (p L : nat) (boundary : bool) (a b s e : Qc) : option (list (Qc * basis)) :=
  let pts := regular_points s e L in
  let levs := regular_levels L in
  match lagrange_system p true false s e pts levs with
  | None => None
  | Some sy => Some (local_slice boundary (Qc_eqb s a) (Qc_eqb e b) sy)
  end.

(* ------------------------------------------------------------------ collocation matrix, 1-D solve *)
Definition matrix := list (list Qc).
Definition mget (M : matrix) (i j : nat) : Qc := nthQ (nth i M []) j.

(* matrix[i][j] = basis_j(x_i) *)
Definition colloc (sys : list (Qc * basis)) : matrix :=
  map (fun xi => map (fun bj => beval (snd bj) (fst xi)) sys) sys.

(* vectors of values: a module over Qc (vector-valued functions, poles through d-dimensional arrays) *)
Section Module.
  Variable V : Type.
  Variable vzero : V.
  Variable vadd : V -> V -> V.
  Variable vscale : Qc -> V -> V.

  Fixpoint vsum (l : list V) : V := match l with [] => vzero | x :: r => vadd x (vsum r) end.

  (* forward substitution along the order `ord` (a list of row/column numbers):
       s(o) = ( v(o) - sum_{o' earlier in ord} M(o,o') s(o') ) / M(o,o) *)
  Definition fsub_step (M : matrix) (v : list V) (acc : list (nat * V)) (o : nat) : list (nat * V) :=
    (o, vscale (1 / mget M o o)
               (vadd (nth o v vzero)
                     (vscale (-(1)) (vsum (map (fun ms => vscale (mget M o (fst ms)) (snd ms)) acc))))) :: acc.

  Fixpoint lookup (i : nat) (acc : list (nat * V)) : V :=
    match acc with
    | [] => vzero
    | (j, s) :: r => if (i =? j)%nat then s else lookup i r
    end.

  Definition fsub (M : matrix) (v : list V) (ord : list nat) : list V :=
    let acc := fold_left (fsub_step M v) ord [] in
    map (fun i => lookup i acc) (seq 0 (length v)).

  (* M applied to a vector of module elements *)
  Definition mapply (M : matrix) (s : list V) : list V :=
    map (fun row => vsum (map (fun cs => vscale (fst cs) (snd cs)) (combine row s))) M.
End Module.

Arguments vsum {V}. Arguments fsub_step {V}. Arguments lookup {V}. Arguments fsub {V}. Arguments mapply {V}.

(* the two instances: scalars and flat vectors (padded addition) *)
Fixpoint lvadd (a b : list Qc) : list Qc :=
  match a, b with
  | [], _ => b
  | _, [] => a
  | x :: a', y :: b' => (x + y) :: lvadd a' b'
  end.
Definition lvscale (c : Qc) (a : list Qc) : list Qc := map (fun x => c * x) a.

Definition fsubQ := @fsub Qc 0 Qcplus Qcmult.
Definition fsubV := @fsub (list Qc) [] lvadd lvscale.

(* level order: stable sort of the positions by level (insertion sort on (level, position)) *)
Fixpoint insert_by_level (levs : list nat) (i : nat) (l : list nat) : list nat :=
  match l with
  | [] => [i]
  | j :: r => if (nth i levs O <=? nth j levs O)%nat then i :: l else j :: insert_by_level levs i r
  end.
Definition level_order (levs : list nat) : list nat :=
  fold_right (insert_by_level levs) [] (seq 0 (length levs)).

(* ---------- general exact solver (Gauss-Jordan with first-nonzero pivot); used for B-spline systems ---------- *)
Definition row_scale (c : Qc) (r : list Qc) : list Qc := map (fun x => c * x) r.
Fixpoint row_sub (r s : list Qc) (c : Qc) : list Qc :=       (* r - c*s *)
  match r, s with
  | x :: r', y :: s' => (x - c * y) :: row_sub r' s' c
  | _, _ => r
  end.

Fixpoint find_pivot (col : nat) (rows : list (list Qc)) : option (list Qc * list (list Qc)) :=
  match rows with
  | [] => None
  | r :: rest => if Qc_eqb (nthQ r col) 0 then
                   match find_pivot col rest with Some (pv, o) => Some (pv, r :: o) | None => None end
                 else Some (r, rest)
  end.

(* eliminate column by column on the augmented rows; `done` rows are already pivoted (in order) *)
Fixpoint gauss_loop (fuel col : nat) (done todo : list (list Qc)) : option (list (list Qc)) :=
  match fuel with
  | O => match todo with [] => Some done | _ => None end
  | S f =>
    match todo with
    | [] => Some done
    | _ =>
      match find_pivot col todo with
      | None => None
      | Some (pv, rest) =>
        let pvn := row_scale (1 / nthQ pv col) pv in
        let elim := fun r => row_sub r pvn (nthQ r col) in
        gauss_loop f (S col) (map elim done ++ [pvn]) (map elim rest)
      end
    end
  end.

(* solves M X = B for a matrix of right-hand sides (rows of B = rows of the system); None when singular *)
Definition gauss_solve (M : matrix) (B : list (list Qc)) : option (list (list Qc)) :=
  let n := length M in
  match gauss_loop n 0 [] (map (fun rb => fst rb ++ snd rb) (combine M B)) with
  | None => None
  | Some rows => Some (map (skipn n) rows)
  end.

Definition veq (a b : list Qc) : bool :=
  (length a =? length b)%nat && forallb (fun xy => Qc_eqb (fst xy) (snd xy)) (combine a b).

Definition mapplyV := @mapply (list Qc) [] lvadd lvscale.
Definition mapplyQ := @mapply Qc 0 Qcplus Qcmult.

(* checked solve: the result is returned only if the exact residual vanishes (and the shapes fit) *)
Definition solve_checked (M : matrix) (B : list (list Qc)) : option (list (list Qc)) :=
  match gauss_solve M B with
  | None => None
  | Some X => if (length X =? length B)%nat && (length M =? length B)%nat
                 && forallb (fun x => (length x =? length (hd [] B))%nat) X
                 && forallb (fun ab => veq (fst ab) (snd ab)) (combine (mapplyV M X) B)
              then Some X else None
  end.

(* ------------------------------------------------------------------ d-dimensional hierarchisation / interpolation *)
(* flat vector in C order (first dimension slowest), as numpy's grid_values[n, :] *)
Fixpoint chunks (n : nat) (len : nat) (v : list Qc) : list (list Qc) :=
  match n with
  | O => []
  | S n' => firstn len v :: chunks n' len (skipn len v)
  end.

Fixpoint prodN (l : list nat) : nat := match l with [] => 1%nat | x :: r => (x * prodN r)%nat end.

(* one 1-D system per dimension: collocation matrix + solver choice.
   ord = Some o : forward substitution along o (hierarchical Lagrange, level order); None : checked Gauss *)
Record sys1 : Type := { s_basis : list (Qc * basis); s_ord : option (list nat) }.
Definition s_n (s : sys1) : nat := length (s_basis s).

(* hierarchize_poles_for_dim: a dimension with one point is skipped (after `assert isclose(basis(x), 1)`) *)
Definition solve1V (s : sys1) (cs : list (list Qc)) : option (list (list Qc)) :=
  match s_basis s with
  | [(x, bf)] => if Qc_eqb (beval bf x) 1 then Some cs else None
  | _ =>
    match s_ord s with
    | Some o => Some (fsubV (colloc (s_basis s)) cs o)
    | None => solve_checked (colloc (s_basis s)) cs
    end
  end.

(* HierarchizationLSG.__call__ on one component: dimension 0 first (poles = chunks), then inside every chunk *)
Fixpoint hier_nd (ss : list sys1) (v : list Qc) : option (list Qc) :=
  match ss with
  | [] => Some v
  | s :: rest =>
    let len := prodN (map s_n rest) in
    match solve1V s (chunks (s_n s) len v) with
    | None => None
    | Some cs' => match opt_list (map (hier_nd rest) cs') with
                  | None => None
                  | Some r => Some (concat r)
                  end
    end
  end.

(* interpolate: sum over all grid indices of surplus * prod_d basis_{i_d}(x_d) *)
Fixpoint interp_nd (ss : list sys1) (xs : list Qc) (sur : list Qc) : Qc :=
  match ss with
  | [] => nthQ sur 0
  | s :: rest =>
    let len := prodN (map s_n rest) in
    let x := nthQ xs 0 in
    sumQ (map (fun bc => beval (snd (fst bc)) x * interp_nd rest (tl xs) (snd bc))
              (combine (s_basis s) (chunks (s_n s) len sur)))
  end.

(* all grid points, itertools.product order *)
Fixpoint grid_points (ss : list sys1) : list (list Qc) :=
  match ss with
  | [] => [[]]
  | s :: rest => flat_map (fun xb => map (cons (fst xb)) (grid_points rest)) (s_basis s)
  end.

(* ------------------------------------------------------------------ checkers (soundness: Proofs/BasisCheck.v) *)
(* (a) structural checker for hierarchical Lagrange systems: in the given order the collocation matrix is unit lower
   triangular. Decided from the knots alone: own knot at own index, knots strictly increasing, and every point
   earlier-or-equal in the order is a knot of the basis or lies outside the open support. *)
Fixpoint strictly_increasing (l : list Qc) : bool :=
  match l with
  | [] => true
  | x :: r => match r with [] => true | y :: _ => Qc_ltb x y && strictly_increasing r end
  end.

Definition rl_vanish_witness (knots : list Qc) (idx : nat) (y : Qc) : bool :=
  (memQ y knots && negb (Qc_eqb y (nthQ knots idx))) || Qc_ltb y (rl_lo knots idx) || Qc_ltb (rl_hi knots idx) y.

Definition rl_ok (x : Qc) (bf : basis) : bool :=
  match bf with
  | BRLag knots idx => (idx <? length knots)%nat && Qc_eqb (nthQ knots idx) x && strictly_increasing knots
  | _ => false
  end.

(* earlier ys: the points that precede this one in the order *)
Fixpoint hier_ok_ord (sys : list (Qc * basis)) (earlier : list Qc) (ord : list nat) : bool :=
  match ord with
  | [] => true
  | o :: r =>
    match nth_error sys o with
    | None => false
    | Some (x, bf) =>
      rl_ok x bf
      && match bf with
         | BRLag knots idx => forallb (rl_vanish_witness knots idx) earlier
         | _ => false
         end
      && hier_ok_ord sys (x :: earlier) r
    end
  end.

Definition is_perm_seq (ord : list nat) (n : nat) : bool :=
  (length ord =? n)%nat && forallb (fun i => existsb (Nat.eqb i) ord) (seq 0 n).

Definition hier_okb (sys : list (Qc * basis)) (ord : list nat) : bool :=
  is_perm_seq ord (length sys) && hier_ok_ord sys [] ord.

(* the solver choice per dimension: forward substitution in level order when the structural checker accepts the
   (Lagrange) system, checked Gauss otherwise; the flag reports which one was taken *)
Definition choose_solver (d : list (Qc * basis) * list nat * bool) : sys1 * bool :=
  let '(sy, levs, islag) := d in
  let ord := level_order levs in
  if islag && hier_okb sy ord then ({| s_basis := sy; s_ord := Some ord |}, true)
  else ({| s_basis := sy; s_ord := None |}, false).

(* (b) residual checker on arbitrary (e.g. implementation) surpluses: interpolation at every grid point reproduces the
   value within tol, for every component *)
Definition interp_residual_ok (ss : list sys1) (sur vals : list Qc) (tol : Qc) : bool :=
  forallb (fun pv => Qc_leb (Qc_abs (interp_nd ss (fst pv) sur - snd pv)) tol)
          (combine (grid_points ss) vals).

(* (c) 1-D system checker: M s = v within tol *)
Definition system_residual_ok (M : matrix) (s v : list Qc) (tol : Qc) : bool :=
  (length M =? length v)%nat &&
  forallb (fun rv => Qc_leb (Qc_abs (dotQ (fst rv) s - snd rv)) tol) (combine M v).

(* (d) unisolvence certificate: N is a left inverse of M (N M = I exactly) *)
Definition mat_mul (A B : matrix) : matrix :=
  map (fun ra => map (fun j => sumQ (map (fun ak => fst ak * nthQ (snd ak) j) (combine ra B)))
                     (seq 0 (length (hd [] B)))) A.
Definition identity (n : nat) : matrix :=
  map (fun i => map (fun j => if (i =? j)%nat then 1 else 0) (seq 0 n)) (seq 0 n).
Definition meq (A B : matrix) : bool :=
  (length A =? length B)%nat && forallb (fun ab => veq (fst ab) (snd ab)) (combine A B).
Definition left_inverse_ok (N M : matrix) : bool :=
  let n := length M in
  forallb (fun r => (length r =? n)%nat) M && forallb (fun r => (length r =? n)%nat) N && (length N =? n)%nat &&
  meq (mat_mul N M) (identity n).
Definition inverse_of (M : matrix) : option matrix :=
  match gauss_solve M (identity (length M)) with
  | Some N => if left_inverse_ok N M then Some N else None
  | None => None
  end.
