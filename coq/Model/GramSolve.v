(* C16: the linear solve and the complete pipeline  data set -> surpluses  of DensityEstimation inside the model.
   DEFINITIONS ONLY.

   Python (GridOperation.py)                                   model
   np.linalg.solve(R * s, b * s)   (s = 1/max R)               solve_checked R b : Gaussian elimination without pivoting over Qc
                                                               (exact; the scaling s cancels), guarded by check_solution, so a
                                                               returned vector solves the system exactly; None = elimination met a
                                                               zero pivot or ran out of rows (never for the positive definite
                                                               system matrices, see Proofs/GramSolveP.v / GramKron.v)
   solve_density_estimation_dimension_wise                     surpluses_nonuniform
   solve_density_estimation                                    surpluses_uniform
   StandardCombi.__call__ / SpatiallyAdaptivBase.__call__      combine_uniform / combine_nonuniform  (sum_k c_k * interpolant_k) *)
From Coq Require Import ZArith List QArith Qcanon Bool.
From SG Require Import Base.QcUtil Model.Gram.
Import ListNotations.
Open Scope Qc_scope.

(* eliminate the first unknown from one row (x :: row') . (x0 :: xs) = bi, using the pivot row (p :: r) . (x0 :: xs) = b0 *)
Definition row_elim (p : Qc) (r : list Qc) (b0 : Qc) (row : list Qc) (bi : Qc) : list Qc * Qc :=
  match row with
  | [] => ([], bi)
  | x :: row' =>
      if Qc_eqb x 0 then (row', bi)
      else let f := x / p in (map2 (fun y rj => y - f * rj) row' r, bi - f * b0)
  end.

(* n = number of rows still to be eliminated (structural fuel; a mismatch of shapes gives None) *)
Fixpoint gauss (n : nat) (G : list (list Qc)) (b : list Qc) : option (list Qc) :=
  match n with
  | O => match G with [] => Some [] | _ => None end
  | S k =>
      match G, b with
      | (p :: r) :: rest, b0 :: brest =>
          if Qc_eqb p 0 then None
          else
            let rb := map2 (row_elim p r b0) rest brest in
            match gauss k (map fst rb) (map snd rb) with
            | Some x' => Some ((b0 - dotQ r x') / p :: x')
            | None => None
            end
      | _, _ => None
      end
  end.

Definition solve_checked (G : list (list Qc)) (b : list Qc) : option (list Qc) :=
  match gauss (length G) G b with
  | Some x => if check_solution G x b then Some x else None
  | None => None
  end.

(* raw surpluses, normalised surpluses, value of the normalising integral *)
Definition finish_nonuniform (labelled : bool) (w : list Qc) (raw : option (list Qc)) : option (list Qc * list Qc * Qc) :=
  match raw with
  | Some a => let fi := normalise_weighted labelled w a in Some (a, fst fi, snd fi)
  | None => None
  end.

Definition surpluses_nonuniform (stripes : list (list Qc)) (lam : Qc) (ml : bool) (data : list (list Qc)) (signs : list Qc)
           (labelled : bool) : option (list Qc * list Qc * Qc) :=
  let pts := grid_hats stripes in
  let b := rhs pts data signs in
  let raw := if ml then Some (solve_lumped_nonuniform (R_lumped_nonuniform pts lam) b)
             else solve_checked (R_matrix_nonuniform pts lam) b in
  finish_nonuniform labelled (tensor_weights stripes) raw.

Definition finish_uniform (labelled : bool) (raw : option (list Qc)) : option (list Qc * list Qc * Qc) :=
  match raw with
  | Some a => let fi := normalise_uniform labelled a in Some (a, fst fi, snd fi)
  | None => None
  end.

Definition surpluses_uniform (lv : list Z) (lam : Qc) (ml : bool) (data : list (list Qc)) (signs : list Qc)
           (labelled : bool) : option (list Qc * list Qc * Qc) :=
  let b := rhs_uniform lv data signs in
  let raw := if ml then Some (solve_lumped_uniform lv b) else solve_checked (R_matrix_uniform lv lam) b in
  finish_uniform labelled raw.

(* the combined density: sum over the component grids of coefficient * interpolant *)
Definition combine_uniform (grids : list (list Z * Qc * list Qc)) (x : list Qc) : Qc :=
  sumQ (map (fun g => snd (fst g) * interp_uniform (fst (fst g)) (snd g) x) grids).
Definition combine_nonuniform (grids : list (list (list Qc) * Qc * list Qc)) (x : list Qc) : Qc :=
  sumQ (map (fun g => snd (fst g) * interp (grid_hats (fst (fst g))) (snd g) x) grids).
