(* Wire entry points of the C13 model (adaptive driver, error estimate, point counting). *)
From Coq Require Import ZArith List Bool QArith Qcanon.
From SG Require Import Base.Sx Base.QcUtil Model.Driver Model.FunCache Model.DriverCount.
Import ListNotations.
Open Scope Z_scope.

Definition get_limits (tol mn mx : sx) : option limits :=
  match get_Qc tol, mn, mx with
  | Some t, Zv m, Lv [] => Some (mkLimits t m None)
  | Some t, Zv m, Lv [Zv x] => Some (mkLimits t m (Some x))
  | _, _, _ => None
  end.

Definition get_obs (s : sx) : option obs :=
  match s with
  | Lv [e; u; Zv p] => match get_Qc e, get_Qc u with Some e', Some u' => Some (mkObs e' u' p) | _, _ => None end
  | _ => None
  end.
Definition get_obs_list (s : sx) : option (list obs) :=
  match s with Lv l => opt_all (map get_obs l) | _ => None end.

Definition get_call (s : sx) : option (limits * list obs) :=
  match s with
  | Lv [tol; mn; mx; os] =>
      match get_limits tol mn mx, get_obs_list os with Some l, Some o => Some (l, o) | _, _ => None end
  | _ => None
  end.

Definition of_event (e : event) : sx := match e with EvEval => Zv 0 | EvRefine => Zv 1 end.
Definition of_dstate (s : dstate) (stopped : bool) : sx :=
  Lv [of_LQc (d_errs s); of_LQc (d_surs s); of_LZ (d_pts s); Lv (map of_event (d_trace s)); Zv (d_refines s); sx_bool stopped].

(* perform, then any number of continue_adaptive_refinement calls; the state after each call *)
Fixpoint run_calls (calls : list (limits * list obs)) (s : dstate) : list sx :=
  match calls with
  | [] => []
  | (lim, os) :: r => let '(s', b) := drive lim os s in of_dstate s' b :: run_calls r s'
  end.

Definition get_norm (z : Z) : option normkind :=
  match z with 0 => Some NormInf | 1 => Some Norm1 | 2 => Some Norm2sq | _ => None end.

Definition of_gerr (g : gerr) : sx :=
  match g with GNone => Lv [Zv 0] | GUndefined => Lv [Zv 1] | GVal e => Lv [Zv 2; of_Qc e] end.

Fixpoint get_points (l : list sx) : option (list (list (list Z))) :=
  match l with
  | [] => Some []
  | b :: r => match get_LLZ b, get_points r with Some b', Some r' => Some (b' :: r') | _, _ => None end
  end.

Fixpoint benefits (l : list sx) : option (list Qc) :=
  match l with
  | [] => Some []
  | Lv [e; Zv n] :: r =>
      match get_Qc e, benefits r with Some e', Some r' => Some (benefit e' n :: r') | _, _ => None end
  | _ => None
  end.

(* arguments of one call: (tol? min? max?) with x? = () (not given) | (x) *)
Definition get_optQc (s : sx) : option (option Qc) :=
  match s with Lv [] => Some None | Lv [q] => match get_Qc q with Some v => Some (Some v) | None => None end | _ => None end.
Definition get_optZ (s : sx) : option (option Z) :=
  match s with Lv [] => Some None | Lv [Zv z] => Some (Some z) | _ => None end.
Definition get_args (s : sx) : option call_args :=
  match s with
  | Lv [t; m; x] =>
      match get_optQc t, get_optZ m, get_optZ x with
      | Some t', Some m', Some x' => Some (mkArgs t' m' x')
      | _, _, _ => None
      end
  | _ => None
  end.
Definition get_api_call (s : sx) : option (call_args * list obs) :=
  match s with
  | Lv [a; os] => match get_args a, get_obs_list os with Some a', Some o => Some (a', o) | _, _ => None end
  | _ => None
  end.
Definition of_limits (l : limits) : sx :=
  Lv [of_Qc (l_tol l); Zv (l_min l); match l_max l with Some m => Lv [Zv m] | None => Lv [] end].
Definition of_leg_result (r : option (nat * dstate)) : sx :=
  match r with Some (p, d) => Lv [Zv (Z.of_nat p); of_dstate d true] | None => Lv [Zv (-1)] end.

Fixpoint qpoint (l : list Z) : FunCache.point :=
  match l with
  | n :: d :: r => Q2Qc (n # Z.to_pos d) :: qpoint r
  | _ => []
  end.
Definition get_dev (s : sx) : option dev :=
  match s with
  | Lv [Zv 0] => Some DvPerform
  | Lv [Zv 1; b] => match get_LLZ b with Some ps => Some (DvEval [OBatch (map qpoint ps)]) | None => None end
  | Lv [Zv 2; Zv b] => Some (DvRestart (negb (b =? 0)))
  | _ => None
  end.

(* sub 0: ((tol min max obs) ...)            -> state after every call
   sub 1: (tol min max obs)                  -> DimAdaptiveCombi loop
   sub 2: (norm ref|() integral)             -> global error estimate     (ref = (r1 r2 ...) wrapped: ((r..)) or ())
   sub 3: (norm ref integral)                -> StandardCombi difference
   sub 4: ((err evaluations) ...) (errs)     -> (benefits max_benefit total_error)
   sub 5: (batch ...) batch = (point ...)    -> distinct point counts
   sub 6 / 7: histories of calls with API arguments, see below *)
Definition entry_C13 (sub : Z) (a : sx) : sx :=
  match sub, a with
  | 0, Lv calls =>
      match opt_all (map get_call calls) with
      | Some cs => Lv (run_calls cs d_init)
      | None => sx_err 1
      end
  | 1, c =>
      match get_call c with
      | Some (lim, os) => let '(s', b) := dim_drive lim os d_init in of_dstate s' b
      | None => sx_err 1
      end
  | 2, Lv [Zv nm; ref; integral] =>
      match get_norm nm, get_LQc integral with
      | Some n, Some i =>
          match ref with
          | Lv [] => of_gerr (global_error n None i)
          | Lv [r] => match get_LQc r with Some r' => of_gerr (global_error n (Some r') i) | None => sx_err 3 end
          | _ => sx_err 3
          end
      | _, _ => sx_err 2
      end
  | 3, Lv [Zv nm; ref; integral] =>
      match get_norm nm, get_LQc ref, get_LQc integral with
      | Some n, Some r, Some i => of_Qc (std_difference n r i)
      | _, _, _ => sx_err 2
      end
  | 4, Lv [Lv objs] =>
      match benefits objs, opt_all (map (fun o => match o with Lv [e; _] => get_Qc e | _ => None end) objs) with
      | Some bs, Some es => Lv [of_LQc bs; of_Qc (max_benefit bs); of_Qc (total_error es)]
      | _, _ => sx_err 4
      end
  | 5, Lv batches =>
      match get_points batches with
      | Some bs => of_LZ (point_counts [] bs)
      | None => sx_err 5
      end
  | 6, Lv calls =>
      (* history on one object, every call with its arguments (defaults implicit) and ITS OWN observed stream:
         ((args obs) ...) -> ((limits state) ...) *)
      match opt_all (map get_api_call calls) with
      | Some cs => Lv (map (fun x => of_dstate (fst x) (snd x)) (api_run true cs d_init))
      | None => sx_err 6
      end
  | 7, Lv [Lv args; os] =>
      (* history on one object predicted from ONE underlying stream (the probe): (args ...) stream
         -> ((resolved limits ...) ((position state) | (-1)) per prefix of the history) *)
      match opt_all (map get_args args), get_obs_list os with
      | Some h, Some stream =>
          let lims := resolve_history true h in
          Lv [Lv (map of_limits lims); Lv (map of_leg_result (legs_prefixes (length lims) lims stream))]
      | _, _ => sx_err 7
      end
  | 8, Lv items =>
      (* history of one object as cache events: (0) performSpatiallyAdaptiv | (1 batch) one evaluation with the points the integrand
         was evaluated at (point = flat list num den num den ...) | (2 b) restart of recalculate_frequently (b = 1: cache emptied)
         -> (well-formed?  counts an independent observer of the integrand reports after every evaluation) *)
      match opt_all (map get_dev items) with
      | Some h => Lv [sx_bool (wf_history h); Lv (map (fun n => Zv (Z.of_nat n)) (evaluated_counts [] h))]
      | None => sx_err 8
      end
  | 9, Lv kvs =>
      (* solutions_storage: ((count result) ...) in evaluation order -> the dict ((count result) ...) *)
      match opt_all (map (fun x => match x with Lv [Zv k; r] => match get_LQc r with Some v => Some (k, v) | None => None end | _ => None end) kvs) with
      | Some l => Lv (map (fun kv => Lv [Zv (fst kv); of_LQc (snd kv)]) (storage_after l []))
      | None => sx_err 9
      end
  | _, _ => sx_err 0
  end.
