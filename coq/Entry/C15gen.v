(* Wire entry point of the SOURCE-DERIVED model of C15 (coq/Gen/UQGridGen.v).
   sub 0: (boundary mb a b (x ...) (m0 ...) (m1 ...)) -> (1 (w ...)) | (0)
          GlobalTrapezoidalGridWeighted.compute_weights as translated from the source; infinite grid points arrive as +-2^1024 *)
From Coq Require Import ZArith List Bool QArith Qcanon.
From SG Require Import Base.Sx Base.QcUtil Base.PyNumUQ Gen.UQGridGen.
Import ListNotations.
Open Scope Z_scope.

Definition entry_C15gen (sub : Z) (arg : sx) : sx :=
  match sub, arg with
  | 0, Lv [bd; mb; a; b; xs; m0; m1] =>
    match get_bool bd, get_bool mb, get_Qc a, get_Qc b, get_LQc xs, get_LQc m0, get_LQc m1 with
    | Some bd, Some mb, Some a, Some b, Some xs, Some m0, Some m1 =>
      match GlobalTrapezoidalGridWeighted_compute_weights xs a b m0 m1 bd mb with
      | Some w => Lv [Zv 1; of_LQc w]
      | None => Lv [Zv 0]
      end
    | _, _, _, _, _, _, _ => sx_err 1
    end
  | _, _ => sx_err 0
  end.
