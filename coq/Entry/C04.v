(* Wire entry points of the C04 model: exact combined integrals / interpolants of hierarchical hat functions (and of
   products of linear functions) on the states of a dimension-wise history (Model/DimWise.v, Model/DimWiseExact.v). *)
From Coq Require Import ZArith List Bool QArith Qcanon.
From SG Require Model.StdCombi.
From SG Require Import Base.Sx Base.QcUtil Model.CombiScheme Model.RefTree Model.DimWise Model.DimWiseInterp
     Model.DimWiseExact Model.DimWiseFast Model.DimWiseLinMod Model.DimWiseWire.
From SG Require Model.ExtendSplit Model.ESExact Model.CellScheme.
Import ListNotations.
Open Scope Z_scope.

Fixpoint states_of (o : dw_opts) (steps : list (list (list Qc))) (st : dw_state) : list (option dw_state) :=
  match steps with
  | [] => []
  | bens :: r =>
    if lengths_ok bens st then
      match dw_step o bens st with
      | Some st' => Some st' :: states_of o r st'
      | None => [None]
      end
    else [None]
  end.

(* "a rebalancing rotation changed the levels in some step so far": per step the trees after dw_step with the options of the
   history are compared with the trees after the same step with rebalancing switched off (rotations change levels only) *)
Definition no_rebal (o : dw_opts) : dw_opts :=
  mkOpts (o_version o) false (o_boundary o) (o_margin o) (o_dec o) (o_v3 o).
Definition ival_levels_eqb (x y : ival) : bool := (i_l0 x =? i_l0 y) && (i_l1 x =? i_l1 y).
Fixpoint list_eqb {A} (eqb : A -> A -> bool) (l1 l2 : list A) : bool :=
  match l1, l2 with
  | [], [] => true
  | x :: r1, y :: r2 => eqb x y && list_eqb eqb r1 r2
  | _, _ => false
  end.
Definition same_levels (s1 s2 : dw_state) : bool := list_eqb (list_eqb ival_levels_eqb) (st_trees s1) (st_trees s2).
Fixpoint rot_flags (o : dw_opts) (steps : list (list (list Qc))) (st : dw_state) (acc : bool) : list sx :=
  match steps with
  | [] => []
  | bens :: r =>
    if lengths_ok bens st then
      match dw_step o bens st, dw_step (no_rebal o) bens st with
      | Some st', Some st'' => let acc' := acc || negb (same_levels st' st'') in sx_bool acc' :: rot_flags o r st' acc'
      | _, _ => [sx_err 5]
      end
    else [sx_err 6]
  end.

Definition state_tab (o : dw_opts) (s : dw_state) : list (Z -> list Qc) :=
  ctab o s (st_lmin s) (Z.to_nat (list_max (st_lmax s) - st_lmin s + 1)).

(* sub 4: cell strategy (Model/CellScheme.v): (dim lmin a b rounds exponent-vectors) -> per state (container cells (start end levelvec active),
   size of cell_dict, integral of every monomial) ; rounds = the container positions refined in each refine() call *)
Definition of_cellobj (st : CellScheme.cstate) (k : ExtendSplit.box) : sx :=
  match CellScheme.find_cell k (CellScheme.cs_dict st) with
  | Some c => Lv [of_LQc (CellScheme.c_s c); of_LQc (CellScheme.c_e c); of_LZ (CellScheme.c_lv c); sx_bool (CellScheme.c_active c)]
  | None => sx_err 4
  end.
Definition of_cstate (st : CellScheme.cstate) (exps : list (list nat)) : sx :=
  Lv [ Lv (map (of_cellobj st) (CellScheme.cs_objs st));
       Zv (Z.of_nat (length (CellScheme.cs_dict st)));
       Lv (map (fun ex => match CellScheme.cell_integral st (CellScheme.monomial ex) with Some v => of_Qc v | None => sx_err 7 end) exps) ].
Fixpoint cell_states (st : CellScheme.cstate) (rounds : list (list nat)) : list CellScheme.cstate :=
  match rounds with [] => [] | r :: rs => let st' := CellScheme.refine_round st r in st' :: cell_states st' rs end.
Definition get_Lnat (s : sx) : option (list nat) := match get_LZ s with Some l => Some (map Z.to_nat l) | None => None end.
Definition get_LLnat (s : sx) : option (list (list nat)) := match s with Lv l => opt_all (map get_Lnat l) | _ => None end.

Definition of_optQc (v : option Qc) : sx := match v with Some q => of_Qc q | None => sx_err 7 end.
Definition of_hat (ji : lv * lv) : sx := Lv [of_LZ (fst ji); of_LZ (snd ji)].

Definition get_pairQ (s : sx) : option (Qc * Qc) :=
  match s with Lv [x; y] => match get_Qc x, get_Qc y with Some x, Some y => Some (x, y) | _, _ => None end | _ => None end.
Definition get_coefs (s : sx) : option (list (Qc * Qc)) :=
  match s with Lv l => opt_all (map get_pairQ l) | _ => None end.

(* extend-split areas as observed on the implementation: (start end ((levelvector coefficient) ...)) *)
Definition get_grid (s : sx) : option (lv * Z) :=
  match s with Lv [l; Zv c] => match get_LZ l with Some l => Some (l, c) | None => None end | _ => None end.
Definition get_area (s : sx) : option (ExtendSplit.box * list (lv * Z)) :=
  match s with
  | Lv [st; en; Lv gs] =>
    match get_LQc st, get_LQc en, opt_all (map get_grid gs) with
    | Some st, Some en, Some gs => Some ((st, en), gs)
    | _, _, _ => None
    end
  | _ => None
  end.

(* sub 2: (a b areas) -> (moments_additive (valid_local_combi per area) (es_integral per multilinear exponent vector)) *)
(* sub 0: (history points) -> (hats ((keeps integrals interpolants) per state))   [boundary from the history, modified basis off]
          integrals: one per hat; interpolants: per point, one per hat
   sub 3: history -> per state: has a rebalancing rotation changed the levels in some step so far
   sub 1: (history mb ((alpha beta) per dimension) per function) -> per state (lin_mod_okb, the combined integral of each product function) *)
Definition entry_C04 (sub : Z) (x : sx) : sx :=
  match sub, x with
  | 0, Lv [Lv (w :: dm :: Zv lmin :: Zv lmax :: rest) as h; pts] =>
    match decode_history h, get_LLQc pts with
    | inl (Some (_, o, a, b, steps, st)), Some pts =>
      let hats := initial_hats (st_dim st) lmin lmax (o_boundary o) in
      let one (s : option dw_state) : sx :=
        match s with
        | None => sx_err 5
        | Some s =>
          (* tabulated stripes: equal to dw_keeps_initial_space / dw_combi_integral / dw_combi_interp (Proofs/DimWiseFast.v) *)
          let tab := state_tab o s in
          let ints := map (fun ji => dw_combi_integral_fast o false s tab a b (hat_list a b (fst ji) (snd ji))) hats in
          Lv [ sx_bool (keeps_of a b hats ints);
               Lv (map of_optQc ints);
               Lv (map (fun p => Lv (map (fun ji => of_Qc (dw_combi_interp_fast o s tab a b (StdCombi.fun_hat a b (fst ji) (snd ji)) p)) hats)) pts) ]
        end in
      Lv [Lv (map of_hat hats); Lv (map one (Some st :: states_of o steps st))]
    | inr e, _ => sx_err e
    | _, _ => sx_err 2
    end
  | 1, Lv [h; mb; fns] =>
    match decode_history h, get_bool mb, get_L fns with
    | inl (Some (_, o, a, b, steps, st)), Some mb, Some fns =>
      match opt_all (map get_coefs fns) with
      | Some fns =>
        let one (s : option dw_state) : sx :=
          match s with
          | None => sx_err 5
          | Some s => let tab := state_tab o s in
                      Lv [ sx_bool (lin_mod_okb o s a b);
                           Lv (map (fun cf => of_optQc (dw_combi_integral_fast o mb s tab a b (lin_fns cf))) fns) ]
          end in
        Lv (map one (Some st :: states_of o steps st))
      | None => sx_err 3
      end
    | inr e, _, _ => sx_err e
    | _, _, _ => sx_err 2
    end
  | 2, Lv [a; b; Lv areas] =>
    match get_LQc a, get_LQc b, opt_all (map get_area areas) with
    | Some a, Some b, Some areas =>
      Lv [ sx_bool (ESExact.moments_additive a b (map fst areas));
           Lv (map (fun ar : ExtendSplit.box * list (lv * Z) => sx_bool (ExtendSplit.valid_local_combi (length a) (snd ar))) areas);
           Lv (map (fun exps => Lv [of_LZ (map Z.of_nat exps); of_Qc (ESExact.es_integral a b areas exps)])
                   (ESExact.multilinear_exps (length a))) ]
    | _, _, _ => sx_err 2
    end
  | 4, Lv [Zv dim; Zv lmin; a; b; rounds; exps] =>
    match get_LQc a, get_LQc b, get_LLnat rounds, get_LLnat exps with
    | Some a, Some b, Some rounds, Some exps =>
      let st0 := CellScheme.cell_init (Z.to_nat dim) lmin a b in
      Lv (map (fun st => of_cstate st exps) (st0 :: cell_states st0 rounds))
    | _, _, _, _ => sx_err 2
    end
  | 5, Lv [Zv dim; Zv lmin; a; b] =>      (* verified checker for the initial state of the cell strategy *)
    match get_LQc a, get_LQc b with
    | Some a, Some b => sx_bool (CellScheme.cell_init_okb (Z.to_nat dim) lmin a b)
    | _, _ => sx_err 2
    end
  | 3, h =>
    match decode_history h with
    | inl (Some (_, o, a, b, steps, st)) => Lv (sx_bool false :: rot_flags o steps st false)
    | inl None => sx_err 9
    | inr e => sx_err e
    end
  | _, _ => sx_err 0
  end.
