(* Wire entry points of the C04 model: exact combined integrals / interpolants of hierarchical hat functions (and of
   products of linear functions) on the states of a dimension-wise history (Model/DimWise.v, Model/DimWiseExact.v). *)
From Coq Require Import ZArith List Bool QArith Qcanon.
From SG Require Model.StdCombi.
From SG Require Import Base.Sx Base.QcUtil Model.CombiScheme Model.RefTree Model.DimWise Model.DimWiseInterp
     Model.DimWiseExact Model.DimWiseWire.
From SG Require Model.ExtendSplit Model.ESExact.
Import ListNotations.
Open Scope Z_scope.

Fixpoint states_of (o : dw_opts) (steps : list (list (list Qc))) (st : dw_state) : list (option dw_state) :=
  match steps with
  | [] => []
  | bens :: r =>
    if lengths_ok bens st then
      match dw_step o bens st with
      | Some st' => Some st' :: states_of o r st'
      | None => [None]
      end
    else [None]
  end.

Definition of_optQc (v : option Qc) : sx := match v with Some q => of_Qc q | None => sx_err 7 end.
Definition of_hat (ji : lv * lv) : sx := Lv [of_LZ (fst ji); of_LZ (snd ji)].

Definition lin_fns (coef : list (Qc * Qc)) : list (Qc -> Qc) := map (fun ab => fun t : Qc => (fst ab * t + snd ab)%Qc) coef.
Definition get_pairQ (s : sx) : option (Qc * Qc) :=
  match s with Lv [x; y] => match get_Qc x, get_Qc y with Some x, Some y => Some (x, y) | _, _ => None end | _ => None end.
Definition get_coefs (s : sx) : option (list (Qc * Qc)) :=
  match s with Lv l => opt_all (map get_pairQ l) | _ => None end.

(* extend-split areas as observed on the implementation: (start end ((levelvector coefficient) ...)) *)
Definition get_grid (s : sx) : option (lv * Z) :=
  match s with Lv [l; Zv c] => match get_LZ l with Some l => Some (l, c) | None => None end | _ => None end.
Definition get_area (s : sx) : option (ExtendSplit.box * list (lv * Z)) :=
  match s with
  | Lv [st; en; Lv gs] =>
    match get_LQc st, get_LQc en, opt_all (map get_grid gs) with
    | Some st, Some en, Some gs => Some ((st, en), gs)
    | _, _, _ => None
    end
  | _ => None
  end.

(* sub 2: (a b areas) -> (moments_additive (valid_local_combi per area) (es_integral per multilinear exponent vector)) *)
(* sub 0: (history points) -> (hats ((keeps integrals interpolants) per state))   [boundary from the history, modified basis off]
          integrals: one per hat; interpolants: per point, one per hat
   sub 1: (history mb ((alpha beta) per dimension) per function) -> per state the combined integral of each product function *)
Definition entry_C04 (sub : Z) (x : sx) : sx :=
  match sub, x with
  | 0, Lv [Lv (w :: dm :: Zv lmin :: Zv lmax :: rest) as h; pts] =>
    match decode_history h, get_LLQc pts with
    | inl (Some (_, o, a, b, steps, st)), Some pts =>
      let hats := initial_hats (st_dim st) lmin lmax (o_boundary o) in
      let one (s : option dw_state) : sx :=
        match s with
        | None => sx_err 5
        | Some s =>
          Lv [ sx_bool (dw_keeps_initial_space o s a b lmin lmax);
               Lv (map (fun ji => of_optQc (dw_combi_integral o false s a b (hat_list a b (fst ji) (snd ji)))) hats);
               Lv (map (fun p => Lv (map (fun ji => of_Qc (dw_combi_interp o s a b (StdCombi.fun_hat a b (fst ji) (snd ji)) p)) hats)) pts) ]
        end in
      Lv [Lv (map of_hat hats); Lv (map one (Some st :: states_of o steps st))]
    | inr e, _ => sx_err e
    | _, _ => sx_err 2
    end
  | 1, Lv [h; mb; fns] =>
    match decode_history h, get_bool mb, get_L fns with
    | inl (Some (_, o, a, b, steps, st)), Some mb, Some fns =>
      match opt_all (map get_coefs fns) with
      | Some fns =>
        let one (s : option dw_state) : sx :=
          match s with
          | None => sx_err 5
          | Some s => Lv (map (fun cf => of_optQc (dw_combi_integral o mb s a b (lin_fns cf))) fns)
          end in
        Lv (map one (Some st :: states_of o steps st))
      | None => sx_err 3
      end
    | inr e, _, _ => sx_err e
    | _, _, _ => sx_err 2
    end
  | 2, Lv [a; b; Lv areas] =>
    match get_LQc a, get_LQc b, opt_all (map get_area areas) with
    | Some a, Some b, Some areas =>
      Lv [ sx_bool (ESExact.moments_additive a b (map fst areas));
           Lv (map (fun ar : ExtendSplit.box * list (lv * Z) => sx_bool (ExtendSplit.valid_local_combi (length a) (snd ar))) areas);
           Lv (map (fun exps => Lv [of_LZ (map Z.of_nat exps); of_Qc (ESExact.es_integral a b areas exps)])
                   (ESExact.multilinear_exps (length a))) ]
    | _, _, _ => sx_err 2
    end
  | _, _ => sx_err 0
  end.
