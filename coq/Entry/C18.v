(* Wire entry points of the C18 model (DataSet operation sequences on a store of data sets). *)
From Coq Require Import ZArith List QArith Qcanon Bool.
From SG Require Import Base.Sx Base.QcUtil Model.DataSet Model.DataSetOff Model.DataSetStore.
Import ListNotations.
Open Scope Z_scope.

(* ---- codec ------------------------------------------------------------------------------------------- *)
Definition of_optrow (o : option row) : sx := match o with None => Lv [] | Some r => Lv [of_LQc r] end.
Definition of_rng (r : rng) : sx :=
  match r with RNone => Lv [] | RScalar lo hi => Lv [Zv 0; of_Qc lo; of_Qc hi] | RArr mn mx => Lv [Zv 1; of_LQc mn; of_LQc mx] end.
Definition of_fac (f : fac) : sx :=
  match f with FNone => Lv [] | FScalar q => Lv [Zv 0; of_Qc q] | FArr l => Lv [Zv 1; of_LQc l] end.
(* (values labels dim flat shuffled scaled range factor omin omax) *)
Definition of_ds (d : ds) : sx :=
  Lv [of_LLQc (values d); of_LZ (map snd (rows d)); Zv (Z.of_nat (ddim d)); sx_bool (flat d); sx_bool (shuffled d); sx_bool (scaled d);
      of_rng (srange d); of_fac (sfactor d); of_optrow (omin d); of_optrow (omax d)].

Definition get_optrow (s : sx) : option (option row) :=
  match s with
  | Lv [] => Some None
  | Lv [r] => match get_LQc r with Some r => Some (Some r) | None => None end
  | _ => None
  end.
Definition get_rng (s : sx) : option rng :=
  match s with
  | Lv [] => Some RNone
  | Lv [Zv 0; lo; hi] => match get_Qc lo, get_Qc hi with Some lo, Some hi => Some (RScalar lo hi) | _, _ => None end
  | Lv [Zv 1; mn; mx] => match get_LQc mn, get_LQc mx with Some mn, Some mx => Some (RArr mn mx) | _, _ => None end
  | _ => None
  end.
Definition get_fac (s : sx) : option fac :=
  match s with
  | Lv [] => Some FNone
  | Lv [Zv 0; q] => match get_Qc q with Some q => Some (FScalar q) | None => None end
  | Lv [Zv 1; l] => match get_LQc l with Some l => Some (FArr l) | None => None end
  | _ => None
  end.
Definition get_arg (s : sx) : option arg :=
  match s with
  | Lv [Zv 0; q] => match get_Qc q with Some q => Some (AScalar q) | None => None end
  | Lv [Zv 1; l] => match get_LQc l with Some l => Some (AArr l) | None => None end
  | _ => None
  end.
Definition get_ds (s : sx) : option ds :=
  match s with
  | Lv [vals; labs; Zv dm; fl; sh; sc; rg; fc; mn; mx] =>
    match get_LLQc vals, get_LZ labs, get_bool fl, get_bool sh, get_bool sc, get_rng rg, get_fac fc, get_optrow mn, get_optrow mx with
    | Some vals, Some labs, Some fl, Some sh, Some sc, Some rg, Some fc, Some mn, Some mx =>
      if Nat.eqb (length vals) (length labs) then Some (mkDS (combine vals labs) (Z.to_nat dm) fl sh sc rg fc mn mx) else None
    | _, _, _, _, _, _, _, _, _ => None
    end
  | Lv [vals; labs] =>
    match get_LLQc vals, get_LZ labs with
    | Some vals, Some labs => if Nat.eqb (length vals) (length labs) then Some (fresh (combine vals labs)) else None
    | _, _ => None
    end
  | _ => None
  end.
Definition get_Lnat (s : sx) : option (list nat) :=
  match get_LZ s with
  | Some l => if forallb (fun z => 0 <=? z) l then Some (map Z.to_nat l) else None
  | None => None
  end.

(* ---- store machine ----------------------------------------------------------------------------------- *)
Definition store := list ds.
Definition sget (st : store) (h : Z) : option ds := if h <? 0 then None else nth_error st (Z.to_nat h).
Definition sset (st : store) (h : Z) (d : ds) : store := upd (Z.to_nat h) d st.

Definition of_result (st : store) (h : Z) (r : result) : store * sx :=
  let '(d, e) := r in (sset st h d, Lv [sx_bool e; of_ds d]).

(* one operation: (code handle args...) -> (store', observation) *)
Definition step (v : variant) (st : store) (op : sx) : store * sx :=
  match op with
  | Lv (Zv code :: Zv h :: args) =>
    match sget st h with
    | None => (st, sx_err 10)
    | Some d =>
      match code, args with
      | 1, [lo; hi; ov] =>
        match get_Qc lo, get_Qc hi, get_bool ov with
        | Some lo, Some hi, Some ov => of_result st h (scale_range lo hi ov d)
        | _, _, _ => (st, sx_err 11)
        end
      | 2, [a; ov] =>
        match get_arg a, get_bool ov with
        | Some a, Some ov => of_result st h (scale_factor a ov d)
        | _, _ => (st, sx_err 12)
        end
      | 3, [a; ov] =>
        match get_arg a, get_bool ov with
        | Some a, Some ov => of_result st h (shift_value a ov d)
        | _, _ => (st, sx_err 13)
        end
      | 4, [] => of_result st h (revert_scaling d)
      | 5, [perm] =>
        match get_Lnat perm with
        | Some perm => of_result st h (shuffle_with perm d)
        | None => (st, sx_err 15)
        end
      | 6, [idx] =>
        match get_Lnat idx with
        | Some idx =>
          let '(d', e) := move_boundaries_to_front idx d in
          (sset st h d', Lv [sx_bool e; of_ds d'; sx_bool (same_index_set idx (boundary_idx d))])
        | None => (st, sx_err 16)
        end
      | 7, [] =>
        if update_internal_raises d && negb (is_empty d) then (st, Lv [Zv 1]) else
        let ps := split_labels d in
        (st ++ ps, Lv [Zv 0; of_LZ (distinct_labels (rows d)); Lv (map of_ds ps)])
      | 8, [p] =>
        match get_Qc p with
        | Some p => if update_internal_raises d then (st, Lv [Zv 1]) else
                    let '(a, b) := split_pieces p d in (st ++ [a; b], Lv [Zv 0; of_ds a; of_ds b])
        | None => (st, sx_err 18)
        end
      | 9, [] => if update_internal_raises d then (st, Lv [Zv 1]) else
                 let '(a, b) := split_without_labels d in (st ++ [a; b], Lv [Zv 0; of_ds a; of_ds b])
      | 10, [idx] =>
        match get_LZ idx with
        | Some idx =>
          match remove_samples v idx d with
          | (d', Some r) => (sset st h d' ++ [r], Lv [Zv 0; of_ds d'; of_ds r])
          | (d', None) => (sset st h d', Lv [Zv 1; of_ds d'])
          end
        | None => (st, sx_err 20)
        end
      | 11, [Zv h2] =>
        match sget st h2 with
        | Some d2 =>
          match concatenate v d d2 with
          | CNew r => (st ++ [r], Lv [Zv 0; Zv 0; of_ds r])
          | CSelf => (st, Lv [Zv 0; Zv 1])
          | COther => (st, Lv [Zv 0; Zv 2])
          | CRaise => (st, Lv [Zv 1])
          end
        | None => (st, sx_err 10)
        end
      | 12, [Zv h2] =>
        match sget st h2 with
        | Some d2 => (st, match same_scaling v d d2 with Some b => Lv [Zv 0; sx_bool b] | None => Lv [Zv 1] end)
        | None => (st, sx_err 10)
        end
      | 13, [snap] =>      (* harness-directed replacement of a stored data set (after implementation-side interference) *)
        match get_ds snap with
        | Some d' => (sset st h d', Lv [Zv 0])
        | None => (st, sx_err 23)
        end
      | _, _ => (st, sx_err 1)
      end
    end
  | _ => (st, sx_err 2)
  end.

Fixpoint run (v : variant) (st : store) (ops : list sx) : list sx :=
  match ops with
  | [] => []
  | op :: r => let '(st', o) := step v st op in o :: run v st' r
  end.

(* ==== deepening round: store machine over data sets WITH the accumulated offset (Model/DataSetOff.v) =====================
   snapshot = the 10 fields of of_ds followed by the offset; variant = (dedup fullcmp offset refuse);
   additional operations: 14 copy, 15 remove_labels, 16 getters. *)
Definition of_dso (d : dso) : sx :=
  match of_ds (base d) with
  | Lv l => Lv (l ++ [of_fac (soff d)])
  | s => s
  end.
Definition get_dso (s : sx) : option dso :=
  match s with
  | Lv [vals; labs; dm; fl; sh; sc; rg; fc; mn; mx; off] =>
    match get_ds (Lv [vals; labs; dm; fl; sh; sc; rg; fc; mn; mx]), get_fac off with
    | Some b, Some o => Some (mkDSO b o)
    | _, _ => None
    end
  | Lv [vals; labs] => match get_ds s with Some b => Some (mkDSO b FNone) | None => None end
  | _ => None
  end.

Definition store2 := list dso.
Definition sget2 (st : store2) (h : Z) : option dso := if h <? 0 then None else nth_error st (Z.to_nat h).
Definition sset2 (st : store2) (h : Z) (d : dso) : store2 := upd (Z.to_nat h) d st.
Definition of_result2 (st : store2) (h : Z) (r : result_o) : store2 * sx :=
  let '(d, e) := r in (sset2 st h d, Lv [sx_bool e; of_dso d]).

(* wire operation -> operation of the store machine (Model/DataSetStore.v); None: not a store operation (12 same_scaling, 13 resync,
   16 getters) or malformed *)
Definition dec_op (op : sx) : option sop :=
  match op with
  | Lv (Zv code :: Zv h :: args) =>
    if h <? 0 then None else
    let n := Z.to_nat h in
    match code, args with
    | 1, [lo; hi; ov] =>
      match get_Qc lo, get_Qc hi, get_bool ov with Some lo, Some hi, Some ov => Some (SRange n lo hi ov) | _, _, _ => None end
    | 2, [a; ov] => match get_arg a, get_bool ov with Some a, Some ov => Some (SFactor n a ov) | _, _ => None end
    | 3, [a; ov] => match get_arg a, get_bool ov with Some a, Some ov => Some (SShift n a ov) | _, _ => None end
    | 4, [] => Some (SRevert n)
    | 5, [perm] => match get_Lnat perm with Some perm => Some (SShuffle n perm) | None => None end
    | 6, [idx] => match get_Lnat idx with Some idx => Some (SMbf n idx) | None => None end
    | 7, [] => Some (SSplitLabels n)
    | 8, [p] => match get_Qc p with Some p => Some (SSplitPieces n p) | None => None end
    | 9, [] => Some (SSplitWL n)
    | 10, [idx] => match get_LZ idx with Some idx => Some (SRemove n idx) | None => None end
    | 11, [Zv h2] => if h2 <? 0 then None else Some (SConcat n (Z.to_nat h2))
    | 14, [] => Some (SCopy n)
    | 15, [p; idx] => match get_Qc p, get_Lnat idx with Some p, Some idx => Some (SRemoveLabels n p idx) | _, _ => None end
    | 17, [order] => match get_LZ order with Some order => Some (SOneVsOthers n order) | None => None end
    | _, _ => None
    end
  | _ => None
  end.

Definition of_ovo_set (s : list (row * Qc)) : sx := Lv [of_LLQc (map fst s); of_LQc (map snd s)].

(* the observation of a store operation: its result (sres) plus the verified-checker bits computed on the state BEFORE the call *)
Definition obs_of (st : store2) (o : sop) (r : sres) : sx :=
  match r with
  | RNoHandle => sx_err 10
  | RState e d' =>
    match o with
    | SMbf h idx =>
      match nth_error st h with
      | Some d => Lv [sx_bool e; of_dso d'; sx_bool (same_index_set idx (boundary_idx (base d)))]
      | None => sx_err 10
      end
    | SRemoveLabels h p idx =>
      match nth_error st h with
      | Some d => Lv [sx_bool e; of_dso d'; sx_bool (e || labels_idx_ok p idx (base d))]
      | None => sx_err 10
      end
    | _ => Lv [sx_bool e; of_dso d']
    end
  | RRaise => Lv [Zv 1]
  | RSets l =>
    match o with
    | SSplitLabels h =>
      match nth_error st h with
      | Some d => Lv [Zv 0; of_LZ (distinct_labels (rows (base d))); Lv (map of_dso l)]
      | None => sx_err 10
      end
    | _ => Lv (Zv 0 :: map of_dso l)
    end
  | RRemoved d' (Some r') => Lv [Zv 0; of_dso d'; of_dso r']
  | RRemoved d' None => Lv [Zv 1; of_dso d']
  | RConcat (CNewO r') => Lv [Zv 0; Zv 0; of_dso r']
  | RConcat CSelfO => Lv [Zv 0; Zv 1]
  | RConcat COtherO => Lv [Zv 0; Zv 2]
  | RConcat CRaiseO => Lv [Zv 1]
  | ROvo None =>
    match o with
    | SOneVsOthers h order => match nth_error st h with Some d => Lv [Zv 1; Lv []; sx_bool (label_order_ok order (base d))] | None => sx_err 10 end
    | _ => sx_err 1
    end
  | ROvo (Some sets) =>
    match o with
    | SOneVsOthers h order =>
      match nth_error st h with Some d => Lv [Zv 0; Lv (map of_ovo_set sets); sx_bool (label_order_ok order (base d))] | None => sx_err 10 end
    | _ => sx_err 1
    end
  end.

(* read-only / harness-directed wire operations that are not operations of the store machine *)
Definition step_other (v : variant2) (st : store2) (op : sx) : store2 * sx :=
  match op with
  | Lv (Zv code :: Zv h :: args) =>
    match sget2 st h with
    | None => (st, sx_err 10)
    | Some d =>
      match code, args with
      | 12, [Zv h2] =>
        match sget2 st h2 with
        | Some d2 => (st, match same_scaling (v_base v) (base d) (base d2) with Some b => Lv [Zv 0; sx_bool b] | None => Lv [Zv 1] end)
        | None => (st, sx_err 10)
        end
      | 13, [snap] =>      (* harness-directed replacement of a stored data set (after implementation-side interference) *)
        match get_dso snap with
        | Some d' => (sset2 st h d', Lv [Zv 0])
        | None => (st, sx_err 23)
        end
      | 16, [] =>          (* getters: (min max length labels number_labels has_labelless is_empty) *)
        (st, Lv [of_optrow (data_min (values (base d))); of_optrow (data_max (values (base d))); Zv (Z.of_nat (get_length (base d)));
                 of_LZ (get_labels_sorted (base d)); Zv (Z.of_nat (get_number_labels (base d))); sx_bool (has_labelless (base d));
                 sx_bool (is_empty (base d))])
      | _, _ => (st, sx_err 1)
      end
    end
  | _ => (st, sx_err 2)
  end.

(* one wire operation: the store evolves by sstep_res of Model/DataSetStore.v - the machine of the history theorems *)
Definition step2 (v : variant2) (st : store2) (op : sx) : store2 * sx :=
  match dec_op op with
  | Some o => let '(st', r) := sstep_res v st o in (st', obs_of st o r)
  | None => step_other v st op
  end.

Fixpoint run2 (v : variant2) (st : store2) (ops : list sx) : list sx :=
  match ops with
  | [] => []
  | op :: r => let '(st', o) := step2 v st op in o :: run2 v st' r
  end.

(* sub 0: ((dataset ...) (op ...) (dedup fullcmp)) -> (observation ...)                [first release, kept]
   sub 1: ((dataset-with-offset ...) (op ...) (dedup fullcmp offset refuse)) -> (observation ...) *)
Definition entry_C18 (sub : Z) (a : sx) : sx :=
  match sub, a with
  | 0, Lv [Lv inits; Lv ops; Lv [vd; vf]] =>
    match opt_all (map get_ds inits), get_bool vd, get_bool vf with
    | Some st, Some vd, Some vf => Lv (run (mkVariant vd vf) st ops)
    | _, _, _ => sx_err 3
    end
  | 1, Lv [Lv inits; Lv ops; Lv [vd; vf; vo; vr]] =>
    match opt_all (map get_dso inits), get_bool vd, get_bool vf, get_bool vo, get_bool vr with
    | Some st, Some vd, Some vf, Some vo, Some vr => Lv (run2 (mkV2 (mkVariant vd vf) vo vr) st ops)
    | _, _, _, _, _ => sx_err 3
    end
  | _, _ => sx_err 0
  end.
