(* Wire entry points of the C18 model (stub until the model is built). *)
From Coq Require Import ZArith List.
From SG Require Import Base.Sx.
Open Scope Z_scope.
Definition entry_C18 (sub : Z) (a : sx) : sx := sx_err 0.
