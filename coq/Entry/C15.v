(* Wire entry points of the C15 model (weighted UQ quadrature). *)
From Coq Require Import ZArith List Bool QArith Qcanon.
From SG Require Import Base.Sx Base.QcUtil Model.Trap Model.UQ Model.UQGrid.
Import ListNotations.
Open Scope Z_scope.

(* extended reals: (0 q) finite, (1) +inf, (-1) -inf *)
Definition get_ext (s : sx) : option ext :=
  match s with
  | Lv [Zv 0; q] => match get_Qc q with Some q => Some (Fin q) | None => None end
  | Lv [Zv 1] => Some PosInf
  | Lv [Zv (-1)] => Some NegInf
  | _ => None
  end.
Definition of_ext (e : ext) : sx :=
  match e with Fin q => Lv [Zv 0; of_Qc q] | PosInf => Lv [Zv 1] | NegInf => Lv [Zv (-1)] end.

Definition get_ival (s : sx) : option ival :=
  match s with
  | Lv [x1; x2; m0; m1] =>
    match get_ext x1, get_ext x2, get_Qc m0, get_Qc m1 with
    | Some x1, Some x2, Some m0, Some m1 => Some {| i_x1 := x1; i_x2 := x2; i_m0 := m0; i_m1 := m1 |}
    | _, _, _, _ => None
    end
  | _ => None
  end.

Definition of_opt_list (o : option (list Qc)) : sx :=
  match o with Some w => Lv [Zv 1; of_LQc w] | None => Lv [Zv 0] end.

Definition of_ivals (l : list ival) : sx :=
  Lv (map (fun iv => Lv [of_Qc (i_m0 iv); of_Qc (i_m1 iv)]) l).

(* sub 0: (boundary mb a b ((x1 x2 m0 m1) ...)) -> (1 (w ...)) | (0)   compute_weights with the moments the implementation saw (a, b used by the modified basis only)
   sub 1: (boundary a b (x ...))           -> ((1 (w ...)) | (0)) ((m0 m1) ...)   uniform distribution in closed form
   sub 2: (boundary a c b (x ...))         -> same for the triangle distribution
   sub 3: (a b (x ...))                    -> (1 (w ...)) | (0)     modified basis (uniform only)
   sub 4: (a b mid0)                       -> (1 mid) | (0)          get_middle_weighted, 0 = NaN
   sub 5: ((mom ...))                      -> ((E ...) (Var ...))    calculate_expectation_and_variance on the combined integral
   sub 6: (boundary mb ((a b ivs) ...))    -> (1 ((w ...) ...) (tw ...)) | (0)   set_grid of a d-dimensional grid: self.weights per dimension and get_weights
   sub 7: (boundary ((coeff ((a b ivs) ...)) ...)) -> (1 (W ...)) | (0)        get_points_and_weights of the combination: combined weights
   sub 8: (K (w ...) ((v ...) ...))        -> ((integral ...) ((E ...) (Var ...)) ((E ...) (Var ...)))   integral of the expectation-variance function
                                              over the rule, calculate_expectation_and_variance through the combined integral and through nodes/weights *)
Definition get_dimreq (s : sx) : option dimreq :=
  match s with
  | Lv [a; b; Lv ivs] =>
    match get_Qc a, get_Qc b, opt_all (map get_ival ivs) with
    | Some a, Some b, Some ivs => Some {| d_a := a; d_b := b; d_ivs := ivs |}
    | _, _, _ => None
    end
  | _ => None
  end.
Definition get_dims (s : sx) : option (list dimreq) :=
  match s with Lv l => opt_all (map get_dimreq l) | _ => None end.
Definition get_comp (s : sx) : option (Qc * list dimreq) :=
  match s with
  | Lv [c; dims] => match get_Qc c, get_dims dims with Some c, Some dims => Some (c, dims) | _, _ => None end
  | _ => None
  end.
Definition of_ev (p : list Qc * list Qc) : sx := Lv [of_LQc (fst p); of_LQc (snd p)].
Definition entry_C15 (sub : Z) (arg : sx) : sx :=
  match sub, arg with
  | 0, Lv [bd; mb; a; b; Lv ivs] =>
    match get_bool bd, get_bool mb, get_Qc a, get_Qc b, opt_all (map get_ival ivs) with
    | Some bd, Some mb, Some a, Some b, Some ivs => of_opt_list (wtrap bd mb a b ivs)
    | _, _, _, _, _ => sx_err 1
    end
  | 1, Lv [bd; a; b; xs] =>
    match get_bool bd, get_Qc a, get_Qc b, get_LQc xs with
    | Some bd, Some a, Some b, Some xs => Lv [of_opt_list (wtrap bd false a b (uni_ivals a b xs)); of_ivals (uni_ivals a b xs)]
    | _, _, _, _ => sx_err 1
    end
  | 2, Lv [bd; a; c; b; xs] =>
    match get_bool bd, get_Qc a, get_Qc c, get_Qc b, get_LQc xs with
    | Some bd, Some a, Some c, Some b, Some xs =>
      Lv [of_opt_list (wtrap bd false a b (tri_ivals a c b xs)); of_ivals (tri_ivals a c b xs)]
    | _, _, _, _, _ => sx_err 1
    end
  | 3, Lv [a; b; xs] =>
    match get_Qc a, get_Qc b, get_LQc xs with
    | Some a, Some b, Some xs => of_opt_list (wtrap_modified xs a b)
    | _, _, _ => sx_err 1
    end
  | 4, Lv [a; b; m] =>
    match get_ext a, get_ext b, get_ext m with
    | Some a, Some b, Some m =>
      match get_middle_weighted a b m with Some r => Lv [Zv 1; of_ext r] | None => Lv [Zv 0] end
    | _, _, _ => sx_err 1
    end
  | 5, Lv [moms] =>
    match get_LQc moms with
    | Some ms => let '(e, v) := expectation_and_variance ms in Lv [of_LQc e; of_LQc v]
    | None => sx_err 1
    end
  | 6, Lv [bd; mb; dims] =>
    match get_bool bd, get_bool mb, get_dims dims with
    | Some bd, Some mb, Some dims =>
      match set_grid_weights bd mb dims with
      | Some ws => Lv [Zv 1; of_LLQc ws; of_LQc (tensor_weights ws)]
      | None => Lv [Zv 0]
      end
    | _, _, _ => sx_err 1
    end
  | 7, Lv [bd; Lv comps] =>
    match get_bool bd, opt_all (map get_comp comps) with
    | Some bd, Some comps => of_opt_list (combined_weights_req bd comps)
    | _, _ => sx_err 1
    end
  | 8, Lv [Zv k; w; vals] =>
    match get_LQc w, get_LLQc vals with
    | Some w, Some vals =>
      let K := Z.to_nat k in
      Lv [of_LQc (integrate_rule (K + K) w (map ev_function vals)); of_ev (ev_combi K w vals); of_ev (ev_nodes K w vals)]
    | _, _ => sx_err 1
    end
  | _, _ => sx_err 0
  end.
