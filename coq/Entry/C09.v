(* Wire entry points of the C09 model (global adaptive 1D trapezoidal rule, moment checker). *)
From Coq Require Import ZArith List Bool QArith Qcanon.
From SG Require Import Base.Sx Base.QcUtil Model.Trap Model.Basis Model.LagrangeQuad Model.SimpsonGlobal.
Import ListNotations.
Open Scope Z_scope.

Definition of_opt_weights (o : option (list Qc)) : sx :=
  match o with Some w => Lv [Zv 1; of_LQc w] | None => Lv [Zv 0] end.

Definition of_grid (o : option grid1d) : sx :=
  match o with
  | Some g => Lv [Zv 1; of_LQc (g_coords g); of_LQc (g_weights g); of_LZ (g_levels g); Zv (Z.of_nat (g_num_points g))]
  | None => Lv [Zv 0]
  end.

(* one dimension of sub 3: (a b xs levels coeffs) *)
Definition dim_quad (boundary mb : bool) (s : sx) : option Qc :=
  match s with
  | Lv [a; b; xs; lv; cs] =>
    match get_Qc a, get_Qc b, get_LQc xs, get_LZ lv, get_LQc cs with
    | Some a, Some b, Some xs, Some lv, Some cs =>
      match set_grid_1d boundary mb a b xs lv with
      | Some g => Some (quad1 (g_weights g) (g_coords g) (poly_eval cs))
      | None => None
      end
    | _, _, _, _, _ => None
    end
  | _ => None
  end.

Fixpoint prodQ (l : list Qc) : Qc := match l with [] => 1%Qc | x :: r => (x * prodQ r)%Qc end.

(* sub 0: (mb a b (x ...))                         -> (1 (w ...)) | (0)      compute_weights
   sub 1: (boundary mb a b (x ...) (level ...))    -> (1 coords weights levels numPoints) | (0)   set_grid, one dimension
   sub 2: ((p ...) (w ...) a b (tol ...))           -> (ok (residual ...) nonneg)   verified checker moments_ok
   sub 3: (boundary mb ((a b xs levels coeffs) ...)) -> (1 value) | (0)       tensor rule applied to a product of polynomials
   sub 4: (p boundary mb a b (x ...) (level ...))   -> (1 (w ...)) | (0)      GlobalLagrangeGrid: effective nodal weights
                                                                              (integrate of the one-hot vectors: knot selection, exact
                                                                              hierarchisation, formal integrals of the basis functions)
   sub 5: ((x ...))                                 -> (1 (w ...)) | (0)      GlobalSimpsonGrid weights, odd number of points *)
Definition entry_C09 (sub : Z) (arg : sx) : sx :=
  match sub, arg with
  | 0, Lv [mb; a; b; xs] =>
    match get_bool mb, get_Qc a, get_Qc b, get_LQc xs with
    | Some mb, Some a, Some b, Some xs => of_opt_weights (compute_weights xs a b mb)
    | _, _, _, _ => sx_err 1
    end
  | 1, Lv [bd; mb; a; b; xs; lv] =>
    match get_bool bd, get_bool mb, get_Qc a, get_Qc b, get_LQc xs, get_LZ lv with
    | Some bd, Some mb, Some a, Some b, Some xs, Some lv => of_grid (set_grid_1d bd mb a b xs lv)
    | _, _, _, _, _, _ => sx_err 1
    end
  | 2, Lv [ps; ws; a; b; tols] =>
    match get_LQc ps, get_LQc ws, get_Qc a, get_Qc b, get_LQc tols with
    | Some ps, Some ws, Some a, Some b, Some tols =>
      Lv [sx_bool (moments_ok ps ws a b tols);
          of_LQc (map (moment_residual ps ws a b) (seq 0 (length tols)));
          sx_bool (all_nonneg ws)]
    | _, _, _, _, _ => sx_err 1
    end
  | 3, Lv [bd; mb; Lv dims] =>
    match get_bool bd, get_bool mb with
    | Some bd, Some mb =>
      match opt_all (map (dim_quad bd mb) dims) with
      | Some qs => Lv [Zv 1; of_Qc (prodQ qs)]
      | None => Lv [Zv 0]
      end
    | _, _ => sx_err 1
    end
  | 4, Lv [p; bd; mb; a; b; xs; lv] =>
    match get_Z p, get_bool bd, get_bool mb, get_Qc a, get_Qc b, get_LQc xs, get_LZ lv with
    | Some p, Some bd, Some mb, Some a, Some b, Some xs, Some lv =>
      of_opt_weights (lagrange_nodal_weights (Z.to_nat p) bd mb a b xs (map Z.to_nat lv))
    | _, _, _, _, _, _, _ => sx_err 1
    end
  | 5, Lv [xs] =>
    match get_LQc xs with
    | Some xs => of_opt_weights (simpson_weights xs)
    | None => sx_err 1
    end
  | _, _ => sx_err 0
  end.
