(* Wire entry points of the C11 model (Romberg extrapolation grids). *)
From Coq Require Import ZArith List Bool QArith Qcanon.
From SG Require Import Base.Sx Base.QcUtil Model.Romberg Model.RombergContainers.
Import ListNotations.
Open Scope Z_scope.

Definition get_nat (s : sx) : option nat :=
  match s with Zv z => if z <? 0 then None else Some (Z.to_nat z) | _ => None end.
Definition get_Lnat (s : sx) : option (list nat) :=
  match s with Lv l => opt_all (map get_nat l) | _ => None end.
Definition of_Lnat (l : list nat) : sx := Lv (map (fun n => Zv (Z.of_nat n)) l).

Definition dec_grouping (z : Z) : option grouping :=
  match z with 1 => Some G_Unit | 2 => Some G_Grouped | 3 => Some G_Optimized | _ => None end.
Definition dec_slice_version (z : Z) : option slice_version :=
  match z with 1 => Some SV_Romberg | 2 => Some SV_Trapezoid | _ => None end.
Definition dec_container_version (z : Z) : option container_version :=
  match z with 1 => Some CV_Default | 4 => Some CV_Simpson | _ => None end.

Definition of_pairs (l : list (Qc * Qc)) : sx := Lv (map (fun p => Lv [of_Qc (fst p); of_Qc (snd p)]) l).

Definition opt_sx (o : option sx) : sx := match o with Some s => s | None => sx_err 1 end.

(* sub 0: (grouping slice_version container_version force grid levels) -> (grid levels container_sizes weights dict_keys) | err 1 (assert)
   sub 1: (grid levels) -> (balanced_weights keys_in_grid_checker) | err 1
   sub 2: (grid levels) -> ((grid levels) (full_grid full_levels)) | err 1      GridBinaryTree
   sub 3: (a b version m) -> (boundary (inner_1..inner_m) (c_m0..c_mm))          RombergWeightFactory
   sub 4: (grid levels) -> support sequences of all slices (no asserts)
   sub 5: (grouping slice_version container_version force grid levels) -> (grid levels container_sizes weights dict_keys containers) | err 1
          the pipeline on container OBJECTS (Model/RombergContainers.v); one entry per container:
          (left_point right_point max_level minimal_step_width ((l r) ... of its slices) normalized_levels), attributes as (v) or () = None *)
Definition of_optQc (o : option Qc) : sx := match o with Some x => Lv [of_Qc x] | None => Lv [] end.
Definition of_optnat (o : option nat) : sx := match o with Some n => Lv [Zv (Z.of_nat n)] | None => Lv [] end.
Definition of_cont (c : cont) : sx :=
  Lv [of_optQc (c_left c); of_optQc (c_right c); of_optnat (c_max_level c); of_optQc (c_min_step c);
      Lv (map (fun s => Lv [of_Qc (sl_l s); of_Qc (sl_r s)]) (c_slices c));
      (* get_normalized_grid_levels(): the grid levels of a unit container, the positional levels otherwise *)
      of_Lnat (match c_slices c with
               | [s] => [sl_ll s; sl_rl s]
               | sl => normalized_levels (S (length sl))
               end)].

Definition entry_C11 (sub : Z) (a : sx) : sx :=
  match sub, a with
  | 0, Lv [Zv g; Zv sv; Zv cv; f; grid; levels] =>
    match dec_grouping g, dec_slice_version sv, dec_container_version cv, get_bool f, get_LQc grid, get_Lnat levels with
    | Some g, Some sv, Some cv, Some f, Some grid, Some levels =>
      match extrapolation_grid g sv cv f grid levels with
      | Some r => Lv [of_LQc (er_grid r); of_Lnat (er_levels r); of_Lnat (er_container_sizes r); of_LQc (er_weights r);
                      of_LQc (map fst (er_dict r))]
      | None => sx_err 1
      end
    | _, _, _, _, _, _ => sx_err 2
    end
  | 1, Lv [grid; levels] =>
    match get_LQc grid, get_Lnat levels with
    | Some grid, Some levels =>
      match balanced_weights grid levels, balanced_dict grid levels with
      | Some w, Some d => Lv [of_LQc w; sx_bool (keys_in_grid d grid)]
      | _, _ => sx_err 1
      end
    | _, _ => sx_err 2
    end
  | 2, Lv [grid; levels] =>
    match get_LQc grid, get_Lnat levels with
    | Some grid, Some levels =>
      match init_tree grid levels with
      | Some t =>
        let a := nthQ grid 0 in let b := nthQ grid (length grid - 1) in
        let g0 := tree_grid a b t in let g1 := tree_grid a b (force_full t) in
        Lv [Lv [of_LQc (fst g0); of_Lnat (snd g0)]; Lv [of_LQc (fst g1); of_Lnat (snd g1)]]
      | None => sx_err 1
      end
    | _, _ => sx_err 2
    end
  | 3, Lv [qa; qb; Zv version; m] =>
    match get_Qc qa, get_Qc qb, get_nat m with
    | Some a, Some b, Some m =>
      match version with
      | 3 => Lv [of_Qc (simpson_boundary_weight a b m);
                 Lv (map (fun l => opt_sx (option_map of_Qc (simpson_inner_weight a b l m))) (seq 1 m));
                 of_LQc (map (romberg_coefficient_from simpson_min_level a b 3 m) (seq 0 (S m)))]
      | 1 | 2 =>
        let e := match version with 1 => 2%nat | _ => 1%nat end in
        Lv [of_Qc (trap_boundary_weight a b e m);
            Lv (map (fun l => opt_sx (option_map of_Qc (trap_inner_weight a b e l m))) (seq 1 m));
            of_LQc (map (romberg_coefficient a b e m) (seq 0 (S m)))]
      | _ => sx_err 2
      end
    | _, _, _ => sx_err 2
    end
  | 4, Lv [grid; levels] =>
    match get_LQc grid, get_Lnat levels with
    | Some grid, Some levels =>
      Lv (map (fun i => of_pairs (support_sequence grid levels i)) (seq 0 (length grid - 1)))
    | _, _ => sx_err 2
    end
  | 5, Lv [Zv g; Zv sv; Zv cv; f; grid; levels] =>
    match dec_grouping g, dec_slice_version sv, dec_container_version cv, get_bool f, get_LQc grid, get_Lnat levels with
    | Some g, Some sv, Some cv, Some f, Some grid, Some levels =>
      match extrapolation_grid_obj g sv cv f grid levels with
      | Some (r, cs) => Lv [of_LQc (er_grid r); of_Lnat (er_levels r); of_Lnat (er_container_sizes r); of_LQc (er_weights r);
                            of_LQc (map fst (er_dict r)); Lv (map of_cont cs)]
      | None => sx_err 1
      end
    | _, _, _, _, _, _ => sx_err 2
    end
  | _, _ => sx_err 0
  end.
