(* Wire entry points of the C10 model (hierarchical bases, hierarchisation, interpolation, checkers). *)
From Coq Require Import ZArith List QArith Qcanon Bool Arith.
From SG Require Import Base.Sx Base.QcUtil Model.Basis Model.BasisPieces Model.BasisTree.
Import ListNotations.
Open Scope Z_scope.

Definition zn (z : Z) : nat := Z.to_nat z.
Definition get_Ln (s : sx) : option (list nat) :=
  match get_LZ s with Some l => Some (map Z.to_nat l) | None => None end.

(* basis objects on the wire:
   (0 knots idx) LagrangeBasis | (1 knots idx) Restricted | (2 p knots idx a b level) RestrictedModified
   (3 p knots k) BSpline | (4 p idx level knots) HierarchicalNotAKnotBSpline | (5 p idx level knots a b) ...Modified *)
Definition get_basis (s : sx) : option basis :=
  match s with
  | Lv [Zv 0; ks; Zv i] => match get_LQc ks with Some k => Some (BLag k (zn i)) | None => None end
  | Lv [Zv 1; ks; Zv i] => match get_LQc ks with Some k => Some (BRLag k (zn i)) | None => None end
  | Lv [Zv 2; Zv p; ks; Zv i; a; b; Zv l] =>
    match get_LQc ks, get_Qc a, get_Qc b with
    | Some k, Some a, Some b => Some (BRLagMod (zn p) k (zn i) a b (zn l))
    | _, _, _ => None
    end
  | Lv [Zv 3; Zv p; ks; Zv i] => match get_LQc ks with Some k => Some (BBsp (zn p) k (zn i)) | None => None end
  | Lv [Zv 4; Zv p; Zv i; Zv l; ks] => match get_LQc ks with Some k => Some (BNak (zn p) (zn i) (zn l) k) | None => None end
  | Lv [Zv 5; Zv p; Zv i; Zv l; ks; a; b] =>
    match get_LQc ks, get_Qc a, get_Qc b with
    | Some k, Some a, Some b => Some (BNakMod (zn p) (zn i) (zn l) k a b)
    | _, _, _ => None
    end
  | _ => None
  end.

Definition zN (n : nat) : sx := Zv (Z.of_nat n).
Definition of_basis (b : basis) : sx :=
  match b with
  | BLag k i => Lv [Zv 0; of_LQc k; zN i]
  | BRLag k i => Lv [Zv 1; of_LQc k; zN i]
  | BRLagMod p k i a b l => Lv [Zv 2; zN p; of_LQc k; zN i; of_Qc a; of_Qc b; zN l]
  | BBsp p k i => Lv [Zv 3; zN p; of_LQc k; zN i]
  | BNak p i l k => Lv [Zv 4; zN p; zN i; zN l; of_LQc k]
  | BNakMod p i l k a b => Lv [Zv 5; zN p; zN i; zN l; of_LQc k; of_Qc a; of_Qc b]
  end.

(* one dimension of a grid:
   (0 p boundary modified a b pts levs)   GlobalLagrangeGrid
   (1 p boundary modified a b pts levs)   GlobalBSplineGrid
   (2 p boundary modified a b s e L)      LagrangeGrid (local; boundary only)
   (3 p boundary modified a b s e L)      BSplineGrid (local)
   result: the 1-D system, the levels of its points (for the order), and whether it is a Lagrange system *)
Definition build_dim (s : sx) : option (list (Qc * basis) * list nat * bool) :=
  match s with
  | Lv [Zv kind; Zv p; bnd; md; a; b; pts; levs] =>
    match get_bool bnd, get_bool md, get_Qc a, get_Qc b, get_LQc pts, get_Ln levs with
    | Some bnd, Some md, Some a, Some b, Some pts, Some levs =>
      if (length pts =? length levs)%nat then
        match kind with
        | 0 => match lagrange_system (zn p) bnd md a b pts levs with
               | Some sy => Some (sy, interior bnd levs, negb md) | None => None end
        | 1 => match bspline_system (zn p) bnd md a b pts levs with
               | Some sy => Some (sy, interior bnd levs, false) | None => None end
        | _ => None
        end
      else None
    | _, _, _, _, _, _ => None
    end
  | Lv [Zv kind; Zv p; bnd; md; a; b; s; e; Zv L] =>
    match get_bool bnd, get_bool md, get_Qc a, get_Qc b, get_Qc s, get_Qc e with
    | Some bnd, Some md, Some a, Some b, Some s, Some e =>
      match kind with
      | 2 => if negb md then      (* LagrangeGrid1D with modified_basis: `assert False` in the code, excluded *)
               match local_lagrange_system (zn p) (zn L) bnd a b s e with
               | Some sy => Some (sy, local_slice bnd (Qc_eqb s a) (Qc_eqb e b) (regular_levels (zn L)), true)
               | None => None end
             else None
      | 3 => match local_bspline_system (zn p) (zn L) bnd md a b s e with
             | Some sy => Some (sy, local_slice bnd (Qc_eqb s a) (Qc_eqb e b) (regular_levels (zn L)), false)
             | None => None end
      | _ => None
      end
    | _, _, _, _, _, _ => None
    end
  | _ => None
  end.

(* the interval the basis integrals (quadrature weights) of a dimension refer to: [a, b] for global grids,
   [start, end] of the current area for local grids *)
Definition dim_bounds (s : sx) : option (Qc * Qc) :=
  match s with
  | Lv [Zv _; Zv _; _; _; a; b; _; _] =>
    match get_Qc a, get_Qc b with Some a, Some b => Some (a, b) | _, _ => None end
  | Lv [Zv _; Zv _; _; _; _; _; s; e; Zv _] =>
    match get_Qc s, get_Qc e with Some s, Some e => Some (s, e) | _, _ => None end
  | _ => None
  end.

Definition mk_sys1 := choose_solver.

Definition build_dims (l : list sx) : option (list (sys1 * bool)) :=
  match opt_all (map build_dim l) with
  | Some ds => Some (map mk_sys1 ds)
  | None => None
  end.

Definition of_system (sy : list (Qc * basis)) : sx :=
  Lv (map (fun xb => Lv [of_Qc (fst xb); of_basis (snd xb)]) sy).

Definition entry_C10 (sub : Z) (a : sx) : sx :=
  match sub, a with
  (* 0: (basis xs) -> ((value d1 d2) ...) *)
  | 0, Lv [bs; xs] =>
    match get_basis bs, get_LQc xs with
    | Some bf, Some xs => Lv (map (fun x => Lv [of_Qc (beval bf x); of_Qc (bd1 bf x); of_Qc (bd2 bf x)]) xs)
    | _, _ => sx_err 1
    end
  (* 1: dimspec -> (system levels hier_ok collocation) *)
  | 1, spec =>
    match build_dim spec with
    | Some d =>
      let '(s1, ok) := mk_sys1 d in
      Lv [of_system (s_basis s1); of_LZ (map Z.of_nat (snd (fst d))); sx_bool ok; of_LLQc (colloc (s_basis s1))]
    | None => sx_err 2
    end
  (* 2: (dimspecs values evalpoints) -> (hier_ok-flags surpluses values-at-grid-points values-at-eval-points) *)
  | 2, Lv [Lv specs; vals; evs] =>
    match build_dims specs, get_LLQc vals, get_LLQc evs with
    | Some ds, Some vals, Some evs =>
      let ss := map fst ds in
      match opt_all (map (hier_nd ss) vals) with
      | Some surs =>
        Lv [Lv (map (fun d => sx_bool (snd d)) ds);
            of_LLQc surs;
            of_LLQc (map (fun sur => map (fun x => interp_nd ss x sur) (grid_points ss)) surs);
            of_LLQc (map (fun sur => map (fun x => interp_nd ss x sur) evs) surs)]
      | None => sx_err 4
      end
    | None, _, _ => sx_err 2
    | _, _, _ => sx_err 3
    end
  (* 3: (dimspecs surpluses values tol) -> per component: verified residual checker on given surpluses *)
  | 3, Lv [Lv specs; surs; vals; tol] =>
    match build_dims specs, get_LLQc surs, get_LLQc vals, get_Qc tol with
    | Some ds, Some surs, Some vals, Some tol =>
      let ss := map fst ds in
      Lv (map (fun sv => sx_bool (interp_residual_ok ss (fst sv) (snd sv) tol)) (combine surs vals))
    | None, _, _, _ => sx_err 2
    | _, _, _, _ => sx_err 3
    end
  (* 4: dimspec -> unisolvence certificate (exact left inverse of the collocation matrix exists) *)
  | 4, spec =>
    match build_dim spec with
    | Some d => sx_bool (match inverse_of (colloc (fst (fst d))) with Some _ => true | None => false end)
    | None => sx_err 2
    end
  (* 5: (basis lo hi) -> get_integral(lo, hi, ...) with the Gauss rule replaced by the formal integral of the pieces *)
  | 5, Lv [bs; lo; hi] =>
    match get_basis bs, get_Qc lo, get_Qc hi with
    | Some bf, Some lo, Some hi => of_Qc (bintegral bf lo hi)
    | _, _, _ => sx_err 5
    end
  (* 6: (dimspecs values evalpoints) -> (weights per dimension, integral per component = <surpluses, weights>,
        surpluses by the code-shaped flat pole sweep, code-shaped interpolation at the evaluation points,
        per dimension: every basis object satisfies the side condition of the piecewise-polynomial theorem) *)
  | 6, Lv [Lv specs; vals; evs] =>
    match build_dims specs, opt_all (map dim_bounds specs), get_LLQc vals, get_LLQc evs with
    | Some ds, Some bnds, Some vals, Some evs =>
      let ss := map fst ds in
      let ws := map (fun sb => sys_weights (s_basis (fst sb)) (fst (snd sb)) (snd (snd sb))) (combine ss bnds) in
      match opt_all (map (hier_flat ss) vals) with
      | Some fsurs =>
        Lv [of_LLQc ws;
            of_LQc (map (quad_nd ws) fsurs);
            of_LLQc fsurs;
            of_LLQc (map (fun sur => map (fun x => interp_flat ss x sur) evs) fsurs);
            Lv (map (fun s => sx_bool (forallb (fun xb => basis_wf (snd xb)) (s_basis s))) ss)]
      | None => sx_err 4
      end
    | None, _, _, _ => sx_err 2
    | _, _, _, _ => sx_err 3
    end
  (* 7: (dimspecs values evalpoints doflat) -> everything of 2 and 6 from ONE hierarchisation:
        (hier_ok flags, surpluses, values at grid points, values at evaluation points, weights per dimension,
         integral per component, basis_wf per dimension, cross-check part).
        Interpolation runs through the code-shaped interp_flat (= interp_nd: Proofs/BasisFlat.interp_flat_eq_interp_nd).
        doflat <> 0: the cross-check part holds the surpluses of the code-shaped flat pole sweep hier_flat and the
        tensor-recursion interpolation interp_nd at the evaluation points (else it is empty) *)
  | 7, Lv [Lv specs; vals; evs; Zv doflat] =>
    match build_dims specs, opt_all (map dim_bounds specs), get_LLQc vals, get_LLQc evs with
    | Some ds, Some bnds, Some vals, Some evs =>
      let ss := map fst ds in
      let ws := map (fun sb => sys_weights (s_basis (fst sb)) (fst (snd sb)) (snd (snd sb))) (combine ss bnds) in
      match opt_all (map (hier_nd ss) vals) with
      | Some surs =>
        let flatpart :=
          if (doflat =? 0)%Z then Some (Lv [])
          else match opt_all (map (hier_flat ss) vals) with
               | Some fsurs => Some (Lv [of_LLQc fsurs; of_LLQc (map (fun sur => map (fun x => interp_nd ss x sur) evs) surs)])
               | None => None
               end in
        match flatpart with
        | Some fp =>
          Lv [Lv (map (fun d => sx_bool (snd d)) ds);
              of_LLQc surs;
              of_LLQc (map (fun sur => map (fun x => interp_flat ss x sur) (grid_points ss)) surs);
              of_LLQc (map (fun sur => map (fun x => interp_flat ss x sur) evs) surs);
              of_LLQc ws;
              of_LQc (map (quad_nd ws) surs);
              Lv (map (fun s => sx_bool (forallb (fun xb => basis_wf (snd xb)) (s_basis s))) ss);
              fp]
        | None => sx_err 6
        end
      | None => sx_err 4
      end
    | None, _, _, _ => sx_err 2
    | _, _, _, _ => sx_err 3
    end
  (* 8: dimspec of an unmodified Lagrange grid -> (the lists are a refinement tree, the tree recursion of Model/BasisTree.v
        builds exactly the system of the level loop, the structural checker accepts it) - the runtime tie of the theorem
        "every refinement tree is accepted" (Proofs/BasisTreeP.tree_system_accepted) to the code-shaped list model *)
  | 8, Lv [Zv kind; Zv p; bnd; md; a; b; pts; levs] =>
    match get_bool bnd, get_bool md, get_Qc a, get_Qc b, get_LQc pts, get_Ln levs with
    | Some bnd, Some false, Some a, Some b, Some pts, Some levs =>
      if (kind =? 0)%Z then
        let '(c1, c2, c3) := tree_check (zn p) bnd a b pts levs in Lv [sx_bool c1; sx_bool c2; sx_bool c3]
      else sx_err 8
    | _, _, _, _, _, _ => sx_err 8
    end
  | 8, Lv [Zv kind; Zv p; bnd; md; a; b; s; e; Zv L] =>
    match get_bool md, get_Qc s, get_Qc e with
    | Some false, Some s, Some e =>
      if (kind =? 2)%Z then
        let '(c1, c2, c3) := tree_check (zn p) true s e (regular_points s e (zn L)) (regular_levels (zn L)) in
        Lv [sx_bool c1; sx_bool c2; sx_bool c3]
      else sx_err 8
    | _, _, _ => sx_err 8
    end
  | _, _ => sx_err 0
  end.
