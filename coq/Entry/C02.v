(* Wire entry points of the C02 model (standard combination on uniform trapezoidal grids). *)
From Coq Require Import ZArith List Bool QArith Qcanon.
From SG Require Import Base.Sx Base.QcUtil Model.CombiScheme Model.StdCombi Proofs.SchemeStd Proofs.StdCombiSum.
Import ListNotations.
Open Scope Z_scope.

Definition get_fun (a b : list Qc) (s : sx) : option (list Qc -> Qc) :=
  match s with
  | Lv [Zv 0; al; be] =>
    match get_LQc al, get_LQc be with Some al, Some be => Some (fun_poly al be) | _, _ => None end
  | Lv [Zv 1; j; i] =>
    match get_LZ j, get_LZ i with Some j, Some i => Some (fun_hat a b j i) | _, _ => None end
  | Lv [Zv 2; p] =>
    match get_LQc p with Some p => Some (fun_unit p) | None => None end
  | _ => None
  end.

(* sub 0: (boundary a b lmin lmax fspec evalpoints) ->
     (std_eq_adaptive scheme ((numpoints points weights) per component) values integral) *)
Definition entry_C02 (sub : Z) (arg : sx) : sx :=
  match sub, arg with
  | 0, Lv [Zv bd; a; b; Zv lmin; Zv lmax; fs; pts] =>
    match get_LQc a, get_LQc b, get_LLQc pts with
    | Some a, Some b, Some pts =>
      match get_fun a b fs with
      | Some f =>
        let boundary := negb (bd =? 0) in
        let d := length a in
        let cs := combi_scheme_standard d lmin lmax in
        Lv [ sx_bool (std_perm_check d lmin lmax);
             Lv (map (fun kv => Lv [of_LZ (fst kv); Zv (snd kv)]) cs);
             Lv (map (fun kv => Lv [of_LZ (comp_num_points boundary (fst kv));
                                    of_LLQc (comp_points boundary a b (fst kv));
                                    of_LQc (comp_weights boundary a b (fst kv))]) cs);
             of_LQc (map (combi_interp boundary a b cs f) pts);
             of_Qc (combi_integral boundary a b cs f) ]
      | None => sx_err 2
      end
    | _, _, _ => sx_err 1
    end
  | _, _ => sx_err 0
  end.
