(* Wire entry points of the C02 model (standard combination on uniform trapezoidal grids). *)
From Coq Require Import ZArith List Bool QArith Qcanon.
From SG Require Import Base.Sx Base.QcUtil Model.CombiScheme Model.StdCombi Model.TrapGrid1DArea Model.StdCombiTol Model.StdCombiVec Proofs.SchemeStd Proofs.StdCombiSum Proofs.StdUnion Proofs.StdCount.
Import ListNotations.
Open Scope Z_scope.

Definition get_fun (a b : list Qc) (s : sx) : option (list Qc -> Qc) :=
  match s with
  | Lv [Zv 0; al; be] =>
    match get_LQc al, get_LQc be with Some al, Some be => Some (fun_poly al be) | _, _ => None end
  | Lv [Zv 1; j; i] =>
    match get_LZ j, get_LZ i with Some j, Some i => Some (fun_hat a b j i) | _, _ => None end
  | Lv [Zv 2; p] =>
    match get_LQc p with Some p => Some (fun_unit p) | None => None end
  | _ => None
  end.

(* sub 0: (boundary a b lmin lmax fspec evalpoints) ->
     (std_eq_adaptive scheme ((numpoints points weights) per component) values integral) *)
Definition entry_C02 (sub : Z) (arg : sx) : sx :=
  match sub, arg with
  | 0, Lv [Zv bd; a; b; Zv lmin; Zv lmax; fs; pts] =>
    match get_LQc a, get_LQc b, get_LLQc pts with
    | Some a, Some b, Some pts =>
      match get_fun a b fs with
      | Some f =>
        let boundary := negb (bd =? 0) in
        let d := length a in
        let cs := combi_scheme_standard d lmin lmax in
        Lv [ sx_bool (std_perm_check d lmin lmax);
             Lv (map (fun kv => Lv [of_LZ (fst kv); Zv (snd kv)]) cs);
             Lv (map (fun kv => Lv [of_LZ (comp_num_points boundary (fst kv));
                                    of_LLQc (comp_points boundary a b (fst kv));
                                    of_LQc (comp_weights boundary a b (fst kv))]) cs);
             of_LQc (map (combi_interp boundary a b cs f) pts);
             of_Qc (combi_integral boundary a b cs f) ]
      | None => sx_err 2
      end
    | _, _, _ => sx_err 1
    end
  (* sub 1: (boundary a b lmin lmax (fspec ...) evalpoints want_pw) ->
       (std_eq_adaptive scheme ((numpoints points weights) per component) (values per function) (integral per function)
        number-of-distinct-points = sum_l c_l * prod N(l_d)  [Proofs/StdUnion.v: std_total_points]
        (point weight*coefficient) list of the whole combination (only when want_pw <> 0)) *)
  | 1, Lv [Zv bd; a; b; Zv lmin; Zv lmax; Lv fss; pts; Zv want_pw] =>
    match get_LQc a, get_LQc b, get_LLQc pts with
    | Some a, Some b, Some pts =>
      match opt_all (map (get_fun a b) fss) with
      | Some fs =>
        let boundary := negb (bd =? 0) in
        let d := length a in
        let cs := combi_scheme_standard d lmin lmax in
        Lv [ sx_bool (std_perm_check d lmin lmax);
             Lv (map (fun kv => Lv [of_LZ (fst kv); Zv (snd kv)]) cs);
             Lv (map (fun kv => Lv [of_LZ (comp_num_points boundary (fst kv));
                                    of_LLQc (comp_points boundary a b (fst kv));
                                    of_LQc (comp_weights boundary a b (fst kv))]) cs);
             Lv (map (fun f => of_LQc (map (combi_interp boundary a b cs f) pts)) fs);
             of_LQc (map (combi_integral boundary a b cs) fs);
             Zv (combi_total_points boundary cs);
             (if want_pw =? 0 then Lv []
              else Lv (map (fun pw => Lv [of_LQc (fst pw); of_Qc (snd pw)]) (combi_points_weights boundary a b cs)));
             (* get_total_num_points(distinct_function_evals=False): sum_l prod N(l_d)  [Proofs/StdCount.v] *)
             Zv (combi_total_points_naive boundary cs) ]
      | None => sx_err 2
      end
    | _, _, _ => sx_err 1
    end
  (* sub 2: (boundary a b level), one dimension -> the attributes Grid1d.set_current_area(a, b, level) stores
       (num_points num_points_with_boundary lowerBorder upperBorder spacing) and the model's 1D points and weights *)
  | 2, Lv [Zv bd; a; b; Zv l] =>
    match get_Qc a, get_Qc b with
    | Some a, Some b =>
      let boundary := negb (bd =? 0) in
      Lv [ Zv (area_num_points boundary l); Zv (area_nwb l); Zv (area_lower boundary); Zv (area_upper boundary l);
           of_Qc (area_spacing a b l); of_LQc (grid1 boundary a b l); of_LQc (weights1 boundary a b l) ]
    | _, _ => sx_err 1
    end
  (* sub 3: (variant a b lmin lmax (fspec ...) evalpoints), boundary points off -> values per function of the combined interpolant
       with the TOLERANT boundary test of the code (Model/StdCombiTol.v): variant 0 = np.isclose (current tree), 1 = relative to the
       extent of the domain (proposed repair), 2 = exact equality *)
  | 3, Lv [Zv variant; a; b; Zv lmin; Zv lmax; Lv fss; pts] =>
    match get_LQc a, get_LQc b, get_LLQc pts with
    | Some a, Some b, Some pts =>
      match opt_all (map (get_fun a b) fss) with
      | Some fs =>
        let cl := if variant =? 0 then cl_numpy else if variant =? 1 then cl_domain else cl_exact in
        let cs := combi_scheme_standard (length a) lmin lmax in
        Lv (map (fun f => of_LQc (map (combi_interp_tol cl false a b cs f) pts)) fs)
      | None => sx_err 2
      end
    | _, _, _ => sx_err 1
    end
  (* sub 4: (boundary a b lmin lmax (fspec ...) coords) -> the matrix StandardCombi.interpolate_grid returns for the vector-valued
       function with these components: rows in get_cross_product (itertools.product) order, one column per output component,
       computed by the code-shaped accumulation of Model/StdCombiVec.v (zeros; += component result * coefficient) *)
  | 4, Lv [Zv bd; a; b; Zv lmin; Zv lmax; Lv fss; coords] =>
    match get_LQc a, get_LQc b, get_LLQc coords with
    | Some a, Some b, Some coords =>
      match opt_all (map (get_fun a b) fss) with
      | Some fs =>
        let cs := combi_scheme_standard (length a) lmin lmax in
        of_LLQc (combi_interp_grid (negb (bd =? 0)) a b cs (vec_fun fs) (length fs) coords)
      | None => sx_err 2
      end
    | _, _, _ => sx_err 1
    end
  | _, _ => sx_err 0
  end.
