(* Wire entry point of the C03 model (dimension-wise strategy: stripes, component grids); see Model/DimWiseWire.v *)
From Coq Require Import ZArith List.
From SG Require Import Base.Sx Model.DimWiseWire.
Open Scope Z_scope.
Definition entry_C03 (sub : Z) (a : sx) : sx := entry_dimwise sub a.
