(* Wire entry points of the C08 model (local tensor quadrature grids). *)
From Coq Require Import ZArith List QArith Qcanon Bool Arith.
From SG Require Import Base.Sx Base.QcUtil Model.Tensor Model.LocalGrids Model.LocalRules.
Import ListNotations.
Open Scope Z_scope.

Definition of_nat (n : nat) : sx := Zv (Z.of_nat n).
Definition of_Lnat (l : list nat) : sx := Lv (map of_nat l).
Definition get_Lnat (s : sx) : option (list nat) :=
  match get_LZ s with Some l => Some (map Z.to_nat l) | None => None end.
Definition get_LLnat (s : sx) : option (list (list nat)) :=
  match s with Lv l => opt_all (map get_Lnat l) | _ => None end.

Definition get_dim1 (s : sx) : option dim1 :=
  match s with
  | Lv [a; b; st; en; Zv l] =>
    match get_Qc a, get_Qc b, get_Qc st, get_Qc en with
    | Some a, Some b, Some st, Some en => Some {| d_a := a; d_b := b; d_s := st; d_e := en; d_level := Z.to_nat l |}
    | _, _, _, _ => None
    end
  | _ => None
  end.
Definition get_dims (s : sx) : option (list dim1) :=
  match s with Lv l => opt_all (map get_dim1 l) | _ => None end.

Definition eqfam_of (z : Z) : option eqfam :=
  match z with 0 => Some FTrap | 1 => Some FTrapMod | 2 => Some FSimpson | 3 => Some FSimpsonAsIs | _ => None end.
Definition cntfam_of (z : Z) : option cntfam :=
  match z with 0 => Some CEq | 1 => Some CCC | 2 => Some CLeja | 3 => Some CGauss | _ => None end.

Definition get_pair (s : sx) : option (Qc * Qc) :=
  match s with Lv [x; y] => match get_Qc x, get_Qc y with Some x, Some y => Some (x, y) | _, _ => None end | _ => None end.
Definition get_box (s : sx) : option (list (Qc * Qc)) :=
  match s with Lv l => opt_all (map get_pair l) | _ => None end.

(* first degree whose moment check fails, or -1 *)
Fixpoint first_bad {A} (f : A -> bool) (l : list A) (i : Z) : Z :=
  match l with [] => -1 | x :: r => if f x then first_bad f r (i + 1) else i end.


(* (fam bnd (a b s e level)) *)
Definition get_dimspec (s : sx) : option dimspec :=
  match s with
  | Lv [Zv fam; bnd; d] =>
    match eqfam_of fam, get_bool bnd, get_dim1 d with
    | Some f, Some b, Some x => Some (f, b, x)
    | _, _, _ => None
    end
  | _ => None
  end.
Definition get_dimspecs (s : sx) : option (list dimspec) :=
  match s with Lv l => opt_all (map get_dimspec l) | _ => None end.

(* round 2:
   sub 4: (kind normalize s e refpts refwts) -> (pts wts)   the affine map of the family's code applied to its reference
          rule: kind 0 Gauss-Legendre (reference on [-1,1]), 1 Leja (reference on [0,1]), 2 Clenshaw-Curtis
          (reference on [-1,1]: cos_i = -refpts_i, factor_i = refwts_i)
   sub 5: (((fam bnd (a b s e level)) ...) ((k_1 .. k_d) ...)) -> as sub 0, with a family and a flag per dimension
   sub 6: (xs ws s e rtol) -> (interp_ok (interpolatory weights of the nodes xs))
   sub 7: (coords1d weights1d ((k_1 .. k_d) ...)) -> (points weights (integral per exponent vector))  generic tensor rule
   sub 8: (npwb lo np Ktable Ctable s e) -> (pts wts)   Clenshaw-Curtis closed form, cos values supplied as tables
   sub 9: (fam bnd (a b s e level)) -> (pts wts)   1D rule with the proposed level-0 repair
   sub 10: (bnd a b s e level) -> (np npwb lo up slice_length)   Leja counts with the proposed repair
   sub 11: (xs ws tol) -> (leja_system_ok residuals)   the linear system LejaGrid1D.compute_1D_quad_weights solves, on [0,1] *)
Definition entry_C08_round2 (sub : Z) (a : sx) : sx :=
  match sub, a with
  | 4, Lv [Zv kind; nrm; s; e; rc; rw] =>
    match get_bool nrm, get_Qc s, get_Qc e, get_LQc rc, get_LQc rw with
    | Some nrm, Some s, Some e, Some rc, Some rw =>
      match kind with
      | 0 => Lv [of_LQc (gl_pts s e rc); of_LQc (gl_wts nrm s e rw)]
      | 1 => Lv [of_LQc (leja_pts s e rc); of_LQc (leja_wts s e rw)]
      | 2 => Lv [of_LQc (cc_pts s e (map Qcopp rc)); of_LQc (cc_wts s e rw)]
      | _ => sx_err 41
      end
    | _, _, _, _, _ => sx_err 4
    end
  | 5, Lv [ds; exps] =>
    match get_dimspecs ds, get_LLnat exps with
    | Some ds, Some exps =>
      Lv [ of_Lnat (gridm_num_points ds);
           of_LLQc (gridm_coords ds);
           of_LLQc (gridm_weights1 ds);
           of_LLQc (gridm_points ds);
           of_LQc (gridm_weights ds);
           of_LQc (map (gridm_integrate_monomial ds) exps);
           of_LQc (map (box_moment (map ds_dim ds)) exps) ]
    | _, _ => sx_err 5
    end
  | 6, Lv [xs; ws; s; e; rtol] =>
    match get_LQc xs, get_LQc ws, get_Qc s, get_Qc e, get_Qc rtol with
    | Some xs, Some ws, Some s, Some e, Some rtol =>
      Lv [ sx_bool (interp_ok xs ws s e rtol); of_LQc (interp_weights xs s e) ]
    | _, _, _, _, _ => sx_err 6
    end
  | 7, Lv [cs; ws; exps] =>
    match get_LLQc cs, get_LLQc ws, get_LLnat exps with
    | Some cs, Some ws, Some exps =>
      Lv [ of_LLQc (cross cs); of_LQc (tensor_weights ws);
           of_LQc (map (fun k => integrate_rule (prodf (map mono k)) cs ws) exps) ]
    | _, _, _ => sx_err 7
    end
  | 8, Lv [Zv npwb; Zv lo; Zv np; kt; ct; s; e] =>
    match get_LQc kt, get_LQc ct, get_Qc s, get_Qc e with
    | Some kt, Some ct, Some s, Some e =>
      Lv [ of_LQc (cc_rule_pts (Z.to_nat npwb) (Z.to_nat lo) (Z.to_nat np) (table_fn kt) s e);
           of_LQc (cc_rule_wts (Z.to_nat npwb) (Z.to_nat lo) (Z.to_nat np) (table_fn ct) s e) ]
    | _, _, _, _ => sx_err 8
    end
  | 9, Lv [Zv fam; bnd; d] =>
    match eqfam_of fam, get_bool bnd, get_dim1 d with
    | Some f, Some b, Some x => Lv [of_LQc (eq_points_fx f b x); of_LQc (eq_weights_fx f b x)]
    | _, _, _ => sx_err 9
    end
  | 11, Lv [xs; ws; tol] =>
    match get_LQc xs, get_LQc ws, get_Qc tol with
    | Some xs, Some ws, Some tol => Lv [ sx_bool (leja_system_ok xs ws tol); of_LQc (leja_system_residuals xs ws) ]
    | _, _, _ => sx_err 11
    end
  | 10, Lv [bnd; a; b; s; e; Zv l] =>
    match get_bool bnd, get_Qc a, get_Qc b, get_Qc s, get_Qc e with
    | Some bnd, Some a, Some b, Some s, Some e =>
      let '(np, npwb, lo, up, len) := leja_info_fx bnd a b s e (Z.to_nat l) in
      of_Lnat [np; npwb; lo; up; len]
    | _, _, _, _, _ => sx_err 10
    end
  | _, _ => sx_err 0
  end.

(* sub 0: (fam bnd ((a b s e level) ...) ((k_1 .. k_d) ...))
          -> (numPoints coords1d weights1d points weights (integral per exponent vector) (exact moment per exponent vector))
   sub 1: (pts wts s e k rtol) -> (ok first_bad_degree)
   sub 2: (cntfam bnd a b s e level) -> (np npwb lo up slice_length)
   sub 3: (pts wts ((s e) ...) ((k_1 .. k_d) ...) rtol) -> (nd_moments_ok all_inside position_of_first_bad_exponent_vector) *)
Definition entry_C08 (sub : Z) (a : sx) : sx :=
  match sub, a with
  | 0, Lv [Zv fam; bnd; dims; exps] =>
    match eqfam_of fam, get_bool bnd, get_dims dims, get_LLnat exps with
    | Some f, Some bnd, Some xs, Some exps =>
      Lv [ of_Lnat (grid_num_points bnd xs);
           of_LLQc (grid_coords bnd xs);
           of_LLQc (grid_weights1 f bnd xs);
           of_LLQc (grid_points bnd xs);
           of_LQc (grid_weights f bnd xs);
           of_LQc (map (grid_integrate_monomial f bnd xs) exps);
           of_LQc (map (box_moment xs) exps) ]
    | _, _, _, _ => sx_err 1
    end
  | 1, Lv [pts; wts; s; e; Zv k; rtol] =>
    match get_LQc pts, get_LQc wts, get_Qc s, get_Qc e, get_Qc rtol with
    | Some pts, Some wts, Some s, Some e, Some rtol =>
      Lv [ sx_bool (moments_ok pts wts s e (Z.to_nat k) rtol);
           Zv (if (length pts =? length wts)%nat
               then match moments_first_bad pts wts s e (Z.to_nat k) rtol with Some j => Z.of_nat j | None => -1 end
               else -2) ]
    | _, _, _, _, _ => sx_err 2
    end
  | 2, Lv [Zv fam; bnd; a; b; s; e; Zv l] =>
    match cntfam_of fam, get_bool bnd, get_Qc a, get_Qc b, get_Qc s, get_Qc e with
    | Some f, Some bnd, Some a, Some b, Some s, Some e =>
      let '(np, npwb, lo, up, len) := cnt_info f bnd a b s e (Z.to_nat l) in
      of_Lnat [np; npwb; lo; up; len]
    | _, _, _, _, _, _ => sx_err 3
    end
  | 3, Lv [pts; wts; box; expss; rtol] =>
    match get_LLQc pts, get_LQc wts, get_box box, get_LLnat expss, get_Qc rtol with
    | Some pts, Some wts, Some box, Some expss, Some rtol =>
      Lv [ sx_bool (nd_moments_ok pts wts box expss rtol);
           sx_bool (forallb (inside_box box) pts);
           Zv (first_bad (nd_moment_ok pts wts box rtol) expss 0) ]
    | _, _, _, _, _ => sx_err 4
    end
  | _, _ => entry_C08_round2 sub a
  end.
