(* Wire entry points of the C01 model (combination scheme). *)
From Coq Require Import ZArith List Bool.
From SG Require Import Base.Sx Model.CombiScheme.
Import ListNotations.
Open Scope Z_scope.

Definition of_coeffs (cs : list (lv * Z)) : sx :=
  Lv (map (fun kv => Lv [of_LZ (fst kv); Zv (snd kv)]) cs).

Definition of_state (ret : option (list nat)) (s : scheme) : sx :=
  Lv [ match ret with None => Zv (-1) | Some ds => of_LZ (map Z.of_nat ds) end;
       of_LLZ (s_active s); of_LLZ (s_old s); Zv (s_lmax_adaptive s);
       of_coeffs (combi_scheme_adaptive s) ].

Fixpoint run_ops (s : scheme) (ops : list lv) : list sx :=
  match ops with
  | [] => []
  | l :: r => let '(ret, s') := update_scheme s l in of_state ret s' :: run_ops s' r
  end.

(* sub 0: (dim lmax lmin (op ...)) -> (state0 state1 ...) ; sub 1: (dim lmin lmax) -> closed form *)
Definition entry_C01 (sub : Z) (a : sx) : sx :=
  match sub, a with
  | 0, Lv [Zv dim; Zv lmax; Zv lmin; ops] =>
    match get_LLZ ops, init_scheme (Z.to_nat dim) lmax lmin with
    | Some ops, Some s => Lv (of_state (Some []) s :: run_ops s ops)
    | Some _, None => sx_err 1
    | None, _ => sx_err 2
    end
  | 1, Lv [Zv dim; Zv lmin; Zv lmax] => of_coeffs (combi_scheme_standard (Z.to_nat dim) lmin lmax)
  | _, _ => sx_err 0
  end.
