(* Wire entry points of the C01 model (combination scheme). *)
From Coq Require Import ZArith List Bool.
From SG Require Import Base.Sx Model.CombiScheme Model.CombiSchemeObj.
Import ListNotations.
Open Scope Z_scope.

Definition of_coeffs (cs : list (lv * Z)) : sx :=
  Lv (map (fun kv => Lv [of_LZ (fst kv); Zv (snd kv)]) cs).

Definition of_state (ret : option (list nat)) (s : scheme) : sx :=
  Lv [ match ret with None => Zv (-1) | Some ds => of_LZ (map Z.of_nat ds) end;
       of_LLZ (s_active s); of_LLZ (s_old s); Zv (s_lmax_adaptive s);
       of_coeffs (combi_scheme_adaptive s) ].

Fixpoint run_ops (s : scheme) (ops : list lv) : list sx :=
  match ops with
  | [] => []
  | l :: r => let '(ret, s') := update_scheme s l in of_state ret s' :: run_ops s' r
  end.

(* ---- histories of public requests on ONE object (Model/CombiSchemeObj.v) ----
   op encoding: (0 lmax lmin) init_adaptive_combi_scheme | (1 lmax lmin) init_full_grid | (2 l) update_adaptive_combi |
   (3 lmin lmax) getCombiScheme | (4) get_index_set | (5) get_active_indices | (6 l) is_refinable |
   (7 l) has_forward_neighbour | (8 l) in_index_set | (9 l) is_old_index | (10 l) extendable_level *)
Definition get_op (a : sx) : option op :=
  match a with
  | Lv [Zv 0; Zv lmax; Zv lmin] => Some (OpInit lmax lmin)
  | Lv [Zv 1; Zv lmax; Zv lmin] => Some (OpFull lmax lmin)
  | Lv [Zv 3; Zv lmin; Zv lmax] => Some (OpGet lmin lmax)
  | Lv [Zv 4] => Some OpIndexSet
  | Lv [Zv 5] => Some OpActive
  | Lv [Zv t; l] =>
      match get_LZ l with
      | Some l =>
          match t with
          | 2 => Some (OpUpdate l) | 6 => Some (OpRefinable l) | 7 => Some (OpForward l)
          | 8 => Some (OpInSet l) | 9 => Some (OpOld l) | 10 => Some (OpExtendable l)
          | _ => None
          end
      | None => None
      end
  | _ => None
  end.

(* result encoding: (0) raised | (1) None | (2 dims|-1) | (3 coeffs) | (4 set) | (5 bool) | (6 bool dim) *)
Definition of_result (r : result) : sx :=
  match r with
  | R_exc => Lv [Zv 0]
  | R_unit => Lv [Zv 1]
  | R_dims None => Lv [Zv 2; Zv (-1)]
  | R_dims (Some ds) => Lv [Zv 2; of_LZ (map Z.of_nat ds)]
  | R_coeffs cs => Lv [Zv 3; of_coeffs cs]
  | R_set st => Lv [Zv 4; of_LLZ st]
  | R_bool b => Lv [Zv 5; sx_bool b]
  | R_ext b d => Lv [Zv 6; sx_bool b; Zv d]
  end.

(* (result active old lmax_adaptive); a not initialised object shows empty sets and -1 *)
Definition of_step (ro : result * obj) : sx :=
  match o_st (snd ro) with
  | None => Lv [of_result (fst ro); Lv []; Lv []; Zv (-1)]
  | Some s => Lv [of_result (fst ro); of_LLZ (s_active s); of_LLZ (s_old s); Zv (s_lmax_adaptive s)]
  end.

(* sub 0: (dim lmax lmin (op ...)) -> (state0 state1 ...) ; sub 1: (dim lmin lmax) -> closed form ;
   sub 2: (dim (op ...)) -> one (result active old lmax_adaptive) per request on ONE object *)
Definition entry_C01 (sub : Z) (a : sx) : sx :=
  match sub, a with
  | 0, Lv [Zv dim; Zv lmax; Zv lmin; ops] =>
    match get_LLZ ops, init_scheme (Z.to_nat dim) lmax lmin with
    | Some ops, Some s => Lv (of_state (Some []) s :: run_ops s ops)
    | Some _, None => sx_err 1
    | None, _ => sx_err 2
    end
  | 1, Lv [Zv dim; Zv lmin; Zv lmax] => of_coeffs (combi_scheme_standard (Z.to_nat dim) lmin lmax)
  | 2, Lv [Zv dim; Lv ops] =>
    match opt_all (map get_op ops) with
    | Some ops => Lv (map of_step (run (fresh_obj (Z.to_nat dim)) ops))
    | None => sx_err 2
    end
  | _, _ => sx_err 0
  end.
