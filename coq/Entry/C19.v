(* Wire entry points of the C19 model (Classification: learning-time scaling, call/test/evaluate sequences). *)
From Coq Require Import ZArith List QArith Qcanon Bool.
From SG Require Import Base.Sx Base.QcUtil Model.DataSet Model.Classify Entry.C18.
Import ListNotations.
Open Scope Z_scope.

Definition of_summary (s : Z * Z * Qc) : sx := let '(w, t, p) := s in Lv [Zv w; Zv t; of_Qc p].

Definition of_outcome (o : outcome) : sx :=
  match o with
  | ORaise d => Lv [Zv 1; of_ds d]
  | OCall d cls => Lv [Zv 0; of_ds d; of_LZ cls]
  | OTest d cls s => Lv [Zv 0; of_ds d; of_LZ cls; of_summary s]
  end.

(* one later call: (1 dataset dens) = __call__, (2 dataset dens) = test_data, (3) = evaluate; observation + calc afterwards *)
Definition cstep (v : variant) (cv : cvariant) (st : cstate) (op : sx) : cstate * sx :=
  match op with
  | Lv [Zv 1; d; dens] =>
    match get_ds d, get_LLQc dens with
    | Some d, Some dens => let '(st', o) := call v cv st d dens in (st', Lv [of_outcome o; of_LZ (c_calc st')])
    | _, _ => (st, sx_err 11)
    end
  | Lv [Zv 2; d; dens] =>
    match get_ds d, get_LLQc dens with
    | Some d, Some dens => let '(st', o) := test_data v cv st d dens in (st', Lv [of_outcome o; of_LZ (c_calc st')])
    | _, _ => (st, sx_err 12)
    end
  | Lv [Zv 3] =>
    (st, Lv [match evaluate st with Some s => Lv [Zv 0; of_summary s] | None => Lv [Zv 1] end; of_LZ (c_calc st)])
  | _ => (st, sx_err 10)
  end.

Fixpoint crun (v : variant) (cv : cvariant) (st : cstate) (ops : list sx) : list sx :=
  match ops with
  | [] => []
  | op :: r => let '(st', o) := cstep v cv st op in o :: crun v cv st' r
  end.

Definition get_range (s : sx) : option (option (row * row)) :=
  match s with
  | Lv [] => Some None
  | Lv [mn; mx] => match get_LQc mn, get_LQc mx with Some mn, Some mx => Some (Some (mn, mx)) | _, _ => None end
  | _ => None
  end.

(* sub 0: ((dedup fullcmp store labelmap) dataset data_range class_labels test_labels dens_test (op ...))
          -> ((0 min max fac scaled omitted) calc0 obs...)  |  ((1)) when the initialisation raises
   sub 1: (densities) -> arg-max index (numpy argmax) *)
Definition entry_C19 (sub : Z) (a : sx) : sx :=
  match sub, a with
  | 0, Lv [Lv [vd; vf; vs; vl]; d; rg; cl; tl; dt; Lv ops] =>
    match get_bool vd, get_bool vf, get_bool vs, get_bool vl, get_ds d, get_range rg, get_LZ cl, get_LZ tl, get_LLQc dt with
    | Some vd, Some vf, Some vs, Some vl, Some d, Some rg, Some cl, Some tl, Some dt =>
      let v := mkVariant vd vf in
      let cv := mkCV vs vl in
      match initialize v d rg with
      | None => Lv [Lv [Zv 1]]
      | Some ir =>
        let calc0 := match tl with [] => [] | _ => classificate cv cl dt end in
        let st := mkC (i_min ir) (i_max ir) (i_fac ir) (i_scaled ir) cl tl calc0 true in
        Lv (Lv [Zv 0; of_LQc (i_min ir); of_LQc (i_max ir); of_LQc (i_fac ir); of_ds (i_scaled ir); of_ds (i_omitted ir)]
            :: of_LZ calc0 :: crun v cv st ops)
      end
    | _, _, _, _, _, _, _, _, _ => sx_err 3
    end
  | 1, l => match get_LQc l with Some l => Zv (Z.of_nat (argmax l)) | None => sx_err 4 end
  | _, _ => sx_err 0
  end.
