(* Wire entry points of the C19 model (Classification: learning-time scaling, call/test/evaluate sequences). *)
From Coq Require Import ZArith List QArith Qcanon Bool.
From SG Require Import Base.Sx Base.QcUtil Model.DataSet Model.Classify Model.ClassifyLearn Entry.C18.
Import ListNotations.
Open Scope Z_scope.

Definition of_summary (s : Z * Z * Qc) : sx := let '(w, t, p) := s in Lv [Zv w; Zv t; of_Qc p].

Definition of_outcome (o : outcome) : sx :=
  match o with
  | ORaise d => Lv [Zv 1; of_ds d]
  | OCall d cls => Lv [Zv 0; of_ds d; of_LZ cls]
  | OTest d cls s => Lv [Zv 0; of_ds d; of_LZ cls; of_summary s]
  end.

(* one later call: (1 dataset dens) = __call__, (2 dataset dens) = test_data, (3) = evaluate,
   (4 dens) = continue_dimension_wise_refinement (dens: new densities at ALL testing samples); observation + calc afterwards *)
Definition cstep (v : variant) (cv : cvariant) (st : cstate) (op : sx) : cstate * sx :=
  match op with
  | Lv [Zv 1; d; dens; rj] =>      (* rj: the implementation compares the accumulated offsets and they differ (phase 3, call_r) *)
    match get_ds d, get_LLQc dens, get_bool rj with
    | Some d, Some dens, Some rj => let '(st', o) := call_r rj v cv st d dens in (st', Lv [of_outcome o; of_LZ (c_calc st')])
    | _, _, _ => (st, sx_err 15)
    end
  | Lv [Zv 2; d; dens; rj] =>
    match get_ds d, get_LLQc dens, get_bool rj with
    | Some d, Some dens, Some rj => let '(st', o) := test_data_r rj v cv st d dens in (st', Lv [of_outcome o; of_LZ (c_calc st')])
    | _, _, _ => (st, sx_err 16)
    end
  | Lv [Zv 1; d; dens] =>
    match get_ds d, get_LLQc dens with
    | Some d, Some dens => let '(st', o) := call v cv st d dens in (st', Lv [of_outcome o; of_LZ (c_calc st')])
    | _, _ => (st, sx_err 11)
    end
  | Lv [Zv 2; d; dens] =>
    match get_ds d, get_LLQc dens with
    | Some d, Some dens => let '(st', o) := test_data v cv st d dens in (st', Lv [of_outcome o; of_LZ (c_calc st')])
    | _, _ => (st, sx_err 12)
    end
  | Lv [Zv 3] =>
    (st, Lv [match evaluate st with Some s => Lv [Zv 0; of_summary s] | None => Lv [Zv 1] end; of_LZ (c_calc st)])
  | Lv [Zv 4; dens] =>
    match get_LLQc dens with
    | Some dens =>
      match continue_refinement cv st dens with
      | Some st' => (st', Lv [Lv [Zv 0]; of_LZ (c_calc st')])
      | None => (st, sx_err 14)
      end
    | None => (st, sx_err 13)
    end
  | _ => (st, sx_err 10)
  end.

Fixpoint crun (v : variant) (cv : cvariant) (st : cstate) (ops : list sx) : list sx :=
  match ops with
  | [] => []
  | op :: r => let '(st', o) := cstep v cv st op in o :: crun v cv st' r
  end.

Definition get_range (s : sx) : option (option (row * row)) :=
  match s with
  | Lv [] => Some None
  | Lv [mn; mx] => match get_LQc mn, get_LQc mx with Some mn, Some mx => Some (Some (mn, mx)) | _, _ => None end
  | _ => None
  end.

(* sub 0: ((dedup fullcmp store labelmap) dataset data_range class_labels test_labels dens_test (op ...))
          -> ((0 min max fac scaled omitted) calc0 obs...)  |  ((1)) when the initialisation raises
   sub 1: (densities) -> arg-max index (numpy argmax)
   sub 3: (lo labels) -> signed training labels of every one_vs_others classificator (phase 3)
   sub 2: the learning side inside the model (Model/ClassifyLearn.v):
          ((dedup fullcmp store labelmap) dataset data_range (is_float p even perm? idx lo_split) lo_learn dens_test (op ...))
          perm? = () when shuffle_data=False, (perm) otherwise; idx / lo_split / lo_learn = iteration orders of the Python sets
          -> ((0 min max fac scaled omitted) (0 learning testing lo_learn_ok) calc0 obs...)
           | ((1))  initialisation raises   | ((0 ...) (1))  the split raises / an order input is rejected by its checker *)
Definition get_permopt (s : sx) : option (option (list nat)) :=
  match s with
  | Lv [] => Some None
  | Lv [p] => match get_Lnat p with Some p => Some (Some p) | None => None end
  | _ => None
  end.

Definition entry_C19 (sub : Z) (a : sx) : sx :=
  match sub, a with
  | 0, Lv [Lv [vd; vf; vs; vl]; d; rg; cl; tl; dt; Lv ops] =>
    match get_bool vd, get_bool vf, get_bool vs, get_bool vl, get_ds d, get_range rg, get_LZ cl, get_LZ tl, get_LLQc dt with
    | Some vd, Some vf, Some vs, Some vl, Some d, Some rg, Some cl, Some tl, Some dt =>
      let v := mkVariant vd vf in
      let cv := mkCV vs vl in
      match initialize v d rg with
      | None => Lv [Lv [Zv 1]]
      | Some ir =>
        let calc0 := match tl with [] => [] | _ => classificate cv cl dt end in
        let st := mkC (i_min ir) (i_max ir) (i_fac ir) (i_scaled ir) cl tl calc0 true in
        Lv (Lv [Zv 0; of_LQc (i_min ir); of_LQc (i_max ir); of_LQc (i_fac ir); of_ds (i_scaled ir); of_ds (i_omitted ir)]
            :: of_LZ calc0 :: crun v cv st ops)
      end
    | _, _, _, _, _, _, _, _, _ => sx_err 3
    end
  | 2, Lv [Lv [vd; vf; vs; vl]; d; rg; Lv [isf; p; ev; pm; idx; los]; lol; dt; Lv ops] =>
    match get_bool vd, get_bool vf, get_bool vs, get_bool vl, get_ds d, get_range rg with
    | Some vd, Some vf, Some vs, Some vl, Some d, Some rg =>
      match get_bool isf, get_Qc p, get_bool ev, get_permopt pm, get_Lnat idx, get_LZ los, get_LZ lol, get_LLQc dt with
      | Some isf, Some p, Some ev, Some pm, Some idx, Some los, Some lol, Some dt =>
        let v := mkVariant vd vf in
        let cv := mkCV vs vl in
        match initialize v d rg with
        | None => Lv [Lv [Zv 1]]
        | Some ir =>
          let isx := Lv [Zv 0; of_LQc (i_min ir); of_LQc (i_max ir); of_LQc (i_fac ir); of_ds (i_scaled ir); of_ds (i_omitted ir)] in
          match init_split v (i_scaled ir) pm idx los ev (norm_percentage isf p) with
          | None => Lv [isx; Lv [Zv 1]]
          | Some (learn, test) =>
            let tl := map snd (rows test) in
            let calc0 := match tl with [] => [] | _ => classificate cv lol dt end in
            let st := mkC (i_min ir) (i_max ir) (i_fac ir) (i_scaled ir) lol tl calc0 true in
            Lv (isx :: Lv [Zv 0; of_ds learn; of_ds test; sx_bool (label_order_ok lol (rows learn))]
                :: of_LZ calc0 :: crun v cv st ops)
          end
        end
      | _, _, _, _, _, _, _, _ => sx_err 6
      end
    | _, _, _, _, _, _ => sx_err 5
    end
  | 3, Lv [lo; labs] =>        (* split_one_vs_others: (get_labels() order, labels of the learning data) -> (0 (signed labels per classificator)) | (1) raises *)
    match get_LZ lo, get_LZ labs with
    | Some lo, Some labs =>
      let r := map (fun l => (([] : row), l)) labs in
      match split_one_vs_others lo r with
      | None => Lv [Zv 1]
      | Some ps => Lv [Zv 0; Lv (map (fun p => of_LQc (map snd p)) ps)]
      end
    | _, _ => sx_err 7
    end
  | 1, l => match get_LQc l with Some l => Zv (Z.of_nat (argmax l)) | None => sx_err 4 end
  | _, _ => sx_err 0
  end.
