(* Wire entry point of the C06 model (refinement structures of the dimension-wise strategy); see Model/DimWiseWire.v *)
From Coq Require Import ZArith List.
From SG Require Import Base.Sx Model.DimWiseWire.
Open Scope Z_scope.
Definition entry_C06 (sub : Z) (a : sx) : sx := entry_dimwise sub a.
