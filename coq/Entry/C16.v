(* Wire entry points of the C16 model (density estimation: system matrix, right-hand side, hats, normalisation). *)
From Coq Require Import ZArith List Bool QArith Qcanon.
From SG Require Import Base.Sx Base.QcUtil Model.Gram Model.GramSolve.
Import ListNotations.
Open Scope Z_scope.

Definition opt_bind {A B} (o : option A) (f : A -> option B) : option B := match o with Some a => f a | None => None end.
Notation "'do' x <- o ; k" := (opt_bind o (fun x => k)) (at level 200, x name, o at level 100, k at level 200).

Definition ret (o : option sx) : sx := match o with Some s => s | None => sx_err 2 end.

(* raw (un-normalised) surpluses:  ml = mass lumping (no solve needed), otherwise the certificate is checked *)
Definition raw_alphas (uniform ml : bool) (G : list (list Qc)) (b cert : list Qc) : bool * list Qc :=
  if ml then
    (true, if uniform
           then match G with [dv] :: _ => map (fun bi => (bi * (1 / dv))%Qc) b | _ => [] end
           else match G with R :: _ => solve_lumped_nonuniform R b | _ => [] end)
  else (check_solution G cert b, cert).

(* result of the model pipeline: (raw final integral); the solve reports failure explicitly *)
Definition of_pipeline (r : option (list Qc * list Qc * Qc)) : sx :=
  match r with
  | Some (raw, fin, integ) => Lv [of_LQc raw; of_LQc fin; of_Qc integ]
  | None => sx_err 3
  end.

Definition get_ugrid (s : sx) : option (list Z * Qc * list Qc) :=
  match s with
  | Lv [lv; c; al] => do lv <- get_LZ lv; do c <- get_Qc c; do al <- get_LQc al; Some (lv, c, al)
  | _ => None
  end.
Definition get_ngrid (s : sx) : option (list (list Qc) * Qc * list Qc) :=
  match s with
  | Lv [st; c; al] => do st <- get_LLQc st; do c <- get_Qc c; do al <- get_LQc al; Some (st, c, al)
  | _ => None
  end.

Definition entry_C16 (sub : Z) (a : sx) : sx :=
  match sub, a with
  (* uniform system: (levelvec lambda masslumping data signs) -> (R b) *)
  | 0, Lv [lv; lam; ml; data; signs] => ret (
      do lv <- get_LZ lv; do lam <- get_Qc lam; do ml <- get_bool ml;
      do data <- get_LLQc data; do signs <- get_LQc signs;
      Some (Lv [ if ml then of_LLQc [[diag_val lv]] else of_LLQc (R_matrix_uniform lv lam);
                 of_LQc (rhs_uniform lv data signs) ]))
  (* non-uniform system: (stripes lambda masslumping data signs) -> (R b weights) *)
  | 1, Lv [stripes; lam; ml; data; signs] => ret (
      do stripes <- get_LLQc stripes; do lam <- get_Qc lam; do ml <- get_bool ml;
      do data <- get_LLQc data; do signs <- get_LQc signs;
      let pts := grid_hats stripes in
      Some (Lv [ if ml then of_LLQc [R_lumped_nonuniform pts lam] else of_LLQc (R_matrix_nonuniform pts lam);
                 of_LQc (rhs pts data signs);
                 of_LQc (tensor_weights stripes) ]))
  (* solve + normalise: (uniform ml G b certificate labelled weights) -> (certificate_ok raw final integral) *)
  | 2, Lv [uni; ml; G; b; cert; lab; w] => ret (
      do uni <- get_bool uni; do ml <- get_bool ml; do G <- get_LLQc G; do b <- get_LQc b;
      do cert <- get_LQc cert; do lab <- get_bool lab; do w <- get_LQc w;
      let '(ok, raw) := raw_alphas uni ml G b cert in
      let '(fin, integ) := if uni then normalise_uniform lab raw else normalise_weighted lab w raw in
      Some (Lv [sx_bool ok; of_LQc raw; of_LQc fin; of_Qc integ]))
  (* hat variants on a non-uniform grid: (stripes points) -> per point, per hat (scalar cv vec) *)
  | 4, Lv [stripes; pts] => ret (
      do stripes <- get_LLQc stripes; do pts <- get_LLQc pts;
      let hs := grid_hats stripes in
      Some (Lv (map (fun x => Lv (map (fun t =>
              of_LQc [hat_nd hat_scalar t x; hat_nd hat_cv t x; hat_nd hat_vec t x]) hs)) pts)))
  (* hat variants on a uniform grid: (levelvec points) -> per point, per hat (clamped unclamped) *)
  | 5, Lv [lv; pts] => ret (
      do lv <- get_LZ lv; do pts <- get_LLQc pts;
      Some (Lv (map (fun x => Lv (map (fun iv =>
              of_LQc [hat_u_nd hat_u lv iv x; hat_u_nd hat_u_insupp lv iv x]) (index_list lv))) pts)))
  (* right-hand sides of the large-grid code paths *)
  | 6, Lv [stripes; data; signs] => ret (
      do stripes <- get_LLQc stripes; do data <- get_LLQc data; do signs <- get_LQc signs;
      Some (of_LQc (rhs_large stripes data signs)))
  | 7, Lv [lv; data; signs] => ret (
      do lv <- get_LZ lv; do data <- get_LLQc data; do signs <- get_LQc signs;
      Some (of_LQc (rhs_uniform_large lv data signs)))
  (* interpolant of one component grid *)
  | 8, Lv [stripes; al; pts] => ret (
      do stripes <- get_LLQc stripes; do al <- get_LQc al; do pts <- get_LLQc pts;
      Some (of_LQc (map (interp (grid_hats stripes) al) pts)))
  | 9, Lv [lv; al; pts] => ret (
      do lv <- get_LZ lv; do al <- get_LQc al; do pts <- get_LLQc pts;
      Some (of_LQc (map (interp_uniform lv al) pts)))
  (* right-hand sides only (small-grid path) *)
  | 10, Lv [stripes; data; signs] => ret (
      do stripes <- get_LLQc stripes; do data <- get_LLQc data; do signs <- get_LQc signs;
      Some (of_LQc (rhs (grid_hats stripes) data signs)))
  | 11, Lv [lv; data; signs] => ret (
      do lv <- get_LZ lv; do data <- get_LLQc data; do signs <- get_LQc signs;
      Some (of_LQc (rhs_uniform lv data signs)))
  (* the complete pipeline inside the model (own solve): data -> raw surpluses, normalised surpluses, integral *)
  | 12, Lv [stripes; lam; ml; data; signs; lab] => ret (
      do stripes <- get_LLQc stripes; do lam <- get_Qc lam; do ml <- get_bool ml;
      do data <- get_LLQc data; do signs <- get_LQc signs; do lab <- get_bool lab;
      Some (of_pipeline (surpluses_nonuniform stripes lam ml data signs lab)))
  | 13, Lv [lv; lam; ml; data; signs; lab] => ret (
      do lv <- get_LZ lv; do lam <- get_Qc lam; do ml <- get_bool ml;
      do data <- get_LLQc data; do signs <- get_LQc signs; do lab <- get_bool lab;
      Some (of_pipeline (surpluses_uniform lv lam ml data signs lab)))
  (* combined density of a scheme: ((levelvec coefficient surpluses) ...) points *)
  | 14, Lv [grids; pts] => ret (
      do gl <- get_L grids; do grids <- opt_all (map get_ugrid gl); do pts <- get_LLQc pts;
      Some (of_LQc (map (combine_uniform grids) pts)))
  | 15, Lv [grids; pts] => ret (
      do gl <- get_L grids; do grids <- opt_all (map get_ngrid gl); do pts <- get_LLQc pts;
      Some (of_LQc (map (combine_nonuniform grids) pts)))
  | _, _ => sx_err 0
  end.
