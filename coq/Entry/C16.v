(* Wire entry points of the C16 model (density estimation: system matrix, right-hand side, hats, normalisation). *)
From Coq Require Import ZArith List Bool QArith Qcanon.
From SG Require Import Base.Sx Base.QcUtil Model.Gram.
Import ListNotations.
Open Scope Z_scope.

Definition opt_bind {A B} (o : option A) (f : A -> option B) : option B := match o with Some a => f a | None => None end.
Notation "'do' x <- o ; k" := (opt_bind o (fun x => k)) (at level 200, x name, o at level 100, k at level 200).

Definition ret (o : option sx) : sx := match o with Some s => s | None => sx_err 2 end.

(* raw (un-normalised) surpluses:  ml = mass lumping (no solve needed), otherwise the certificate is checked *)
Definition raw_alphas (uniform ml : bool) (G : list (list Qc)) (b cert : list Qc) : bool * list Qc :=
  if ml then
    (true, if uniform
           then match G with [dv] :: _ => map (fun bi => (bi * (1 / dv))%Qc) b | _ => [] end
           else match G with R :: _ => solve_lumped_nonuniform R b | _ => [] end)
  else (check_solution G cert b, cert).

Definition entry_C16 (sub : Z) (a : sx) : sx :=
  match sub, a with
  (* uniform system: (levelvec lambda masslumping data signs) -> (R b) *)
  | 0, Lv [lv; lam; ml; data; signs] => ret (
      do lv <- get_LZ lv; do lam <- get_Qc lam; do ml <- get_bool ml;
      do data <- get_LLQc data; do signs <- get_LQc signs;
      Some (Lv [ if ml then of_LLQc [[diag_val lv]] else of_LLQc (R_matrix_uniform lv lam);
                 of_LQc (rhs_uniform lv data signs) ]))
  (* non-uniform system: (stripes lambda masslumping data signs) -> (R b weights) *)
  | 1, Lv [stripes; lam; ml; data; signs] => ret (
      do stripes <- get_LLQc stripes; do lam <- get_Qc lam; do ml <- get_bool ml;
      do data <- get_LLQc data; do signs <- get_LQc signs;
      let pts := grid_hats stripes in
      Some (Lv [ if ml then of_LLQc [R_lumped_nonuniform pts lam] else of_LLQc (R_matrix_nonuniform pts lam);
                 of_LQc (rhs pts data signs);
                 of_LQc (tensor_weights stripes) ]))
  (* solve + normalise: (uniform ml G b certificate labelled weights) -> (certificate_ok raw final integral) *)
  | 2, Lv [uni; ml; G; b; cert; lab; w] => ret (
      do uni <- get_bool uni; do ml <- get_bool ml; do G <- get_LLQc G; do b <- get_LQc b;
      do cert <- get_LQc cert; do lab <- get_bool lab; do w <- get_LQc w;
      let '(ok, raw) := raw_alphas uni ml G b cert in
      let '(fin, integ) := if uni then normalise_uniform lab raw else normalise_weighted lab w raw in
      Some (Lv [sx_bool ok; of_LQc raw; of_LQc fin; of_Qc integ]))
  (* hat variants on a non-uniform grid: (stripes points) -> per point, per hat (scalar cv vec) *)
  | 4, Lv [stripes; pts] => ret (
      do stripes <- get_LLQc stripes; do pts <- get_LLQc pts;
      let hs := grid_hats stripes in
      Some (Lv (map (fun x => Lv (map (fun t =>
              of_LQc [hat_nd hat_scalar t x; hat_nd hat_cv t x; hat_nd hat_vec t x]) hs)) pts)))
  (* hat variants on a uniform grid: (levelvec points) -> per point, per hat (clamped unclamped) *)
  | 5, Lv [lv; pts] => ret (
      do lv <- get_LZ lv; do pts <- get_LLQc pts;
      Some (Lv (map (fun x => Lv (map (fun iv =>
              of_LQc [hat_u_nd hat_u lv iv x; hat_u_nd hat_u_insupp lv iv x]) (index_list lv))) pts)))
  (* right-hand sides of the large-grid code paths *)
  | 6, Lv [stripes; data; signs] => ret (
      do stripes <- get_LLQc stripes; do data <- get_LLQc data; do signs <- get_LQc signs;
      Some (of_LQc (rhs_large stripes data signs)))
  | 7, Lv [lv; data; signs] => ret (
      do lv <- get_LZ lv; do data <- get_LLQc data; do signs <- get_LQc signs;
      Some (of_LQc (rhs_uniform_large lv data signs)))
  (* interpolant of one component grid *)
  | 8, Lv [stripes; al; pts] => ret (
      do stripes <- get_LLQc stripes; do al <- get_LQc al; do pts <- get_LLQc pts;
      Some (of_LQc (map (interp (grid_hats stripes) al) pts)))
  | 9, Lv [lv; al; pts] => ret (
      do lv <- get_LZ lv; do al <- get_LQc al; do pts <- get_LLQc pts;
      Some (of_LQc (map (interp_uniform lv al) pts)))
  (* right-hand sides only (small-grid path) *)
  | 10, Lv [stripes; data; signs] => ret (
      do stripes <- get_LLQc stripes; do data <- get_LLQc data; do signs <- get_LQc signs;
      Some (of_LQc (rhs (grid_hats stripes) data signs)))
  | 11, Lv [lv; data; signs] => ret (
      do lv <- get_LZ lv; do data <- get_LLQc data; do signs <- get_LQc signs;
      Some (of_LQc (rhs_uniform lv data signs)))
  | _, _ => sx_err 0
  end.
