(* Wire entry points of the C07 model (extend-split strategy). *)
From Coq Require Import ZArith List Bool QArith Qcanon.
From SG Require Import Base.Sx Base.QcUtil Model.CombiScheme Model.StdCombi Model.ExtendSplit Model.ESInterp Model.ESV3 Model.ESAuto.
Import ListNotations.
Open Scope Z_scope.

Definition of_box (b : box) : list sx := [of_LQc (fst b); of_LQc (snd b)].

Definition of_results (b : box) (rs : list (lv * Z * (lv * bool))) : list sx :=
  map (fun r => Lv (of_box b ++ [of_LZ (fst (fst r)); of_LZ (fst (snd r)); sx_bool (snd (snd r))])) rs.

Definition of_leaf (single : bool) (i : nat) (x : area) : sx :=
  Lv (of_box (abox x) ++ [Zv (a_coarse x); Zv (a_need x); of_LZ (map Z.of_nat (if single then [i] else a_path x))]).

Definition of_log (l : list (box * (bool * list nat))) : sx :=
  Lv (map (fun r => Lv (of_box (fst r) ++ [sx_bool (fst (snd r)); of_LZ (map Z.of_nat (snd (snd r)))])) l).

Definition of_assign (asg : list (box * list point)) : sx :=
  Lv (flat_map (fun r => map (fun p => Lv (of_LQc p :: of_box (fst r))) (snd r)) asg).

(* observation of a state (after evaluate); returns the state with the registered dictionaries *)
Definition of_interp (vals : list (point * Qc)) : sx :=
  Lv (map (fun pv => Lv [of_LQc (fst pv); of_Qc (snd pv)]) vals).

(* fopt = Some f: additionally the values of the combined interpolant (__call__) at the evaluation points, computed on
   the state AFTER the observation pass (the harness calls coarsen_grid for every area first, then the strategy object) *)
(* results of coarsen_grid for every component grid on an area, all four versions *)
Definition results4 (st : state) (x : area) : list (lv * Z * (lv * bool)) :=
  coarsen_results (st_cp st) (a_coarse x) (a_dict x).

(* version 3: the observation / compute traces of the model (which treats every version other than 0,1 as 2) are
   recomputed with Model/ESV3.v; the boxes and coarsening values are those of the areas of the state *)
Definition fix_v3 (st : state) (tr : list (box * list (lv * Z * (lv * bool)))) : list (box * list (lv * Z * (lv * bool))) :=
  if st_version st =? 3 then
    map (fun r => match find_area (fst r) (st_objs st) with Some x => (fst r, results4 st x) | None => r end) tr
  else tr.

Definition observe_f (fopt : option (list Qc -> Qc)) (st : state) (pts : list point)
           (compute : list (box * list (lv * Z * (lv * bool)))) (log : list (box * (bool * list nat))) : state * sx :=
  let '(st', co0) := observe_coarsen st in
  let co := fix_v3 st co0 in
  let assert_ok := if st_version st =? 3 then forallb (fun g => coarsen_assert3_ok (st_cp st) (fst g)) (the_scheme (st_cp st))
                   else forallb (fun g => coarsen_assert_ok (st_cp st) (fst g)) (the_scheme (st_cp st)) in
  (st', Lv ([Zv (st_lmax st);
            Lv (mapi (of_leaf (st_single st)) 0 (st_objs st));
            Lv (map (fun g => Lv [of_LZ (fst g); Zv (snd g)]) (the_scheme (st_cp st)));
            Lv (flat_map (fun r => of_results (fst r) (snd r)) co);
            of_assign (assign_points (current_tree st) pts);
            Lv (map (fun b => Lv (of_box b)) (tree_leaves (current_tree st)));
            Lv (flat_map (fun r => of_results (fst r) (snd r)) (fix_v3 st compute));
            of_log log;
            sx_bool assert_ok]
            ++ match fopt with None => [] | Some f => [of_interp (es_interpolate4 st' f pts)] end)).

Definition observe := observe_f None.

Definition get_box2 (s e : sx) : option box :=
  match get_LQc s, get_LQc e with Some s, Some e => Some (s, e) | _, _ => None end.

Definition get_dec (x : sx) : option decision :=
  match x with
  (* with the benefit numbers of automatic_extend_split: the extend/split bit is COMPUTED (Model/ESAuto.v auto_decide), the
     bit read off the trace is ignored; the model's log then shows the computed decision *)
  | Lv [s; e; _; dims; be; bs] =>
    match get_box2 s e, get_Qc be, get_Qc bs, get_LZ dims with
    | Some b, Some be, Some bs, Some ds => Some (b, (auto_decide be bs, map Z.to_nat ds))
    | _, _, _, _ => None
    end
  | Lv [s; e; ext; dims] =>
    match get_box2 s e, get_bool ext, get_LZ dims with
    | Some b, Some ex, Some ds => Some (b, (ex, map Z.to_nat ds))
    | _, _, _ => None
    end
  | _ => None
  end.

Definition get_ben (x : sx) : option (box * Z) :=
  match x with
  | Lv [s; e; Zv k] => match get_box2 s e with Some b => Some (b, k) | None => None end
  | _ => None
  end.

Definition get_list {A} (f : sx -> option A) (x : sx) : option (list A) :=
  match x with Lv l => opt_all (map f l) | _ => None end.

Definition get_step (x : sx) : option (step_input * list point) :=
  match x with
  | Lv [decs; bens; pts] =>
    match get_list get_dec decs, get_list get_ben bens, get_LLQc pts with
    | Some d, Some b, Some p => Some (mkStep d b, p)
    | _, _, _ => None
    end
  | _ => None
  end.

Fixpoint run_steps_f (fopt : option (list Qc -> Qc)) (st : state) (steps : list (step_input * list point)) : list sx :=
  match steps with
  | [] => []
  | (inp, pts) :: r =>
    let '(st1, log) := refine_round st (si_decs inp) in
    let '(st2, comp) := evaluate st1 (si_bens inp) in
    let '(st3, o) := observe_f fopt st2 pts comp log in
    o :: run_steps_f fopt st3 r
  end.

(* step kinds: 0 = refine(); continue_adaptive_refinement(max_evaluations=1)
               1 = performSpatiallyAdaptiv(..., refinement_container=self.refinement): reinit_new_objects marks EVERY object
                   new, the evaluation runs over all areas (coarsen_grid for every area and component grid, new scripted
                   benefits for all); no refinement round *)
Definition get_step_k (x : sx) : option (step_input * list point * Z) :=
  match x with
  | Lv [decs; bens; pts; Zv k] =>
    match get_step (Lv [decs; bens; pts]) with Some (i, p) => Some (i, p, k) | None => None end
  | _ => match get_step x with Some (i, p) => Some (i, p, 0) | None => None end
  end.

Fixpoint run_steps_k (fopt : option (list Qc -> Qc)) (st : state) (steps : list (step_input * list point * Z)) : list sx :=
  match steps with
  | [] => []
  | (inp, pts, k) :: r =>
    let '(st1, log) := if k =? 1 then (mark_all_new st, []) else refine_round st (si_decs inp) in
    let '(st2, comp) := evaluate st1 (si_bens inp) in
    let '(st3, o) := observe_f fopt st2 pts comp log in
    o :: run_steps_k fopt st3 r
  end.

Definition run_steps := run_steps_f None.

Definition run_history (fopt : option (list Qc -> Qc)) (cfg bens0 pts0 steps : sx) : sx :=
  match cfg with
  | Lv [Zv dim; Zv version; Zv nrbe; auto; single; Zv lmin; Zv lmax; sa; sb; Zv variant] =>
    match get_bool auto, get_bool single, get_LQc sa, get_LQc sb,
          get_list get_ben bens0, get_LLQc pts0, get_list get_step_k steps with
    | Some au, Some si, Some va, Some vb, Some b0, Some p0, Some sts =>
      let st0 := init_state (Z.to_nat dim) version nrbe lmin lmax (if variant =? 0 then 1 else lmin) au si va vb in
      let '(st1, comp) := evaluate st0 b0 in
      let '(st2, o) := observe_f fopt st1 p0 comp [] in
      Lv (o :: run_steps_k fopt st2 sts)
    | _, _, _, _, _, _, _ => sx_err 1
    end
  | _ => sx_err 1
  end.

Definition get_grids (x : sx) : option (list (lv * Z)) :=
  get_list (fun g => match g with
                     | Lv [l; Zv c] => match get_LZ l with Some l => Some (l, c) | None => None end
                     | _ => None end) x.

(* sub 0: ((dim version nrbe auto single lmin lmax a b variant) bens0 pts0 (step ...)) -> (obs0 obs1 ...)
   sub 1: (d ((levelvec coeff) ...)) -> valid_local_combi
   sub 2: (dim version lmin lmax coarsening variant) -> local_combi, validity, assert
   sub 3: as sub 0 with the test function fun_poly al be: ((cfg) (al be) bens0 pts0 (step ...)); every observation carries
          a 10th component: the values of the combined interpolant at the evaluation points inside the domain
   sub 5: (dim lmin lmax coarsening) -> version 3: ((levelvec coarse do_compute) ...), valid_local_combi, assert ok
   sub 6: (dim a b (twin events)) -> split dimensions chosen at every split + final twin-error table (Model/ESAuto.v)
   sub 4: (dim version lmin lmax coarsening variant) -> coarsen_grid for every component grid on a fresh area:
          ((levelvec coarse do_compute) ...), once more with the dictionary left behind, assert ok *)
Definition entry_C07 (sub : Z) (a : sx) : sx :=
  match sub, a with
  | 0, Lv [Lv [Zv dim; Zv version; Zv nrbe; auto; single; Zv lmin; Zv lmax; sa; sb; Zv variant]; bens0; pts0; steps] =>
    match get_bool auto, get_bool single, get_LQc sa, get_LQc sb,
          get_list get_ben bens0, get_LLQc pts0, get_list get_step steps with
    | Some au, Some si, Some va, Some vb, Some b0, Some p0, Some sts =>
      let st0 := init_state (Z.to_nat dim) version nrbe lmin lmax (if variant =? 0 then 1 else lmin) au si va vb in
      let '(st1, comp) := evaluate st0 b0 in
      let '(st2, o) := observe st1 p0 comp [] in
      Lv (o :: run_steps st2 sts)
    | _, _, _, _, _, _, _ => sx_err 1
    end
  | 1, Lv [Zv d; gs] =>
    match get_grids gs with
    | Some gs => sx_bool (valid_local_combi (Z.to_nat d) gs)
    | None => sx_err 2
    end
  | 2, Lv [Zv dim; Zv version; Zv lmin; Zv lmax; Zv c; Zv variant] =>
    let cp := mkCP (Z.to_nat dim) version lmin lmax (if variant =? 0 then 1 else lmin) in
    let gs := local_combi cp c in
    Lv [Lv (map (fun g => Lv [of_LZ (fst g); Zv (snd g)]) gs); sx_bool (valid_local_combi (Z.to_nat dim) gs)]
  | 3, Lv [cfg; Lv [al; be]; bens0; pts0; steps] =>
    match get_LQc al, get_LQc be with
    | Some [], Some [] => run_history None cfg bens0 pts0 steps
    | Some al, Some be => run_history (Some (fun_poly al be)) cfg bens0 pts0 steps
    | _, _ => sx_err 3
    end
  | 4, Lv [Zv dim; Zv version; Zv lmin; Zv lmax; Zv c; Zv variant] =>
    let cp := mkCP (Z.to_nat dim) version lmin lmax (if variant =? 0 then 1 else lmin) in
    let '(rs, dict1) := coarsen_all cp c [] (the_scheme cp) in
    let enc := fun rs : list (lv * Z * (lv * bool)) =>
                 Lv (map (fun r => Lv [of_LZ (fst (fst r)); of_LZ (fst (snd r)); sx_bool (snd (snd r))]) rs) in
    Lv [enc rs; enc (fst (coarsen_all cp c dict1 (the_scheme cp)));
        sx_bool (forallb (fun g => coarsen_assert_ok cp (fst g)) (the_scheme cp))]
  | 5, Lv [Zv dim; Zv lmin; Zv lmax; Zv c] =>
    let cp := mkCP (Z.to_nat dim) 3 lmin lmax 1 in
    let rs := coarsen_all3 cp c (the_scheme cp) in
    Lv [Lv (map (fun r => Lv [of_LZ (fst (fst r)); of_LZ (fst (snd r)); sx_bool (snd (snd r))]) rs);
        sx_bool (valid_local_combi (Z.to_nat dim) (local_combi3 cp c));
        sx_bool (forallb (fun g => coarsen_assert3_ok cp (fst g)) (the_scheme cp))]
  | 6, Lv [Zv dim; sa; sb; evs] =>
    let get_ev := fun x =>
      match x with
      | Lv [Zv 0; s; e; Zv d; v] =>
        match get_box2 s e, get_Qc v with Some b, Some v => Some (TSet b (Z.to_nat d) v) | _, _ => None end
      | Lv [Zv 1; s; e; ext] =>
        match get_box2 s e, get_bool ext with Some b, Some ex => Some (TRefine b ex) | _, _ => None end
      | _ => None
      end in
    match get_LQc sa, get_LQc sb, get_list get_ev evs with
    | Some va, Some vb, Some evs =>
      let '(es, log) := twin_run (twin_init (Z.to_nat dim) va vb) evs in
      let of_opt := fun t : option Qc => match t with Some x => Lv [of_Qc x] | None => Lv [] end in
      Lv [Lv (map (fun r => Lv (of_box (fst r) ++ [of_LZ (map Z.of_nat (snd r))])) log);
          Lv (map (fun e => Lv (of_box (fst e) ++ [Lv (map of_opt (fst (snd e)))])) es)]
    | _, _, _ => sx_err 6
    end
  | _, _ => sx_err 0
  end.
