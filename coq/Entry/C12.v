(* Wire entry points of the C12 models (evaluation cache of Function; polynomial family and its integrals). *)
From Coq Require Import ZArith List QArith Qcanon Bool.
From SG Require Import Base.Sx Base.QcUtil Model.FunCache Model.FunPoly Model.FunCacheVec Model.FunGenz Model.FunGenzSym.
Import ListNotations.
Open Scope Z_scope.

(* ---------------------------------------------------------------- decoding *)
Definition get_kv (s : sx) : option (point * value) :=
  match s with
  | Lv [p; v] => match get_LQc p, get_LQc v with Some p, Some v => Some (p, v) | _, _ => None end
  | _ => None
  end.
Definition get_dict (s : sx) : option dict :=
  match s with Lv l => opt_all (map get_kv l) | _ => None end.

Definition get_op (s : sx) : option op :=
  match s with
  | Lv [Zv 0; p] => match get_LQc p with Some p => Some (OSingle p) | None => None end
  | Lv [Zv 1; ps] => match get_LLQc ps with Some ps => Some (OBatch ps) | None => None end
  | Lv [Zv 2; ps] => match get_LLQc ps with Some ps => Some (OVec ps) | None => None end
  | Lv [Zv 3] => Some OReset
  | Lv [Zv 4] => Some ODeact
  | Lv [Zv 5] => Some OSize
  | _ => None
  end.
Definition get_ops (s : sx) : option (list op) :=
  match s with Lv l => opt_all (map get_op l) | _ => None end.

(* ---------------------------------------------------------------- encoding *)
Definition of_err (e : err) : Z := match e with EUnbound => 1 | EIndex => 2 | EOutLen => 3 end.
Definition of_result (r : result) : sx :=
  match r with
  | RSingle v => Lv [Zv 0; of_LQc v]
  | RBatch vs => Lv [Zv 1; of_LLQc vs]
  | RVec vs => Lv [Zv 2; of_LLQc vs]
  | RUnit => Lv [Zv 3]
  | RSize n => Lv [Zv 5; Zv (Z.of_nat n)]
  | RErr e => Lv [Zv (-1); Zv (of_err e)]
  end.
Definition of_dict (d : dict) : sx := Lv (map (fun kv => Lv [of_LQc (fst kv); of_LQc (snd kv)]) d).
Definition of_step (rs : result * state) : sx :=
  Lv [of_result (fst rs); Zv (Z.of_nat (length (fd (snd rs)))); of_dict (fd (snd rs)); sx_bool (cache (snd rs))].

(* ---------------------------------------------------------------- polynomial family *)
Definition get_atom (s : sx) : option atom :=
  match s with
  | Lv [Zv 0; v] => match get_Qc v with Some v => Some (FConst v) | None => None end
  | Lv [Zv 1; cs] => match get_LQc cs with Some cs => Some (FLinear cs) | None => None end
  | Lv [Zv 2; cs] => match get_LQc cs with Some cs => Some (FMultilinear cs) | None => None end
  | Lv [Zv 3; cs; Zv deg] => match get_LQc cs with Some cs => Some (FPolynomial cs (Z.to_nat deg)) | None => None end
  | Lv [Zv 4; cs] => match get_LQc cs with Some cs => Some (FPoly1d cs) | None => None end
  | _ => None
  end.
Definition get_atom_w (s : sx) : option (atom * Qc) :=
  match s with
  | Lv [f; w] => match get_atom f, get_Qc w with Some f, Some w => Some (f, w) | _, _ => None end
  | _ => None
  end.
Definition get_fn (s : sx) : option fn :=
  match s with
  | Lv [Zv 5; Lv fs] => match opt_all (map get_atom_w fs) with Some fs => Some (FCompose fs) | None => None end
  | _ => match get_atom s with Some f => Some (FAtom f) | None => None end
  end.
Definition of_ires (r : ires) : sx :=
  match r with IVal q => Lv [Zv 0; of_Qc q] | INone => Lv [Zv 1] | IErr => Lv [Zv 2] end.

Definition is_linear (f : fn) : option (list Qc) := match f with FAtom (FLinear cs) => Some cs | _ => None end.

Definition poly_point (f : fn) (n : nat) (x : list Qc) : sx :=
  Lv [of_ires (fn_eval f x); of_Qc (mp_eval (fn_denote n f) x);
      match is_linear f with Some cs => Lv [of_Qc (linear_vectorized_row cs x)] | None => Lv [] end].
Definition poly_box (f : fn) (n : nat) (ab : sx) : sx :=
  match ab with
  | Lv [a; b] =>
    match get_LQc a, get_LQc b with
    | Some a, Some b => Lv [of_ires (fn_int false f a b); of_ires (fn_int true f a b); of_Qc (mp_int (fn_denote n f) a b)]
    | _, _ => sx_err 4
    end
  | _ => sx_err 4
  end.


(* ---------------------------------------------------------------- machine with its own vectorised evaluation *)
Definition get_vop (s : sx) : option vop :=
  match s with
  | Lv [Zv 6; b] => match get_bool b with Some b => Some (VDebug b) | None => None end
  | _ => match get_op s with Some o => Some (VBase o) | None => None end
  end.
Definition get_vops (s : sx) : option (list vop) :=
  match s with Lv l => opt_all (map get_vop l) | _ => None end.
Definition of_vresult (r : vresult) : sx :=
  match r with VR r => of_result r | VAssertVec => Lv [Zv (-1); Zv 4] end.
Definition of_vstep (rs : vresult * vstate) : sx :=
  let st := vbase (snd rs) in
  Lv [of_vresult (fst rs); Zv (Z.of_nat (length (fd st))); of_dict (fd st); sx_bool (cache st); sx_bool (vdebug (snd rs))].

(* nested arrays: `depth` axes above the points *)
Fixpoint get_arr (depth : nat) (s : sx) : option arr :=
  match depth with
  | O => match get_LQc s with Some p => Some (APoint p) | None => None end
  | S k => match s with
           | Lv l => match opt_all (map (get_arr k) l) with Some r => Some (ANest r) | None => None end
           | _ => None
           end
  end.
Fixpoint of_varr (a : varr) : sx :=
  match a with VRow v => of_LQc v | VNest l => Lv (map of_varr l) end.
Definition of_shape (s : option (list nat)) : sx :=
  match s with Some l => Lv (map (fun n => Zv (Z.of_nat n)) l) | None => sx_err 7 end.


(* ---------------------------------------------------------------- symbolic models of the exp / power classes *)
Definition of_atom (a : eatom) : sx :=
  match a with AExp t => Lv [Zv 0; of_Qc t] | APow x => Lv [Zv 1; of_Qc x] | AOne => Lv [Zv 2] end.
Definition of_lin (l : lin) : sx := Lv (map (fun ca => Lv [of_Qc (fst ca); of_atom (snd ca)]) l).
Definition of_sym (s : sym) : sx := Lv (map of_lin s).
Definition get_box (ab : sx) : option (list Qc * list Qc) :=
  match ab with
  | Lv [a; b] => match get_LQc a, get_LQc b with Some a, Some b => Some (a, b) | _, _ => None end
  | _ => None
  end.

(* sub 0: (olen (fix_single fix_empty) table ops) -> ((result size dict cache_on) ...)   [eval := table lookup]
   sub 1: (fn n points boxes) -> ((dim_ok) (per point: eval, denotation value, vectorised row)
                                  (per box: integral as coded, integral after fixes, formal integral))
   sub 2: (olen (fix_single fix_empty) checks eval_table vec_table vops) -> ((vresult size dict cache_on debug) ...)
          [eval := eval_table lookup; eval_vectorized := row-wise vec_table lookup; ops 0..5 as in sub 0, (6 b) = debug := b]
   sub 4: (coeffs points boxes) -> GenzCornerPeak: ((per point: eval, vectorised row) (per box: analytic integral as coded,
          the same value as iterated difference / dim!))
   sub 5: (coeffs borders points boxes) -> GenzDiscontinious, symbolic: per point (0) = the value 0.0 | (1 t) = exp(t);
          per box (0) = early return 0.0 | (1 sym); sym = product of sums of coefficient * atom, atom (0 t) = exp(t), (1 x) = x**(1+y), (2) = 1
   sub 6: (coeffs midpoints points boxes) -> GenzC0, symbolic: per point t (eval = exp(t)); per box sym
   sub 7: (boxes) -> FunctionExpVar integral, symbolic: per box (0) | (1 y constant sym)
   sub 8: (which points boxes) -> exact: which = 0 FunctionDiagonalDiscont, 1 FunctionG: per point eval, per box integral
   sub 3: (olen eval_table depth array) -> (result-array-of-the-generic-eval_vectorized shape-of-result shape-of-argument) *)
Definition entry_C12 (sub : Z) (a : sx) : sx :=
  match sub, a with
  | 0, Lv [Zv olen; Lv [fs; fe]; tab; ops] =>
    match get_bool fs, get_bool fe, get_dict tab, get_ops ops with
    | Some fs, Some fe, Some tab, Some ops =>
        Lv (map of_step (run (eval_tab tab) (Z.to_nat olen) (mkVar fs fe) init ops))
    | _, _, _, _ => sx_err 1
    end
  | 1, Lv [f; Zv n; Lv pts; Lv boxes] =>
    match get_fn f, opt_all (map get_LQc pts) with
    | Some f, Some pts =>
        let n := Z.to_nat n in
        Lv [sx_bool (fn_dim_ok n f); Lv (map (poly_point f n) pts); Lv (map (poly_box f n) boxes)]
    | _, _ => sx_err 2
    end
  | 2, Lv [Zv olen; Lv [fs; fe]; chk; etab; vtab; ops] =>
    match get_bool fs, get_bool fe, get_bool chk, get_dict etab, get_dict vtab, get_vops ops with
    | Some fs, Some fe, Some chk, Some etab, Some vtab, Some ops =>
        Lv (map of_vstep (vrun (eval_tab etab) (Z.to_nat olen) (evec_tab vtab) chk (mkVar fs fe) vinit ops))
    | _, _, _, _, _, _ => sx_err 5
    end
  | 3, Lv [Zv olen; etab; Zv depth; a] =>
    match get_dict etab, get_arr (Z.to_nat depth) a with
    | Some etab, Some a =>
        match generic_vec (eval_tab etab) (Z.to_nat olen) a with
        | Some r => Lv [of_varr r; of_shape (varr_shape r); of_shape (arr_shape a)]
        | None => Lv [Zv (-1); Zv 3]
        end
    | _, _ => sx_err 6
    end
  | 4, Lv [cs; Lv pts; Lv boxes] =>
    match get_LQc cs, opt_all (map get_LQc pts) with
    | Some cs, Some pts =>
        Lv [Lv (map (fun x => Lv [of_ires (cp_eval cs x); of_ires (cp_vec_row cs x)]) pts);
            Lv (map (fun ab => match ab with
                               | Lv [a; b] => match get_LQc a, get_LQc b with
                                              | Some a, Some b => Lv [of_ires (cp_int cs a b);
                                                                      of_Qc (stencil Qcinv 1 cs a b / qn (fact_nat (length cs)))]
                                              | _, _ => sx_err 4
                                              end
                               | _ => sx_err 4
                               end) boxes)]
    | _, _ => sx_err 8
    end
  | 5, Lv [cs; bs; Lv pts; Lv boxes] =>
    match get_LQc cs, get_LQc bs, opt_all (map get_LQc pts), opt_all (map get_box boxes) with
    | Some cs, Some bs, Some pts, Some boxes =>
        Lv [Lv (map (fun x => match gd_eval_sym cs bs x 0 with Some t => Lv [Zv 1; of_Qc t] | None => Lv [Zv 0] end) pts);
            Lv (map (fun ab => match gd_int_sym cs bs (fst ab) (snd ab) with Some s => Lv [Zv 1; of_sym s] | None => Lv [Zv 0] end) boxes)]
    | _, _, _, _ => sx_err 9
    end
  | 6, Lv [cs; ms; Lv pts; Lv boxes] =>
    match get_LQc cs, get_LQc ms, opt_all (map get_LQc pts), opt_all (map get_box boxes) with
    | Some cs, Some ms, Some pts, Some boxes =>
        Lv [Lv (map (fun x => of_Qc (c0_eval_sym cs ms x 0)) pts);
            Lv (map (fun ab => of_sym (c0_int_sym cs ms (fst ab) (snd ab))) boxes)]
    | _, _, _, _ => sx_err 10
    end
  | 7, Lv boxes =>
    match opt_all (map get_box boxes) with
    | Some boxes =>
        Lv (map (fun ab => match ev_int_sym (fst ab) (snd ab) with
                           | Some (y, k, s) => Lv [Zv 1; of_Qc y; of_Qc k; of_sym s]
                           | None => Lv [Zv 0]
                           end) boxes)
    | None => sx_err 11
    end
  | 8, Lv [Zv which; Lv pts; Lv boxes] =>
    match opt_all (map get_LQc pts), opt_all (map get_box boxes) with
    | Some pts, Some boxes =>
        if Z.eqb which 0
        then Lv [Lv (map (fun x => of_Qc (dd_eval x)) pts); Lv (map (fun ab => of_ires (dd_int (fst ab) (snd ab))) boxes)]
        else Lv [Lv (map (fun x => of_Qc (g_eval x)) pts); Lv (map (fun ab => of_ires (g_int (fst ab) (snd ab))) boxes)]
    | _, _ => sx_err 12
    end
  | _, _ => sx_err 0
  end.
