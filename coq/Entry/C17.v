(* Wire entry points of the C17 model (matrix-entry cache of the density estimation). *)
From Coq Require Import ZArith List Bool QArith Qcanon.
From SG Require Import Base.Sx Base.QcUtil Model.Gram Model.DECache Model.DEReuse.
Import ListNotations.
Open Scope Z_scope.

Definition opt_bind {A B} (o : option A) (f : A -> option B) : option B := match o with Some a => f a | None => None end.
Notation "'do' x <- o ; k" := (opt_bind o (fun x => k)) (at level 200, x name, o at level 100, k at level 200).
Definition ret (o : option sx) : sx := match o with Some s => s | None => sx_err 2 end.

Definition get_grids (s : sx) : option (list (list (list Qc))) :=
  match s with Lv l => opt_all (map get_LLQc l) | _ => None end.

Definition of_cache (c : cache) : sx :=
  Lv (map (fun kv => Lv [of_LQc (fst (fst kv)); of_LQc (snd (fst kv)); of_Qc (snd kv)]) c).

(* ---- wave 2: re-use of old right-hand sides, data bins, large-grid interpolation *)
Definition get_nat (s : sx) : option nat := match s with Zv z => Some (Z.to_nat z) | _ => None end.
Definition get_Lnat (s : sx) : option (list nat) := match s with Lv l => opt_all (map get_nat l) | _ => None end.
Definition get_LLnat (s : sx) : option (list (list nat)) := match s with Lv l => opt_all (map get_Lnat l) | _ => None end.
Definition of_nat (n : nat) : sx := Zv (Z.of_nat n).

(* event: [] = post_processing ; [key stripes] = evaluation of a component grid *)
Definition get_event (s : sx) : option event :=
  match s with
  | Lv [] => Some EPost
  | Lv [k; st] => do k <- get_LZ k; do st <- get_LLQc st; Some (EGrid k st)
  | _ => None
  end.
Definition get_events (s : sx) : option (list event) := match s with Lv l => opt_all (map get_event l) | _ => None end.

Definition get_bin (s : sx) : option ((Qc * Qc) * (nat * nat)) :=
  match s with
  | Lv [lo; hi; a; b] => do lo <- get_Qc lo; do hi <- get_Qc hi; do a <- get_nat a; do b <- get_nat b; Some ((lo, hi), (a, b))
  | _ => None
  end.
Definition get_bins (s : sx) : option (list binmap) :=
  match s with
  | Lv l => opt_all (map (fun bm => match bm with Lv e => opt_all (map get_bin e) | _ => None end) l)
  | _ => None
  end.
Definition of_bins (bs : list binmap) : sx :=
  Lv (map (fun bm => Lv (map (fun e => Lv [of_Qc (fst (fst e)); of_Qc (snd (fst e)); of_nat (fst (snd e)); of_nat (snd (snd e))]) bm)) bs).

(* the history with, per evaluated grid, the old right-hand side that find_closest_old_B selects (or [] for none) *)
Fixpoint run_reuse_log (thr : nat) (data : list (list Qc)) (signs : list Qc) (perms : list (list nat)) (st : bstate)
  (evs : list event) : list sx * bstate :=
  match evs with
  | [] => ([], st)
  | EGrid key stripes :: r =>
      let chosen := if (thr <=? length (grid_hats stripes))%nat
                    then match find_closest (oldB st) stripes with Some (k, _) => Lv [of_LZ k] | None => Lv [] end
                    else Lv [] in
      let '(b, st1) := calc_B thr data signs perms st key stripes in
      let '(out, st2) := run_reuse_log thr data signs perms st1 r in
      (Lv [of_LQc b; chosen] :: out, st2)
  | EPost :: r => run_reuse_log thr data signs perms (post st) r
  end.

Definition entry_C17 (sub : Z) (a : sx) : sx :=
  match sub, a with
  (* history of grids built with one cache: (lambda grids) -> (matrices_with_cache matrices_without cache) *)
  | 0, Lv [lam; grids] => ret (
      do lam <- get_Qc lam; do grids <- get_grids grids;
      let '(Gs, c) := history_cached [] lam grids in
      Some (Lv [Lv (map of_LLQc Gs); Lv (map of_LLQc (history_plain lam grids)); of_cache c]))
  (* history of right-hand sides on one object with re-use: (threshold data signs perms events) ->
     ((b chosen_old_key)... , data bins, keys of old_B at the end) *)
  | 1, Lv [thr; data; signs; perms; evs] => ret (
      do thr <- get_nat thr; do data <- get_LLQc data; do signs <- get_LQc signs; do perms <- get_LLnat perms;
      do evs <- get_events evs;
      let '(out, st) := run_reuse_log thr data signs perms (bstate0 (length perms)) evs in
      Some (Lv [Lv out; of_bins (bins st); Lv (map (fun e => of_LZ (fst e)) (oldB st))]))
  (* verified checker for the data bins of a run: (data perms bins) -> (bins_cover perms_complete) *)
  | 2, Lv [data; perms; bs] => ret (
      do data <- get_LLQc data; do perms <- get_LLnat perms; do bs <- get_bins bs;
      Some (Lv [sx_bool (check_bins data perms bs); sx_bool (check_perms data perms)]))
  (* large-grid interpolation path with its per-call support cache: (stripes alphas points) -> values *)
  | 3, Lv [stripes; al; pts] => ret (
      do stripes <- get_LLQc stripes; do al <- get_LQc al; do pts <- get_LLQc pts;
      Some (of_LQc (interp_large stripes al pts)))
  | _, _ => sx_err 0
  end.
