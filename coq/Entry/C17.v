(* Wire entry points of the C17 model (matrix-entry cache of the density estimation). *)
From Coq Require Import ZArith List Bool QArith Qcanon.
From SG Require Import Base.Sx Base.QcUtil Model.Gram Model.DECache.
Import ListNotations.
Open Scope Z_scope.

Definition opt_bind {A B} (o : option A) (f : A -> option B) : option B := match o with Some a => f a | None => None end.
Notation "'do' x <- o ; k" := (opt_bind o (fun x => k)) (at level 200, x name, o at level 100, k at level 200).
Definition ret (o : option sx) : sx := match o with Some s => s | None => sx_err 2 end.

Definition get_grids (s : sx) : option (list (list (list Qc))) :=
  match s with Lv l => opt_all (map get_LLQc l) | _ => None end.

Definition of_cache (c : cache) : sx :=
  Lv (map (fun kv => Lv [of_LQc (fst (fst kv)); of_LQc (snd (fst kv)); of_Qc (snd kv)]) c).

Definition entry_C17 (sub : Z) (a : sx) : sx :=
  match sub, a with
  (* history of grids built with one cache: (lambda grids) -> (matrices_with_cache matrices_without cache) *)
  | 0, Lv [lam; grids] => ret (
      do lam <- get_Qc lam; do grids <- get_grids grids;
      let '(Gs, c) := history_cached [] lam grids in
      Some (Lv [Lv (map of_LLQc Gs); Lv (map of_LLQc (history_plain lam grids)); of_cache c]))
  | _, _ => sx_err 0
  end.
