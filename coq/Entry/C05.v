(* Wire entry points of the C05 model (accumulator over Qc, combined quadrature rule). *)
From Coq Require Import ZArith List Bool QArith Qcanon.
From SG Require Import Base.Sx Base.QcUtil Model.Accum Model.AccumDW Model.CombiScheme.
From SG Require Model.ExtendSplit Model.AccumES.
Import ListNotations.
Open Scope Z_scope.

Definition qst := astate Qc.
Definition q_apply := apply_event Qc 0%Qc Qcplus Qcopp.

Definition of_areas (l : list (Z * Qc)) : sx := Lv (map (fun p => Lv [Zv (fst p); of_Qc (snd p)]) l).
Definition of_state (s : qst) : sx :=
  Lv [of_Qc (st_total s); of_Qc (st_cont s); of_areas (st_areas s); of_LZ (st_new s); Zv (if inv_checkb s then 1 else 0)].

(* raw event log: (0) init, (1 id) preprocess, (2 id x to_total to_cont) evaluate_area, (3 (ids)) removed,
   (4) reset (dimension-wise), (5 x) evaluate (dimension-wise), (6) snapshot, (7 id x) side evaluation,
   (8 id) error-estimate evaluation, (10) reset_result, (11) reinit_new_objects,
   (12) start of evaluate_final_combi on the live object (result and container value restart from zero) *)
Fixpoint replay (es : list sx) (s : qst) : option (list sx) :=
  match es with
  | [] => Some []
  | e :: r =>
      match e with
      | Lv [Zv 6] => match replay r s with Some o => Some (of_state s :: o) | None => None end
      | Lv [Zv 0] => replay r (q_apply s AInit)
      | Lv [Zv 1; Zv id] => replay r (q_apply s (APre id))
      | Lv [Zv 2; Zv id; x; bt; bc] =>
          match get_Qc x, get_bool bt, get_bool bc with
          | Some x', Some b1, Some b2 => replay r (q_apply s (AEval id x' b1 b2))
          | _, _, _ => None
          end
      | Lv [Zv 3; ids] => match get_LZ ids with Some l => replay r (q_apply s (ARemove l)) | None => None end
      | Lv [Zv 4] => replay r (q_apply s AResetDW)
      | Lv [Zv 5; x] => match get_Qc x with Some x' => replay r (q_apply s (AEvalDW x')) | None => None end
      | Lv [Zv 7; Zv id; x] => match get_Qc x with Some x' => replay r (q_apply s (ASide id x')) | None => None end
      | Lv [Zv 8; Zv id] => replay r (q_apply s (AEstimate id))
      | Lv [Zv 10] => replay r (q_apply s AResetTotal)
      | Lv [Zv 11] => replay r (q_apply s AReinit)
      | Lv [Zv 12] => replay r (q_apply s AFinalBegin)
      | _ => None
      end
  end.

(* driver steps: (0 ((id (x ...)) ...)) evaluate the new areas with these parts; (1 (removed) (added)) refine;
   (2 (x ...)) dimension-wise evaluation; (3 id x) side evaluation; (4 id) error-estimate evaluation;
   (5 ((id (x ...)) ...)) evaluate_final_combi() on the live object with these parts of ALL areas *)
Fixpoint lookup_parts (tbl : list (Z * list Qc)) (id : Z) : list Qc :=
  match tbl with [] => [] | (i, xs) :: r => if i =? id then xs else lookup_parts r id end.

Definition get_parts (s : sx) : option (list (Z * list Qc)) :=
  match s with
  | Lv l => opt_all (map (fun e => match e with
                                   | Lv [Zv id; xs] => match get_LQc xs with Some x => Some (id, x) | None => None end
                                   | _ => None end) l)
  | _ => None
  end.

Definition get_step (s : sx) : option (dstep Qc) :=
  match s with
  | Lv [Zv 0; tbl] => match get_parts tbl with Some t => Some (DEvaluate (lookup_parts t)) | None => None end
  | Lv [Zv 1; rem; add] => match get_LZ rem, get_LZ add with Some r, Some a => Some (DRefine r a) | _, _ => None end
  | Lv [Zv 2; xs] => match get_LQc xs with Some x => Some (DEvaluateDW x) | None => None end
  | Lv [Zv 3; Zv id; x] => match get_Qc x with Some x' => Some (DSide id x') | None => None end
  | Lv [Zv 4; Zv id] => Some (DEstimate id)
  | Lv [Zv 5; tbl] => match get_parts tbl with Some t => Some (DFinalCombi (lookup_parts t)) | None => None end
  | _ => None
  end.

(* the states after the evaluation steps (= the stops of the driver) *)
Definition is_evaluation (st : dstep Qc) : bool := match st with DEvaluate _ | DEvaluateDW _ => true | _ => false end.

Fixpoint run_steps_trace (clear : bool) (steps : list (dstep Qc)) (s : qst) : list sx :=
  match steps with
  | [] => []
  | st :: r => let s' := apply_step Qc 0%Qc Qcplus Qcopp clear s st in
               if is_evaluation st then of_state s' :: run_steps_trace clear r s' else run_steps_trace clear r s'
  end.

(* combined rule; points are represented by the function value at the point (f = identity) *)
Definition get_rule (s : sx) : option (Qc * rule Qc) :=
  match s with
  | Lv [c; Lv pts] =>
      match get_Qc c, opt_all (map (fun e => match e with
                                             | Lv [fv; w] => match get_Qc fv, get_Qc w with Some a, Some b => Some (a, b) | _, _ => None end
                                             | _ => None end) pts) with
      | Some c', Some r => Some (c', r)
      | _, _ => None
      end
  | _ => None
  end.

(* sub 3: dimension-wise published rule from the stripes: (boundary ((coefficient ((a b (x ...)) ...)) ...)) *)
Definition get_dimstripe (s : sx) : option (Qc * Qc * list Qc) :=
  match s with
  | Lv [a; b; xs] => match get_Qc a, get_Qc b, get_LQc xs with Some a', Some b', Some x => Some (a', b', x) | _, _, _ => None end
  | _ => None
  end.
Definition get_compstripes (s : sx) : option (Qc * list (Qc * Qc * list Qc)) :=
  match s with
  | Lv [c; Lv dims] => match get_Qc c, opt_all (map get_dimstripe dims) with Some c', Some d => Some (c', d) | _, _ => None end
  | _ => None
  end.

(* sub 4: extend-split area values: ((dim version lmin lmax base) ((coarsening (((l ...) value) ...)) ...)) *)
Fixpoint lookup_lv (tbl : list (lv * Qc)) (l : lv) : option Qc :=
  match tbl with [] => None | (k, v) :: r => if lv_eqb k l then Some v else lookup_lv r l end.
Definition get_lvval (s : sx) : option (lv * Qc) :=
  match s with Lv [l; v] => match get_LZ l, get_Qc v with Some l', Some v' => Some (l', v') | _, _ => None end | _ => None end.
Definition get_esarea (s : sx) : option (Z * list (lv * Qc)) :=
  match s with
  | Lv [Zv c; Lv tbl] => match opt_all (map get_lvval tbl) with Some t => Some (c, t) | None => None end
  | _ => None
  end.
Definition es_area_of (c : Z) : ExtendSplit.area := ExtendSplit.mkArea [] [] c 0 1 0%Qc [] [] false.
(* every level vector of the local combination must be in the table *)
Definition es_area_entry (cp : ExtendSplit.cparams) (ct : Z * list (lv * Qc)) : option Qc :=
  if forallb (fun g => match lookup_lv (snd ct) (fst g) with Some _ => true | None => false end) (ExtendSplit.local_combi cp (fst ct))
  then Some (AccumES.es_area_value (fun _ l => match lookup_lv (snd ct) l with Some v => v | None => 0%Qc end) cp (es_area_of (fst ct)))
  else None.

(* sub 0: (event ...)                       -> snapshots
   sub 1: (clear strip (initial ids) (step ...))  -> state after every evaluation step; strip = 1: of the driver WITHOUT its
          side / estimate evaluations (Accum.strip_sides)
   sub 2: ((c ((fval w) ...)) ...)          -> (combined weights, rule applied, coefficient-weighted component sum) *)
Definition entry_C05 (sub : Z) (a : sx) : sx :=
  match sub, a with
  | 0, Lv es => match replay es (mkA [] [] 0%Qc 0%Qc) with Some o => Lv o | None => sx_err 1 end
  | 1, Lv [clear; strip; ids; Lv steps] =>
      match get_bool clear, get_bool strip, get_LZ ids, opt_all (map get_step steps) with
      | Some c, Some sp, Some i, Some st =>
          Lv (run_steps_trace c (if sp then strip_sides Qc st else st) (a_init Qc 0%Qc i))
      | _, _, _, _ => sx_err 2
      end
  | 2, Lv rules =>
      match opt_all (map get_rule rules) with
      | Some sch => Lv [of_LQc (map snd (combined_rule sch)); of_Qc (apply_rule (fun x => x) (combined_rule sch));
                        of_Qc (combine_components (fun x => x) sch)]
      | None => sx_err 3
      end
  | 3, Lv [bd; Lv comps] =>
      match get_bool bd, opt_all (map get_compstripes comps) with
      | Some b, Some cs =>
          match published_of_stripes b false cs with
          | Some sch => Lv (map (fun pw => Lv [of_LQc (fst pw); of_Qc (snd pw)]) (combined_rule sch))
          | None => sx_err 5
          end
      | _, _ => sx_err 4
      end
  | 4, Lv [Lv [Zv d; Zv v; Zv lmin; Zv lmax; Zv base]; Lv areas] =>
      match opt_all (map get_esarea areas) with
      | Some ars =>
          match opt_all (map (es_area_entry (ExtendSplit.mkCP (Z.to_nat d) v lmin lmax base)) ars) with
          | Some vals => Lv [of_Qc (sumQ vals); of_LQc vals]
          | None => sx_err 7
          end
      | None => sx_err 6
      end
  | _, _ => sx_err 0
  end.
