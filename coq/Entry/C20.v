(* Wire entry points of the C20 model (stub until the model is built). *)
From Coq Require Import ZArith List.
From SG Require Import Base.Sx.
Open Scope Z_scope.
Definition entry_C20 (sub : Z) (a : sx) : sx := sx_err 0.
