(* Wire entry points of the C20 model (regression: design matrix, smoothing matrix, normal equations, Opticom). *)
From Coq Require Import ZArith List Bool QArith Qcanon.
From SG Require Import Base.Sx Base.QcUtil Model.Gram Model.Regress.
Import ListNotations.
Open Scope Z_scope.

Definition opt_bind {A B} (o : option A) (f : A -> option B) : option B := match o with Some a => f a | None => None end.
Notation "'do' x <- o ; k" := (opt_bind o (fun x => k)) (at level 200, x name, o at level 100, k at level 200).
Definition ret (o : option sx) : sx := match o with Some s => s | None => sx_err 2 end.

(* common tail: (A Ccoded Cspec) + lambda, matrix choice, targets, implementation surpluses, tolerance
   -> (A Ccoded Cspec residual_ok_with_coded_C residual_ok_with_spec_C psd_check_of_Cspec (2 = not evaluated: more than 30 hats)) *)
Definition finish (A Cc Cs : list (list Qc)) (lam : Qc) (use_C : bool) (y alpha : list Qc) (tol : Qc) : sx :=
  let r := right_vector A y in
  let fl := residual_floor A y in
  Lv [ of_LLQc A; of_LLQc Cc; of_LLQc Cs;
       sx_bool (residual_ok_floor (left_matrix A lam use_C Cc) r alpha tol fl);
       sx_bool (residual_ok_floor (left_matrix A lam use_C Cs) r alpha tol fl);
       (if (length Cs <=? 30)%nat then sx_bool (psd_check Cs) else Zv 2) ].

Definition get_LLLQc (s : sx) : option (list (list (list Qc))) :=
  match s with Lv l => opt_all (map get_LLQc l) | _ => None end.

(* Opticom: predictions of every component grid at the validation points, option 3 completely (validation errors, raw
   coefficients, degenerate branch, normalisation), option 2 through the certificate of its least-squares solve
   (raw2 = s * returned coefficients, empty = not requested)
   -> (coefficients_option3  validation_errors  predictions  option2_certified(0/1, 2 = not requested)  normalised raw2) *)
Definition opticom_out (preds : list (list Qc)) (coefs vy raw2 : list Qc) (tol : Qc) : sx :=
  Lv [ of_LQc (opticom3 preds coefs vy); of_LQc (map (mse vy) preds); of_LLQc preds;
       match raw2 with [] => Zv 2 | _ => sx_bool (opticom2_certified preds vy raw2 tol) end;
       of_LQc (opticom_finish (Some raw2) coefs) ].

Definition entry_C20 (sub : Z) (a : sx) : sx :=
  match sub, a with
  (* uniform: (levelvec lambda use_C data targets alpha tol) *)
  | 0, Lv [lv; lam; useC; data; y; al; tol] => ret (
      do lv <- get_LZ lv; do lam <- get_Qc lam; do useC <- get_bool useC; do data <- get_LLQc data;
      do y <- get_LQc y; do al <- get_LQc al; do tol <- get_Qc tol;
      Some (finish (design_uniform lv data) (C_matrix_uniform true lv) (C_matrix_uniform false lv) lam useC y al tol))
  (* dimension-wise: (stripes lambda use_C data targets alpha tol) *)
  | 1, Lv [st; lam; useC; data; y; al; tol] => ret (
      do st <- get_LLQc st; do lam <- get_Qc lam; do useC <- get_bool useC; do data <- get_LLQc data;
      do y <- get_LQc y; do al <- get_LQc al; do tol <- get_Qc tol;
      Some (finish (design_nonuniform st data) (C_matrix_dw_coded st) (C_matrix_dw_spec st) lam useC y al tol))
  (* smoothing matrices only *)
  | 2, Lv [lv] => ret (do lv <- get_LZ lv; Some (Lv [of_LLQc (C_matrix_uniform true lv); of_LLQc (C_matrix_uniform false lv)]))
  | 3, Lv [st] => ret (do st <- get_LLQc st; Some (Lv [of_LLQc (C_matrix_dw_coded st); of_LLQc (C_matrix_dw_spec st)]))
  (* last step of Opticom: (raw coefficients) -> (normalised sum) *)
  | 4, Lv [cs] => ret (do cs <- get_LQc cs;
      let n := normalise_coefficients cs in Some (Lv [of_LQc n; of_Qc (sumQ n)]))
  (* design matrix only (any number of sample rows; used for large training sets / large grids and row samples) *)
  | 5, Lv [lv; data] => ret (do lv <- get_LZ lv; do data <- get_LLQc data; Some (of_LLQc (design_uniform lv data)))
  | 6, Lv [st; data] => ret (do st <- get_LLQc st; do data <- get_LLQc data; Some (of_LLQc (design_nonuniform st data)))
  (* verified positive-semi-definiteness checker on a rational matrix *)
  | 7, Lv [g] => ret (do g <- get_LLQc g; Some (sx_bool (psd_check g)))
  (* Opticom on uniform component grids: (levelvectors surpluses coefficients validation_points validation_targets raw2 tol) *)
  | 8, Lv [lvs; als; cs; vd; vy; raw2; tol] => ret (
      do lvs <- get_LLZ lvs; do als <- get_LLQc als; do cs <- get_LQc cs; do vd <- get_LLQc vd; do vy <- get_LQc vy;
      do raw2 <- get_LQc raw2; do tol <- get_Qc tol;
      Some (opticom_out (map2 (fun lv al => predict_uniform lv al vd) lvs als) cs vy raw2 tol))
  (* Opticom on dimension-wise component grids: stripes instead of level vectors *)
  | 9, Lv [sts; als; cs; vd; vy; raw2; tol] => ret (
      do sts <- get_LLLQc sts; do als <- get_LLQc als; do cs <- get_LQc cs; do vd <- get_LLQc vd; do vy <- get_LQc vy;
      do raw2 <- get_LQc raw2; do tol <- get_Qc tol;
      Some (opticom_out (map2 (fun st al => predict_nonuniform st al vd) sts als) cs vy raw2 tol))
  (* Opticom option 1 (Garcke), standard variant: (levelvectors surpluses validation_points lambda_opticom raw1 tol)
     -> (matrix vector certified(0/1, 2 = not requested) normalised raw1) *)
  | 10, Lv [lvs; als; vd; lam; raw1; tol] => ret (
      do lvs <- get_LLZ lvs; do als <- get_LLQc als; do vd <- get_LLQc vd; do lam <- get_Qc lam;
      do raw1 <- get_LQc raw1; do tol <- get_Qc tol;
      let M := garcke_matrix (combine lvs als) vd lam in
      Some (Lv [ of_LLQc M; of_LQc (garcke_vector M);
                 match raw1 with [] => Zv 2 | _ => sx_bool (opticom1_certified M raw1 tol) end ]))
  | _, _ => sx_err 0
  end.
