(* dispatch (property number, sub entry) -> model function *)
From Coq Require Import ZArith List.
From SG Require Import Base.Sx.
From SG Require Entry.C01 Entry.C02 Entry.C03 Entry.C04 Entry.C05 Entry.C06 Entry.C07 Entry.C08 Entry.C09 Entry.C10
                Entry.C11 Entry.C12 Entry.C13 Entry.C14 Entry.C15 Entry.C16 Entry.C17 Entry.C18 Entry.C19 Entry.C20.
Open Scope Z_scope.

Definition dispatch (prop sub : Z) (a : sx) : sx :=
  match prop with
  | 1 => C01.entry_C01 sub a | 2 => C02.entry_C02 sub a | 3 => C03.entry_C03 sub a | 4 => C04.entry_C04 sub a
  | 5 => C05.entry_C05 sub a | 6 => C06.entry_C06 sub a | 7 => C07.entry_C07 sub a | 8 => C08.entry_C08 sub a
  | 9 => C09.entry_C09 sub a | 10 => C10.entry_C10 sub a | 11 => C11.entry_C11 sub a | 12 => C12.entry_C12 sub a
  | 13 => C13.entry_C13 sub a | 14 => C14.entry_C14 sub a | 15 => C15.entry_C15 sub a | 16 => C16.entry_C16 sub a
  | 17 => C17.entry_C17 sub a | 18 => C18.entry_C18 sub a | 19 => C19.entry_C19 sub a | 20 => C20.entry_C20 sub a
  | _ => sx_err 0
  end.
