(* Wire entry points of the C14 model: the resume theorem's machine instantiated on a recorded observation stream. *)
From Coq Require Import ZArith List Bool QArith Qcanon.
From SG Require Import Base.Sx Base.QcUtil Model.Driver Entry.C13.
Import ListNotations.
Open Scope Z_scope.

(* St = position in the stream; evaluating an evaluated position changes nothing (the idempotence hypothesis holds by
   construction); refine moves on to the next evaluation *)
Definition stream_run (lim : limits) (stream : list obs) (start : nat) : option nat :=
  match stream with
  | [] => None
  | o0 :: _ =>
      match run nat (fun k => k) S (fun k => nth k stream o0) lim (length stream - start) start with
      | Some k => if Nat.ltb k (length stream) then Some k else None
      | None => None
      end
  end.

Definition of_optnat (o : option nat) : sx := match o with Some k => Zv (Z.of_nat k) | None => Zv (-1) end.

(* sub 0: (l1 l2 stream) with li = (tol min max)
     -> (index where the single run with l2 stops, index where the run with l1 stops, index where its continuation with l2 stops,
         driver state of the single run, driver state after stop+continue (history arrays contain the re-evaluation)) *)
Definition entry_C14 (sub : Z) (a : sx) : sx :=
  match sub, a with
  | 0, Lv [Lv [t1; m1; x1]; Lv [t2; m2; x2]; os] =>
      match get_limits t1 m1 x1, get_limits t2 m2 x2, get_obs_list os with
      | Some l1, Some l2, Some stream =>
          let single := stream_run l2 stream 0 in
          let first := stream_run l1 stream 0 in
          let resumed := match first with Some k => stream_run l2 stream k | None => None end in
          let '(s_single, b_single) := perform l2 stream in
          let '(s1, b1) := perform l1 stream in
          let '(s2, b2) := match first with
                           | Some k => drive l2 (skipn k stream) s1
                           | None => (s1, false)
                           end in
          Lv [of_optnat single; of_optnat first; of_optnat resumed; of_dstate s_single b_single; of_dstate s2 (b1 && b2)]
      | _, _, _ => sx_err 1
      end
  | 1, Lv [Lv args; single; os] =>
      (* (args of perform; continue; continue ...)  (args of the single uninterrupted performSpatiallyAdaptiv)  stream
         -> (all legs grow to the last one?  single run's limits = last leg's limits?  stop position of the single run,
             (position, driver state) after every prefix of the history, resolved limits) *)
      match opt_all (map get_args args), get_args single, get_obs_list os with
      | Some h, Some a3, Some stream =>
          let lims := resolve_history true h in
          let lf := resolve_perform a3 in
          Lv [sx_bool (all_growb lims lf); sx_bool (limits_eqb (last lims lf) lf);
              of_optnat (first_stop lf stream);
              Lv (map of_leg_result (legs_prefixes (length lims) lims stream));
              Lv (map of_limits lims); of_limits lf]
      | _, _, _ => sx_err 2
      end
  | _, _ => sx_err 0
  end.
