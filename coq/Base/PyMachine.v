(* PyMachine — semantics of `while True:` loops with `break`, used by the source-derived models of OBJECT MACHINES
   (harness/translate/py2gallina_machine.py: a method of a class whose abstract methods are parameters of the generated
   function).  HAND-WRITTEN AND TRUSTED, definitions only; extends Base/PyLib.v (flow, bindE, bindF).

   Inside a loop body a statement block ends in one of four ways:
     LFail     an exception was raised            LRet r   `return r` was executed
     LBrk v    `break` with variable values v     LNxt v   fell through: next iteration with variable values v
   `while True: body` with live variables v:   py_loop fuel body v
     runs the body at most `fuel` times; LBrk v' ends the loop normally (Nxt v'), LRet r returns from the function, LFail
     raises.  Out of fuel = Fail: the generated function has no result.  The fuel is an explicit argument of the
     generated function (Python itself has no bound), so a statement `f fuel .. = Some r` says: the loop ends within
     `fuel` iterations with result r; PyMachineFacts.py_loop_more_fuel: more fuel never changes a result. *)
From Coq Require Import List.
From SG Require Import Base.PyLib.
Import ListNotations.

Inductive lflow (V R : Type) : Type :=
| LFail : lflow V R
| LRet : R -> lflow V R
| LBrk : V -> lflow V R
| LNxt : V -> lflow V R.
Arguments LFail {V R}.
Arguments LRet {V R} _.
Arguments LBrk {V R} _.
Arguments LNxt {V R} _.

(* evaluate a possibly raising expression inside a loop body *)
Definition bindLE {A V R} (e : option A) (k : A -> lflow V R) : lflow V R :=
  match e with Some a => k a | None => LFail end.
(* a nested block (if / else) inside a loop body; it carries the SAME variables as the loop, so that a break inside a branch
   leaves the loop with the branch's variable values; break, return and raise propagate *)
Definition bindLL {V R} (f : lflow V R) (k : V -> lflow V R) : lflow V R :=
  match f with LFail => LFail | LRet r => LRet r | LBrk v => LBrk v | LNxt v => k v end.
Definition l_assert {V R} (c : bool) (k : lflow V R) : lflow V R := if c then k else LFail.

Fixpoint py_loop {V R} (fuel : nat) (body : V -> lflow V R) (v : V) : flow V R :=
  match fuel with
  | O => Fail
  | S f => match body v with
           | LFail => Fail
           | LRet r => Ret r
           | LBrk v' => Nxt v'
           | LNxt v' => py_loop f body v'
           end
  end.

Notation "x <-- e ;; k" := (bindLE e (fun x => k)) (at level 61, e at next level, right associativity) : py_scope.
Notation "' p <-- e ;; k" := (bindLE e (fun p => k)) (at level 61, p pattern, e at next level, right associativity) : py_scope.
Notation "x <~~ e ;; k" := (bindLL e (fun x => k)) (at level 61, e at next level, right associativity) : py_scope.
Notation "' p <~~ e ;; k" := (bindLL e (fun p => k)) (at level 61, p pattern, e at next level, right associativity) : py_scope.
