(* Semantics of math.isinf for the source-derived model of GlobalTrapezoidalGridWeighted.compute_weights (property C15; used by
   coq/Gen/UQGridGen.v, written by harness/translate/py2gallina_c15.py). Definitions only, trusted like Base/PyNum.v.
   READING: the floats +inf / -inf are read as the rationals +py_INF / -py_INF with py_INF = 2^1024, the first power of two beyond the
   binary64 range (every finite float x has |x| < 2^1024), so  isinf(x)  is  2^1024 <= |x|  exactly on the images of floats. The
   translated method never does arithmetic on an infinite grid point (it tests isinf first). *)
From Coq Require Import ZArith QArith Qcanon.
From SG Require Import Base.QcUtil.
Open Scope Qc_scope.

Definition py_INF : Qc := Q2Qc (inject_Z (2 ^ 1024)).
Definition py_isinf (x : Qc) : bool := Qc_leb py_INF (Qc_abs x).
