(* PyC17 - additions to the semantics library for the front end harness/translate/py2gallina_c17.py (C17).
   HAND-WRITTEN AND TRUSTED, definitions only. *)
From Coq Require Import ZArith List Bool QArith Qcanon.
From SG Require Import Base.QcUtil.
Import ListNotations.

(* x == y for tuples of floats (componentwise exact equality, equal lengths) *)
Fixpoint py_c17_tuple_eqb (a b : list Qc) : bool :=
  match a, b with
  | [], [] => true
  | x :: a', y :: b' => Qc_eqb x y && py_c17_tuple_eqb a' b'
  | _, _ => false
  end.
(* x in l for a list of float tuples *)
Definition py_c17_tuple_in (x : list Qc) (l : list (list Qc)) : bool := existsb (py_c17_tuple_eqb x) l.
(* {} : an empty dictionary viewed as an empty association list (entries [lo; hi; first; last+1]) *)
Definition py_c17_empty_dict : list (list Qc) := [].
(* x in l for a list of floats (exact equality) *)
Definition py_c17_float_in (x : Qc) (l : list Qc) : bool := existsb (Qc_eqb x) l.
(* l.index(x) on a list of floats: position of the first equal element, ValueError (None) if absent *)
Fixpoint py_c17_float_index (l : list Qc) (x : Qc) : option Z :=
  match l with
  | [] => None
  | y :: r => if Qc_eqb y x then Some 0%Z else match py_c17_float_index r x with Some k => Some (k + 1)%Z | None => None end
  end.
