(* Additions to Base/PolyInt.v (polynomials over Qc as coefficient lists) used by C10:
   evaluation rules for the formal derivative `pderiv` (coefficient form k * c_k) and the linear-factor product
   (X - k) * w * p with its product rule. *)
From Coq Require Import ZArith List QArith Qcanon Lia.
From SG Require Import Base.QcUtil Base.PolyInt.
Import ListNotations.
Open Scope Qc_scope.

Lemma qc_of_pos_succ k : qc_of_pos (Pos.succ k) = qc_of_pos k + 1.
Proof.
  apply Qc_is_canon. unfold qc_of_pos, Qcplus, Q2Qc. cbn [this].
  repeat rewrite Qred_correct. unfold Qeq, Qplus. simpl. lia.
Qed.

Lemma peval_pderiv_from_succ k p x :
  peval (pderiv_from (Pos.succ k) p) x = peval (pderiv_from k p) x + peval p x.
Proof.
  revert k; induction p as [|c p IH]; intro k; simpl; [ring|].
  rewrite IH, qc_of_pos_succ. ring.
Qed.

(* derivative along the Horner structure: (a + x p)' = p + x p' *)
Lemma peval_pderiv_cons a p x : peval (pderiv (a :: p)) x = peval p x + x * peval (pderiv p) x.
Proof.
  unfold pderiv. destruct p as [|c r]; [simpl; ring|].
  cbn [pderiv_from peval]. rewrite peval_pderiv_from_succ, qc_of_pos_1. ring.
Qed.

Lemma pderiv_from_padd k p q : pderiv_from k (padd p q) = padd (pderiv_from k p) (pderiv_from k q).
Proof.
  revert k q; induction p as [|a p IH]; intros k [|b q]; simpl; try reflexivity.
  rewrite IH. f_equal. ring.
Qed.

Lemma pderiv_from_pscale k c p : pderiv_from k (pscale c p) = pscale c (pderiv_from k p).
Proof.
  revert k; induction p as [|a p IH]; intro k; simpl; [reflexivity|].
  unfold pscale in IH. rewrite IH. f_equal. ring.
Qed.

Lemma peval_pderiv_padd p q x : peval (pderiv (padd p q)) x = peval (pderiv p) x + peval (pderiv q) x.
Proof.
  destruct p as [|a p]; destruct q as [|b q]; simpl; try ring.
  rewrite pderiv_from_padd, peval_padd. reflexivity.
Qed.

Lemma peval_pderiv_pscale c p x : peval (pderiv (pscale c p)) x = c * peval (pderiv p) x.
Proof.
  destruct p as [|a p]; simpl; [ring|].
  change (map (fun a0 : Qc => c * a0) p) with (pscale c p).
  rewrite pderiv_from_pscale, peval_pscale. reflexivity.
Qed.

(* (X - k) * w * p *)
Definition plin (k w : Qc) (p : poly) : poly := pscale w (padd (0 :: p) (pscale (- k) p)).

Lemma peval_plin k w p x : peval (plin k w p) x = (x - k) * w * peval p x.
Proof. unfold plin. rewrite peval_pscale, peval_padd, peval_pscale. simpl. ring. Qed.

(* product rule for the linear factor *)
Lemma peval_pderiv_plin k w p x :
  peval (pderiv (plin k w p)) x = w * peval p x + (x - k) * w * peval (pderiv p) x.
Proof.
  unfold plin. rewrite peval_pderiv_pscale, peval_pderiv_padd, peval_pderiv_cons, peval_pderiv_pscale. ring.
Qed.

(* the coefficient form of the formal derivative, for the record: coefficient n of p' is (n+1) * coefficient n+1 of p *)
Lemma pderiv_from_coeff k p n :
  nth n (pderiv_from k p) 0 = Q2Qc (inject_Z (Z.pos k + Z.of_nat n)) * nth n p 0.
Proof.
  revert k n; induction p as [|c p IH]; intros k n.
  - destruct n; simpl; ring.
  - destruct n as [|n]; simpl.
    + reflexivity.
    + rewrite IH. f_equal. f_equal. f_equal. lia.
Qed.

Lemma pderiv_coeff p n : nth n (pderiv p) 0 = Q2Qc (inject_Z (Z.of_nat n + 1)) * nth (S n) p 0.
Proof.
  destruct p as [|a p].
  - destruct n; simpl; ring.
  - unfold pderiv. rewrite pderiv_from_coeff. cbn [nth]. f_equal. f_equal. f_equal. lia.
Qed.

(* ------------------------------------------------------------------ second derivative *)
Lemma pderiv_padd p q : pderiv (padd p q) = padd (pderiv p) (pderiv q).
Proof.
  destruct p as [|a p]; [reflexivity|]. destruct q as [|b q].
  - cbn [padd]. destruct (pderiv (a :: p)); reflexivity.
  - cbn [padd pderiv]. apply pderiv_from_padd.
Qed.

Lemma pderiv_pscale c p : pderiv (pscale c p) = pscale c (pderiv p).
Proof.
  destruct p as [|a p]; [reflexivity|]. cbn [pscale map pderiv].
  change (map (fun a0 : Qc => c * a0) p) with (pscale c p). apply pderiv_from_pscale.
Qed.

Lemma peval_pderiv_from_from_succ j k p x :
  peval (pderiv_from j (pderiv_from (Pos.succ k) p)) x
  = peval (pderiv_from j (pderiv_from k p)) x + peval (pderiv_from j p) x.
Proof.
  revert j k; induction p as [|c p IH]; intros j k; cbn [pderiv_from peval]; [ring|].
  rewrite IH, qc_of_pos_succ. ring.
Qed.

Lemma peval_pderiv_from_1 q x : peval (pderiv_from 1 q) x = peval q x + x * peval (pderiv q) x.
Proof. exact (peval_pderiv_cons 0 q x). Qed.

(* (a + x p)'' = 2 p' + x p'' *)
Lemma peval_pderiv2_cons a p x :
  peval (pderiv (pderiv (a :: p))) x = (1 + 1) * peval (pderiv p) x + x * peval (pderiv (pderiv p)) x.
Proof.
  destruct p as [|c r]; [simpl; ring|].
  change (pderiv (a :: c :: r)) with (qc_of_pos 1 * c :: pderiv_from (Pos.succ 1) r).
  change (pderiv (qc_of_pos 1 * c :: pderiv_from (Pos.succ 1) r)) with (pderiv_from 1 (pderiv_from (Pos.succ 1) r)).
  rewrite peval_pderiv_from_from_succ.
  change (pderiv (c :: r)) with (pderiv_from 1 r).
  rewrite (peval_pderiv_from_1 (pderiv_from 1 r) x). ring.
Qed.

Lemma peval_pderiv2_plin k w p x :
  peval (pderiv (pderiv (plin k w p))) x
  = (1 + 1) * w * peval (pderiv p) x + (x - k) * w * peval (pderiv (pderiv p)) x.
Proof.
  unfold plin. rewrite !pderiv_pscale, !pderiv_padd, !pderiv_pscale.
  rewrite peval_pscale, peval_padd, peval_pscale, peval_pderiv2_cons. ring.
Qed.
