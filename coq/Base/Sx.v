(* Universal wire value exchanged between the harness and the model.
   Every model entry point has type  sx -> sx ; the OCaml driver only parses and prints sx. *)
From Coq Require Import ZArith List QArith Qcanon Bool.
Import ListNotations.
Open Scope Z_scope.

Inductive sx : Type :=
| Zv : Z -> sx
| Lv : list sx -> sx.

(* error result: (-999 code) *)
Definition sx_err (code : Z) : sx := Lv [Zv (-999); Zv code].

Definition sx_bool (b : bool) : sx := Zv (if b then 1 else 0).

Definition get_Z (s : sx) : option Z := match s with Zv z => Some z | _ => None end.
Definition get_L (s : sx) : option (list sx) := match s with Lv l => Some l | _ => None end.

Fixpoint opt_all {A} (l : list (option A)) : option (list A) :=
  match l with
  | [] => Some []
  | Some a :: r => match opt_all r with Some r' => Some (a :: r') | None => None end
  | None :: _ => None
  end.

Definition get_LZ (s : sx) : option (list Z) :=
  match s with Lv l => opt_all (map get_Z l) | _ => None end.
Definition get_LLZ (s : sx) : option (list (list Z)) :=
  match s with Lv l => opt_all (map get_LZ l) | _ => None end.

Definition of_LZ (l : list Z) : sx := Lv (map Zv l).
Definition of_LLZ (l : list (list Z)) : sx := Lv (map of_LZ l).

(* rationals travel as (num den), den > 0 *)
Definition get_Q (s : sx) : option Q :=
  match s with
  | Lv [Zv n; Zv (Zpos d)] => Some (n # d)
  | Zv n => Some (n # 1)
  | _ => None
  end.
Definition get_Qc (s : sx) : option Qc :=
  match get_Q s with Some q => Some (Q2Qc q) | None => None end.
Definition get_LQc (s : sx) : option (list Qc) :=
  match s with Lv l => opt_all (map get_Qc l) | _ => None end.
Definition get_LLQc (s : sx) : option (list (list Qc)) :=
  match s with Lv l => opt_all (map get_LQc l) | _ => None end.

Definition of_Q (q : Q) : sx := Lv [Zv (Qnum q); Zv (Zpos (Qden q))].
Definition of_Qc (q : Qc) : sx := of_Q (this q).
Definition of_LQc (l : list Qc) : sx := Lv (map of_Qc l).
Definition of_LLQc (l : list (list Qc)) : sx := Lv (map of_LQc l).

Definition get_bool (s : sx) : option bool :=
  match s with Zv 0 => Some false | Zv _ => Some true | _ => None end.

Definition nth_sx (l : list sx) (n : nat) : sx := nth n l (Lv []).
