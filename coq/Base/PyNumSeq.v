(* PyNumSeq - semantics of the few additional sequence operations the C16 front end (harness/translate/py2gallina_c16.py) accepts.
   HAND-WRITTEN AND TRUSTED, definitions only (same reading as Base/PyNum.v: floats are exact rationals, None = the Python raises).

   Python                                         Gallina
   [x for x in L if C(x)]   (C cannot raise)      filter C L
   [x for x in L if C(x)]   (C may raise)         py_filterM C L : the condition is evaluated element by element, left to right,
                                                  the first exception ends the comprehension
   max(G, default=c), min(G, default=c)           py_fmax_default L' c, py_fmin_default L' c   (L' = the filtered list; c when it is empty)
   max(l), min(l)  on a list of floats            py_fmax l, py_fmin l : None = ValueError on the empty list
   bisect_left(l, x)                              py_bisect_left l x : the binary search of the standard library (lo = 0, hi = len(l);
                                                  while lo < hi: mid = (lo + hi) // 2; if l[mid] < x: lo = mid + 1 else: hi = mid), with
                                                  len(l) + 1 iterations of fuel (the interval halves, so it never runs out) *)
From Coq Require Import ZArith List Bool QArith Qcanon.
From SG Require Import Base.QcUtil Base.PyLib Base.PyNum.
Import ListNotations.
Open Scope Z_scope.

Fixpoint py_filterM {A} (f : A -> option bool) (l : list A) : option (list A) :=
  match l with
  | [] => Some []
  | x :: r => match f x with
              | None => None
              | Some b => match py_filterM f r with
                          | None => None
                          | Some r' => Some (if b then x :: r' else r')
                          end
              end
  end.

Definition py_fmax (l : list Qc) : option Qc := match l with [] => None | x :: r => Some (fold_left Qc_max r x) end.
Definition py_fmin (l : list Qc) : option Qc := match l with [] => None | x :: r => Some (fold_left Qc_min r x) end.
Definition py_fmax_default (l : list Qc) (d : Qc) : Qc := match py_fmax l with Some m => m | None => d end.
Definition py_fmin_default (l : list Qc) (d : Qc) : Qc := match py_fmin l with Some m => m | None => d end.

Fixpoint py_bisect_loop (fuel : nat) (l : list Qc) (x : Qc) (lo hi : Z) : option Z :=
  match fuel with
  | O => None
  | S f => if lo <? hi then
             let mid := (lo + hi) / 2 in
             match py_getitem l mid with
             | None => None
             | Some a => if Qc_ltb a x then py_bisect_loop f l x (mid + 1) hi else py_bisect_loop f l x lo mid
             end
           else Some lo
  end.
Definition py_bisect_left (l : list Qc) (x : Qc) : option Z := py_bisect_loop (S (length l)) l x 0 (py_len l).
