(* PyNum — the NUMERIC part of the semantics library of the source-derived models (coq/Gen/GridGen.v, coq/Gen/ExtrapolationGen.v,
   written by harness/translate/py2gallina.py).  HAND-WRITTEN AND TRUSTED, definitions only; it extends Base/PyLib.v
   (control flow, ints, lists, exceptions-as-None) by Python floats and the small numpy subset the anchored numeric
   code uses.  Lemmas live in Proofs/PyNumFacts.v.

   THE ABSTRACTION (trusted base of this layer, DESIGN.md sections 0.5 and 3):

     ** Python floats (and numpy float64 values) are read as EXACT RATIONALS Qc. **
     Float arithmetic is read as exact arithmetic: + - * / ** on floats are the field operations of Qc; comparisons
     between floats are therefore exact comparisons of rationals; rounding, overflow, inf/nan and signed zeros are NOT
     modelled.  A decimal literal denotes the decimal number that is written (0.1 is 1/10).  An int that meets a float
     is embedded (py_Z2Qc); a variable that holds the int 0 first and floats later is a rational from the start.

   Python value                          Gallina
   ------------------------------------  ---------------------------------------------------------------
   float / numpy.float64                 Qc
   Sequence[float], list of floats       list Qc
   numpy float array (np.zeros(n), ..)   list Qc  (value semantics: the translator rejects programs in which an array
                                         could be reached through two names; a slice a[i:j] of an array is a VIEW in numpy
                                         and is accepted only where it is consumed at once: sum(a[1:-1]), len(..))
   x / y on floats                       py_fdiv: None when y = 0 (ZeroDivisionError for Python floats; numpy.float64
                                         yields inf/nan and a RuntimeWarning instead: both count as "no result")
   x ** k                                Qcpower for a literal k >= 0; py_fpow for an int exponent of unknown sign
   a <= b, a < b, a == b on floats       Qc_leb, Qc_ltb, Qc_eqb (Base/QcUtil.v): exact
   defaultdict(list) keyed by floats     list (Qc * list Qc): insertion-ordered association list, d[k].append(v) = py_fdict_append
   min(l), max(l), l.index(x) (ints)     py_list_min / py_list_max / py_list_index: None = ValueError
   while c: body                         py_while fuel ..: out of fuel = Fail (explicit); only with a declared fuel measure
   Enum class                            an Inductive with one constructor per member; == is the generated _eqb
   object of a translated class family   record of its attributes + constructor tag of its concrete class; a method call
                                         on such an object is a match on the tag (closed world: the classes of the
                                         target list), each case resolved through the MRO *)
From Coq Require Import ZArith List Bool QArith Qcanon.
From SG Require Import Base.QcUtil Base.PyLib.
Import ListNotations.
Open Scope Z_scope.

(* ------------------------------------------------------------------ floats as exact rationals *)
(* decimal literal n/d *)
Definition py_Qc (n : Z) (d : positive) : Qc := Q2Qc (n # d).
(* x / y : ZeroDivisionError for y = 0 *)
Definition py_fdiv (a b : Qc) : option Qc := if Qc_eqb b 0%Qc then None else Some (a / b)%Qc.
(* x ** e for an int exponent e: x^e for e >= 0 (0.0 ** 0 = 1.0 as in Python), 1/x^(-e) for e < 0 (ZeroDivisionError for x = 0) *)
Definition py_fpow (x : Qc) (e : Z) : option Qc :=
  if 0 <=? e then Some (Qcpower x (Z.to_nat e))
  else if Qc_eqb x 0%Qc then None
  else Some (/ Qcpower x (Z.to_nat (- e)))%Qc.
(* sum(l) on floats: left to right, starting from 0 *)
Definition py_fsum (l : list Qc) : Qc := fold_left Qcplus l 0%Qc.
(* int(x): truncation towards zero *)
Definition py_int_of_float (x : Qc) : Z := Z.quot (Qnum (this x)) (Zpos (Qden (this x))).
(* a // b on ints with an arbitrary divisor: floor division, ZeroDivisionError for b = 0 *)
Definition py_floordiv (a b : Z) : option Z := if b =? 0 then None else Some (a / b).

(* ------------------------------------------------------------------ slices  l[lo:hi]  (step 1; never raises) *)
Definition py_slice_bound (n : Z) (i : Z) : Z := if i <? 0 then Z.max (n + i) 0 else Z.min i n.
Definition py_slice {A} (l : list A) (lo hi : option Z) : list A :=
  let n := py_len l in
  let a := match lo with Some i => py_slice_bound n i | None => 0 end in
  let b := match hi with Some i => py_slice_bound n i | None => n end in
  firstn (Z.to_nat (b - a)) (skipn (Z.to_nat a) l).

(* ------------------------------------------------------------------ numpy float arrays *)
(* np.zeros(n): ValueError for n < 0 *)
Definition np_zeros (n : Z) : option (list Qc) := if n <? 0 then None else Some (repeat 0%Qc (Z.to_nat n)).
(* enumerate(l) *)
Definition py_enumerate {A} (l : list A) : list (Z * A) := combine (py_range (py_len l)) l.

(* ------------------------------------------------------------------ fuelled `while`
   while c(v): body(v).  None of fuel = the loop did not finish within `fuel` iterations (explicit out-of-fuel outcome,
   reported as Fail like an exception; the equivalence theorems show that the fuel passed by the wrapper suffices). *)
Fixpoint py_while {V R} (fuel : nat) (cond : V -> option bool) (body : V -> flow V R) (v : V) : flow V R :=
  match fuel with
  | O => Fail
  | S f => match cond v with
           | None => Fail
           | Some false => Nxt v
           | Some true => match body v with
                          | Nxt v' => py_while f cond body v'
                          | Ret r => Ret r
                          | Fail => Fail
                          end
           end
  end.

(* ------------------------------------------------------------------ defaultdict(list) keyed by floats
   d[k].append(v): the key is created at its first access; iteration / insertion order = list order.  Keys are compared as
   rationals (Python: hash/== of floats; 0.0 == -0.0, nan is not modelled). *)
Fixpoint py_fdict_append (d : list (Qc * list Qc)) (k v : Qc) : list (Qc * list Qc) :=
  match d with
  | [] => [(k, [v])]
  | (k', vs) :: r => if Qc_eqb k k' then (k', vs ++ [v]) :: r else (k', vs) :: py_fdict_append r k v
  end.

(* ------------------------------------------------------------------ lists of ints: min(l), max(l), l.index(x) *)
(* min(l) / max(l): ValueError for an empty list *)
Definition py_list_min (l : list Z) : option Z := match l with [] => None | x :: r => Some (fold_left Z.min r x) end.
Definition py_list_max (l : list Z) : option Z := match l with [] => None | x :: r => Some (fold_left Z.max r x) end.
(* l.index(x): position of the first occurrence, ValueError if absent *)
Fixpoint py_list_index (l : list Z) (x : Z) : option Z :=
  match l with
  | [] => None
  | y :: r => if y =? x then Some 0 else match py_list_index r x with Some i => Some (i + 1) | None => None end
  end.
