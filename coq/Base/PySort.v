(* PySort — sorted(), list.pop(i) and per-element method calls of the source-derived object machines.  HAND-WRITTEN AND TRUSTED,
   definitions only.
   sorted(l) / sorted(l, key=k): Python's sort is STABLE and ascending: the result is the unique permutation of l that is
   ordered by the key and keeps elements with equal keys in their original order.  That permutation is computed here by
   insertion from the right (an element is put before the first element whose key is not smaller... i.e. x goes in front of y
   iff key x <= key y, processing the list from its end), which is the stable sort. *)
From Coq Require Import ZArith List Bool QArith Qcanon.
From SG Require Import Base.QcUtil Base.PyLib.
Import ListNotations.
Open Scope Z_scope.

Fixpoint py_insert_int (x : Z) (l : list Z) : list Z :=
  match l with
  | [] => [x]
  | y :: r => if x <=? y then x :: l else y :: py_insert_int x r
  end.
Definition py_sorted_int (l : list Z) : list Z := fold_right py_insert_int [] l.            (* sorted(l), ints *)

Fixpoint py_insert_by {A} (key : A -> Qc) (x : A) (l : list A) : list A :=
  match l with
  | [] => [x]
  | y :: r => if Qc_leb (key x) (key y) then x :: l else y :: py_insert_by key x r
  end.
Definition py_sorted_by {A} (key : A -> Qc) (l : list A) : list A := fold_right (py_insert_by key) [] l.   (* sorted(l, key=..) *)

(* l.pop(i): the removed element and the remaining list; IndexError (None) outside the bounds; negative i from the end *)
Definition py_list_pop {A} (l : list A) (i : Z) : option (A * list A) :=
  match py_index l i with
  | Some k => match nth_error l k with
              | Some x => Some (x, firstn k l ++ skipn (S k) l)
              | None => None
              end
  | None => None
  end.
