(* PyValue — dynamically typed values of the function-cache machine (Function.__call__), used by the source-derived model
   Gen/FunCacheGen.v (harness/translate/py2gallina_machine.py --target funcache).  HAND-WRITTEN AND TRUSTED, definitions only.

   A local variable or dictionary entry that holds None at one time and a number / a sequence of numbers / a 2-d array at
   another is a `pyval`:
       VNone            None
       VScalar x        a Python float / numpy scalar          (np.isscalar -> True)
       VVec l           a list / tuple / 1-d array of numbers   (np.isscalar -> False)
       VMat rows        a 2-d array, row by row
   Numbers are exact rationals (PyNum.v).  Dictionaries keyed by tuples of floats are association lists in insertion order;
   two tuples are the same key iff they have the same length and equal components (1 == 1.0, 0.0 == -0.0 as in Python). *)
From Coq Require Import ZArith List Bool QArith Qcanon.
From SG Require Import Base.QcUtil Base.PyLib.
Import ListNotations.
Open Scope Z_scope.

Inductive pyval : Type :=
| VNone
| VScalar (x : Qc)
| VVec (l : list Qc)
| VMat (rows : list (list Qc)).

Definition py_is_none (v : pyval) : bool := match v with VNone => true | _ => false end.       (* v is None *)
Definition py_isscalar (v : pyval) : bool := match v with VScalar _ => true | _ => false end.   (* np.isscalar(v) *)
(* [v] : only for a scalar v (a list of sequences is outside the value type: no result) *)
Definition py_list1 (v : pyval) : option pyval := match v with VScalar x => Some (VVec [x]) | _ => None end.
(* len(v): TypeError for None and for scalars *)
Definition py_val_len (v : pyval) : option Z :=
  match v with VVec l => Some (py_len l) | VMat r => Some (py_len r) | _ => None end.
(* np.array(v) / np.asarray(v) of a sequence of numbers or an array: the same values (None: no result) *)
Definition np_array_val (v : pyval) : option pyval := match v with VNone => None | _ => Some v end.

(* keys: tuples of floats *)
Fixpoint fkey_eqb (a b : list Qc) : bool :=
  match a, b with
  | [], [] => true
  | x :: a', y :: b' => Qc_eqb x y && fkey_eqb a' b'
  | _, _ => false
  end.
Definition vdict := list (list Qc * pyval).
(* d.get(k, None) *)
Fixpoint py_vdict_get (d : vdict) (k : list Qc) : pyval :=
  match d with
  | [] => VNone
  | (k', v) :: r => if fkey_eqb k k' then v else py_vdict_get r k
  end.
(* d[k] = v : an existing key keeps its position (and its key object), a new key is appended *)
Fixpoint py_vdict_set (d : vdict) (k : list Qc) (v : pyval) : vdict :=
  match d with
  | [] => [(k, v)]
  | (k', v') :: r => if fkey_eqb k k' then (k', v) :: r else (k', v') :: py_vdict_set r k v
  end.
(* d.update(zip(keys, rows)) : left to right, stops at the shorter argument; the rows of a 2-d array are 1-d arrays *)
Fixpoint py_vdict_update_zip (d : vdict) (keys : list (list Qc)) (rows : list (list Qc)) : vdict :=
  match keys, rows with
  | k :: ks, r :: rs => py_vdict_update_zip (py_vdict_set d k (VVec r)) ks rs
  | _, _ => d
  end.

(* a.reshape((n, m)) of an array that is given row by row: the identity when it HAS n rows of m entries, otherwise no result
   (numpy raises ValueError when the number of values does not fit; a genuine re-arrangement of a fitting number of values into
   other rows is outside the model and also counts as no result) *)
Definition py_reshape2 (rows : list (list Qc)) (n m : Z) : option (list (list Qc)) :=
  if (py_len rows =? n) && forallb (fun r => py_len r =? m) rows then Some rows else None.
