(* Semantics of math.isclose for the source-derived model of TrapezoidalGrid1D (property C02; used by coq/Gen/TrapGrid1DGen.v,
   written by harness/translate/py2gallina_c02.py). Definitions only, trusted like Base/PyNum.v.
   Python: math.isclose(a, b) with the default rel_tol = 1e-09, abs_tol = 0.0 is
       abs(a - b) <= max(rel_tol * max(abs(a), abs(b)), abs_tol)
   (the a == b short cut is subsumed; inf/nan do not exist in the exact-rational reading of floats). *)
From Coq Require Import ZArith QArith Qcanon.
From SG Require Import Base.QcUtil.
Open Scope Qc_scope.

Definition py_isclose (x y : Qc) : bool :=
  Qc_leb (Qc_abs (x - y)) (Q2Qc (1 # 1000000000) * Qc_max (Qc_abs x) (Qc_abs y)).
