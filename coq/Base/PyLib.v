(* PyLib — the semantics library the source-derived models (coq/Gen/*.v, written by harness/translate/py2gallina.py)
   are expressed in.  HAND-WRITTEN AND TRUSTED: this file fixes what the translated Python constructs MEAN.
   Definitions only (plus notations); lemmas about them live in Proofs/PyLibFacts.v.

   Python value                          Gallina
   ------------------------------------  ---------------------------------------------------------------
   int                                   Z  (unbounded, + - * exact; // = Z.div, % = Z.modulo: both floor, as Python)
   bool                                  bool
   float produced by int / int           Qc (exact rational; float rounding is NOT modelled)
   list / tuple of ints                  list Z  (tuple(x), list(x) = identity: copies of immutable int sequences)
   list of X                             list X
   set of int tuples                     list (list Z), duplicate free, iterated in list order
   dict keyed by int tuples              list (list Z * V), duplicate-free keys, insertion order = list order
   None (as the only result)             unit ; Optional[X] = option X
   object                                record of its attributes; an attribute that __init__ does not set has type
                                         option X (None = not yet set, reading it raises AttributeError)
   any raised exception                  the computation yields no result (None / Fail); exception kinds are not
                                         distinguished (AssertionError, IndexError, KeyError, AttributeError,
                                         ZeroDivisionError, ValueError, RecursionError)

   Iteration order of a Python set is unspecified; here it is the list order.  Everything derived from a model must
   therefore be insensitive to that order (Proofs/GenCombiSchemeEq.v states where this is used and proves it). *)
From Coq Require Import ZArith List Bool QArith Qcanon.
Import ListNotations.
Open Scope Z_scope.

(* ------------------------------------------------------------------ control flow *)
(* Outcome of executing a statement block whose live variables have type V inside a function returning R:
   Fail = an exception was raised; Ret r = `return r` was executed; Nxt v = fell through with variable values v. *)
Inductive flow (V R : Type) : Type :=
| Fail : flow V R
| Ret : R -> flow V R
| Nxt : V -> flow V R.
Arguments Fail {V R}.
Arguments Ret {V R} _.
Arguments Nxt {V R} _.

(* evaluate a possibly raising expression, continue with its value *)
Definition bindE {A V R} (e : option A) (k : A -> flow V R) : flow V R :=
  match e with Some a => k a | None => Fail end.
(* execute a block, continue with its variable values unless it returned / raised *)
Definition bindF {V W R} (f : flow V R) (k : V -> flow W R) : flow W R :=
  match f with Fail => Fail | Ret r => Ret r | Nxt v => k v end.
(* sequencing inside possibly raising expressions *)
Definition bindO {A B} (e : option A) (k : A -> option B) : option B :=
  match e with Some a => k a | None => None end.
(* a whole function body: every path ends in Ret (the translator appends the implicit `return None`) *)
Definition run_flow {V R} (f : flow V R) : option R :=
  match f with Ret r => Some r | _ => None end.
(* assert c *)
Definition py_assert {V R} (c : bool) (k : flow V R) : flow V R := if c then k else Fail.

Declare Scope py_scope.
Delimit Scope py_scope with py.
Notation "x <- e ;; k" := (bindE e (fun x => k)) (at level 61, e at next level, right associativity) : py_scope.
Notation "' p <- e ;; k" := (bindE e (fun p => k)) (at level 61, p pattern, e at next level, right associativity) : py_scope.
Notation "x <~ e ;; k" := (bindF e (fun x => k)) (at level 61, e at next level, right associativity) : py_scope.
Notation "' p <~ e ;; k" := (bindF e (fun p => k)) (at level 61, p pattern, e at next level, right associativity) : py_scope.
Notation "x <?- e ;; k" := (bindO e (fun x => k)) (at level 61, e at next level, right associativity) : py_scope.
Notation "' p <?- e ;; k" := (bindO e (fun p => k)) (at level 61, p pattern, e at next level, right associativity) : py_scope.

(* `for x in l: body` — left-to-right fold with early exit: body x v is the outcome of one iteration started with
   variable values v.  Without return/raise in the body this is fold_left (PyLibFacts.py_for_fold). *)
Fixpoint py_for {A V R} (l : list A) (body : A -> V -> flow V R) (v : V) : flow V R :=
  match l with
  | [] => Nxt v
  | x :: r => match body x v with
              | Nxt v' => py_for r body v'
              | Ret r0 => Ret r0
              | Fail => Fail
              end
  end.

(* [e(x) for x in l] where e may raise: left to right, first exception wins *)
Fixpoint py_mapM {A B} (f : A -> option B) (l : list A) : option (list B) :=
  match l with
  | [] => Some []
  | x :: r => match f x with
              | Some y => match py_mapM f r with Some ys => Some (y :: ys) | None => None end
              | None => None
              end
  end.

(* ------------------------------------------------------------------ integers *)
Definition py_range (n : Z) : list Z := map Z.of_nat (seq 0 (Z.to_nat n)).            (* range(n) *)
Definition py_range2 (a b : Z) : list Z := map (fun i => a + i) (py_range (b - a)).    (* range(a, b) *)
Definition py_sum (l : list Z) : Z := fold_left Z.add l 0.                              (* sum(l) *)
(* a ** b for b >= 0 only (the translator accepts ** only with an exponent it can show non-negative) *)
Definition py_pow (a b : Z) : Z := Z.pow a b.
Fixpoint fact_nat (n : nat) : Z := match n with O => 1 | S m => Z.of_nat n * fact_nat m end.
(* math.factorial(n): ValueError for n < 0 *)
Definition py_factorial (n : Z) : option Z := if n <? 0 then None else Some (fact_nat (Z.to_nat n)).
(* int / int: exact rational; ZeroDivisionError for b = 0 *)
Definition py_Z2Qc (z : Z) : Qc := Q2Qc (inject_Z z).
Definition py_truediv (a b : Z) : option Qc := if b =? 0 then None else Some (py_Z2Qc a / py_Z2Qc b)%Qc.

(* ------------------------------------------------------------------ sequences *)
Definition py_len {A} (l : list A) : Z := Z.of_nat (length l).
(* position addressed by index i (negative indices count from the end); None = IndexError *)
Definition py_index {A} (l : list A) (i : Z) : option nat :=
  let n := py_len l in
  if (0 <=? i) && (i <? n) then Some (Z.to_nat i)
  else if (- n <=? i) && (i <? 0) then Some (Z.to_nat (n + i))
  else None.
Definition py_getitem {A} (l : list A) (i : Z) : option A :=
  match py_index l i with Some k => nth_error l k | None => None end.
Fixpoint list_set {A} (l : list A) (k : nat) (x : A) : list A :=
  match l, k with
  | [], _ => []
  | _ :: r, O => x :: r
  | y :: r, S k' => y :: list_set r k' x
  end.
(* l[i] = x on a list (value semantics: the translator rejects programs in which the list could be aliased) *)
Definition py_setitem {A} (l : list A) (i : Z) (x : A) : option (list A) :=
  match py_index l i with Some k => Some (list_set l k x) | None => None end.
(* map(f, a, b): stops at the shorter argument *)
Fixpoint py_map2 {A B C} (f : A -> B -> C) (a : list A) (b : list B) : list C :=
  match a, b with
  | x :: a', y :: b' => f x y :: py_map2 f a' b'
  | _, _ => []
  end.
(* itertools.product( * ls ): lexicographic, last factor fastest *)
Fixpoint py_product {A} (ls : list (list A)) : list (list A) :=
  match ls with
  | [] => [[]]
  | a :: r => flat_map (fun x => map (cons x) (py_product r)) a
  end.

(* ------------------------------------------------------------------ tuples of ints as set elements / dict keys *)
Definition tup := list Z.
Fixpoint tup_eqb (a b : tup) : bool :=
  match a, b with
  | [], [] => true
  | x :: a', y :: b' => (x =? y) && tup_eqb a' b'
  | _, _ => false
  end.

(* sets *)
Definition py_set_mem (x : tup) (s : list tup) : bool := existsb (tup_eqb x) s.               (* x in s *)
Definition py_set_add (x : tup) (s : list tup) : list tup := if py_set_mem x s then s else s ++ [x].
Definition py_set_remove (x : tup) (s : list tup) : option (list tup) :=                       (* KeyError if absent *)
  if py_set_mem x s then Some (filter (fun k => negb (tup_eqb x k)) s) else None.
Definition py_set_union (s t : list tup) : list tup := fold_left (fun acc x => py_set_add x acc) t s.   (* s | t *)
Definition py_set_of_list (l : list tup) : list tup := py_set_union [] l.                      (* set(l) *)

(* dicts *)
Definition py_dict_mem {V} (k : tup) (d : list (tup * V)) : bool := existsb (fun kv => tup_eqb k (fst kv)) d.
Fixpoint py_dict_get {V} (d : list (tup * V)) (k : tup) : option V :=                          (* KeyError if absent *)
  match d with
  | [] => None
  | (k', v) :: r => if tup_eqb k k' then Some v else py_dict_get r k
  end.
Fixpoint py_dict_set {V} (d : list (tup * V)) (k : tup) (v : V) : list (tup * V) :=            (* d[k] = v *)
  match d with
  | [] => [(k, v)]
  | (k', v') :: r => if tup_eqb k k' then (k', v) :: r else (k', v') :: py_dict_set r k v
  end.

(* ------------------------------------------------------------------ numpy on small integer vectors
   np.array(g, dtype=int) = g ; np.ones(n, dtype=int) = n ones ; array * int elementwise ; array + array
   elementwise for equal lengths (broadcasting of unequal lengths is not modelled: it counts as an exception). *)
Definition np_ones (n : Z) : option (list Z) := if n <? 0 then None else Some (repeat 1 (Z.to_nat n)).   (* ValueError for n < 0 *)
Definition np_scale (a : list Z) (c : Z) : list Z := map (fun x => x * c) a.
Definition np_add (a b : list Z) : option (list Z) :=
  if (length a =? length b)%nat then Some (py_map2 Z.add a b) else None.
