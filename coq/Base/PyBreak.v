(* Semantics additions for the C10 front end (harness/translate/py2gallina_c10.py): `for` loops whose body may `break`,
   list.index on a list of floats (floats read as exact rationals, == as exact equality). *)
From Coq Require Import ZArith List QArith Qcanon Bool.
From SG Require Import Base.QcUtil Base.PyLib.
Import ListNotations.
Open Scope Z_scope.

(* outcome of ONE loop iteration: exception / return r / fall through (continue) / break *)
Inductive step (V R : Type) : Type :=
| SFail : step V R
| SRet : R -> step V R
| SNxt : V -> step V R
| SBrk : V -> step V R.
Arguments SFail {V R}.
Arguments SRet {V R} _.
Arguments SNxt {V R} _.
Arguments SBrk {V R} _.

(* `for x in l: body` with break: left to right, break leaves the loop with the current variable values *)
Fixpoint py_for_b {A V R} (l : list A) (body : A -> V -> step V R) (v : V) : flow V R :=
  match l with
  | [] => Nxt v
  | x :: r => match body x v with
              | SNxt v' => py_for_b r body v'
              | SBrk v' => Nxt v'
              | SRet r0 => Ret r0
              | SFail => Fail
              end
  end.

(* l.index(x): position of the first element equal to x; None = ValueError *)
Fixpoint py_list_index_Qc (l : list Qc) (x : Qc) : option Z :=
  match l with
  | [] => None
  | y :: r => if Qc_eqb x y then Some 0 else match py_list_index_Qc r x with Some i => Some (i + 1) | None => None end
  end.

(* reversed(range(n)) *)
Definition py_reversed {A} (l : list A) : list A := rev l.
