(* PyC06 - additions to the semantics library for the front end harness/translate/py2gallina_c06.py (C06 / C03):
   the dictionary max_level_dict of SpatiallyAdaptiveSingleDimensions2, keyed by the tuple (d, i), as an association list of
   triples [d; i; value] (first match wins; a fresh key is entered in front).  HAND-WRITTEN AND TRUSTED, definitions only. *)
From Coq Require Import ZArith List Bool.
Import ListNotations.
Open Scope Z_scope.

Fixpoint py_c06_dict_get (c : list (list Z)) (d i : Z) : option Z :=      (* c[(d, i)]: None = KeyError *)
  match c with
  | [] => None
  | e :: r => match e with
              | [d'; i'; v] => if (d =? d') && (i =? i') then Some v else py_c06_dict_get r d i
              | _ => py_c06_dict_get r d i
              end
  end.

Definition py_c06_dict_has (c : list (list Z)) (d i : Z) : bool :=        (* (d, i) in c *)
  match py_c06_dict_get c d i with Some _ => true | None => false end.
