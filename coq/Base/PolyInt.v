(* Polynomials over Qc as coefficient lists (c0 + c1 x + c2 x^2 + ...), product, formal antiderivative and the
   formal integral  pintegral p a b = P(b) - P(a)  with P the antiderivative without constant term.
   "Integral" in the Gram-matrix theorems (C16, C20) means this formal integral.  Trusted bridge to the Riemann
   integral: the fundamental theorem of calculus for polynomials (pderiv_panti below is its formal half). *)
From Coq Require Import ZArith List QArith Qcanon.
From SG Require Import Base.QcUtil.
Import ListNotations.
Open Scope Qc_scope.

Definition poly := list Qc.

Fixpoint peval (p : poly) (x : Qc) : Qc :=
  match p with [] => 0 | c :: r => c + x * peval r x end.

Fixpoint padd (p q : poly) : poly :=
  match p, q with
  | [], _ => q
  | _, [] => p
  | a :: p', b :: q' => (a + b) :: padd p' q'
  end.

Definition pscale (c : Qc) (p : poly) : poly := map (fun a => c * a) p.

Fixpoint pmul (p q : poly) : poly :=
  match p with
  | [] => []
  | a :: p' => padd (pscale a q) (0 :: pmul p' q)
  end.

Definition qc_of_pos (k : positive) : Qc := Q2Qc (Zpos k # 1).

(* c_k x^k  |->  c_k/(k+1) x^(k+1) ; k counts from 1 = exponent after integration *)
Fixpoint panti_from (k : positive) (p : poly) : poly :=
  match p with
  | [] => []
  | c :: r => c / qc_of_pos k :: panti_from (Pos.succ k) r
  end.
Definition panti (p : poly) : poly := 0 :: panti_from 1 p.

Definition pintegral (p : poly) (a b : Qc) : Qc := peval (panti p) b - peval (panti p) a.

(* formal derivative, used only to state that panti is a right inverse of it *)
Fixpoint pderiv_from (k : positive) (p : poly) : poly :=
  match p with
  | [] => []
  | c :: r => qc_of_pos k * c :: pderiv_from (Pos.succ k) r
  end.
Definition pderiv (p : poly) : poly := match p with [] => [] | _ :: r => pderiv_from 1 r end.

Lemma peval_padd p q x : peval (padd p q) x = peval p x + peval q x.
Proof.
  revert q; induction p as [|a p IH]; intros [|b q]; simpl; try ring.
  rewrite IH. ring.
Qed.

Lemma peval_pscale c p x : peval (pscale c p) x = c * peval p x.
Proof. induction p as [|a p IH]; simpl; [ring | rewrite IH; ring]. Qed.

Lemma peval_pmul p q x : peval (pmul p q) x = peval p x * peval q x.
Proof.
  induction p as [|a p IH]; simpl; [ring|].
  rewrite peval_padd, peval_pscale. simpl. rewrite IH. ring.
Qed.

Lemma qc_of_pos_nz k : qc_of_pos k <> 0.
Proof.
  unfold qc_of_pos. intro H. apply Qc_eq_Qeq in H. cbn [this Q2Qc] in H. rewrite Qred_correct in H.
  unfold Qeq in H. simpl in H. discriminate.
Qed.

Lemma pderiv_from_panti_from k p : pderiv_from k (panti_from k p) = p.
Proof.
  revert k; induction p as [|c p IH]; intro k; simpl; [reflexivity|].
  rewrite IH. f_equal. field. apply qc_of_pos_nz.
Qed.

(* formal fundamental theorem: differentiating the antiderivative gives the polynomial back *)
Lemma pderiv_panti p : pderiv (panti p) = p.
Proof. unfold panti, pderiv. apply pderiv_from_panti_from. Qed.

Lemma pintegral_empty_interval p a : pintegral p a a = 0.
Proof. unfold pintegral. ring. Qed.

Lemma pintegral_split p a b c : pintegral p a c = pintegral p a b + pintegral p b c.
Proof. unfold pintegral. ring. Qed.

(* small constants as ring expressions, so that `field` can see through qc_of_pos *)
Lemma qc_of_pos_1 : qc_of_pos 1 = 1.
Proof. apply Qc_is_canon. reflexivity. Qed.
Lemma qc_of_pos_2 : qc_of_pos 2 = 1 + 1.
Proof. apply Qc_is_canon. reflexivity. Qed.
Lemma qc_of_pos_3 : qc_of_pos 3 = 1 + 1 + 1.
Proof. apply Qc_is_canon. reflexivity. Qed.
Lemma qc_of_pos_4 : qc_of_pos 4 = 1 + 1 + 1 + 1.
Proof. apply Qc_is_canon. reflexivity. Qed.

Lemma two_nz : 1 + 1 <> 0 :> Qc.
Proof. intro H. apply Qc_eq_Qeq in H. discriminate. Qed.
Lemma three_nz : 1 + 1 + 1 <> 0 :> Qc.
Proof. intro H. apply Qc_eq_Qeq in H. discriminate. Qed.

(* integral of a constant and of x: sanity examples (non-vacuity of the definitions) *)
Example pintegral_const c a b : pintegral [c] a b = c * (b - a).
Proof. unfold pintegral, panti; simpl. rewrite qc_of_pos_1. field. discriminate. Qed.

Example pintegral_x2_0_1 : pintegral [0; 0; 1] 0 1 = Q2Qc (1 # 3).
Proof. apply Qc_is_canon. reflexivity. Qed.
