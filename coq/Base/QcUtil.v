(* Helpers for models over the canonical rationals Qc (exact arithmetic, Leibniz equality).
   - equalities: `ring` / `field` work directly on Qc.
   - order facts: `qc_order` transfers the goal (and hypotheses) to Q and calls lra. *)
From Coq Require Import ZArith List QArith Qcanon Lia Lqa.
Import ListNotations.
Open Scope Qc_scope.

Definition Qc0 : Qc := 0.
Definition Qc1 : Qc := 1.
Definition Qc2 : Qc := Q2Qc (2 # 1).
Definition qc_of_Z (z : Z) : Qc := Q2Qc (inject_Z z).
Definition Qchalf : Qc := Q2Qc (1 # 2).
Definition qc_half (x : Qc) : Qc := x * Qchalf.

Definition Qc_leb (a b : Qc) : bool := Qle_bool (this a) (this b).
Definition Qc_ltb (a b : Qc) : bool := negb (Qle_bool (this b) (this a)).
Definition Qc_eqb (a b : Qc) : bool := Qeq_bool (this a) (this b).
Definition Qc_max (a b : Qc) : Qc := if Qc_leb a b then b else a.
Definition Qc_min (a b : Qc) : Qc := if Qc_leb a b then a else b.
Definition Qc_abs (a : Qc) : Qc := if Qc_leb 0 a then a else - a.

Fixpoint sumQ (l : list Qc) : Qc := match l with [] => 0 | x :: r => x + sumQ r end.
Fixpoint dotQ (a b : list Qc) : Qc :=
  match a, b with x :: a', y :: b' => x * y + dotQ a' b' | _, _ => 0 end.

Lemma sumQ_app a b : sumQ (a ++ b) = sumQ a + sumQ b.
Proof. induction a as [|x a IH]; simpl; [ring | rewrite IH; ring]. Qed.

Lemma sumQ_map_scale {A} (c : Qc) (f : A -> Qc) l : sumQ (map (fun x => c * f x) l) = c * sumQ (map f l).
Proof. induction l as [|x l IH]; simpl; [ring | rewrite IH; ring]. Qed.

Lemma sumQ_map_add {A} (f g : A -> Qc) l : sumQ (map (fun x => f x + g x) l) = sumQ (map f l) + sumQ (map g l).
Proof. induction l as [|x l IH]; simpl; [ring | rewrite IH; ring]. Qed.

Lemma Qc_leb_le a b : Qc_leb a b = true <-> a <= b.
Proof. unfold Qc_leb, Qcle. apply Qle_bool_iff. Qed.

Lemma Qc_ltb_lt a b : Qc_ltb a b = true <-> a < b.
Proof.
  unfold Qc_ltb, Qclt. rewrite Bool.negb_true_iff. split; intro H.
  - apply Qnot_le_lt. intro L. apply Qle_bool_iff in L. congruence.
  - destruct (Qle_bool b a) eqn:E; [|reflexivity]. apply Qle_bool_iff in E. apply Qlt_not_le in H. contradiction.
Qed.

Lemma Qc_eqb_eq a b : Qc_eqb a b = true <-> a = b.
Proof.
  unfold Qc_eqb. rewrite Qeq_bool_iff. split; intro H; [apply Qc_is_canon; assumption | subst; reflexivity].
Qed.

(* Transfer of an order/equality goal on Qc to Q. Use:  qc_order.  Hypotheses of the forms a<=b, a<b, a=b over Qc
   are moved along. Products of variables are beyond lra; provide them as hypotheses if needed (nra may help). *)
Lemma Qc_eq_Qeq (a b : Qc) : a = b <-> (this a == this b)%Q.
Proof. split; intro H; [subst; reflexivity | apply Qc_is_canon; assumption]. Qed.

Ltac qc_unfold_ops :=
  unfold Qc2, Qc1, Qc0, qc_half, Qchalf, Qcdiv, Qcminus, Qcplus, Qcmult, Qcopp, Qcinv, Q2Qc in *; cbn [this] in *;
  repeat rewrite Qred_correct in *;
  repeat match goal with
  | |- context [Qinv (?n # ?d)] => let v := eval compute in (Qinv (n # d)) in change (Qinv (n # d)) with v
  | H : context [Qinv (?n # ?d)] |- _ => let v := eval compute in (Qinv (n # d)) in change (Qinv (n # d)) with v in H
  end.

Ltac qc_order :=
  repeat match goal with
  | H : @eq Qc _ _ |- _ => apply Qc_eq_Qeq in H
  | H : (_ <= _)%Qc |- _ => unfold Qcle in H
  | H : (_ < _)%Qc |- _ => unfold Qclt in H
  | H : ~ (@eq Qc _ _) |- _ => rewrite Qc_eq_Qeq in H
  end;
  try match goal with
  | |- @eq Qc _ _ => apply Qc_eq_Qeq
  | |- ~ (@eq Qc _ _) => rewrite Qc_eq_Qeq
  end;
  unfold Qcle, Qclt in *; qc_unfold_ops; try lra.

(* non-vacuity / smoke tests of the tactic *)
Example qc_order_mid (a b : Qc) : a < b -> a < (a + b) / Qc2 /\ (a + b) / Qc2 < b.
Proof. intro H. split; qc_order. Qed.
Example qc_order_mid' (a b : Qc) : a < b -> a < qc_half (a + b) /\ qc_half (a + b) < b.
Proof. intro H. split; qc_order. Qed.

Example qc_field_demo (a b : Qc) : a <> b -> (b - a) / (b - a) = 1.
Proof. intro H. field. intro E. apply H. apply Qc_eq_Qeq. apply Qc_eq_Qeq in E. qc_unfold_ops. lra. Qed.
