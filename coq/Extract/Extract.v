(* Extraction of the executable models. Directives used: exactly those of ExtrOcamlBasic
   (bool, option, unit, list, prod, sumbool -> OCaml natives). Z, positive, Q, Qc stay extracted inductives. *)
Require Extraction.
Require Import ExtrOcamlBasic.
From SG Require Import Base.Sx Entry.Dispatch.
Extraction Language OCaml.
Extraction "model.ml" Dispatch.dispatch.
