(* C12 — Function evaluation is cache-transparent and matches its analytic integral.
   Property theorems only; each is closed by `exact` of a lemma from Proofs/.
   `eval` is an arbitrary pure function point -> list of output components, `olen` the declared output_length().
   Variants of the machine: `cur` = Function.__call__ as it is, `fixed` = with fixes/C12-call-nocache.patch and
   fixes/C12-empty-batch.patch applied. *)
From Coq Require Import ZArith List QArith Qcanon Bool Arith Lia.
From SG Require Import Base.QcUtil Model.FunCache Model.FunPoly Proofs.FunCacheProofs Proofs.FunPolyProofs.
Import ListNotations.

(* ------------------------------------------------------------------ cache transparency *)
(* For EVERY operation history (single / batch incl. empty / direct eval_vectorized / reset / deactivate / size, in any
   interleaving) every value-returning call returns eval of its argument(s); repaired code. *)
Theorem C12_cache_transparent : forall (eval : point -> value) (olen : nat),
  (forall p, length (eval p) = olen) -> forall ops,
  Forall2 agrees (map fst (run eval olen fixed init ops)) (ideal_values eval ops).
Proof. exact cache_transparent. Qed.
Print Assumptions C12_cache_transparent.

(* ... shaped (olen,) for a single point and (#points, olen) for a batch, also for 0 points *)
Theorem C12_cache_transparent_shapes : forall (eval : point -> value) (olen : nat),
  (forall p, length (eval p) = olen) -> forall ops,
  Forall2 (shape_ok olen) ops (map fst (run eval olen fixed init ops)).
Proof. exact cache_transparent_shapes. Qed.
Print Assumptions C12_cache_transparent_shapes.

(* The code as it is: the full statement
     forall ops, Forall2 agrees (map fst (run eval olen cur init ops)) (ideal_values eval ops)
   is FALSE (two witnesses below); it holds for histories that never deactivate caching and contain no empty batch. *)
Theorem C12_cache_transparent_current_partial : forall (eval : point -> value) (olen : nat),
  (forall p, length (eval p) = olen) -> forall ops, no_deact ops = true -> no_empty_batch ops = true ->
  Forall2 agrees (map fst (run eval olen cur init ops)) (ideal_values eval ops).
Proof. exact cache_transparent_current_partial. Qed.
Print Assumptions C12_cache_transparent_current_partial.

(* exact behaviour of the code as it is, for every history: the specification with UnboundLocalError precisely at a
   single point while caching is off and IndexError precisely at an empty batch (spec_run is a function of the history) *)
Theorem C12_current_code_behaviour : forall (eval : point -> value) (olen : nat),
  (forall p, length (eval p) = olen) -> forall ops,
  map fst (run eval olen cur init ops) = spec_run eval cur true [] ops.
Proof. exact current_code_behaviour. Qed.
Print Assumptions C12_current_code_behaviour.

Theorem C12_cache_transparent_single_nocache_refuted : forall (eval : point -> value) (olen : nat),
  (forall p, length (eval p) = olen) ->
  exists ops, ~ Forall2 agrees (map fst (run eval olen cur init ops)) (ideal_values eval ops).
Proof. exact cache_transparent_refuted_single_nocache. Qed.
Theorem C12_cache_transparent_empty_batch_refuted : forall (eval : point -> value) (olen : nat),
  (forall p, length (eval p) = olen) ->
  exists ops, ~ Forall2 agrees (map fst (run eval olen cur init ops)) (ideal_values eval ops).
Proof. exact cache_transparent_refuted_empty_batch. Qed.
Print Assumptions C12_cache_transparent_single_nocache_refuted.
Print Assumptions C12_cache_transparent_empty_batch_refuted.

(* a class whose eval returns a number of components different from output_length() cannot be called at all
   (GenzDiscontinious2, FunctionCantileverBeamD) *)
Theorem C12_wrong_output_length_single_raises : forall (eval : point -> value) (olen : nat) vr p,
  length (eval p) <> olen -> snd (call_single eval olen vr init p) = RErr EOutLen.
Proof. exact wrong_outlen_single_raises. Qed.
Theorem C12_wrong_output_length_batch_raises : forall (eval : point -> value) (olen : nat) vr st p ps,
  length (eval p) <> olen -> snd (call_batch eval olen vr st (p :: ps)) = RErr EOutLen.
Proof. exact wrong_outlen_batch_raises. Qed.
Print Assumptions C12_wrong_output_length_single_raises.

(* ------------------------------------------------------------------ the counter *)
(* caching on: get_f_dict_size() = number of distinct points requested (singly or in batches) since the last reset;
   `distinct l` is duplicate-free and has exactly the elements of l. Holds for both variants. *)
Theorem C12_counter_is_distinct_points : forall (eval : point -> value) (olen : nat),
  (forall p, length (eval p) = olen) -> forall vr ops, no_deact ops = true ->
  length (fd (final eval olen vr init ops)) = length (distinct (requested [] ops)) /\
  NoDup (distinct (requested [] ops)) /\ (forall q, In q (distinct (requested [] ops)) <-> In q (requested [] ops)).
Proof. exact counter_is_distinct_points. Qed.
Print Assumptions C12_counter_is_distinct_points.

(* any history (also after deactivation: batches still count, single points do not) *)
Theorem C12_counter_general : forall (eval : point -> value) (olen : nat),
  (forall p, length (eval p) = olen) -> forall vr ops,
  length (fd (final eval olen vr init ops)) = length (snd (spec_final true [] ops)).
Proof. exact counter_general. Qed.
Print Assumptions C12_counter_general.

(* between resets the counter never decreases (no hypothesis on eval) *)
Theorem C12_size_monotone_between_resets : forall (eval : point -> value) (olen : nat) vr st o,
  o <> OReset -> (length (fd st) <= length (fd (fst (step eval olen vr st o))))%nat.
Proof. exact size_monotone. Qed.
Print Assumptions C12_size_monotone_between_resets.

(* ------------------------------------------------------------------ polynomial family *)
Open Scope Qc_scope.

(* every class (and every FunctionCompose of them) evaluates the formal polynomial it denotes, in every dimension *)
Theorem C12_eval_is_polynomial : forall n f x, fn_dim_ok n f = true -> length x = n ->
  fn_eval f x = IVal (mp_eval (fn_denote n f) x).
Proof. exact fn_eval_is_poly. Qed.
Print Assumptions C12_eval_is_polynomial.

(* ... and, with the two integral fixes, its analytic integral over EVERY box is the formal integral of that polynomial *)
Theorem C12_integral_fixed_correct : forall n f a b, fn_dim_ok n f = true -> length a = n -> length b = n ->
  fn_int true f a b = IVal (mp_int (fn_denote n f) a b).
Proof. exact fn_int_fixed_correct. Qed.
Print Assumptions C12_integral_fixed_correct.

(* the integrals as coded today. Full statement (false):
     forall n f a b, atom_dim_ok n f = true -> length a = n -> length b = n -> atom_int false f a b = IVal (mp_int (atom_denote n f) a b)
   proved for FunctionLinear, FunctionPolynomial, Polynomial1d and one-dimensional FunctionMultilinear *)
Theorem C12_integral_current_correct_partial : forall n f a b, cur_integral_sound f = true ->
  atom_dim_ok n f = true -> length a = n -> length b = n ->
  atom_int false f a b = IVal (mp_int (atom_denote n f) a b).
Proof. exact atom_int_cur_correct. Qed.
Print Assumptions C12_integral_current_correct_partial.

Theorem C12_multilinear_integral_refuted :
  exists cs a b, length cs = length a /\ length cs = length b /\
    atom_int false (FMultilinear cs) a b <> IVal (mp_int (atom_denote (length cs) (FMultilinear cs)) a b).
Proof. exact multilinear_integral_refuted. Qed.
Theorem C12_constant_integral_refuted : forall v a b, length a = length b ->
  atom_int false (FConst v) a b = INone /\ atom_int false (FConst v) a b <> IVal (mp_int (atom_denote (length a) (FConst v)) a b).
Proof. exact constant_integral_refuted. Qed.
Print Assumptions C12_multilinear_integral_refuted.
Print Assumptions C12_constant_integral_refuted.

(* scalar path = vectorised path for the class with an exact vectorised override *)
Theorem C12_linear_vectorized_eq_scalar : forall cs x, length cs = length x ->
  atom_eval (FLinear cs) x = IVal (linear_vectorized_row cs x).
Proof. exact linear_vectorized_eq_scalar. Qed.
Print Assumptions C12_linear_vectorized_eq_scalar.

(* the reference functional is an integral: additive under splitting the box, volume on the constant 1, and in one
   variable F(b) - F(a) for the antiderivative F = x^(e+1)/(e+1) whose formal derivative is x^e *)
Theorem C12_formal_integral_additive : forall p a m b A B, (forall c es, In (c, es) p -> es <> []) ->
  mp_int p (a :: A) (m :: B) + mp_int p (m :: A) (b :: B) = mp_int p (a :: A) (b :: B).
Proof. exact mp_int_split_first. Qed.
Theorem C12_formal_integral_volume : forall a b, length a = length b ->
  mono_int (repeat 0%nat (length a)) a b = prodQ (map (fun ab => snd ab - fst ab) (combine a b)).
Proof. exact mono_int_zeros. Qed.
Theorem C12_formal_integral_1d_antiderivative : forall e a b,
  mono_int [e] [a] [b] = b ^ (S e) / qn (S e) - a ^ (S e) / qn (S e).
Proof. exact mono_int_1d. Qed.
Print Assumptions C12_formal_integral_additive.

(* ------------------------------------------------------------------ non-vacuity *)
(* a concrete history on eval p = [sum p] : repeated points, a batch with a duplicate, empty batch, reset, deactivation *)
Definition ex_eval (p : point) : value := [sumQ p].
Definition ex_ops : list op :=
  [OSingle [1; Qc2]; OBatch [[1; Qc2]; [Qc2; Qc2]; [1; Qc2]]; OSize; OBatch []; OReset; OSingle [Qc2; Qc2]; OSize;
   ODeact; OSingle [1; 1]].
Example C12_nonvacuous_fixed :
  map fst (run ex_eval 1 fixed init ex_ops) =
  [RSingle [Q2Qc (3#1)]; RBatch [[Q2Qc (3#1)]; [Q2Qc (4#1)]; [Q2Qc (3#1)]]; RSize 2; RBatch []; RUnit;
   RSingle [Q2Qc (4#1)]; RSize 1; RUnit; RSingle [Qc2]].
Proof. vm_compute. reflexivity. Qed.
Example C12_nonvacuous_current :
  map fst (run ex_eval 1 cur init ex_ops) =
  [RSingle [Q2Qc (3#1)]; RBatch [[Q2Qc (3#1)]; [Q2Qc (4#1)]; [Q2Qc (3#1)]]; RSize 2; RErr EIndex; RUnit;
   RSingle [Q2Qc (4#1)]; RSize 1; RUnit; RErr EUnbound].
Proof. vm_compute. reflexivity. Qed.
Example C12_nonvacuous_hyp : (forall p, length (ex_eval p) = 1%nat) /\ no_deact (firstn 7 ex_ops) = true /\
  length (distinct (requested [] (firstn 3 ex_ops))) = 2%nat.
Proof. split; [intro p; reflexivity | split; vm_compute; reflexivity]. Qed.
(* FunctionMultilinear([1,2]) on [0,2]x[0,3]: the code returns 11, the repaired code and the formal integral 24 *)
Example C12_nonvacuous_multilinear :
  atom_int false (FMultilinear [1; Qc2]) [0; 0] [Qc2; Q2Qc (3#1)] = IVal (Q2Qc (11#1)) /\
  atom_int true (FMultilinear [1; Qc2]) [0; 0] [Qc2; Q2Qc (3#1)] = IVal (Q2Qc (24#1)) /\
  mp_int (atom_denote 2 (FMultilinear [1; Qc2])) [0; 0] [Qc2; Q2Qc (3#1)] = Q2Qc (24#1).
Proof. repeat split; vm_compute; reflexivity. Qed.

(* ------------------------------------------------------------------ link to the Riemann integral (one variable) *)
(* Polynomial1d: the analytic integral AS CODED, read as a real number, is the Riemann integral (is_riemann_integral :=
   Coquelicot's is_RInt on R; pevR cs 0 x = sum_j c_j x^j; QcR = Q2R o this) over
   [a, b] of the real function x |-> eval((x,)).  This theorem (only) depends on the axioms of the standard library's
   real numbers, listed below by Print Assumptions. *)
From SG Require Proofs.FunPolyReal.
Theorem C12_polynomial1d_integral_is_riemann : forall (cs : list Qc) (a b : Qc),
  exists v, atom_int false (FPoly1d cs) [a] [b] = IVal v /\
    FunPolyReal.is_riemann_integral (FunPolyReal.pevR cs 0) (FunPolyReal.QcR a) (FunPolyReal.QcR b) (FunPolyReal.QcR v) /\
    (forall x : Qc, exists y, atom_eval (FPoly1d cs) [x] = IVal y /\ FunPolyReal.QcR y = FunPolyReal.pevR cs 0 (FunPolyReal.QcR x)).
Proof. exact FunPolyReal.poly1d_integral_is_riemann. Qed.
Print Assumptions C12_polynomial1d_integral_is_riemann.
