(* C12 — Function evaluation is cache-transparent and matches its analytic integral.
   Property theorems only; each is closed by `exact` of a lemma from Proofs/.
   `eval` is an arbitrary pure function point -> list of output components, `olen` the declared output_length().
   Variants of the machine: `cur` = Function.__call__ as it is, `fixed` = with fixes/C12-call-nocache.patch and
   fixes/C12-empty-batch.patch applied. *)
From Coq Require Import ZArith List QArith Qcanon Bool Arith Lia.
From SG Require Import Base.QcUtil Model.FunCache Model.FunPoly Proofs.FunCacheProofs Proofs.FunPolyProofs.
From SG Require Import Model.FunCacheVec Proofs.FunCacheVecProofs.
Import ListNotations.

(* ------------------------------------------------------------------ cache transparency *)
(* For EVERY operation history (single / batch incl. empty / direct eval_vectorized / reset / deactivate / size, in any
   interleaving) every value-returning call returns eval of its argument(s); repaired code. *)
Theorem C12_cache_transparent : forall (eval : point -> value) (olen : nat),
  (forall p, length (eval p) = olen) -> forall ops,
  Forall2 agrees (map fst (run eval olen fixed init ops)) (ideal_values eval ops).
Proof. exact cache_transparent. Qed.
Print Assumptions C12_cache_transparent.

(* ... shaped (olen,) for a single point and (#points, olen) for a batch, also for 0 points *)
Theorem C12_cache_transparent_shapes : forall (eval : point -> value) (olen : nat),
  (forall p, length (eval p) = olen) -> forall ops,
  Forall2 (shape_ok olen) ops (map fst (run eval olen fixed init ops)).
Proof. exact cache_transparent_shapes. Qed.
Print Assumptions C12_cache_transparent_shapes.

(* The code as it is: the full statement
     forall ops, Forall2 agrees (map fst (run eval olen cur init ops)) (ideal_values eval ops)
   is FALSE (two witnesses below); it holds for histories that never deactivate caching and contain no empty batch. *)
Theorem C12_cache_transparent_current_partial : forall (eval : point -> value) (olen : nat),
  (forall p, length (eval p) = olen) -> forall ops, no_deact ops = true -> no_empty_batch ops = true ->
  Forall2 agrees (map fst (run eval olen cur init ops)) (ideal_values eval ops).
Proof. exact cache_transparent_current_partial. Qed.
Print Assumptions C12_cache_transparent_current_partial.

(* exact behaviour of the code as it is, for every history: the specification with UnboundLocalError precisely at a
   single point while caching is off and IndexError precisely at an empty batch (spec_run is a function of the history) *)
Theorem C12_current_code_behaviour : forall (eval : point -> value) (olen : nat),
  (forall p, length (eval p) = olen) -> forall ops,
  map fst (run eval olen cur init ops) = spec_run eval cur true [] ops.
Proof. exact current_code_behaviour. Qed.
Print Assumptions C12_current_code_behaviour.

Theorem C12_cache_transparent_single_nocache_refuted : forall (eval : point -> value) (olen : nat),
  (forall p, length (eval p) = olen) ->
  exists ops, ~ Forall2 agrees (map fst (run eval olen cur init ops)) (ideal_values eval ops).
Proof. exact cache_transparent_refuted_single_nocache. Qed.
Theorem C12_cache_transparent_empty_batch_refuted : forall (eval : point -> value) (olen : nat),
  (forall p, length (eval p) = olen) ->
  exists ops, ~ Forall2 agrees (map fst (run eval olen cur init ops)) (ideal_values eval ops).
Proof. exact cache_transparent_refuted_empty_batch. Qed.
Print Assumptions C12_cache_transparent_single_nocache_refuted.
Print Assumptions C12_cache_transparent_empty_batch_refuted.

(* a class whose eval returns a number of components different from output_length() cannot be called at all
   (GenzDiscontinious2, FunctionCantileverBeamD) *)
Theorem C12_wrong_output_length_single_raises : forall (eval : point -> value) (olen : nat) vr p,
  length (eval p) <> olen -> snd (call_single eval olen vr init p) = RErr EOutLen.
Proof. exact wrong_outlen_single_raises. Qed.
Theorem C12_wrong_output_length_batch_raises : forall (eval : point -> value) (olen : nat) vr st p ps,
  length (eval p) <> olen -> snd (call_batch eval olen vr st (p :: ps)) = RErr EOutLen.
Proof. exact wrong_outlen_batch_raises. Qed.
Print Assumptions C12_wrong_output_length_single_raises.


(* ------------------------------------------------------------------ the vectorised evaluation as a parameter of its own *)
(* Model/FunCacheVec.v: the batch path calls the class's eval_vectorized (`evec`: the generic loop or a numpy override),
   optionally followed by check_vectorization (`checks`, active while the debug flag is set), reshapes and caches the
   vectorised rows. *)

(* the generic eval_vectorized of the base class, on arrays of ANY nesting depth, evaluates every point with eval ... *)
Theorem C12_generic_eval_vectorized_correct : forall (eval : point -> value) (olen : nat),
  (forall p, length (eval p) = olen) -> forall a, generic_vec eval olen a = Some (arr_map eval a).
Proof. exact generic_vec_correct. Qed.
(* ... and returns an array of the shape of its argument with the innermost axis replaced by output_length() *)
Theorem C12_generic_eval_vectorized_shape : forall (eval : point -> value) (olen : nat),
  (forall p, length (eval p) = olen) -> forall a r, generic_vec eval olen a = Some r ->
  varr_shape r = arr_shape a /\ varr_rows_ok olen r = true.
Proof. exact generic_vec_shape. Qed.
Print Assumptions C12_generic_eval_vectorized_correct.
Print Assumptions C12_generic_eval_vectorized_shape.

(* SIMULATION: whenever the vectorised evaluation agrees with the scalar one, the machine with its own vectorised
   evaluation and debug flag IS the machine of Model/FunCache.v (debug switches read as no-ops): the same dictionary,
   old dictionary and caching flag after every operation and the same results, for every history and both variants.
   All theorems above (transparency, shapes, counter) therefore transfer. *)
Theorem C12_vectorised_machine_simulates : forall (eval : point -> value) (olen : nat) evec checks,
  (forall ps, evec ps = map eval ps) -> forall vr ops st dbg,
  map (fun x => vbase (snd x)) (vrun eval olen evec checks vr (mkVS st dbg) ops) = map snd (run eval olen vr st (map lift ops)) /\
  map fst (vrun eval olen evec checks vr (mkVS st dbg) ops) =
    map (fun x => expected (fst x) (snd x)) (combine ops (map fst (run eval olen vr st (map lift ops)))).
Proof. exact vrun_simulates. Qed.
Print Assumptions C12_vectorised_machine_simulates.

(* cache transparency of EVERY history (single / batch / direct eval_vectorized / reset / deactivate / size / debug switch)
   holds IF AND ONLY IF the class's eval_vectorized returns the scalar values on every batch: a vectorised override that
   deviates on one batch ps is exposed by the one-call history f(ps) on a fresh object *)
Theorem C12_transparent_iff_vectorisation_correct : forall (eval : point -> value) (olen : nat) evec checks,
  (forall p, length (eval p) = olen) -> evec [] = [] ->
  ((forall ops, Forall2 (vagrees) (map fst (vrun eval olen evec checks fixed (vinit) ops)) (videal eval ops)) <->
   (forall ps, evec ps = map eval ps)).
Proof. exact transparent_iff_vectorisation_correct. Qed.
Print Assumptions C12_transparent_iff_vectorisation_correct.

(* debug mode: for an override that calls check_vectorization, with debug = True from the start, whatever the
   vectorised code computes, every call returns eval of its points or raises the AssertionError of
   check_vectorization (math.isclose modelled as equality) — no wrong value is returned or cached *)
Theorem C12_debug_mode_sound : forall (eval : point -> value) (olen : nat) evec,
  (forall p, length (eval p) = olen) -> forall ops, debug_always_on ops = true ->
  Forall2 vagrees_or_assert (map fst (vrun eval olen evec true fixed (mkVS init true) ops)) (videal eval ops).
Proof. intros eval olen evec Hlen ops Hd. exact (debug_mode_sound eval olen evec true eq_refl Hlen ops init true [] Hd (R_init eval)). Qed.
Print Assumptions C12_debug_mode_sound.

(* ------------------------------------------------------------------ the counter *)
(* caching on: get_f_dict_size() = number of distinct points requested (singly or in batches) since the last reset;
   `distinct l` is duplicate-free and has exactly the elements of l. Holds for both variants. *)
Theorem C12_counter_is_distinct_points : forall (eval : point -> value) (olen : nat),
  (forall p, length (eval p) = olen) -> forall vr ops, no_deact ops = true ->
  length (fd (final eval olen vr init ops)) = length (distinct (requested [] ops)) /\
  NoDup (distinct (requested [] ops)) /\ (forall q, In q (distinct (requested [] ops)) <-> In q (requested [] ops)).
Proof. exact counter_is_distinct_points. Qed.
Print Assumptions C12_counter_is_distinct_points.

(* any history (also after deactivation: batches still count, single points do not) *)
Theorem C12_counter_general : forall (eval : point -> value) (olen : nat),
  (forall p, length (eval p) = olen) -> forall vr ops,
  length (fd (final eval olen vr init ops)) = length (snd (spec_final true [] ops)).
Proof. exact counter_general. Qed.
Print Assumptions C12_counter_general.

(* between resets the counter never decreases (no hypothesis on eval) *)
Theorem C12_size_monotone_between_resets : forall (eval : point -> value) (olen : nat) vr st o,
  o <> OReset -> (length (fd st) <= length (fd (fst (step eval olen vr st o))))%nat.
Proof. exact size_monotone. Qed.
Print Assumptions C12_size_monotone_between_resets.

(* ------------------------------------------------------------------ polynomial family *)
Open Scope Qc_scope.

(* every class (and every FunctionCompose of them) evaluates the formal polynomial it denotes, in every dimension *)
Theorem C12_eval_is_polynomial : forall n f x, fn_dim_ok n f = true -> length x = n ->
  fn_eval f x = IVal (mp_eval (fn_denote n f) x).
Proof. exact fn_eval_is_poly. Qed.
Print Assumptions C12_eval_is_polynomial.

(* ... and, with the two integral fixes, its analytic integral over EVERY box is the formal integral of that polynomial *)
Theorem C12_integral_fixed_correct : forall n f a b, fn_dim_ok n f = true -> length a = n -> length b = n ->
  fn_int true f a b = IVal (mp_int (fn_denote n f) a b).
Proof. exact fn_int_fixed_correct. Qed.
Print Assumptions C12_integral_fixed_correct.

(* the integrals as coded today. Full statement (false):
     forall n f a b, atom_dim_ok n f = true -> length a = n -> length b = n -> atom_int false f a b = IVal (mp_int (atom_denote n f) a b)
   proved for FunctionLinear, FunctionPolynomial, Polynomial1d and one-dimensional FunctionMultilinear *)
Theorem C12_integral_current_correct_partial : forall n f a b, cur_integral_sound f = true ->
  atom_dim_ok n f = true -> length a = n -> length b = n ->
  atom_int false f a b = IVal (mp_int (atom_denote n f) a b).
Proof. exact atom_int_cur_correct. Qed.
Print Assumptions C12_integral_current_correct_partial.

Theorem C12_multilinear_integral_refuted :
  exists cs a b, length cs = length a /\ length cs = length b /\
    atom_int false (FMultilinear cs) a b <> IVal (mp_int (atom_denote (length cs) (FMultilinear cs)) a b).
Proof. exact multilinear_integral_refuted. Qed.
Theorem C12_constant_integral_refuted : forall v a b, length a = length b ->
  atom_int false (FConst v) a b = INone /\ atom_int false (FConst v) a b <> IVal (mp_int (atom_denote (length a) (FConst v)) a b).
Proof. exact constant_integral_refuted. Qed.
Print Assumptions C12_multilinear_integral_refuted.
Print Assumptions C12_constant_integral_refuted.

(* scalar path = vectorised path for the class with an exact vectorised override *)
Theorem C12_linear_vectorized_eq_scalar : forall cs x, length cs = length x ->
  atom_eval (FLinear cs) x = IVal (linear_vectorized_row cs x).
Proof. exact linear_vectorized_eq_scalar. Qed.
Print Assumptions C12_linear_vectorized_eq_scalar.

(* the reference functional is an integral: additive under splitting the box, volume on the constant 1, and in one
   variable F(b) - F(a) for the antiderivative F = x^(e+1)/(e+1) whose formal derivative is x^e *)
Theorem C12_formal_integral_additive : forall p a m b A B, (forall c es, In (c, es) p -> es <> []) ->
  mp_int p (a :: A) (m :: B) + mp_int p (m :: A) (b :: B) = mp_int p (a :: A) (b :: B).
Proof. exact mp_int_split_first. Qed.
Theorem C12_formal_integral_volume : forall a b, length a = length b ->
  mono_int (repeat 0%nat (length a)) a b = prodQ (map (fun ab => snd ab - fst ab) (combine a b)).
Proof. exact mono_int_zeros. Qed.
Theorem C12_formal_integral_1d_antiderivative : forall e a b,
  mono_int [e] [a] [b] = b ^ (S e) / qn (S e) - a ^ (S e) / qn (S e).
Proof. exact mono_int_1d. Qed.
Print Assumptions C12_formal_integral_additive.

(* ------------------------------------------------------------------ non-vacuity *)
(* a concrete history on eval p = [sum p] : repeated points, a batch with a duplicate, empty batch, reset, deactivation *)
Definition ex_eval (p : point) : value := [sumQ p].
Definition ex_ops : list op :=
  [OSingle [1; Qc2]; OBatch [[1; Qc2]; [Qc2; Qc2]; [1; Qc2]]; OSize; OBatch []; OReset; OSingle [Qc2; Qc2]; OSize;
   ODeact; OSingle [1; 1]].
Example C12_nonvacuous_fixed :
  map fst (run ex_eval 1 fixed init ex_ops) =
  [RSingle [Q2Qc (3#1)]; RBatch [[Q2Qc (3#1)]; [Q2Qc (4#1)]; [Q2Qc (3#1)]]; RSize 2; RBatch []; RUnit;
   RSingle [Q2Qc (4#1)]; RSize 1; RUnit; RSingle [Qc2]].
Proof. vm_compute. reflexivity. Qed.
Example C12_nonvacuous_current :
  map fst (run ex_eval 1 cur init ex_ops) =
  [RSingle [Q2Qc (3#1)]; RBatch [[Q2Qc (3#1)]; [Q2Qc (4#1)]; [Q2Qc (3#1)]]; RSize 2; RErr EIndex; RUnit;
   RSingle [Q2Qc (4#1)]; RSize 1; RUnit; RErr EUnbound].
Proof. vm_compute. reflexivity. Qed.
Example C12_nonvacuous_hyp : (forall p, length (ex_eval p) = 1%nat) /\ no_deact (firstn 7 ex_ops) = true /\
  length (distinct (requested [] (firstn 3 ex_ops))) = 2%nat.
Proof. split; [intro p; reflexivity | split; vm_compute; reflexivity]. Qed.
(* a vectorised evaluation that is wrong in the second row: exposed by one batch call; caught by debug mode *)
Definition ex_evec_wrong (ps : list point) : list value :=
  match ps with p :: q :: r => ex_eval p :: [0] :: map ex_eval r | _ => map ex_eval ps end.
Example C12_nonvacuous_wrong_vectorisation :
  map fst (vrun ex_eval 1 ex_evec_wrong true fixed vinit [VBase (OBatch [[1; Qc2]; [Qc2; Qc2]]); VDebug true; VBase (OBatch [[1; Qc2]; [Qc2; Qc2]]); VBase (OBatch [[1; 1]])]) =
  [VR (RBatch [[Q2Qc (3#1)]; [0]]); VR RUnit; VAssertVec; VR (RBatch [[Qc2]])].
Proof. vm_compute. reflexivity. Qed.
(* a nested (3-d) array through the generic loop *)
Example C12_nonvacuous_nested :
  generic_vec ex_eval 1 (ANest [ANest [APoint [1; Qc2]; APoint [Qc2; Qc2]]; ANest [APoint [1; 1]; APoint [0; 0]]]) =
    Some (VNest [VNest [VRow [Q2Qc (3#1)]; VRow [Q2Qc (4#1)]]; VNest [VRow [Qc2]; VRow [0]]]) /\
  arr_shape (ANest [ANest [APoint [1; Qc2]; APoint [Qc2; Qc2]]; ANest [APoint [1; 1]; APoint [0; 0]]]) = Some [2; 2]%nat.
Proof. split; vm_compute; reflexivity. Qed.
(* one object, points of different dimension in one history (the dictionary keys are tuples of any length) *)
Example C12_nonvacuous_cross_dimension :
  map fst (run ex_eval 1 fixed init [OBatch [[1; Qc2]]; OBatch [[1; Qc2; Qc2]; [1]]; OSingle [1; Qc2; Qc2]; OSize]) =
  [RBatch [[Q2Qc (3#1)]]; RBatch [[Q2Qc (5#1)]; [1]]; RSingle [Q2Qc (5#1)]; RSize 3].
Proof. vm_compute. reflexivity. Qed.
(* FunctionMultilinear([1,2]) on [0,2]x[0,3]: the code returns 11, the repaired code and the formal integral 24 *)
Example C12_nonvacuous_multilinear :
  atom_int false (FMultilinear [1; Qc2]) [0; 0] [Qc2; Q2Qc (3#1)] = IVal (Q2Qc (11#1)) /\
  atom_int true (FMultilinear [1; Qc2]) [0; 0] [Qc2; Q2Qc (3#1)] = IVal (Q2Qc (24#1)) /\
  mp_int (atom_denote 2 (FMultilinear [1; Qc2])) [0; 0] [Qc2; Q2Qc (3#1)] = Q2Qc (24#1).
Proof. repeat split; vm_compute; reflexivity. Qed.

(* ------------------------------------------------------------------ link to the Riemann integral (one variable) *)
(* Polynomial1d: the analytic integral AS CODED, read as a real number, is the Riemann integral (is_riemann_integral :=
   Coquelicot's is_RInt on R; pevR cs 0 x = sum_j c_j x^j; QcR = Q2R o this) over
   [a, b] of the real function x |-> eval((x,)).  This theorem (only) depends on the axioms of the standard library's
   real numbers, listed below by Print Assumptions. *)
From SG Require Proofs.FunPolyReal.
Theorem C12_polynomial1d_integral_is_riemann : forall (cs : list Qc) (a b : Qc),
  exists v, atom_int false (FPoly1d cs) [a] [b] = IVal v /\
    FunPolyReal.is_riemann_integral (FunPolyReal.pevR cs 0) (FunPolyReal.QcR a) (FunPolyReal.QcR b) (FunPolyReal.QcR v) /\
    (forall x : Qc, exists y, atom_eval (FPoly1d cs) [x] = IVal y /\ FunPolyReal.QcR y = FunPolyReal.pevR cs 0 (FunPolyReal.QcR x)).
Proof. exact FunPolyReal.poly1d_integral_is_riemann. Qed.
Print Assumptions C12_polynomial1d_integral_is_riemann.

(* ------------------------------------------------------------------ link to the Riemann integral (every dimension) *)
(* `is_iterated_riemann_integral f a b v` (Proofs/FunPolyIter.v, inductive is_iter_int): v is the iterated Riemann
   integral int_{a1}^{b1} ( ... ( int_{an}^{bn} f(x1..xn) dxn ) ... ) dx1 of f : R^n -> R, each one-variable integral being
   Coquelicot's is_RInt; C12_iterated_integral_1d / _2d below spell the definition out in one and two variables.
   For EVERY instance of the polynomial family (ConstantValue, FunctionLinear, FunctionMultilinear, FunctionPolynomial,
   Polynomial1d, FunctionCompose of these) in EVERY dimension n and over EVERY box with rational corners: the analytic
   integral (code after the integral fixes = the code of /repo today) is the iterated Riemann integral of the real function
   fn_real n f, and fn_real n f is what eval computes at every rational point.
   (Depends on the real-number axioms of the standard library; the identification of the iterated integral with the
   integral over the box - Fubini - is not formalised.) *)
From SG Require Proofs.FunPolyIter.
Theorem C12_polynomial_family_integral_is_iterated_riemann : forall n f a b,
  fn_dim_ok n f = true -> length a = n -> length b = n ->
  exists v, fn_int true f a b = IVal v /\
    FunPolyIter.is_iterated_riemann_integral (FunPolyIter.fn_real n f) (map FunPolyReal.QcR a) (map FunPolyReal.QcR b) (FunPolyReal.QcR v) /\
    (forall x, length x = n -> exists y, fn_eval f x = IVal y /\ FunPolyReal.QcR y = FunPolyIter.fn_real n f (map FunPolyReal.QcR x)).
Proof. exact FunPolyIter.family_integral_is_iterated_riemann. Qed.
Print Assumptions C12_polynomial_family_integral_is_iterated_riemann.

Theorem C12_iterated_integral_1d : forall f a b v,
  FunPolyIter.is_iterated_riemann_integral f [a] [b] v <-> FunPolyReal.is_riemann_integral (fun x => f [x]) a b v.
Proof. exact FunPolyIter.iter_1d. Qed.
Theorem C12_iterated_integral_2d : forall f a1 a2 b1 b2 v,
  FunPolyIter.is_iterated_riemann_integral f [a1; a2] [b1; b2] v <->
  exists g, (forall x, Rdefinitions.Rle (Rbasic_fun.Rmin a1 b1) x /\ Rdefinitions.Rle x (Rbasic_fun.Rmax a1 b1) -> FunPolyReal.is_riemann_integral (fun y => f [x; y]) a2 b2 (g x)) /\
            FunPolyReal.is_riemann_integral g a1 b1 v.
Proof. exact FunPolyIter.iter_2d. Qed.

(* the hypotheses are satisfiable in several variables: FunctionCompose([(FunctionMultilinear([1,2,1]), 2), (FunctionPolynomial([1,1,2], 3), 1/2)]) *)
Example C12_nonvacuous_iterated :
  fn_dim_ok 3 (FCompose [(FMultilinear [1; Qc2; 1], Qc2); (FPolynomial [1; 1; Qc2] 3, Qchalf)]) = true /\
  fn_int true (FCompose [(FMultilinear [1; Qc2; 1], Qc2); (FPolynomial [1; 1; Qc2] 3, Qchalf)]) [0; 0; 0] [1; Qc2; 1] = IVal (Q2Qc (49#4)).
Proof. split; vm_compute; reflexivity. Qed.

(* ------------------------------------------------------------------ GenzCornerPeak (a rational function: exact model) *)
(* Model/FunGenz.v follows eval, eval_vectorized and getAnalyticSolutionIntegral (the loop over all 2^dim sign combinations) of
   GenzCornerPeak over exact rationals, for every dimension. *)
From SG Require Import Model.FunGenz Proofs.FunGenzProofs.
From SG Require Proofs.FunGenzReal.

(* scalar path = vectorised path *)
Theorem C12_cornerpeak_vectorized_eq_scalar : forall cs x, length x = length cs -> cp_eval cs x = cp_vec_row cs x.
Proof. exact cp_vectorized_eq_scalar. Qed.
Print Assumptions C12_cornerpeak_vectorized_eq_scalar.

(* the analytic integral as coded (factor * sum over the 2^dim combinations) is the dim-fold iterated difference of s |-> 1/s
   over the corners, divided by dim! *)
Theorem C12_cornerpeak_integral_is_iterated_difference : forall cs a b v, cp_int cs a b = IVal v ->
  length a = length cs /\ length b = length cs /\ Forall (fun c => c <> 0) cs /\
  v = stencil Qcinv 1 cs a b / qn (fact_nat (length cs)).
Proof. exact cp_int_stencil. Qed.
Print Assumptions C12_cornerpeak_integral_is_iterated_difference.

(* MAIN: in EVERY dimension, whenever getAnalyticSolutionIntegral returns a value and 1 + sum c_d x_d > 0 on the box,
   that value is the iterated Riemann integral (is_iter_int, Coquelicot's is_RInt in each variable) over the box of the real
   function x |-> (1 + sum c_d x_d)^(-dim-1), which is what eval computes at every rational point. Uses the real-number
   axioms of the standard library. *)
Theorem C12_cornerpeak_integral_is_iterated_riemann : forall cs a b v, cp_int cs a b = IVal v ->
  (forall xs, FunGenzReal.in_box xs (map FunPolyReal.QcR a) (map FunPolyReal.QcR b) ->
              Rdefinitions.Rlt (Rdefinitions.IZR 0) (Rdefinitions.Rplus (Rdefinitions.IZR 1) (FunGenzReal.dotR (map FunPolyReal.QcR cs) xs))) ->
  FunPolyIter.is_iterated_riemann_integral (FunGenzReal.cp_real cs) (map FunPolyReal.QcR a) (map FunPolyReal.QcR b) (FunPolyReal.QcR v).
Proof. exact FunGenzReal.cornerpeak_integral_is_iterated_riemann. Qed.
Theorem C12_cornerpeak_eval_is_real_function : forall cs x y, length x = length cs -> cp_eval cs x = IVal y ->
  FunPolyReal.QcR y = FunGenzReal.cp_real cs (map FunPolyReal.QcR x).
Proof. exact FunGenzReal.cp_eval_real. Qed.
Print Assumptions C12_cornerpeak_integral_is_iterated_riemann.

(* GenzCornerPeak([1, 2]) on [0,1]^2: 1/(2*1*2) * (1 - 1/2 - 1/3 + 1/4) = 5/48; eval((1/2, 1/4)) = 1/8 *)
Example C12_nonvacuous_cornerpeak :
  cp_int [1; Qc2] [0; 0] [1; 1] = IVal (Q2Qc (5#48)) /\ cp_eval [1; Qc2] [Qchalf; Q2Qc (1#4)] = IVal (Q2Qc (1#8)) /\
  cp_vec_row [1; Qc2] [Qchalf; Q2Qc (1#4)] = IVal (Q2Qc (1#8)).
Proof. repeat split; vm_compute; reflexivity. Qed.

(* ------------------------------------------------------------------ product-structured transcendental classes (reals) *)
(* Proofs/FunGenzSep.v transcribes the Python loops of eval and getAnalyticSolutionIntegral of GenzProductPeak (prefix pp_),
   GenzDiscontinious (prefix gd_), GenzC0 (prefix c0_) and FunctionExpVar (prefix ev_) over the REAL numbers (exp, atan, x ** y = Rpower are the
   real functions). For every dimension: the integral formula of the code is the iterated Riemann integral over the box
   of the function computed by eval. These are theorems about the FORMULAS; the floating-point code is tied to them by
   reading and by the numerical cross-check of the harness only (no extracted correspondence: the models are not
   executable). All depend on the real-number axioms of the standard library. *)
From SG Require Proofs.FunGenzSep.
Theorem C12_productpeak_integral_is_iterated_riemann : forall cs ms a b,
  length ms = length cs -> length a = length cs -> length b = length cs -> Forall (fun c => c <> Rdefinitions.IZR 0) cs ->
  FunPolyIter.is_iterated_riemann_integral (fun xs => FunGenzSep.pp_eval cs ms xs (FunGenzSep.pp_factor (length cs))) a b
    (Rdefinitions.Rmult (FunGenzSep.pp_int cs ms a b (Rdefinitions.IZR 1)) (FunGenzSep.pp_factor (length cs))).
Proof. exact FunGenzSep.productpeak_integral_is_iterated_riemann. Qed.
(* boxes with start <= end in every direction (the code takes min(end, border) and returns 0 for start >= border) *)
Theorem C12_discontinious_integral_is_iterated_riemann : forall cs bs a b,
  length bs = length cs -> length a = length cs -> length b = length cs -> Forall (fun c => c <> Rdefinitions.IZR 0) cs ->
  FunGenzSep.box_ordered a b ->
  FunPolyIter.is_iterated_riemann_integral (fun xs => FunGenzSep.gd_eval cs bs xs (Rdefinitions.IZR 0)) a b
    (FunGenzSep.gd_int cs bs a b (Rdefinitions.IZR 1)).
Proof. exact FunGenzSep.discontinious_integral_is_iterated_riemann. Qed.
(* all four branches of the case analysis start/end versus midpoint *)
Theorem C12_c0_integral_is_iterated_riemann : forall cs ms a b,
  length ms = length cs -> length a = length cs -> length b = length cs -> Forall (fun c => c <> Rdefinitions.IZR 0) cs ->
  FunGenzSep.box_ordered a b ->
  FunPolyIter.is_iterated_riemann_integral (fun xs => FunGenzSep.c0_eval cs ms xs (Rdefinitions.IZR 0)) a b
    (FunGenzSep.c0_int cs ms a b (Rdefinitions.IZR 1)).
Proof. exact FunGenzSep.c0_integral_is_iterated_riemann. Qed.
(* FunctionExpVar in every dimension n >= 1, boxes inside the open positive orthant; the exponent 1/n and the constant
   (1+1/n)^n are those of the dimension of the ARGUMENT (len(coordinates) resp. len(start)) *)
Theorem C12_expvar_integral_is_iterated_riemann : forall a b, a <> [] -> FunGenzSep.box_positive a b ->
  FunPolyIter.is_iterated_riemann_integral
    (fun xs => Rdefinitions.Rmult (Rpow_def.pow (Rdefinitions.Rplus (Rdefinitions.IZR 1) (Rdefinitions.Rdiv (Rdefinitions.IZR 1) (Raxioms.INR (length a)))) (length a))
                                  (FunGenzSep.ev_prod (Rdefinitions.Rdiv (Rdefinitions.IZR 1) (Raxioms.INR (length a))) xs (Rdefinitions.IZR 1)))
    a b (FunGenzSep.ev_int a b) /\
  (forall xs, length xs = length a ->
     FunGenzSep.ev_eval xs = Rdefinitions.Rmult (Rpow_def.pow (Rdefinitions.Rplus (Rdefinitions.IZR 1) (Rdefinitions.Rdiv (Rdefinitions.IZR 1) (Raxioms.INR (length a)))) (length a))
                                                (FunGenzSep.ev_prod (Rdefinitions.Rdiv (Rdefinitions.IZR 1) (Raxioms.INR (length a))) xs (Rdefinitions.IZR 1))).
Proof. exact FunGenzSep.expvar_integral_is_iterated_riemann. Qed.
Print Assumptions C12_c0_integral_is_iterated_riemann.
(* the iterated integral of a product of one-variable functions is the product of their integrals (used for all four) *)
Theorem C12_separable_iterated_integral : forall fs a b vs, FunGenzSep.sep_ok fs a b vs ->
  FunPolyIter.is_iterated_riemann_integral (FunGenzSep.prod_fun fs) a b (FunGenzSep.prodR vs).
Proof. exact FunGenzSep.sep_iter. Qed.

(* ------------------------------------------------------------------ arguments are values *)
(* The results (and the dictionary after every operation) of a history are a function of the numerical VALUES of the arguments:
   two histories whose points are pointwise numerically equal rationals (1 vs 2/2, 0 vs -0, whatever container or object carries
   them) are indistinguishable, for every eval, vectorised eval, variant and start state. Object identity, container type and
   number representation do not exist in the model, so any dependence of the implementation on them (an argument array modified
   in place, a returned array aliasing the cache) shows up as a difference to the model / to the same computation on fresh copies. *)
From SG Require Proofs.FunCacheValues.
Theorem C12_history_is_function_of_values : forall (eval : point -> value) (olen : nat) evec checks vr s ops ops',
  Forall2 FunCacheValues.same_arg ops ops' ->
  vrun eval olen evec checks vr s (map FunCacheValues.canon ops) = vrun eval olen evec checks vr s (map FunCacheValues.canon ops').
Proof. exact FunCacheValues.history_is_function_of_values. Qed.
Print Assumptions C12_history_is_function_of_values.
Example C12_nonvacuous_values :
  FunCacheValues.same_arg (FunCacheValues.RawBatch [[1#1; 0#1]; [1#2; 3#4]]) (FunCacheValues.RawBatch [[2#2; (-0)#5]; [2#4; 6#8]]) /\
  FunCacheValues.canon (FunCacheValues.RawBatch [[1#1; 0#1]; [1#2; 3#4]]) = FunCacheValues.canon (FunCacheValues.RawBatch [[2#2; (-0)#5]; [2#4; 6#8]]).
Proof.
  split; [|apply FunCacheValues.canon_eq];
    (cbn [FunCacheValues.same_arg]; repeat constructor; reflexivity).
Qed.

(* ================================================================== phase 3 *)
(* ------------------------------------------------------------------ executable symbolic models of the exp / power classes *)
(* Model/FunGenzSym.v follows eval and getAnalyticSolutionIntegral of GenzDiscontinious, GenzC0 and FunctionExpVar over Qc up to the
   transcendental atoms exp(t), x ** (1+y): every comparison with border / midpoint, the clipping min(end, border), the early
   `return 0.0` and the branch choice are decided on exact rationals; the result is a product of rational linear combinations of
   atoms. These models are extracted and compared with Function.py on every run (entry subs 5-7). Read with the real exp / Rpower
   (atomR, linR, symR) they ARE the real-number transcriptions of Proofs/FunGenzSep.v - which ties the transcription theorems to
   the code - and hence the iterated Riemann integrals of the functions computed by eval. (Real-number axioms of the standard
   library, as before.) *)
From SG Require Import Model.FunGenzSym.
From SG Require Proofs.FunGenzSymProofs Proofs.FunPiecewise.

Theorem C12_discontinious_symbolic_is_transcription : forall cs bs a b,
  length bs = length cs -> length a = length cs -> length b = length cs -> Forall (fun c => c <> 0%Qc) cs ->
  FunGenzSymProofs.opt_symR (gd_int_sym cs bs a b) =
  FunGenzSep.gd_int (map FunPolyReal.QcR cs) (map FunPolyReal.QcR bs) (map FunPolyReal.QcR a) (map FunPolyReal.QcR b) (Rdefinitions.IZR 1).
Proof. exact FunGenzSymProofs.gd_int_sym_correct. Qed.
Theorem C12_discontinious_symbolic_eval_is_transcription : forall cs bs xs acc,
  FunGenzSymProofs.opt_expR (gd_eval_sym cs bs xs acc) =
  FunGenzSep.gd_eval (map FunPolyReal.QcR cs) (map FunPolyReal.QcR bs) (map FunPolyReal.QcR xs) (FunPolyReal.QcR acc).
Proof. exact FunGenzSymProofs.gd_eval_sym_correct. Qed.
Theorem C12_discontinious_symbolic_integral_is_iterated_riemann : forall cs bs a b,
  length bs = length cs -> length a = length cs -> length b = length cs -> Forall (fun c => c <> 0%Qc) cs ->
  Forall2 (fun x y => (x <= y)%Qc) a b ->
  FunPolyIter.is_iterated_riemann_integral
    (fun xs => FunGenzSep.gd_eval (map FunPolyReal.QcR cs) (map FunPolyReal.QcR bs) xs (Rdefinitions.IZR 0))
    (map FunPolyReal.QcR a) (map FunPolyReal.QcR b) (FunGenzSymProofs.opt_symR (gd_int_sym cs bs a b)).
Proof. exact FunGenzSymProofs.gd_sym_integral_is_iterated_riemann. Qed.

Theorem C12_c0_symbolic_is_transcription : forall cs ms a b, Forall (fun c => c <> 0%Qc) cs ->
  FunGenzSymProofs.symR (Rdefinitions.IZR 1) (c0_int_sym cs ms a b) =
  FunGenzSep.c0_int (map FunPolyReal.QcR cs) (map FunPolyReal.QcR ms) (map FunPolyReal.QcR a) (map FunPolyReal.QcR b) (Rdefinitions.IZR 1).
Proof. exact FunGenzSymProofs.c0_int_sym_correct. Qed.
Theorem C12_c0_symbolic_eval_is_transcription : forall cs ms xs acc,
  Rtrigo_def.exp (FunPolyReal.QcR (c0_eval_sym cs ms xs acc)) =
  FunGenzSep.c0_eval (map FunPolyReal.QcR cs) (map FunPolyReal.QcR ms) (map FunPolyReal.QcR xs) (FunPolyReal.QcR acc).
Proof. exact FunGenzSymProofs.c0_eval_sym_correct. Qed.
Theorem C12_c0_symbolic_integral_is_iterated_riemann : forall cs ms a b,
  length ms = length cs -> length a = length cs -> length b = length cs -> Forall (fun c => c <> 0%Qc) cs ->
  Forall2 (fun x y => (x <= y)%Qc) a b ->
  FunPolyIter.is_iterated_riemann_integral
    (fun xs => FunGenzSep.c0_eval (map FunPolyReal.QcR cs) (map FunPolyReal.QcR ms) xs (Rdefinitions.IZR 0))
    (map FunPolyReal.QcR a) (map FunPolyReal.QcR b) (FunGenzSymProofs.symR (Rdefinitions.IZR 1) (c0_int_sym cs ms a b)).
Proof. exact FunGenzSymProofs.c0_sym_integral_is_iterated_riemann. Qed.

Theorem C12_expvar_symbolic_is_transcription : forall a b y k s, ev_int_sym a b = Some (y, k, s) ->
  Rdefinitions.Rmult (FunPolyReal.QcR k) (FunGenzSymProofs.symR (Rdefinitions.Rplus (Rdefinitions.IZR 1) (FunPolyReal.QcR y)) s) =
  FunGenzSep.ev_int (map FunPolyReal.QcR a) (map FunPolyReal.QcR b).
Proof. exact FunGenzSymProofs.ev_int_sym_correct. Qed.
Theorem C12_expvar_symbolic_integral_is_iterated_riemann : forall a b y k s, ev_int_sym a b = Some (y, k, s) ->
  Forall2 (fun x y => (0 < x)%Qc /\ (0 < y)%Qc) a b ->
  FunPolyIter.is_iterated_riemann_integral
    (fun xs => Rdefinitions.Rmult (Rpow_def.pow (Rdefinitions.Rplus (Rdefinitions.IZR 1) (Rdefinitions.Rdiv (Rdefinitions.IZR 1) (Raxioms.INR (length a)))) (length a))
                                  (FunGenzSep.ev_prod (Rdefinitions.Rdiv (Rdefinitions.IZR 1) (Raxioms.INR (length a))) xs (Rdefinitions.IZR 1)))
    (map FunPolyReal.QcR a) (map FunPolyReal.QcR b)
    (Rdefinitions.Rmult (FunPolyReal.QcR k) (FunGenzSymProofs.symR (Rdefinitions.Rplus (Rdefinitions.IZR 1) (FunPolyReal.QcR y)) s)).
Proof. exact FunGenzSymProofs.ev_sym_integral_is_iterated_riemann. Qed.
Print Assumptions C12_c0_symbolic_integral_is_iterated_riemann.

(* the clipping logic at work: GenzDiscontinious([1, 2], border [1/2, 3]) over [0,1]x[0,2]: end clipped to 1/2 in the first
   direction only; over [1/2,1]x[0,2]: early return *)
Example C12_nonvacuous_discontinious_symbolic :
  gd_int_sym [1; Qc2] [Qchalf; Q2Qc (3#1)] [0; 0] [1; Qc2] =
    Some [[(1 / 1, AExp (- (1) * 0)); (- (1 / 1), AExp (- (1) * Qchalf))]; [(1 / Qc2, AExp (- Qc2 * 0)); (- (1 / Qc2), AExp (- Qc2 * Qc2))]] /\
  gd_int_sym [1; Qc2] [Qchalf; Q2Qc (3#1)] [Qchalf; 0] [1; Qc2] = None /\
  gd_eval_sym [1; Qc2] [Qchalf; Q2Qc (3#1)] [Q2Qc (1#4); 1] 0 = Some (Q2Qc (-9#4)).
Proof. repeat split; vm_compute; reflexivity. Qed.

(* ------------------------------------------------------------------ FunctionDiagonalDiscont, FunctionG: exact models, integral theorems *)
(* FunctionDiagonalDiscont: eval = indicator of sum x < 1 (exact over Qc); getAnalyticSolutionIntegral = 1/dim! over the unit cube.
   The value is the iterated Riemann integral of the indicator, in EVERY dimension (the general statement dd_iter: the iterated
   integral over [0,1]^n of [s + sum x < 1] is (1-s)^n/n! for 0 <= s < 1, 0 for s >= 1). *)
Theorem C12_diagonaldiscont_integral_is_iterated_riemann : forall a b v, dd_int a b = IVal v ->
  FunPolyIter.is_iterated_riemann_integral (FunPiecewise.dd_real (Rdefinitions.IZR 0)) (map FunPolyReal.QcR a) (map FunPolyReal.QcR b) (FunPolyReal.QcR v).
Proof. exact FunPiecewise.dd_integral_is_iterated_riemann. Qed.
Theorem C12_diagonaldiscont_eval_is_real_function : forall xs,
  FunPolyReal.QcR (dd_eval xs) = FunPiecewise.dd_real (Rdefinitions.IZR 0) (map FunPolyReal.QcR xs).
Proof. exact FunPiecewise.dd_eval_real. Qed.
Theorem C12_simplex_slice_integral : forall n s, Rdefinitions.Rle (Rdefinitions.IZR 0) s ->
  FunPolyIter.is_iterated_riemann_integral (FunPiecewise.dd_real s) (repeat (Rdefinitions.IZR 0) n) (repeat (Rdefinitions.IZR 1) n) (FunPiecewise.dd_value n s).
Proof. exact FunPiecewise.dd_iter. Qed.
(* FunctionG (Sobol g-function, a_d = d/2): eval exact over Qc; the integral over the unit cube is 1 in every dimension *)
Theorem C12_g_integral_is_iterated_riemann : forall a b v, g_int a b = IVal v ->
  FunPolyIter.is_iterated_riemann_integral (FunPiecewise.g_real (length a)) (map FunPolyReal.QcR a) (map FunPolyReal.QcR b) (FunPolyReal.QcR v).
Proof. exact FunPiecewise.g_integral_is_iterated_riemann. Qed.
Theorem C12_g_eval_is_real_function : forall xs,
  FunPolyReal.QcR (g_eval xs) = FunPiecewise.g_real (length xs) (map FunPolyReal.QcR xs).
Proof. exact FunPiecewise.g_eval_real. Qed.
Print Assumptions C12_diagonaldiscont_integral_is_iterated_riemann.
Example C12_nonvacuous_piecewise :
  dd_int [0; 0; 0] [1; 1; 1] = IVal (Q2Qc (1#6)) /\ dd_eval [Q2Qc (1#4); Qchalf] = 1 /\ dd_eval [Qchalf; Qchalf] = 0 /\
  g_int [0; 0] [1; 1] = IVal 1 /\ g_eval [Q2Qc (1#4); 1] = Q2Qc (5#3).
Proof. repeat split; vm_compute; reflexivity. Qed.

(* ------------------------------------------------------------------ order of integration (a Fubini consequence, polynomials) *)
(* Coquelicot has no Riemann integral over a box in R^n and no Fubini theorem (is_RInt is one-dimensional; RInt.v, RInt_analysis.v,
   KHInt.v contain only parametric integrals), so `iterated integral = integral over the box` cannot be stated against a library
   notion. What can be proved without it: for every formal polynomial the iterated integral does not depend on the order of the
   first two variables (x1 outermost then x2, or x2 outermost then x1). *)
Theorem C12_polynomial_integration_order_irrelevant : forall p a b, length a = length b -> (2 <= length a)%nat ->
  Forall (fun m => length (snd m) = length a) p ->
  FunPolyIter.is_iterated_riemann_integral (FunPolyIter.mp_evalR p) (map FunPolyReal.QcR a) (map FunPolyReal.QcR b) (FunPolyReal.QcR (mp_int p a b)) /\
  FunPolyIter.is_iterated_riemann_integral (fun xs => FunPolyIter.mp_evalR p (FunPolyIter.swap2 xs))
    (FunPolyIter.swap2 (map FunPolyReal.QcR a)) (FunPolyIter.swap2 (map FunPolyReal.QcR b)) (FunPolyReal.QcR (mp_int p a b)).
Proof. exact FunPolyIter.polynomial_integration_order_irrelevant. Qed.
Print Assumptions C12_polynomial_integration_order_irrelevant.
