(* C14 — Interrupted, saved or resumed refinement ends where an uninterrupted run ends.
   Property theorems only. Model: the loop of continue_adaptive_refinement over an ABSTRACT refinement state with a
   deterministic `evaluate` (evaluate_operation) and `refine` (Model/Driver.v, Section Resume).
   The theorem needs ONE hypothesis about the implementation: evaluating an already evaluated state changes nothing.
   That hypothesis is checked on the implementation by harness/vp/props/c14.py (it fails for extend-split, and for the
   surplus error of the dimension-wise strategy: known findings).  dill save/restore is a runtime comparison, no theorem. *)
From Coq Require Import ZArith List Bool QArith Qcanon Lia.
From SG Require Import Base.QcUtil Model.Driver Proofs.DriverProofs Proofs.DriverSpec.
Import ListNotations.
Open Scope Z_scope.

(* limits only grow  =>  whatever stops under the later limits stops under the earlier ones *)
Theorem C14_limits_grow_stop_mono : forall l1 l2 o, limits_grow l1 l2 -> stop_now l2 o = true -> stop_now l1 o = true.
Proof. exact stop_mono. Qed.

(* stop-then-continue reaches the state of the single run, for every state space, every deterministic evaluate / refine /
   observe, every pair of limits that only grow, every interruption point *)
Theorem C14_resume_equals_uninterrupted :
  forall (St : Type) (evaluate refine : St -> St) (observe : St -> obs),
  (forall s, evaluate (evaluate s) = evaluate s) ->
  forall l1 l2 n m s s1 s2,
    limits_grow l1 l2 ->
    run St evaluate refine observe l1 n s = Some s1 ->
    run St evaluate refine observe l2 m s1 = Some s2 ->
    exists k, (k <= n + m)%nat /\ run St evaluate refine observe l2 k s = Some s2.
Proof. intros St ev rf ob H l1 l2 n m s s1 s2. exact (resume_equals_uninterrupted St ev rf ob H l1 l2 n m s s1 s2). Qed.
Print Assumptions C14_resume_equals_uninterrupted.

Theorem C14_uninterrupted_equals_resume :
  forall (St : Type) (evaluate refine : St -> St) (observe : St -> obs),
  (forall s, evaluate (evaluate s) = evaluate s) ->
  forall l1 l2 n m k s s1 s2 s2',
    limits_grow l1 l2 ->
    run St evaluate refine observe l1 n s = Some s1 ->
    run St evaluate refine observe l2 m s1 = Some s2 ->
    run St evaluate refine observe l2 k s = Some s2' -> s2' = s2.
Proof. intros St ev rf ob H l1 l2 n m k s s1 s2 s2'. exact (uninterrupted_equals_resume St ev rf ob H l1 l2 n m k s s1 s2 s2'). Qed.

(* any number of interruptions *)
Theorem C14_resume_chain_equals_uninterrupted :
  forall (St : Type) (evaluate refine : St -> St) (observe : St -> obs),
  (forall s, evaluate (evaluate s) = evaluate s) ->
  forall lims lf nf s s1 s2,
    all_grow_to lims lf -> run_chain St evaluate refine observe lims s = Some s1 ->
    run St evaluate refine observe lf nf s1 = Some s2 -> lims <> [] ->
    exists k, run St evaluate refine observe lf k s = Some s2.
Proof. intros St ev rf ob H lims lf nf s s1 s2. exact (resume_chain_equals_uninterrupted St ev rf ob H lims lf nf s s1 s2). Qed.
Print Assumptions C14_resume_chain_equals_uninterrupted.

(* the loop is deterministic and more fuel does not change its result (the single run is well defined) *)
Theorem C14_run_deterministic :
  forall (St : Type) (evaluate refine : St -> St) (observe : St -> obs) lim n m s x y,
  run St evaluate refine observe lim n s = Some x -> run St evaluate refine observe lim m s = Some y -> x = y.
Proof. exact run_deterministic. Qed.

(* REFUTED without the hypothesis: a state machine whose evaluate adds the pending (still "new") part again - the shape of
   extend-split's evaluate_operation, which does not clear the new-object marker - resumes somewhere else.
   State (total, pending): evaluate (t,p) = (t+p, p); refine (t,p) = (t, 1); points = total. *)
Definition bad_evaluate (s : Z * Z) : Z * Z := (fst s + snd s, snd s).
Definition bad_refine (s : Z * Z) : Z * Z := (fst s, 1).
Definition bad_observe (s : Z * Z) : obs := mkObs 0%Qc 0%Qc (fst s).
Theorem C14_resume_without_idempotence_refuted :
  let l1 := mkLimits (Q2Qc (-1 # 1)) 1 (Some 3) in
  let l2 := mkLimits (Q2Qc (-1 # 1)) 1 (Some 7) in
  limits_grow l1 l2 /\
  exists s1 s2 s2',
    run (Z * Z) bad_evaluate bad_refine bad_observe l1 5 (0, 5) = Some s1 /\
    run (Z * Z) bad_evaluate bad_refine bad_observe l2 5 s1 = Some s2 /\
    run (Z * Z) bad_evaluate bad_refine bad_observe l2 5 (0, 5) = Some s2' /\ s2 <> s2'.
Proof.
  intros l1 l2. split.
  - unfold limits_grow, l1, l2. cbn [l_tol l_min l_max]. split; [apply Qcle_refl|]. split; lia.
  - exists (5, 5), (10, 5), (8, 1). split; [reflexivity|]. split; [reflexivity|]. split; [reflexivity|discriminate].
Qed.

(* non-vacuity: the repaired machine (pending part cleared once evaluated) satisfies the hypothesis, and on the same
   limits stop-and-continue ends in the state of the single run *)
Definition good_evaluate (s : Z * Z) : Z * Z := (fst s + snd s, 0).
Example C14_nonvacuous :
  (forall s, good_evaluate (good_evaluate s) = good_evaluate s) /\
  let l1 := mkLimits (Q2Qc (-1 # 1)) 1 (Some 3) in
  let l2 := mkLimits (Q2Qc (-1 # 1)) 1 (Some 7) in
  run (Z * Z) good_evaluate bad_refine bad_observe l1 5 (0, 5) = Some (5, 0) /\
  run (Z * Z) good_evaluate bad_refine bad_observe l2 5 (5, 0) = Some (8, 0) /\
  run (Z * Z) good_evaluate bad_refine bad_observe l2 5 (0, 5) = Some (8, 0).
Proof.
  split; [intros [t p]; unfold good_evaluate; cbn [fst snd]; f_equal; lia|].
  intros l1 l2. split; [reflexivity|]. split; reflexivity.
Qed.

(* ==================================================================================================================
   Round 2: arbitrary limits per leg, limits expressed through the API, equivalence up to rounding, reevaluate_at_end
   ================================================================================================================== *)
From SG Require Import Proofs.DriverLegs Proofs.DriverFinish.

(* the decidable test the harness evaluates (through the entry point) on every leg it generates *)
Theorem C14_limits_growb_sound : forall l1 l2, limits_growb l1 l2 = true <-> limits_grow l1 l2.
Proof. exact limits_growb_spec. Qed.

(* the loop returns the state at the first position of the uninterrupted trajectory that satisfies the rule *)
Theorem C14_run_is_first_stop_on_trajectory :
  forall (St : Type) (evaluate refine : St -> St) (observe : St -> obs) lim n s,
  run St evaluate refine observe lim n s =
    option_map (fun k => state_at St evaluate refine k s) (first_stop lim (traj St evaluate refine observe n s)).
Proof. exact run_is_first_stop_on_trajectory. Qed.

(* a history of legs with ARBITRARY limits (growing or not), under the idempotence hypothesis, follows the trajectory of the
   uninterrupted run: the state after the last leg is the trajectory state at the position, and the history arrays /
   event trace are the ones, that `legs_on_stream` computes from the uninterrupted observation stream (this is what the
   correspondence compares with the interrupted runs of the implementation) *)
Theorem C14_legs_follow_trajectory :
  forall (St : Type) (evaluate refine : St -> St) (observe : St -> obs),
  (forall s, evaluate (evaluate s) = evaluate s) ->
  forall legs s d s' d' N,
    legs <> [] -> run_legs St evaluate refine observe legs s d = Some (s', d') -> (legs_fuel legs <= N)%nat ->
    exists p, legs_on_stream (map fst legs) (traj St evaluate refine observe N s) d = Some (p, d') /\
              s' = state_at St evaluate refine p s.
Proof. exact legs_follow_trajectory. Qed.
Print Assumptions C14_legs_follow_trajectory.

(* if every leg's limits grow to those of the LAST leg (not necessarily from leg to leg), the history ends in the state of
   the single run with the last limits - state level and stream level *)
Theorem C14_legs_grow_end_where_single_run_ends :
  forall (St : Type) (evaluate refine : St -> St) (observe : St -> obs),
  (forall s, evaluate (evaluate s) = evaluate s) ->
  forall legs lf s d s' d',
    legs <> [] -> last (map fst legs) lf = lf -> all_growb (map fst legs) lf = true ->
    run_legs St evaluate refine observe legs s d = Some (s', d') ->
    run St evaluate refine observe lf (legs_fuel legs) s = Some s'.
Proof. exact legs_grow_end_where_single_run_ends. Qed.
Theorem C14_legs_grow_end_at_single_stop : forall legs lf os d p d',
  legs <> [] -> last legs lf = lf -> all_growb legs lf = true ->
  legs_on_stream legs os d = Some (p, d') -> first_stop lf os = Some p.
Proof. exact legs_grow_end_at_single_stop. Qed.
Print Assumptions C14_legs_grow_end_where_single_run_ends.

(* "continuing with larger limits", however the caller expresses them: explicit arguments, arguments left to their
   defaults (which differ between the two entry points), tol = 0.  perform(a1); continue(a2) ends where the single
   perform(a3) ends for EVERY a3 that resolves to the limits a2 resolves to *)
Theorem C14_resume_equals_uninterrupted_args :
  forall (St : Type) (evaluate refine : St -> St) (observe : St -> obs),
  (forall s, evaluate (evaluate s) = evaluate s) ->
  forall a1 a2 a3 n m s s1 s2,
    limits_growb (resolve_perform a1) (resolve_continue a2) = true ->
    resolve_perform a3 = resolve_continue a2 ->
    run St evaluate refine observe (resolve_perform a1) n s = Some s1 ->
    run St evaluate refine observe (resolve_continue a2) m s1 = Some s2 ->
    exists k, (k <= n + m)%nat /\ run St evaluate refine observe (resolve_perform a3) k s = Some s2.
Proof. exact resume_equals_uninterrupted_args. Qed.
(* a continuation with tol = 0 after a tolerance stop: the limits grow whatever the first tolerance t >= 0 was *)
Theorem C14_tolerance_zero_grows : forall t am ax M,
  (0 <= t)%Qc -> match ax with Some x => x <= M | None => False end ->
  limits_growb (resolve_perform (mkArgs (Some t) am ax)) (resolve_continue (mkArgs (Some 0%Qc) am (Some M))) = true.
Proof. exact tolerance_zero_grows. Qed.

(* equivalence up to rounding + reevaluate_at_end (evaluate_final_combi after each stop, flags arbitrary) *)
Theorem C14_resume_equals_uninterrupted_upto :
  forall (St : Type) (evaluate refine finish : St -> St) (observe : St -> obs) (R : St -> St -> Prop) (L : limits -> Prop),
  (forall s, R s s) -> (forall s t, R s t -> R t s) -> (forall s t u, R s t -> R t u -> R s u) ->
  (forall s t, R s t -> R (evaluate s) (evaluate t)) -> (forall s t, R s t -> R (refine s) (refine t)) ->
  (forall lim s t, L lim -> R s t -> stop_now lim (observe s) = stop_now lim (observe t)) ->
  (forall s, R (evaluate (evaluate s)) (evaluate s)) -> (forall s, R (finish (evaluate s)) (evaluate s)) ->
  forall b1 b2 b3 l1 l2 n m s s1 s2,
    limits_grow l1 l2 -> L l2 ->
    run_fin St evaluate refine finish observe b1 l1 n s = Some s1 ->
    run_fin St evaluate refine finish observe b2 l2 m s1 = Some s2 ->
    exists k z, (k <= n + m)%nat /\ run_fin St evaluate refine finish observe b3 l2 k s = Some z /\ R s2 z.
Proof. exact resume_equals_uninterrupted_upto. Qed.
Theorem C14_resume_chain_equals_uninterrupted_upto :
  forall (St : Type) (evaluate refine finish : St -> St) (observe : St -> obs) (R : St -> St -> Prop) (L : limits -> Prop),
  (forall s, R s s) -> (forall s t, R s t -> R t s) -> (forall s t u, R s t -> R t u -> R s u) ->
  (forall s t, R s t -> R (evaluate s) (evaluate t)) -> (forall s t, R s t -> R (refine s) (refine t)) ->
  (forall lim s t, L lim -> R s t -> stop_now lim (observe s) = stop_now lim (observe t)) ->
  (forall s, R (evaluate (evaluate s)) (evaluate s)) -> (forall s, R (finish (evaluate s)) (evaluate s)) ->
  forall lims bf b3 lf nf s s1 s2,
    L lf -> all_grow_to_f lims lf ->
    run_fin_chain St evaluate refine finish observe lims s = Some s1 ->
    run_fin St evaluate refine finish observe bf lf nf s1 = Some s2 -> lims <> [] ->
    exists k z, run_fin St evaluate refine finish observe b3 lf k s = Some z /\ R s2 z.
Proof. exact resume_chain_equals_uninterrupted_upto. Qed.
Print Assumptions C14_resume_chain_equals_uninterrupted_upto.

(* non-vacuity 1: the scenario of the seeded change C14r2 in the model.  State = number of refinement rounds; error 1/(k+1),
   4k+5 points.  perform(tol=1/3) stops at k=2 by its tolerance; continue(tol=0, max=30) goes on to k=7 (33 points), which is
   where perform(tol=0, max=30) ends - and NOT where the first leg stopped. *)
Definition nv_observe (k : nat) : obs := mkObs (Q2Qc (1 # Pos.of_nat (S k))) 0%Qc (4 * Z.of_nat k + 5).
Example C14_nonvacuous_tolerance_zero :
  let a1 := mkArgs (Some (Q2Qc (1 # 3))) None None in
  let a2 := mkArgs (Some 0%Qc) None (Some 30) in
  let a3 := mkArgs (Some 0%Qc) (Some 1) (Some 30) in
  (forall k : nat, (fun k => k) ((fun k => k) k) = (fun k => k) k) /\
  resolve_perform a3 = resolve_continue a2 /\
  run nat (fun k => k) S nv_observe (resolve_perform a1) 20 0%nat = Some 2%nat /\
  run nat (fun k => k) S nv_observe (resolve_continue a2) 20 2%nat = Some 7%nat /\
  run nat (fun k => k) S nv_observe (resolve_perform a3) 20 0%nat = Some 7%nat.
Proof. split; [reflexivity|]. split; [reflexivity|]. split; [vm_compute; reflexivity|]. split; vm_compute; reflexivity. Qed.

(* non-vacuity 2: three legs whose limits do not grow from leg to leg but all grow to the last one *)
Example C14_nonvacuous_legs :
  let l1 := mkLimits (Q2Qc (1 # 3)) 1 (Some 100) in        (* stops by tolerance at k = 2 *)
  let l2 := mkLimits (Q2Qc (1 # 2)) 1 (Some 20) in         (* looser tolerance, smaller budget: stops at once *)
  let l3 := mkLimits (Q2Qc (1 # 6)) 10 (Some 100) in       (* final limits: k = 5 *)
  all_growb [l1; l2; l3] l3 = true /\ limits_growb l1 l2 = false /\
  run_legs nat (fun k => k) S nv_observe [(l1, 20%nat); (l2, 20%nat); (l3, 20%nat)] 0%nat d_init
    = option_map (fun sd => (5%nat, snd sd)) (run_legs nat (fun k => k) S nv_observe [(l1, 20%nat); (l2, 20%nat); (l3, 20%nat)] 0%nat d_init) /\
  run nat (fun k => k) S nv_observe l3 60 0%nat = Some 5%nat /\
  exists d, legs_on_stream [l1; l2; l3] (traj nat (fun k => k) S nv_observe 60 0%nat) d_init = Some (5%nat, d) /\
            d_pts d = [5; 9; 13;  13;  13; 17; 21; 25].
Proof.
  split; [vm_compute; reflexivity|]. split; [vm_compute; reflexivity|]. split; [vm_compute; reflexivity|].
  split; [vm_compute; reflexivity|]. eexists. split; [vm_compute; reflexivity|]. reflexivity.
Qed.

(* non-vacuity 3: the equivalence version is not vacuous: states (rounds, rounding noise), R ignores the noise,
   evaluate_final_combi changes the noise, re-evaluation too; all hypotheses hold and the conclusion relates different states *)
Example C14_nonvacuous_upto :
  let ev := fun s : nat * Z => (fst s, snd s + 1) in
  let rf := fun s : nat * Z => (S (fst s), snd s) in
  let fin := fun s : nat * Z => (fst s, 0) in
  let ob := fun s : nat * Z => nv_observe (fst s) in
  let R := fun s t : nat * Z => fst s = fst t in
  let l1 := mkLimits (Q2Qc (1 # 3)) 1 (Some 100) in
  let l3 := mkLimits (Q2Qc (1 # 6)) 10 (Some 100) in
  (forall s t, R s t -> R (ev s) (ev t)) /\ (forall s t, R s t -> R (rf s) (rf t)) /\
  (forall lim s t, R s t -> stop_now lim (ob s) = stop_now lim (ob t)) /\
  (forall s, R (ev (ev s)) (ev s)) /\ (forall s, R (fin (ev s)) (ev s)) /\
  run_fin (nat * Z) ev rf fin ob true l1 20 (0%nat, 0) = Some (2%nat, 0) /\
  run_fin (nat * Z) ev rf fin ob false l3 20 (2%nat, 0) = Some (5%nat, 4) /\
  run_fin (nat * Z) ev rf fin ob false l3 20 (0%nat, 0) = Some (5%nat, 6).
Proof.
  cbv zeta. split; [intros s t H; exact H|]. split; [intros s t H; cbn [fst]; f_equal; exact H|].
  split; [intros lim s t H; cbn beta; rewrite H; reflexivity|]. split; [intro s; reflexivity|]. split; [intro s; reflexivity|].
  split; [vm_compute; reflexivity|]. split; vm_compute; reflexivity.
Qed.

(* ==================================================================================================================
   Round 4: save_to_file / restore_from_file - any number of restores of ONE checkpoint, interleaved with continuations
   ================================================================================================================== *)
From SG Require Import Proofs.DriverCheckpoint.

(* a live copy ends in what the calls addressed to IT make of it - whatever is restored or continued in between *)
Theorem C14_copy_depends_on_its_own_calls_only :
  forall (St : Type) (evaluate refine : St -> St) (observe : St -> obs) c ops store i x,
  nth_error store i = Some x ->
  nth_error (ck_exec St evaluate refine observe c ops store) i
    = Some (run_legs_opt St evaluate refine observe (legs_of i ops) x).
Proof. exact copy_depends_on_its_own_calls_only. Qed.

(* a copy created by a restore at ANY point of the history starts from the checkpoint as saved *)
Theorem C14_restored_copy_starts_from_the_checkpoint :
  forall (St : Type) (evaluate refine : St -> St) (observe : St -> obs) c pre post store,
  let i := length (ck_exec St evaluate refine observe c pre store) in
  nth_error (ck_exec St evaluate refine observe c (pre ++ OpRestore :: post) store) i
    = Some (run_legs_opt St evaluate refine observe (legs_of i post) (Some c)).
Proof. exact restored_copy_starts_from_the_checkpoint. Qed.

(* every copy ends where the single uninterrupted run with that copy's final limits ends *)
Theorem C14_checkpoint_copies_end_where_single_runs_end :
  forall (St : Type) (evaluate refine : St -> St) (observe : St -> obs),
  (forall s, evaluate (evaluate s) = evaluate s) ->
  forall prefix s d c pre post store lf s_i d_i,
    run_legs St evaluate refine observe prefix s d = Some c ->
    let i := length (ck_exec St evaluate refine observe c pre store) in
    let mine := legs_of i post in
    nth_error (ck_exec St evaluate refine observe c (pre ++ OpRestore :: post) store) i = Some (Some (s_i, d_i)) ->
    mine <> [] -> last (map fst (prefix ++ mine)) lf = lf -> all_growb (map fst (prefix ++ mine)) lf = true ->
    run St evaluate refine observe lf (legs_fuel (prefix ++ mine)) s = Some s_i.
Proof. exact checkpoint_copies_end_where_single_runs_end. Qed.
Print Assumptions C14_checkpoint_copies_end_where_single_runs_end.

(* non-vacuity: checkpoint after perform(tol 1/3) (state 2); restore, continue copy 0 to k=5, restore AGAIN (the scenario of the
   seeded change C14r4: the second restore must give the checkpoint, not the continued copy 0), continue copy 1 with other limits
   (k=3), continue copy 0 once more with identical limits: copies end at 5 and 3, as the single runs with their limits do *)
Example C14_nonvacuous_checkpoint :
  let l1 := mkLimits (Q2Qc (1 # 3)) 1 (Some 100) in
  let l3 := mkLimits (Q2Qc (1 # 6)) 10 (Some 100) in
  let l4 := mkLimits (Q2Qc (1 # 4)) 1 (Some 100) in
  exists c, run_legs nat (fun k => k) S nv_observe [(l1, 20%nat)] 0%nat d_init = Some c /\ fst c = 2%nat /\
  map (option_map fst) (ck_exec nat (fun k => k) S nv_observe c
        [OpRestore; OpContinue 0 l3 20; OpRestore; OpContinue 1 l4 20; OpContinue 0 l3 20] [])
    = [Some 5%nat; Some 3%nat] /\
  run nat (fun k => k) S nv_observe l3 60 0%nat = Some 5%nat /\ run nat (fun k => k) S nv_observe l4 60 0%nat = Some 3%nat.
Proof.
  eexists. split; [vm_compute; reflexivity|]. split; [reflexivity|]. split; [vm_compute; reflexivity|]. split; vm_compute; reflexivity.
Qed.

(* ==================================================================================================================
   Phase 4: the idempotence hypothesis holds BY CONSTRUCTION for the bookkeeping model of C05 (Model/Accum.v): the resume
   theorems are unconditional for every driver whose state is (refinement structure, accumulators)
   ================================================================================================================== *)
From SG Require Import Model.Accum Proofs.DriverAccum.

(* area strategies (extend-split, cell) since repair 0b63da8: evaluating marks nothing new, a second evaluation adds nothing *)
Theorem C14_evaluate_new_idempotent : forall (V : Type) (vzero : V) (vadd : V -> V -> V) (vopp : V -> V) parts s,
  evaluate_new V vzero vadd vopp true parts (evaluate_new V vzero vadd vopp true parts s) = evaluate_new V vzero vadd vopp true parts s.
Proof. exact evaluate_new_idempotent. Qed.
(* dimension-wise: every evaluation resets and recomputes *)
Theorem C14_evaluate_dw_idempotent : forall (V : Type) (vzero : V) (vadd : V -> V -> V) (vopp : V -> V) xs s,
  evaluate_dw V vzero vadd vopp xs (evaluate_dw V vzero vadd vopp xs s) = evaluate_dw V vzero vadd vopp xs s.
Proof. exact evaluate_dw_idempotent. Qed.

(* no hypothesis left: for every accumulator group, refinement structure, refine step, component contributions, observation *)
Theorem C14_extend_split_resume_unconditional :
  forall (V : Type) (vzero : V) (vadd : V -> V -> V) (vopp : V -> V) (Rf : Type) (parts : Rf -> Z -> list V)
         (next : Rf * astate V -> Rf) (removed added : Rf * astate V -> list Z) (observe : Rf * astate V -> obs)
         legs lf s d s' d',
  legs <> [] -> last (map fst legs) lf = lf -> all_growb (map fst legs) lf = true ->
  run_legs _ (es_evaluate V vzero vadd vopp Rf parts) (es_refine V vzero vadd vopp Rf next removed added) observe legs s d = Some (s', d') ->
  run _ (es_evaluate V vzero vadd vopp Rf parts) (es_refine V vzero vadd vopp Rf next removed added) observe lf (legs_fuel legs) s = Some s'.
Proof. intros V z a o Rf parts next rem add ob. exact (es_legs_grow_end_where_single_run_ends V z a o Rf parts next rem add ob). Qed.
Theorem C14_dimension_wise_resume_unconditional :
  forall (V : Type) (vzero : V) (vadd : V -> V -> V) (vopp : V -> V) (Rf : Type) (contribs : Rf -> list V)
         (next : Rf * astate V -> Rf) (observe : Rf * astate V -> obs) legs lf s d s' d',
  legs <> [] -> last (map fst legs) lf = lf -> all_growb (map fst legs) lf = true ->
  run_legs _ (dw_evaluate V vzero vadd vopp Rf contribs) (dw_refine V Rf next) observe legs s d = Some (s', d') ->
  run _ (dw_evaluate V vzero vadd vopp Rf contribs) (dw_refine V Rf next) observe lf (legs_fuel legs) s = Some s'.
Proof. intros V z a o Rf contribs next ob. exact (dw_legs_grow_end_where_single_run_ends V z a o Rf contribs next ob). Qed.
Print Assumptions C14_extend_split_resume_unconditional.
Print Assumptions C14_dimension_wise_resume_unconditional.

(* non-vacuity: accumulators over Z; two areas, the structure is a refinement counter; area i contributes [i; 1];
   stop at 1 refinement, continue to 3: the state of the single run (and the accumulated total is the sum of the parts) *)
Example C14_nonvacuous_accum :
  let ev := es_evaluate Z 0 Z.add Z.opp nat (fun k id => [id * Z.of_nat (S k); 1]) in
  let rf := es_refine Z 0 Z.add Z.opp nat (fun x => S (fst x)) (fun x => [Z.of_nat (fst x)]) (fun x => [Z.of_nat (fst x) + 10]) in
  let ob := fun x : nat * astate Z => mkObs 0%Qc 0%Qc (Z.of_nat (fst x)) in
  let l1 := mkLimits (Q2Qc (-1 # 1)) 1 (Some 0) in
  let l2 := mkLimits (Q2Qc (-1 # 1)) 1 (Some 2) in
  let s0 := (0%nat, a_init Z 0 [0; 1]) in
  exists s1 s2, run _ ev rf ob l1 9 s0 = Some s1 /\ fst s1 = 1%nat /\ run _ ev rf ob l2 9 s1 = Some s2 /\
                run _ ev rf ob l2 9 s0 = Some s2 /\ fst s2 = 3%nat /\ st_new (snd s2) = [] /\ st_total (snd s2) = st_cont (snd s2).
Proof.
  eexists. eexists. split; [vm_compute; reflexivity|]. split; [reflexivity|]. split; [vm_compute; reflexivity|].
  split; [vm_compute; reflexivity|]. split; [reflexivity|]. split; reflexivity.
Qed.
