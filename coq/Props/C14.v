(* C14 — Interrupted, saved or resumed refinement ends where an uninterrupted run ends.
   Property theorems only. Model: the loop of continue_adaptive_refinement over an ABSTRACT refinement state with a
   deterministic `evaluate` (evaluate_operation) and `refine` (Model/Driver.v, Section Resume).
   The theorem needs ONE hypothesis about the implementation: evaluating an already evaluated state changes nothing.
   That hypothesis is checked on the implementation by harness/vp/props/c14.py (it fails for extend-split, and for the
   surplus error of the dimension-wise strategy: known findings).  dill save/restore is a runtime comparison, no theorem. *)
From Coq Require Import ZArith List Bool QArith Qcanon Lia.
From SG Require Import Base.QcUtil Model.Driver Proofs.DriverProofs Proofs.DriverSpec.
Import ListNotations.
Open Scope Z_scope.

(* limits only grow  =>  whatever stops under the later limits stops under the earlier ones *)
Theorem C14_limits_grow_stop_mono : forall l1 l2 o, limits_grow l1 l2 -> stop_now l2 o = true -> stop_now l1 o = true.
Proof. exact stop_mono. Qed.

(* stop-then-continue reaches the state of the single run, for every state space, every deterministic evaluate / refine /
   observe, every pair of limits that only grow, every interruption point *)
Theorem C14_resume_equals_uninterrupted :
  forall (St : Type) (evaluate refine : St -> St) (observe : St -> obs),
  (forall s, evaluate (evaluate s) = evaluate s) ->
  forall l1 l2 n m s s1 s2,
    limits_grow l1 l2 ->
    run St evaluate refine observe l1 n s = Some s1 ->
    run St evaluate refine observe l2 m s1 = Some s2 ->
    exists k, (k <= n + m)%nat /\ run St evaluate refine observe l2 k s = Some s2.
Proof. intros St ev rf ob H l1 l2 n m s s1 s2. exact (resume_equals_uninterrupted St ev rf ob H l1 l2 n m s s1 s2). Qed.
Print Assumptions C14_resume_equals_uninterrupted.

Theorem C14_uninterrupted_equals_resume :
  forall (St : Type) (evaluate refine : St -> St) (observe : St -> obs),
  (forall s, evaluate (evaluate s) = evaluate s) ->
  forall l1 l2 n m k s s1 s2 s2',
    limits_grow l1 l2 ->
    run St evaluate refine observe l1 n s = Some s1 ->
    run St evaluate refine observe l2 m s1 = Some s2 ->
    run St evaluate refine observe l2 k s = Some s2' -> s2' = s2.
Proof. intros St ev rf ob H l1 l2 n m k s s1 s2 s2'. exact (uninterrupted_equals_resume St ev rf ob H l1 l2 n m k s s1 s2 s2'). Qed.

(* any number of interruptions *)
Theorem C14_resume_chain_equals_uninterrupted :
  forall (St : Type) (evaluate refine : St -> St) (observe : St -> obs),
  (forall s, evaluate (evaluate s) = evaluate s) ->
  forall lims lf nf s s1 s2,
    all_grow_to lims lf -> run_chain St evaluate refine observe lims s = Some s1 ->
    run St evaluate refine observe lf nf s1 = Some s2 -> lims <> [] ->
    exists k, run St evaluate refine observe lf k s = Some s2.
Proof. intros St ev rf ob H lims lf nf s s1 s2. exact (resume_chain_equals_uninterrupted St ev rf ob H lims lf nf s s1 s2). Qed.
Print Assumptions C14_resume_chain_equals_uninterrupted.

(* the loop is deterministic and more fuel does not change its result (the single run is well defined) *)
Theorem C14_run_deterministic :
  forall (St : Type) (evaluate refine : St -> St) (observe : St -> obs) lim n m s x y,
  run St evaluate refine observe lim n s = Some x -> run St evaluate refine observe lim m s = Some y -> x = y.
Proof. exact run_deterministic. Qed.

(* REFUTED without the hypothesis: a state machine whose evaluate adds the pending (still "new") part again - the shape of
   extend-split's evaluate_operation, which does not clear the new-object marker - resumes somewhere else.
   State (total, pending): evaluate (t,p) = (t+p, p); refine (t,p) = (t, 1); points = total. *)
Definition bad_evaluate (s : Z * Z) : Z * Z := (fst s + snd s, snd s).
Definition bad_refine (s : Z * Z) : Z * Z := (fst s, 1).
Definition bad_observe (s : Z * Z) : obs := mkObs 0%Qc 0%Qc (fst s).
Theorem C14_resume_without_idempotence_refuted :
  let l1 := mkLimits (Q2Qc (-1 # 1)) 1 (Some 3) in
  let l2 := mkLimits (Q2Qc (-1 # 1)) 1 (Some 7) in
  limits_grow l1 l2 /\
  exists s1 s2 s2',
    run (Z * Z) bad_evaluate bad_refine bad_observe l1 5 (0, 5) = Some s1 /\
    run (Z * Z) bad_evaluate bad_refine bad_observe l2 5 s1 = Some s2 /\
    run (Z * Z) bad_evaluate bad_refine bad_observe l2 5 (0, 5) = Some s2' /\ s2 <> s2'.
Proof.
  intros l1 l2. split.
  - unfold limits_grow, l1, l2. cbn [l_tol l_min l_max]. split; [apply Qcle_refl|]. split; lia.
  - exists (5, 5), (10, 5), (8, 1). split; [reflexivity|]. split; [reflexivity|]. split; [reflexivity|discriminate].
Qed.

(* non-vacuity: the repaired machine (pending part cleared once evaluated) satisfies the hypothesis, and on the same
   limits stop-and-continue ends in the state of the single run *)
Definition good_evaluate (s : Z * Z) : Z * Z := (fst s + snd s, 0).
Example C14_nonvacuous :
  (forall s, good_evaluate (good_evaluate s) = good_evaluate s) /\
  let l1 := mkLimits (Q2Qc (-1 # 1)) 1 (Some 3) in
  let l2 := mkLimits (Q2Qc (-1 # 1)) 1 (Some 7) in
  run (Z * Z) good_evaluate bad_refine bad_observe l1 5 (0, 5) = Some (5, 0) /\
  run (Z * Z) good_evaluate bad_refine bad_observe l2 5 (5, 0) = Some (8, 0) /\
  run (Z * Z) good_evaluate bad_refine bad_observe l2 5 (0, 5) = Some (8, 0).
Proof.
  split; [intros [t p]; unfold good_evaluate; cbn [fst snd]; f_equal; lia|].
  intros l1 l2. split; [reflexivity|]. split; reflexivity.
Qed.
