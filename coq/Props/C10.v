(* C10 — Hierarchical bases interpolate: surpluses reproduce every nodal value.
   Property theorems only; each is closed by `exact` of a lemma from Proofs/Basis*.v.
   Model: Model/Basis.v (LagrangeBasis / Restricted / RestrictedModified, BSpline recursion with derivatives,
   not-a-knot hierarchy, knot selection of the Lagrange and B-spline grids, pole-wise hierarchisation, interpolation). *)
From Coq Require Import ZArith List QArith Qcanon Bool Arith Lia Permutation.
From SG Require Import Base.QcUtil Base.PolyInt Base.PolyQ Model.Basis
  Proofs.BasisLagrange Proofs.BasisHier Proofs.BasisInterp Proofs.BasisCheck Proofs.BasisTrees.
Import ListNotations.
Open Scope Qc_scope.

(* ---- Lagrange bases: 1 at the own knot, 0 at the other knots, for EVERY list of pairwise distinct knots *)
Theorem C10_lagrange_kronecker : forall knots idx j,
  NoDup knots -> (idx < length knots)%nat -> (j < length knots)%nat ->
  lag_eval knots idx (nthQ knots j) = if (j =? idx)%nat then 1 else 0.
Proof. exact lagrange_kronecker. Qed.
Print Assumptions C10_lagrange_kronecker.

(* the product form evaluates the Lagrange polynomial; get_first_derivative (double loop) is its FORMAL derivative
   (Base/PolyInt.pderiv: coefficient n of p' = (n+1) * coefficient n+1 of p), at every x, for every knot list *)
Theorem C10_lagrange_eval_is_polynomial : forall knots idx x,
  lag_eval knots idx x = peval (lag_poly (nthQ knots idx) (others idx knots)) x.
Proof. exact lagrange_eval_is_polynomial. Qed.
Theorem C10_lagrange_derivative_is_formal_derivative : forall knots idx x,
  lag_d1 knots idx x = peval (pderiv (lag_poly (nthQ knots idx) (others idx knots))) x.
Proof. exact lagrange_derivative_is_formal_derivative. Qed.
Theorem C10_pderiv_is_coefficientwise_derivative : forall p n,
  nth n (pderiv p) 0 = Q2Qc (inject_Z (Z.of_nat n + 1)) * nth (S n) p 0.
Proof. exact pderiv_coeff. Qed.
Theorem C10_lagrange_second_derivative_is_formal_second_derivative : forall knots idx x,
  lag_d2 knots idx x = peval (pderiv (pderiv (lag_poly (nthQ knots idx) (others idx knots)))) x.
Proof. exact lagrange_second_derivative_is_formal_second_derivative. Qed.
Print Assumptions C10_lagrange_derivative_is_formal_derivative.
Print Assumptions C10_lagrange_second_derivative_is_formal_second_derivative.
(* NOT proved: the corresponding statements for the B-spline derivative recursions (bs_d1, bs_d2) and for the basis
   integrals (Gauss-Legendre); those are compared with the implementation, with finite differences and with numerical
   quadrature only.  The model's Lagrange integral IS the formal integral (Base/PolyInt.pintegral) of lag_poly. *)

(* ---- restricted bases: 1 at the own knot, 0 at every other knot and outside [left neighbour, right neighbour] *)
Theorem C10_restricted_one_at_own_knot : forall knots idx,
  strictly_increasing knots = true -> (idx < length knots)%nat -> rl_eval knots idx (nthQ knots idx) = 1.
Proof. exact restricted_one_at_own_knot. Qed.
Theorem C10_restricted_vanishes_on_coarser : forall knots idx y,
  rl_vanish_witness knots idx y = true -> rl_eval knots idx y = 0.
Proof. exact restricted_vanishes_on_coarser. Qed.
Print Assumptions C10_restricted_vanishes_on_coarser.

(* ---- a system accepted by the structural checker is unit lower triangular along the order *)
Theorem C10_hier_okb_sound : forall sys ord,
  hier_okb sys ord = true ->
  Permutation ord (seq 0 (length sys)) /\ tri (colloc sys) ord
  /\ forall i, (i < length sys)%nat -> mget (colloc sys) i i = 1.
Proof. exact hier_okb_sound. Qed.
Print Assumptions C10_hier_okb_sound.

(* ---- triangular systems: forward substitution solves them, and the solution is unique (any size, any order) *)
Theorem C10_forward_substitution_solves : forall M v ord n,
  Permutation ord (seq 0 n) -> length v = n -> tri M ord ->
  forall i, (i < n)%nat -> rowsum M (fsubQ M v ord) n i = nthQ v i.
Proof. exact fsub_solves. Qed.
Theorem C10_hierarchize_unique_solution : forall sys ord v,
  hier_okb sys ord = true -> length v = length sys ->
  let s := fsubQ (colloc sys) v ord in
  (forall i, (i < length sys)%nat -> rowsum (colloc sys) s (length sys) i = nthQ v i)
  /\ forall s', (forall i, (i < length sys)%nat -> rowsum (colloc sys) s' (length sys) i = nthQ v i) ->
       forall i, (i < length sys)%nat -> nthQ s' i = nthQ s i.
Proof. exact hierarchize_unique_solution. Qed.
Print Assumptions C10_hierarchize_unique_solution.

(* ---- unidirectional principle, ANY number of dimensions, any 1-D systems whose solver is sound
        (forward substitution on an accepted Lagrange system, checked Gauss otherwise), any input vector:
        whenever hierarchisation returns surpluses, interpolation at all grid points returns the input *)
Theorem C10_solver_choice_is_sound : forall d, sys_sound (fst (choose_solver d)).
Proof. exact choose_solver_sound. Qed.
Theorem C10_hierarchize_then_interpolate_id : forall ss v sur,
  Forall sys_sound ss -> length v = prodN (map s_n ss) -> hier_nd ss v = Some sur ->
  map (fun x => interp_nd ss x sur) (grid_points ss) = v.
Proof. exact hierarchize_then_interpolate_id. Qed.
Theorem C10_hierarchize_then_interpolate_id_vector_valued : forall ss vals surs,
  Forall sys_sound ss -> (forall v, In v vals -> length v = prodN (map s_n ss)) ->
  opt_list (map (hier_nd ss) vals) = Some surs ->
  map (fun sur => map (fun x => interp_nd ss x sur) (grid_points ss)) surs = vals.
Proof. exact hierarchize_then_interpolate_id_vector. Qed.
Theorem C10_pipeline_interpolates : forall ds v sur,
  let ss := map (fun d => fst (choose_solver d)) ds in
  length v = prodN (map s_n ss) -> hier_nd ss v = Some sur ->
  map (fun x => interp_nd ss x sur) (grid_points ss) = v.
Proof. exact pipeline_interpolates. Qed.
(* forward-substitution systems never fail: for accepted Lagrange systems the surpluses always exist *)
Theorem C10_lagrange_hierarchisation_total : forall ss,
  Forall (fun s => s_ord s <> None /\ (length (s_basis s) <> 1)%nat) ss -> forall v, hier_nd ss v <> None.
Proof. exact hier_nd_total. Qed.
Print Assumptions C10_hierarchize_then_interpolate_id.
Print Assumptions C10_pipeline_interpolates.

(* ---- uniqueness in ANY number of dimensions: equal interpolated values at all grid points force equal surpluses;
        hence the hierarchisation result is the only coefficient vector reproducing the nodal values *)
Theorem C10_accepted_lagrange_system_injective : forall sy ord,
  hier_okb sy ord = true -> sys_inj {| s_basis := sy; s_ord := Some ord |}.
Proof. exact hier_okb_inj. Qed.
Theorem C10_certified_system_injective : forall sy o N,
  inverse_of (colloc sy) = Some N -> sys_inj {| s_basis := sy; s_ord := o |}.
Proof. exact inverse_of_inj. Qed.
Theorem C10_interpolation_injective : forall ss,
  Forall sys_inj ss ->
  forall sur sur', length sur = prodN (map s_n ss) -> length sur' = prodN (map s_n ss) ->
    (forall idxs, Forall2 (fun i s => (i < s_n s)%nat) idxs ss ->
       interp_nd ss (coords idxs ss) sur = interp_nd ss (coords idxs ss) sur') ->
    sur = sur'.
Proof. exact interp_nd_injective. Qed.
Theorem C10_hierarchize_unique_solution_nd : forall ss v sur sur',
  Forall sys_sound ss -> Forall sys_inj ss -> length v = prodN (map s_n ss) -> hier_nd ss v = Some sur ->
  length sur' = prodN (map s_n ss) ->
  map (fun x => interp_nd ss x sur') (grid_points ss) = v ->
  sur' = sur.
Proof. exact hierarchize_unique_nd. Qed.
Print Assumptions C10_hierarchize_unique_solution_nd.
(* what stays open with respect to the full property: that the knot selection of EVERY refinement tree is accepted by
   the structural checker is proved only bounded (below) and is otherwise re-checked by the extracted checker on every
   explored grid; B-spline / modified systems are certified per explored grid (checked Gauss, exact inverse). *)

(* ---- BOUNDED: all 873 refinement trees with <= 5 midpoint insertions on [0,1], p in 1..6, boundary on/off *)
Theorem C10_tree_grids_hier_ok_bounded : forall p boundary ins,
  In p (seq 1 6) -> In ins (trees_upto 5) -> tree_ok 0 1 p boundary ins = true.
Proof. exact tree_grids_hier_ok_bounded. Qed.
Print Assumptions C10_tree_grids_hier_ok_bounded.

(* ---- verified checkers evaluated at run time on implementation outputs / B-spline systems *)
Theorem C10_interp_residual_checker_sound : forall ss sur vals tol,
  interp_residual_ok ss sur vals tol = true ->
  forall k, (k < length (grid_points ss))%nat -> (k < length vals)%nat ->
    - tol <= interp_nd ss (nth k (grid_points ss) []) sur - nthQ vals k
    /\ interp_nd ss (nth k (grid_points ss) []) sur - nthQ vals k <= tol.
Proof. exact interp_residual_ok_sound. Qed.
Theorem C10_system_residual_checker_sound : forall M s v tol,
  system_residual_ok M s v tol = true ->
  forall i, (i < length M)%nat -> - tol <= dotQ (nth i M []) s - nthQ v i /\ dotQ (nth i M []) s - nthQ v i <= tol.
Proof. exact system_residual_ok_sound. Qed.
Theorem C10_unisolvence_certificate_sound : forall M N s s',
  inverse_of M = Some N ->
  (forall i, (i < length M)%nat -> rowsum M s (length M) i = rowsum M s' (length M) i) ->
  forall i, (i < length M)%nat -> nthQ s i = nthQ s' i.
Proof. exact inverse_of_unisolvent. Qed.
Print Assumptions C10_interp_residual_checker_sound.
Print Assumptions C10_unisolvence_certificate_sound.

(* ------------------------------------------------------------------ non-vacuity *)
Definition qd (n : Z) (d : positive) : Qc := Q2Qc (n # d).

(* Kronecker on four non-uniform knots *)
Example C10_kronecker_nonvacuous :
  let knots := [qd (-3) 1; qd 1 4; qd 3 2; qd 6 1] in
  NoDup knots /\ map (fun j => lag_eval knots 2 (nthQ knots j)) [0; 1; 2; 3]%nat = [0; 0; 1; 0]
  /\ lag_d1 knots 2 (qd 1 1) <> 0.
Proof.
  cbv zeta. split; [|split].
  - repeat constructor; simpl; intuition discriminate.
  - apply veq_eq. vm_compute. reflexivity.
  - vm_compute. discriminate.
Qed.

(* a 2-D adaptive Lagrange grid (p = 3): x-tree {0, 1/4, 1/2, 1}, y-tree {0, 1/2, 3/4, 7/8, 1};
   both systems are accepted, surpluses exist and are non-trivial, interpolation returns the input *)
Example C10_lagrange_grid_nonvacuous :
  let px := [qd 0 1; qd 1 4; qd 1 2; qd 1 1] in let lx := [0; 2; 1; 0]%nat in
  let py := [qd 0 1; qd 1 2; qd 3 4; qd 7 8; qd 1 1] in let ly := [0; 1; 2; 3; 0]%nat in
  exists sx sy,
    lagrange_system 3 true false 0 1 px lx = Some sx /\ lagrange_system 3 true false 0 1 py ly = Some sy /\
    let ss := [fst (choose_solver (sx, lx, true)); fst (choose_solver (sy, ly, true))] in
    Forall (fun s => s_ord s <> None) ss /\
    let v := map (fun k => qd (Z.of_nat (k * k) - 7) 4) (seq 0 20) in
    exists sur, hier_nd ss v = Some sur /\ sur <> v /\
      map (fun x => interp_nd ss x sur) (grid_points ss) = v.
Proof.
  cbv zeta. eexists. eexists. split; [vm_compute; reflexivity|]. split; [vm_compute; reflexivity|].
  split; [repeat constructor; vm_compute; discriminate|].
  eexists. split; [vm_compute; reflexivity|]. split; [vm_compute; discriminate | apply veq_eq; vm_compute; reflexivity].
Qed.

(* a B-spline system (p = 3, regular level 2): the unisolvence certificate exists and the checked solve succeeds *)
Example C10_bspline_certificate_nonvacuous :
  exists sy N X,
    bspline_system 3 true false 0 1 (regular_points 0 1 2) (regular_levels 2) = Some sy /\
    inverse_of (colloc sy) = Some N /\
    solve_checked (colloc sy) [[qd 1 1]; [qd 1 2]; [qd (-1) 4]; [qd 2 1]; [qd 0 1]] = Some X /\
    interp_residual_ok [fst (choose_solver (sy, regular_levels 2, false))] (concat X)
                       [qd 1 1; qd 1 2; qd (-1) 4; qd 2 1; qd 0 1] 0 = true.
Proof.
  eexists. eexists. eexists. split; [vm_compute; reflexivity|]. split; [vm_compute; reflexivity|].
  split; [vm_compute; reflexivity | vm_compute; reflexivity].
Qed.
