(* C10 — Hierarchical bases interpolate: surpluses reproduce every nodal value.
   Property theorems only; each is closed by `exact` of a lemma from Proofs/Basis*.v.
   Model: Model/Basis.v (LagrangeBasis / Restricted / RestrictedModified, BSpline recursion with derivatives,
   not-a-knot hierarchy, knot selection of the Lagrange and B-spline grids, pole-wise hierarchisation, interpolation). *)
From Coq Require Import ZArith List QArith Qcanon Bool Arith Lia Permutation.
From SG Require Import Base.QcUtil Base.PolyInt Base.PolyQ Model.Basis Model.BasisPieces
  Proofs.BasisLagrange Proofs.BasisHier Proofs.BasisInterp Proofs.BasisCheck Proofs.BasisTrees
  Proofs.BasisPieces Proofs.BasisRepro Proofs.BasisFlat
  Model.BasisTree Proofs.BasisTreeP Model.GaussLegendre Proofs.GaussLegendreP Proofs.BasisGaussCol Proofs.BasisGaussCol2 Proofs.BasisTreeEq.
Import ListNotations.
Open Scope Qc_scope.

(* ---- Lagrange bases: 1 at the own knot, 0 at the other knots, for EVERY list of pairwise distinct knots *)
Theorem C10_lagrange_kronecker : forall knots idx j,
  NoDup knots -> (idx < length knots)%nat -> (j < length knots)%nat ->
  lag_eval knots idx (nthQ knots j) = if (j =? idx)%nat then 1 else 0.
Proof. exact lagrange_kronecker. Qed.
Print Assumptions C10_lagrange_kronecker.

(* the product form evaluates the Lagrange polynomial; get_first_derivative (double loop) is its FORMAL derivative
   (Base/PolyInt.pderiv: coefficient n of p' = (n+1) * coefficient n+1 of p), at every x, for every knot list *)
Theorem C10_lagrange_eval_is_polynomial : forall knots idx x,
  lag_eval knots idx x = peval (lag_poly (nthQ knots idx) (others idx knots)) x.
Proof. exact lagrange_eval_is_polynomial. Qed.
Theorem C10_lagrange_derivative_is_formal_derivative : forall knots idx x,
  lag_d1 knots idx x = peval (pderiv (lag_poly (nthQ knots idx) (others idx knots))) x.
Proof. exact lagrange_derivative_is_formal_derivative. Qed.
Theorem C10_pderiv_is_coefficientwise_derivative : forall p n,
  nth n (pderiv p) 0 = Q2Qc (inject_Z (Z.of_nat n + 1)) * nth (S n) p 0.
Proof. exact pderiv_coeff. Qed.
Theorem C10_lagrange_second_derivative_is_formal_second_derivative : forall knots idx x,
  lag_d2 knots idx x = peval (pderiv (pderiv (lag_poly (nthQ knots idx) (others idx knots)))) x.
Proof. exact lagrange_second_derivative_is_formal_second_derivative. Qed.
Print Assumptions C10_lagrange_derivative_is_formal_derivative.
Print Assumptions C10_lagrange_second_derivative_is_formal_second_derivative.
(* (round 2) the corresponding statements for the B-spline recursions and all other basis classes are proved below
   (C10_bspline_*, C10_basis_is_piecewise_polynomial).  Basis integrals: the model's integral IS the formal integral
   (Base/PolyInt.pintegral) of these polynomial pieces, summed over the knot intervals as get_integral does; the
   exactness of the Gauss-Legendre rule itself (irrational nodes) is not stated. *)

(* ---- restricted bases: 1 at the own knot, 0 at every other knot and outside [left neighbour, right neighbour] *)
Theorem C10_restricted_one_at_own_knot : forall knots idx,
  strictly_increasing knots = true -> (idx < length knots)%nat -> rl_eval knots idx (nthQ knots idx) = 1.
Proof. exact restricted_one_at_own_knot. Qed.
Theorem C10_restricted_vanishes_on_coarser : forall knots idx y,
  rl_vanish_witness knots idx y = true -> rl_eval knots idx y = 0.
Proof. exact restricted_vanishes_on_coarser. Qed.
Print Assumptions C10_restricted_vanishes_on_coarser.

(* ---- a system accepted by the structural checker is unit lower triangular along the order *)
Theorem C10_hier_okb_sound : forall sys ord,
  hier_okb sys ord = true ->
  Permutation ord (seq 0 (length sys)) /\ tri (colloc sys) ord
  /\ forall i, (i < length sys)%nat -> mget (colloc sys) i i = 1.
Proof. exact hier_okb_sound. Qed.
Print Assumptions C10_hier_okb_sound.

(* ---- triangular systems: forward substitution solves them, and the solution is unique (any size, any order) *)
Theorem C10_forward_substitution_solves : forall M v ord n,
  Permutation ord (seq 0 n) -> length v = n -> tri M ord ->
  forall i, (i < n)%nat -> rowsum M (fsubQ M v ord) n i = nthQ v i.
Proof. exact fsub_solves. Qed.
Theorem C10_hierarchize_unique_solution : forall sys ord v,
  hier_okb sys ord = true -> length v = length sys ->
  let s := fsubQ (colloc sys) v ord in
  (forall i, (i < length sys)%nat -> rowsum (colloc sys) s (length sys) i = nthQ v i)
  /\ forall s', (forall i, (i < length sys)%nat -> rowsum (colloc sys) s' (length sys) i = nthQ v i) ->
       forall i, (i < length sys)%nat -> nthQ s' i = nthQ s i.
Proof. exact hierarchize_unique_solution. Qed.
Print Assumptions C10_hierarchize_unique_solution.

(* ---- unidirectional principle, ANY number of dimensions, any 1-D systems whose solver is sound
        (forward substitution on an accepted Lagrange system, checked Gauss otherwise), any input vector:
        whenever hierarchisation returns surpluses, interpolation at all grid points returns the input *)
Theorem C10_solver_choice_is_sound : forall d, sys_sound (fst (choose_solver d)).
Proof. exact choose_solver_sound. Qed.
Theorem C10_hierarchize_then_interpolate_id : forall ss v sur,
  Forall sys_sound ss -> length v = prodN (map s_n ss) -> hier_nd ss v = Some sur ->
  map (fun x => interp_nd ss x sur) (grid_points ss) = v.
Proof. exact hierarchize_then_interpolate_id. Qed.
Theorem C10_hierarchize_then_interpolate_id_vector_valued : forall ss vals surs,
  Forall sys_sound ss -> (forall v, In v vals -> length v = prodN (map s_n ss)) ->
  opt_list (map (hier_nd ss) vals) = Some surs ->
  map (fun sur => map (fun x => interp_nd ss x sur) (grid_points ss)) surs = vals.
Proof. exact hierarchize_then_interpolate_id_vector. Qed.
Theorem C10_pipeline_interpolates : forall ds v sur,
  let ss := map (fun d => fst (choose_solver d)) ds in
  length v = prodN (map s_n ss) -> hier_nd ss v = Some sur ->
  map (fun x => interp_nd ss x sur) (grid_points ss) = v.
Proof. exact pipeline_interpolates. Qed.
(* forward-substitution systems never fail: for accepted Lagrange systems the surpluses always exist *)
Theorem C10_lagrange_hierarchisation_total : forall ss,
  Forall (fun s => s_ord s <> None /\ (length (s_basis s) <> 1)%nat) ss -> forall v, hier_nd ss v <> None.
Proof. exact hier_nd_total. Qed.
Print Assumptions C10_hierarchize_then_interpolate_id.
Print Assumptions C10_pipeline_interpolates.

(* ---- uniqueness in ANY number of dimensions: equal interpolated values at all grid points force equal surpluses;
        hence the hierarchisation result is the only coefficient vector reproducing the nodal values *)
Theorem C10_accepted_lagrange_system_injective : forall sy ord,
  hier_okb sy ord = true -> sys_inj {| s_basis := sy; s_ord := Some ord |}.
Proof. exact hier_okb_inj. Qed.
Theorem C10_certified_system_injective : forall sy o N,
  inverse_of (colloc sy) = Some N -> sys_inj {| s_basis := sy; s_ord := o |}.
Proof. exact inverse_of_inj. Qed.
Theorem C10_interpolation_injective : forall ss,
  Forall sys_inj ss ->
  forall sur sur', length sur = prodN (map s_n ss) -> length sur' = prodN (map s_n ss) ->
    (forall idxs, Forall2 (fun i s => (i < s_n s)%nat) idxs ss ->
       interp_nd ss (coords idxs ss) sur = interp_nd ss (coords idxs ss) sur') ->
    sur = sur'.
Proof. exact interp_nd_injective. Qed.
Theorem C10_hierarchize_unique_solution_nd : forall ss v sur sur',
  Forall sys_sound ss -> Forall sys_inj ss -> length v = prodN (map s_n ss) -> hier_nd ss v = Some sur ->
  length sur' = prodN (map s_n ss) ->
  map (fun x => interp_nd ss x sur') (grid_points ss) = v ->
  sur' = sur.
Proof. exact hierarchize_unique_nd. Qed.
Print Assumptions C10_hierarchize_unique_solution_nd.
(* what stays open with respect to the full property: that the knot selection of EVERY refinement tree is accepted by
   the structural checker is proved only bounded (below) and is otherwise re-checked by the extracted checker on every
   explored grid; B-spline / modified systems are certified per explored grid (checked Gauss, exact inverse). *)

(* ---- BOUNDED: all 873 refinement trees with <= 5 midpoint insertions on [0,1], p in 1..6, boundary on/off *)
Theorem C10_tree_grids_hier_ok_bounded : forall p boundary ins,
  In p (seq 1 6) -> In ins (trees_upto 5) -> tree_ok 0 1 p boundary ins = true.
Proof. exact tree_grids_hier_ok_bounded. Qed.
Print Assumptions C10_tree_grids_hier_ok_bounded.

(* ---- verified checkers evaluated at run time on implementation outputs / B-spline systems *)
Theorem C10_interp_residual_checker_sound : forall ss sur vals tol,
  interp_residual_ok ss sur vals tol = true ->
  forall k, (k < length (grid_points ss))%nat -> (k < length vals)%nat ->
    - tol <= interp_nd ss (nth k (grid_points ss) []) sur - nthQ vals k
    /\ interp_nd ss (nth k (grid_points ss) []) sur - nthQ vals k <= tol.
Proof. exact interp_residual_ok_sound. Qed.
Theorem C10_system_residual_checker_sound : forall M s v tol,
  system_residual_ok M s v tol = true ->
  forall i, (i < length M)%nat -> - tol <= dotQ (nth i M []) s - nthQ v i /\ dotQ (nth i M []) s - nthQ v i <= tol.
Proof. exact system_residual_ok_sound. Qed.
Theorem C10_unisolvence_certificate_sound : forall M N s s',
  inverse_of M = Some N ->
  (forall i, (i < length M)%nat -> rowsum M s (length M) i = rowsum M s' (length M) i) ->
  forall i, (i < length M)%nat -> nthQ s i = nthQ s' i.
Proof. exact inverse_of_unisolvent. Qed.
Print Assumptions C10_interp_residual_checker_sound.
Print Assumptions C10_unisolvence_certificate_sound.

(* ------------------------------------------------------------------ non-vacuity *)
Definition qd (n : Z) (d : positive) : Qc := Q2Qc (n # d).

(* Kronecker on four non-uniform knots *)
Example C10_kronecker_nonvacuous :
  let knots := [qd (-3) 1; qd 1 4; qd 3 2; qd 6 1] in
  NoDup knots /\ map (fun j => lag_eval knots 2 (nthQ knots j)) [0; 1; 2; 3]%nat = [0; 0; 1; 0]
  /\ lag_d1 knots 2 (qd 1 1) <> 0.
Proof.
  cbv zeta. split; [|split].
  - repeat constructor; simpl; intuition discriminate.
  - apply veq_eq. vm_compute. reflexivity.
  - vm_compute. discriminate.
Qed.

(* a 2-D adaptive Lagrange grid (p = 3): x-tree {0, 1/4, 1/2, 1}, y-tree {0, 1/2, 3/4, 7/8, 1};
   both systems are accepted, surpluses exist and are non-trivial, interpolation returns the input *)
Example C10_lagrange_grid_nonvacuous :
  let px := [qd 0 1; qd 1 4; qd 1 2; qd 1 1] in let lx := [0; 2; 1; 0]%nat in
  let py := [qd 0 1; qd 1 2; qd 3 4; qd 7 8; qd 1 1] in let ly := [0; 1; 2; 3; 0]%nat in
  exists sx sy,
    lagrange_system 3 true false 0 1 px lx = Some sx /\ lagrange_system 3 true false 0 1 py ly = Some sy /\
    let ss := [fst (choose_solver (sx, lx, true)); fst (choose_solver (sy, ly, true))] in
    Forall (fun s => s_ord s <> None) ss /\
    let v := map (fun k => qd (Z.of_nat (k * k) - 7) 4) (seq 0 20) in
    exists sur, hier_nd ss v = Some sur /\ sur <> v /\
      map (fun x => interp_nd ss x sur) (grid_points ss) = v.
Proof.
  cbv zeta. eexists. eexists. split; [vm_compute; reflexivity|]. split; [vm_compute; reflexivity|].
  split; [repeat constructor; vm_compute; discriminate|].
  eexists. split; [vm_compute; reflexivity|]. split; [vm_compute; discriminate | apply veq_eq; vm_compute; reflexivity].
Qed.

(* a B-spline system (p = 3, regular level 2): the unisolvence certificate exists and the checked solve succeeds *)
Example C10_bspline_certificate_nonvacuous :
  exists sy N X,
    bspline_system 3 true false 0 1 (regular_points 0 1 2) (regular_levels 2) = Some sy /\
    inverse_of (colloc sy) = Some N /\
    solve_checked (colloc sy) [[qd 1 1]; [qd 1 2]; [qd (-1) 4]; [qd 2 1]; [qd 0 1]] = Some X /\
    interp_residual_ok [fst (choose_solver (sy, regular_levels 2, false))] (concat X)
                       [qd 1 1; qd 1 2; qd (-1) 4; qd 2 1; qd 0 1] 0 = true.
Proof.
  eexists. eexists. eexists. split; [vm_compute; reflexivity|]. split; [vm_compute; reflexivity|].
  split; [vm_compute; reflexivity | vm_compute; reflexivity].
Qed.


(* ================================================================== round 2 *)
(* ---- B-splines: for EVERY strictly increasing knot vector t, degree p, index k and knot interval j
        (in_piece t j x: t strictly increasing, t_j <= x < t_(j+1)), the Cox-de Boor recursion recursive_eval evaluates the
        polynomial bs_piece t p k j, and the coded derivative recursions evaluate its formal first / second derivative *)
Theorem C10_bspline_recursion_is_piecewise_polynomial : forall t p k j x,
  in_piece t j x -> (k + p + 1 < length t)%nat -> bs_eval t p k x = peval (bs_piece t p k j) x.
Proof. intros t p. exact (bs_eval_is_piece t p). Qed.
Theorem C10_bspline_derivative_is_formal_derivative : forall t p k j x,
  in_piece t j x -> (k + p + 1 < length t)%nat -> bs_d1 t p k x = peval (pderiv (bs_piece t p k j)) x.
Proof. intros t p. exact (bs_d1_is_piece_derivative t p). Qed.
Theorem C10_bspline_second_derivative_is_formal_second_derivative : forall t p k j x,
  in_piece t j x -> (k + p + 1 < length t)%nat -> bs_d2 t p k x = peval (pderiv (pderiv (bs_piece t p k j))) x.
Proof. intros t p. exact (bs_d2_is_piece_second_derivative t p). Qed.
Theorem C10_bspline_piece_vanishes_outside_support : forall t p k j x,
  (j < k \/ k + p < j)%nat -> peval (bs_piece t p k j) x = 0.
Proof. intros t p. exact (bs_piece_zero t p). Qed.
Theorem C10_bspline_vanishes_from_right_end : forall t p k x,
  nthQ t (k + p + 1) <= x -> strictly_increasing t = true -> (k + p + 1 < length t)%nat -> bs_eval t p k x = 0.
Proof. intros t p. exact (bs_eval_right_end t p). Qed.
Theorem C10_every_point_lies_in_a_knot_interval : forall t x,
  strictly_increasing t = true -> nthQ t 0 <= x -> x < nthQ t (length t - 1) -> exists j, in_piece t j x.
Proof. exact exists_piece. Qed.
Print Assumptions C10_bspline_recursion_is_piecewise_polynomial.
Print Assumptions C10_bspline_derivative_is_formal_derivative.
Print Assumptions C10_bspline_second_derivative_is_formal_second_derivative.

(* ---- ALL basis classes (LagrangeBasis, ...Restricted, ...RestrictedModified with the repaired derivative methods, BSpline,
        HierarchicalNotAKnotBSpline, ...Modified): value / get_first_derivative / get_second_derivative evaluate the polynomial
        bpiece bf j and its formal derivatives (piece_hyp: x in knot interval j / inside the support; index bounds of the
        BSpline constructor); the decidable condition basis_wf implies the index part (checked per explored grid) *)
Theorem C10_basis_is_piecewise_polynomial : forall bf j x,
  piece_hyp bf j x ->
  beval bf x = peval (bpiece bf j) x /\ bd1 bf x = peval (pderiv (bpiece bf j)) x
  /\ bd2 bf x = peval (pderiv (pderiv (bpiece bf j))) x.
Proof. exact basis_is_piecewise_polynomial. Qed.
Theorem C10_wellformed_bspline_is_piecewise_polynomial : forall p knots k x,
  basis_wf (BBsp p knots k) = true -> nthQ knots 0 <= x -> x < nthQ knots (length knots - 1) ->
  exists j, beval (BBsp p knots k) x = peval (bs_piece knots p k j) x
         /\ bd1 (BBsp p knots k) x = peval (pderiv (bs_piece knots p k j)) x
         /\ bd2 (BBsp p knots k) x = peval (pderiv (pderiv (bs_piece knots p k j))) x.
Proof. exact wf_bspline_piecewise. Qed.
(* support of the modified class: [a, b] on level 1 (fix 7946b5e), the two neighbouring knots otherwise *)
Theorem C10_restricted_modified_vanishes_outside_support : forall p knots idx a b level x,
  rlm_in_support knots idx a b level x = false ->
  rlm_eval p knots idx a b level x = 0 /\ rlm_d1 p knots idx a b level x = 0 /\ rlm_d2 p knots idx a b level x = 0.
Proof. exact rlm_outside. Qed.
Print Assumptions C10_basis_is_piecewise_polynomial.

(* ---- polynomial reproduction: the Lagrange basis on ANY n pairwise distinct knots reproduces EVERY polynomial with
        n coefficients (degree <= n-1) at EVERY point *)
Theorem C10_lagrange_reproduces_polynomials : forall knots P,
  NoDup knots -> (length P <= length knots)%nat ->
  forall x, lagrange_interpolant knots (peval P) x = peval P x.
Proof. exact lagrange_reproduces_polynomials. Qed.
Theorem C10_lagrange_reproduces_monomials : forall knots e,
  NoDup knots -> (e < length knots)%nat -> forall x, lagrange_interpolant knots (fun y => y ^ e) x = x ^ e.
Proof. exact lagrange_reproduces_monomials. Qed.
Theorem C10_polynomial_with_n_roots_vanishes : forall rs, NoDup rs -> forall P, (length P <= length rs)%nat ->
  (forall r, In r rs -> peval P r = 0) -> forall x, peval P x = 0.
Proof. exact poly_roots_zero. Qed.
(* ---- hierarchise-then-interpolate is a PROJECTION onto the span of the tensor-product basis, any number of dimensions:
        a function that is a combination of the basis functions (any coefficient vector c) is reproduced at EVERY
        evaluation point, and its surpluses are c.  (Which polynomials lie in the span of a hierarchical basis is a
        property of the knot selection: the stated degree min(p, points-1) is NOT reached in general - known finding.) *)
Theorem C10_span_is_reproduced : forall ss c sur,
  Forall sys_sound ss -> Forall sys_inj ss -> length c = prodN (map s_n ss) ->
  hier_nd ss (map (fun x => interp_nd ss x c) (grid_points ss)) = Some sur ->
  sur = c /\ forall x, interp_nd ss x sur = interp_nd ss x c.
Proof. exact span_is_reproduced. Qed.
Theorem C10_lagrange_span_is_reproduced : forall ss c,
  Forall sys_sound ss -> Forall sys_inj ss ->
  Forall (fun s => s_ord s <> None /\ (length (s_basis s) <> 1)%nat) ss ->
  length c = prodN (map s_n ss) ->
  exists sur, hier_nd ss (map (fun x => interp_nd ss x c) (grid_points ss)) = Some sur
              /\ forall x, interp_nd ss x sur = interp_nd ss x c.
Proof. exact lagrange_span_is_reproduced. Qed.
Print Assumptions C10_lagrange_reproduces_polynomials.
Print Assumptions C10_span_is_reproduced.

(* ---- the CODE-SHAPED forms equal the tensor recursions, for every number of dimensions and every shape.
        interp_flat: interpolate() (enumerate(get_cross_product_range(numPoints)), product of evaluations[d][index[d]]);
        hier_flat: HierarchizationLSG (offsets, pole_coordinates = i*offsets[d] + <point_index, offsets>, gather / solve /
        scatter on the flat array, dimension after dimension) *)
Theorem C10_interp_flat_eq_interp_nd : forall ss xs sur,
  length xs = length ss -> interp_flat ss xs sur = interp_nd ss xs sur.
Proof. exact interp_flat_eq_interp_nd. Qed.
Theorem C10_hier_flat_eq_hier_nd : forall ss v,
  Forall (fun s => s_n s <> O /\ (sys_single s \/ sys_colwise s)) ss ->
  length v = prodN (map s_n ss) ->
  hier_flat ss v = hier_nd ss v.
Proof. exact hier_flat_eq_hier_nd. Qed.
(* the column-wise hypothesis holds for every forward-substitution system; for checked-Gauss systems (B-spline / modified)
   it is a hypothesis, cross-checked by evaluation (hier_flat vs hier_nd through the entry point) on every small grid *)
Theorem C10_forward_substitution_systems_act_columnwise : forall s o,
  s_ord s = Some o -> sys_sound s -> sys_single s \/ sys_colwise s.
Proof. exact fsub_system_colwise. Qed.
Theorem C10_hier_flat_eq_hier_nd_lagrange : forall ss v,
  Forall (fun s => s_n s <> O /\ s_ord s <> None /\ sys_sound s) ss ->
  length v = prodN (map s_n ss) ->
  hier_flat ss v = hier_nd ss v.
Proof. exact hier_flat_eq_hier_nd_lagrange. Qed.
(* the offsets / pole coordinates stay inside the array: pole base + pole offset < number of points, every dimension *)
Theorem C10_pole_coordinates_in_range : forall r d b o,
  (d < length r)%nat -> In b (base_of r d) -> In o (offs_list r d) -> (b + o < prodN r)%nat.
Proof. exact pole_bounds. Qed.
Theorem C10_pole_offsets_enumerate_the_slice : forall n r, offs_list (n :: r) 0 = seq 0 (prodN r).
Proof. exact offs_list_0. Qed.
Print Assumptions C10_interp_flat_eq_interp_nd.
Print Assumptions C10_hier_flat_eq_hier_nd.
Print Assumptions C10_hier_flat_eq_hier_nd_lagrange.

(* ------------------------------------------------------------------ non-vacuity (round 2) *)
(* a quadratic B-spline on a non-uniform knot vector: x = 3/2 lies in interval 1, value 13/20, slope 1/5, second derivative -6/5, and the
   recursion equals the polynomial piece; a well-formed object *)
Example C10_bspline_piece_nonvacuous :
  let t := [qd 0 1; qd 1 1; qd 5 2; qd 3 1; qd 9 2] in
  in_piece t 1 (qd 3 2) /\ basis_wf (BBsp 2 t 0) = true /\
  bs_eval t 2 0 (qd 3 2) = peval (bs_piece t 2 0 1) (qd 3 2) /\ bs_eval t 2 0 (qd 3 2) <> 0 /\
  bs_d1 t 2 0 (qd 3 2) = peval (pderiv (bs_piece t 2 0 1)) (qd 3 2) /\ bs_d1 t 2 0 (qd 3 2) <> 0 /\
  bs_d2 t 2 0 (qd 3 2) <> 0.
Proof.
  cbv zeta. split.
  - split; [vm_compute; reflexivity|]. split; [simpl; lia|]. split; [vm_compute; discriminate | vm_compute; reflexivity].
  - split; [vm_compute; reflexivity|]. split; [apply Qc_is_canon; vm_compute; reflexivity|].
    split; [vm_compute; discriminate|]. split; [apply Qc_is_canon; vm_compute; reflexivity|].
    split; vm_compute; discriminate.
Qed.

(* a cubic through four non-uniform knots is reproduced away from the knots *)
Example C10_polynomial_reproduction_nonvacuous :
  let knots := [qd (-3) 1; qd 1 4; qd 3 2; qd 6 1] in let P := [qd 1 1; qd (-2) 1; qd 0 1; qd 3 1] in
  NoDup knots /\ (length P <= length knots)%nat /\
  lagrange_interpolant knots (peval P) (qd 7 3) = peval P (qd 7 3) /\ peval P (qd 7 3) <> 0.
Proof.
  cbv zeta. split; [repeat constructor; simpl; intuition discriminate|]. split; [simpl; lia|].
  split; [apply Qc_is_canon; vm_compute; reflexivity | vm_compute; discriminate].
Qed.

(* the 2-D adaptive Lagrange grid of C10_lagrange_grid_nonvacuous: the flat pole sweep returns the same non-trivial surpluses *)
Example C10_hier_flat_nonvacuous :
  let px := [qd 0 1; qd 1 4; qd 1 2; qd 1 1] in let lx := [0; 2; 1; 0]%nat in
  let py := [qd 0 1; qd 1 2; qd 3 4; qd 7 8; qd 1 1] in let ly := [0; 1; 2; 3; 0]%nat in
  exists sx sy,
    lagrange_system 3 true false 0 1 px lx = Some sx /\ lagrange_system 3 true false 0 1 py ly = Some sy /\
    let ss := [fst (choose_solver (sx, lx, true)); fst (choose_solver (sy, ly, true))] in
    let v := map (fun k => qd (Z.of_nat (k * k) - 7) 4) (seq 0 20) in
    exists sur, hier_flat ss v = Some sur /\ hier_nd ss v = Some sur /\ sur <> v
      /\ interp_flat ss [qd 1 3; qd 2 3] sur = interp_nd ss [qd 1 3; qd 2 3] sur.
Proof.
  cbv zeta. eexists. eexists. split; [vm_compute; reflexivity|]. split; [vm_compute; reflexivity|].
  eexists. split; [vm_compute; reflexivity|]. split; [vm_compute; reflexivity|].
  split; [vm_compute; discriminate | apply Qc_is_canon; vm_compute; reflexivity].
Qed.

(* every remaining property theorem: closed under the global context *)
Print Assumptions C10_lagrange_eval_is_polynomial.
Print Assumptions C10_pderiv_is_coefficientwise_derivative.
Print Assumptions C10_restricted_one_at_own_knot.
Print Assumptions C10_forward_substitution_solves.
Print Assumptions C10_solver_choice_is_sound.
Print Assumptions C10_hierarchize_then_interpolate_id_vector_valued.
Print Assumptions C10_lagrange_hierarchisation_total.
Print Assumptions C10_accepted_lagrange_system_injective.
Print Assumptions C10_certified_system_injective.
Print Assumptions C10_interpolation_injective.
Print Assumptions C10_system_residual_checker_sound.
Print Assumptions C10_bspline_piece_vanishes_outside_support.
Print Assumptions C10_bspline_vanishes_from_right_end.
Print Assumptions C10_every_point_lies_in_a_knot_interval.
Print Assumptions C10_wellformed_bspline_is_piecewise_polynomial.
Print Assumptions C10_restricted_modified_vanishes_outside_support.
Print Assumptions C10_lagrange_reproduces_monomials.
Print Assumptions C10_polynomial_with_n_roots_vanishes.
Print Assumptions C10_lagrange_span_is_reproduced.
Print Assumptions C10_forward_substitution_systems_act_columnwise.
Print Assumptions C10_pole_coordinates_in_range.
Print Assumptions C10_pole_offsets_enumerate_the_slice.


(* ================================================================== phase 3 *)
(* ---- EVERY refinement tree is accepted (replaces the role of C10_tree_grids_hier_ok_bounded, which stays above):
        for every binary refinement tree t of arbitrary depth and shape with arbitrary strictly increasing coordinates in (a, b)
        (in_range), every order p >= 1 and both boundary flags, the hierarchical Lagrange system built by the tree recursion
        (Model/BasisTree.v: knots of x = knots left of its interval ++ x :: knots right of it, window of p+1 knots,
        LagrangeBasisRestricted) exists and is accepted by the structural checker along the level order - so its collocation
        matrix is unit lower triangular, forward substitution solves it, the solution is unique, and the model pipeline takes
        forward substitution.  The tree recursion is tied to the code-shaped level loop with get_parent
        (Model/Basis.lagrange_system) by C10_tree_model_equals_list_model_bounded and, beyond the bound, by the entry point
        (sub 8) on every explored Lagrange grid. *)
Theorem C10_every_refinement_tree_is_accepted : forall p boundary a b t,
  (1 <= p)%nat -> a < b -> in_range a b t ->
  exists sy, tree_system p boundary a b t = Some sy
    /\ map fst sy = interior boundary (tree_points a b t)
    /\ hier_okb sy (level_order (interior boundary (tree_levels t))) = true.
Proof. exact tree_system_accepted. Qed.
Theorem C10_every_refinement_tree_is_unit_triangular_and_uniquely_solvable : forall p boundary a b t,
  (1 <= p)%nat -> a < b -> in_range a b t ->
  exists sy, tree_system p boundary a b t = Some sy /\
    let ord := level_order (interior boundary (tree_levels t)) in
    Permutation ord (seq 0 (length sy)) /\ tri (colloc sy) ord /\ (forall i, (i < length sy)%nat -> mget (colloc sy) i i = 1)
    /\ sys_sound {| s_basis := sy; s_ord := Some ord |} /\ sys_inj {| s_basis := sy; s_ord := Some ord |}.
Proof. exact tree_system_triangular. Qed.
Theorem C10_tree_systems_take_forward_substitution : forall p boundary a b t sy,
  (1 <= p)%nat -> a < b -> in_range a b t -> tree_system p boundary a b t = Some sy ->
  choose_solver (sy, interior boundary (tree_levels t), true)
  = ({| s_basis := sy; s_ord := Some (level_order (interior boundary (tree_levels t))) |}, true).
Proof. exact tree_system_forward_substitution. Qed.
(* the knot window is a segment of the knot list around x, and the basis built from ANY strictly increasing knot list vanishes
   at everything that is not strictly between the two neighbours of x in that list *)
Theorem C10_knot_window_basis : forall p K x i,
  (1 <= p)%nat -> strictly_increasing K = true -> index_of x K = Some i ->
  exists kw ix, knot_basis p K x = Some (BRLag kw ix) /\ rl_ok x (BRLag kw ix) = true
    /\ forall y, outside_neighbours K i x y -> rl_vanish_witness kw ix y = true.
Proof. exact knot_basis_ok. Qed.
Theorem C10_level_order_is_a_sorted_permutation : forall levs,
  Permutation (level_order levs) (seq 0 (length levs)) /\ Sorted.StronglySorted (lle levs) (level_order levs).
Proof. intro levs. split; [apply level_order_perm | apply level_order_sorted]. Qed.
(* BOUNDED tie of the two models (the comparison itself runs on every explored grid through the entry point) *)
Theorem C10_tree_model_equals_list_model_bounded : forall p boundary ins,
  In p (seq 1 6) -> In ins (trees_upto 5) ->
  tree_check p boundary 0 1 (fst (tree_from 0 1 ins)) (snd (tree_from 0 1 ins)) = (true, true, true).
Proof. exact tree_model_equals_list_model_bounded. Qed.
Print Assumptions C10_every_refinement_tree_is_accepted.
Print Assumptions C10_every_refinement_tree_is_unit_triangular_and_uniquely_solvable.
Print Assumptions C10_tree_systems_take_forward_substitution.
Print Assumptions C10_knot_window_basis.
Print Assumptions C10_level_order_is_a_sorted_permutation.
Print Assumptions C10_tree_model_equals_list_model_bounded.

(* ---- the Gauss-Legendre rules of get_integral (leggauss(int(p/2)+1)), with their EXACT irrational nodes in Q(sqrt 3):
        every polynomial with <= 2n coefficients is integrated exactly over every interval (irrational part 0, rational part = the
        formal integral the model uses) for n = 1, 2, i.e. for the orders p <= 3 (the default p = 3 included): the rule of order p is
        exact for degree <= p.  n = 3 (p = 4, 5; nodes in Q(sqrt 15)) is in the model (gl_rule 3) but its exactness is not proved
        (the monolithic field proof exhausts memory; needs linearity in the coefficients); n = 4 (p = 6, 7; nested radicals) is not
        represented: for p >= 4 the exactness of the rule stays modelled. *)
Theorem C10_gauss_legendre_rule_exact : forall n D rule, (n <= 2)%nat -> gl_rule n = Some (D, rule) ->
  forall P lo hi, (length P <= 2 * n)%nat -> gl_apply D rule P lo hi = (pintegral P lo hi, 0).
Proof. exact gl_rule_exact. Qed.
Theorem C10_code_gauss_rule_exact_for_degree_p : forall p, (1 <= p <= 3)%nat ->
  exists D rule, gl_rule (gl_points p) = Some (D, rule) /\
    forall P lo hi, (length P <= p + 1)%nat -> gl_apply D rule P lo hi = (pintegral P lo hi, 0).
Proof. exact code_rule_exact_for_degree_p. Qed.
Print Assumptions C10_gauss_legendre_rule_exact.
Print Assumptions C10_code_gauss_rule_exact_for_degree_p.

(* ------------------------------------------------------------------ non-vacuity (phase 3) *)
(* a skew tree of depth 4 with off-centre coordinates on [-3, 6], p = 2, no boundary points: in range, system exists with 4 functions,
   accepted; and the 2-point rule integrates x^3 + x^2 over [1/2, 2] exactly *)
Example C10_tree_acceptance_nonvacuous :
  let t := RNode (RNode RLeaf (qd (-2) 1) (RNode (RNode RLeaf (qd (-1) 2) RLeaf) (qd 0 1) RLeaf)) (qd 1 1) RLeaf in
  in_range (qd (-3) 1) (qd 6 1) t /\ rt_levels 0 0 t = [2; 4; 3; 1]%nat /\
  exists sy, tree_system 2 false (qd (-3) 1) (qd 6 1) t = Some sy /\ length sy = 4%nat
    /\ hier_okb sy (level_order (rt_levels 0 0 t)) = true.
Proof.
  cbv zeta. split; [cbn [in_range]; repeat split; vm_compute; reflexivity|]. split; [reflexivity|].
  eexists. split; [vm_compute; reflexivity|]. split; [reflexivity | vm_compute; reflexivity].
Qed.
Example C10_gauss_rule_nonvacuous :
  exists D rule, gl_rule 2 = Some (D, rule) /\
    gl_apply D rule [0; 0; 1; 1] (qd 1 2) (qd 2 1) = (pintegral [0; 0; 1; 1] (qd 1 2) (qd 2 1), 0)
    /\ pintegral [0; 0; 1; 1] (qd 1 2) (qd 2 1) <> 0 /\ snd (fst (hd ((0, 0), 0) rule)) <> 0.
Proof.
  eexists. eexists. split; [reflexivity|]. split; [apply gl2_exact; simpl; lia|]. split; vm_compute; discriminate.
Qed.


(* ================================================================== phase 4 *)
(* ---- the three-point Gauss-Legendre rule 0, +- sqrt(3/5) (orders p = 4, 5) with its exact nodes in Q(sqrt 15): exact for
        every polynomial with <= 6 coefficients on every interval; hence the rule the code takes is exact for degree <= p for ALL
        orders p <= 5 (n = 4, p = 6, 7: nested radicals, still modelled) *)
Theorem C10_gauss_legendre_three_point_rule_exact : forall P lo hi, (length P <= 6)%nat ->
  gl_apply (c3 * c5) r3 P lo hi = (pintegral P lo hi, 0).
Proof. exact gl3_exact. Qed.
Theorem C10_gauss_legendre_rule_exact_upto3 : forall n D rule, (n <= 3)%nat -> gl_rule n = Some (D, rule) ->
  forall P lo hi, (length P <= 2 * n)%nat -> gl_apply D rule P lo hi = (pintegral P lo hi, 0).
Proof. exact gl_rule_exact3. Qed.
Theorem C10_code_gauss_rule_exact_for_degree_p_upto5 : forall p, (1 <= p <= 5)%nat ->
  exists D rule, gl_rule (gl_points p) = Some (D, rule) /\
    forall P lo hi, (length P <= p + 1)%nat -> gl_apply D rule P lo hi = (pintegral P lo hi, 0).
Proof. exact code_rule_exact_upto5. Qed.
(* binomial closed form of the Horner evaluation in Q(sqrt D) *)
Theorem C10_horner_in_quadratic_extension_closed_form : forall D a0 a1 a2 a3 a4 a5 m s,
  xpeval D [a0; a1; a2; a3; a4; a5] (m, s) =
  (a0 + a1 * m + a2 * (m*m + D*s*s) + a3 * (m*m*m + (1+1+1)*D*m*s*s) + a4 * (m*m*m*m + (1+1+1+1+1+1)*D*m*m*s*s + D*D*s*s*s*s)
      + a5 * (m*m*m*m*m + (1+1+1+1+1+1+1+1+1+1)*D*m*m*m*s*s + (1+1+1+1+1)*D*D*m*s*s*s*s),
   a1 * s + (1+1) * a2 * m * s + a3 * ((1+1+1)*m*m*s + D*s*s*s) + a4 * ((1+1+1+1)*m*m*m*s + (1+1+1+1)*D*m*s*s*s)
      + a5 * ((1+1+1+1+1)*m*m*m*m*s + (1+1+1+1+1+1+1+1+1+1)*D*m*m*s*s*s + D*D*s*s*s*s*s)).
Proof. exact xpeval6_closed. Qed.

(* ---- code-shaped flat sweep from a SUCCESSFUL tensor recursion: the 1-D solver need not be total; the column-wise hypothesis is
        only asked where the solve succeeds (sys_colwise_succ; implied by sys_colwise, hence proved for forward substitution) *)
Theorem C10_hier_flat_follows_hier_nd : forall ss v sur,
  Forall (fun s => s_n s <> O /\ (sys_single s \/ sys_colwise_succ s)) ss ->
  length v = prodN (map s_n ss) ->
  hier_nd ss v = Some sur -> hier_flat ss v = Some sur.
Proof. exact hier_flat_follows_hier_nd. Qed.
(* ---- Gauss-Jordan elimination of the checked solver acts column by column: solving with the matrix of right-hand sides and
        reading column k off the result is solving with column k alone, and one fails iff the other does (any matrix with square
        row length, any right-hand sides); the elimination loop commutes with the column projection *)
Theorem C10_gauss_solve_acts_columnwise : forall (M : matrix) (B : list (list Qc)) len k,
  (forall r, In r M -> length r = length M) -> (forall b, In b B -> length b = len) -> (k < len)%nat ->
  gauss_solve M (map (fun b => [nthQ b k]) B)
  = match gauss_solve M B with Some X => Some (map (fun x => [nthQ x k]) X) | None => None end.
Proof. exact gauss_solve_columnwise. Qed.
Print Assumptions C10_gauss_legendre_three_point_rule_exact.
Print Assumptions C10_gauss_legendre_rule_exact_upto3.
Print Assumptions C10_code_gauss_rule_exact_for_degree_p_upto5.
Print Assumptions C10_horner_in_quadratic_extension_closed_form.
Print Assumptions C10_hier_flat_follows_hier_nd.
Print Assumptions C10_gauss_solve_acts_columnwise.

(* non-vacuity (phase 4): the 3-point rule on x^5 + x^2 over [1/2, 2]; a 2x2 system with two right-hand-side columns *)
Example C10_three_point_rule_nonvacuous :
  gl_apply (c3 * c5) r3 [0; 0; 1; 0; 0; 1] (qd 1 2) (qd 2 1) = (pintegral [0; 0; 1; 0; 0; 1] (qd 1 2) (qd 2 1), 0)
  /\ pintegral [0; 0; 1; 0; 0; 1] (qd 1 2) (qd 2 1) <> 0 /\ gl_rule 3 = Some (c3 * c5, r3).
Proof. split; [apply gl3_exact; simpl; lia|]. split; [vm_compute; discriminate | reflexivity]. Qed.
Example C10_gauss_columnwise_nonvacuous :
  let M := [[qd 2 1; qd 1 1]; [qd 1 1; qd 3 1]] in let B := [[qd 1 1; qd 0 1]; [qd 0 1; qd 5 1]] in
  exists X, gauss_solve M B = Some X /\ gauss_solve M (map (fun b => [nthQ b 1]) B) = Some (map (fun x => [nthQ x 1]) X)
    /\ map (fun x => nthQ x 1) X = [qd (-1) 1; qd 2 1].
Proof.
  cbv zeta. eexists. split; [vm_compute; reflexivity|]. split; [vm_compute; reflexivity | apply veq_eq; vm_compute; reflexivity].
Qed.


(* ================================================================== phase 5 *)
(* ---- (b) the matrix product by columns and the checked solve column by column: the column-wise hypothesis of the flat-sweep
        theorem is now PROVED for every checked-Gauss system (B-spline / modified bases), so the theorem has no hypothesis on the
        solvers any more *)
Theorem C10_matrix_product_by_columns : forall (M : matrix) (X : list (list Qc)) k,
  (forall r, In r M -> combine r X <> []) -> mapplyV M (colsel k X) = colsel k (mapplyV M X).
Proof. exact mapplyV_by_columns. Qed.
Theorem C10_solve_checked_acts_columnwise : forall (M : matrix) (B X : list (list Qc)) len k,
  (forall r, In r M -> length r = length M) -> (forall b, In b B -> length b = len) -> (k < len)%nat ->
  solve_checked M B = Some X ->
  length X = length B /\ (forall x, In x X -> length x = len) /\ solve_checked M (colsel k B) = Some (colsel k X).
Proof. exact solve_checked_columnwise. Qed.
Theorem C10_checked_gauss_systems_act_columnwise : forall s, s_ord s = None -> sys_single s \/ sys_colwise_succ s.
Proof. exact gauss_system_colwise_succ. Qed.
Theorem C10_hier_flat_follows_hier_nd_all_solvers : forall ss v sur,
  Forall (fun s => s_n s <> O /\ (s_ord s = None \/ sys_sound s)) ss ->
  length v = prodN (map s_n ss) ->
  hier_nd ss v = Some sur -> hier_flat ss v = Some sur.
Proof. exact hier_flat_follows_hier_nd_all_solvers. Qed.
(* the model pipeline, every basis family: non-empty dimensions are the only requirement *)
Theorem C10_pipeline_flat_sweep_unconditional : forall ds v sur,
  let ss := map (fun d => fst (choose_solver d)) ds in
  Forall (fun s => s_n s <> O) ss -> length v = prodN (map s_n ss) ->
  hier_nd ss v = Some sur -> hier_flat ss v = Some sur.
Proof. exact pipeline_flat_sweep. Qed.
(* ---- (a), third lemma: the knot list of the level loop - sorting the parent's knots kl ++ kr with the new point appended puts the
        point between them (pure list fact about sortQ / insert_sorted); level-1 instance *)
Theorem C10_sorted_parent_knots_plus_point : forall kl x kr,
  strictly_increasing (kl ++ x :: kr) = true -> sortQ (kl ++ kr ++ [x]) = kl ++ x :: kr.
Proof. exact sortQ_parent_knots_plus_point. Qed.
Theorem C10_sortQ_of_sorted_list : forall K, strictly_increasing K = true -> sortQ K = K.
Proof. exact sortQ_sorted. Qed.
Print Assumptions C10_matrix_product_by_columns.
Print Assumptions C10_solve_checked_acts_columnwise.
Print Assumptions C10_checked_gauss_systems_act_columnwise.
Print Assumptions C10_hier_flat_follows_hier_nd_all_solvers.
Print Assumptions C10_pipeline_flat_sweep_unconditional.
Print Assumptions C10_sorted_parent_knots_plus_point.
Print Assumptions C10_sortQ_of_sorted_list.

(* non-vacuity (phase 5): a 2-D cubic B-spline grid (regular level 2 x level 1, checked Gauss in both dimensions): the tensor recursion
   and the flat pole sweep return the same non-trivial surpluses *)
Example C10_bspline_flat_sweep_nonvacuous :
  exists sx sy, bspline_system 3 true false 0 1 (regular_points 0 1 2) (regular_levels 2) = Some sx
    /\ bspline_system 3 true false 0 1 (regular_points 0 1 1) (regular_levels 1) = Some sy /\
    let ds := [(sx, regular_levels 2, false); (sy, regular_levels 1, false)] in
    let ss := map (fun d => fst (choose_solver d)) ds in
    Forall (fun s => s_ord s = None /\ s_n s <> O) ss /\
    let v := map (fun k => qd (Z.of_nat (k * k) - 7) 4) (seq 0 15) in
    exists sur, hier_nd ss v = Some sur /\ hier_flat ss v = Some sur /\ sur <> v.
Proof.
  eexists. eexists. split; [vm_compute; reflexivity|]. split; [vm_compute; reflexivity|]. cbv zeta.
  split; [repeat constructor; vm_compute; discriminate|].
  eexists. split; [vm_compute; reflexivity|]. split; [vm_compute; reflexivity | vm_compute; discriminate].
Qed.


(* ---- (a), first lemma: get_parent on lists of the shape a refinement tree produces around a point x of level lx >= 1
        ( ... (u, lu), [deeper points], (x, lx), [deeper points], (v, lv) ... with max(lu, lv) = lx - 1 ): the backward scan skips
        exactly the deeper points of x's own interval and stops at u, the forward scan does the same towards v - get_parent
        returns the DEEPER interval end, which is the parent the tree recursion uses *)
Theorem C10_get_parent_returns_the_deeper_interval_end : forall (pre L R post : list (Qc * nat)) u lu x lx v lv,
  let pl := pre ++ (u, lu) :: L ++ (x, lx) :: R ++ (v, lv) :: post in
  ~ In x (map fst (pre ++ (u, lu) :: L)) ->
  (forall e, In e L -> (lx - 1 < snd e)%nat) -> (forall e, In e R -> (lx - 1 < snd e)%nat) ->
  Nat.max lu lv = (lx - 1)%nat ->
  get_parent x (map fst pl) (map snd pl) = Some (if (lu =? lx - 1)%nat then u else v).
Proof. exact get_parent_deeper_end. Qed.
Theorem C10_parent_scan_skips_deeper_points : forall target A R, (forall e, In e A -> (target < snd e)%nat) ->
  scan_parent (A ++ R) target = scan_parent R target.
Proof. exact scan_parent_skip. Qed.
Print Assumptions C10_get_parent_returns_the_deeper_interval_end.
Print Assumptions C10_parent_scan_skips_deeper_points.

(* non-vacuity: the tree 0, 1/8(l3), 1/4(l2), 1/2(l1), 3/4(l2), 1: the parent of 1/8 is 1/4 (right end of its interval), of 3/4 is 1/2 *)
Example C10_get_parent_nonvacuous :
  let pts := [qd 0 1; qd 1 8; qd 1 4; qd 1 2; qd 3 4; qd 1 1] in let levs := [0; 3; 2; 1; 2; 0]%nat in
  get_parent (qd 1 8) pts levs = Some (qd 1 4) /\ get_parent (qd 3 4) pts levs = Some (qd 1 2)
  /\ sortQ ([qd 0 1; qd 1 4; qd 1 2; qd 1 1] ++ [qd 1 8]) = [qd 0 1; qd 1 8; qd 1 4; qd 1 2; qd 1 1].
Proof.
  cbv zeta. split; [|split].
  - apply (get_parent_deeper_end [] [] [] [(qd 1 2, 1%nat); (qd 3 4, 2%nat); (qd 1 1, O)] (qd 0 1) 0 (qd 1 8) 3 (qd 1 4) 2).
    + cbn. intros [H|[]]. discriminate H.
    + intros e []. 
    + intros e [].
    + reflexivity.
  - apply (get_parent_deeper_end [(qd 0 1, O); (qd 1 8, 3%nat); (qd 1 4, 2%nat)] [] [] [] (qd 1 2) 1 (qd 3 4) 2 (qd 1 1) 0).
    + cbn. intros [H|[H|[H|[H|[]]]]]; discriminate H.
    + intros e [].
    + intros e [].
    + reflexivity.
  - apply (sortQ_parent_knots_plus_point [qd 0 1] (qd 1 8) [qd 1 4; qd 1 2; qd 1 1]). vm_compute. reflexivity.
Qed.
