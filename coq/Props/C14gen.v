(* C14 for the SOURCE-DERIVED new-object marker.  Gen/NewMarkerGen.v is written by harness/translate/py2gallina_c14.py from
   RefinementContainer.clear_new_objects / get_new_objects / new_objects_size / add (sparseSpACE/RefinementContainer.py) at every
   ./setup.sh C14 and ./check C14.  The theorems are about the GENERATED definitions: after clear_new_objects no object is new (so the
   evaluate_operation of a continuation adds nothing: the idempotence the resume theorems of Props/C14.v rest on), the children added by
   refine() after the clear are exactly the new objects, and these two updates are the marker updates of the hand-written
   bookkeeping model Model/Accum.v.  Statements only (proofs: Proofs/GenNewMarkerEq.v). *)
From Coq Require Import ZArith List Bool.
From SG Require Import Base.PyLib Base.PyNum Gen.NewMarkerGen Model.Accum Proofs.GenNewMarkerEq.
Import ListNotations.
Open Scope Z_scope.

Theorem C14_gen_clear_leaves_nothing_new : forall (A : Type) (c : RefCont_t A),
  RefinementContainer_get_new_objects A (RefinementContainer_clear_new_objects A c) = [].
Proof. exact clear_leaves_nothing_new. Qed.
Print Assumptions C14_gen_clear_leaves_nothing_new.

Theorem C14_gen_clear_idempotent_and_keeps_objects : forall (A : Type) (c : RefCont_t A),
  RefinementContainer_clear_new_objects A (RefinementContainer_clear_new_objects A c) = RefinementContainer_clear_new_objects A c /\
  f_refinementObjects A (RefinementContainer_clear_new_objects A c) = f_refinementObjects A c.
Proof. intros A c. split; [apply clear_idempotent|apply clear_keeps_objects]. Qed.

Theorem C14_gen_add_after_clear_marks_the_added : forall (A : Type) (c : RefCont_t A) (added : list A),
  RefinementContainer_get_new_objects A (RefinementContainer_add A (RefinementContainer_clear_new_objects A c) added) = added.
Proof. exact add_after_clear_marks_the_added. Qed.

Theorem C14_gen_new_objects_are_the_tail : forall (A : Type) (c : RefCont_t A),
  0 <= f_startNewObjects A c <= py_len (f_refinementObjects A c) ->
  RefinementContainer_get_new_objects A c = skipn (Z.to_nat (f_startNewObjects A c)) (f_refinementObjects A c) /\
  py_len (RefinementContainer_get_new_objects A c) = RefinementContainer_new_objects_size A c.
Proof. intros A c H. split; [apply get_new_is_skipn|apply new_objects_size_is_number_of_new_objects]; exact H. Qed.

Theorem C14_gen_marker_is_model_marker :
  forall (V : Type) (vzero : V) (vadd : V -> V -> V) (vopp : V -> V) (c : RefCont_t Z) parts removed added (s : astate V),
  st_new (evaluate_new V vzero vadd vopp true parts s) = RefinementContainer_get_new_objects Z (RefinementContainer_clear_new_objects Z c) /\
  st_new (refine_step V vzero vadd vopp removed added s) =
    RefinementContainer_get_new_objects Z (RefinementContainer_add Z (RefinementContainer_clear_new_objects Z c) added).
Proof. exact gen_marker_is_model_marker. Qed.
Print Assumptions C14_gen_marker_is_model_marker.

(* non-vacuity: a container of 3 objects with 1 new one; clear, add two children *)
Example C14_gen_nonvacuous :
  let c := mk_RefCont Z [10; 11; 12] 2 in
  RefinementContainer_get_new_objects Z c = [12] /\ RefinementContainer_new_objects_size Z c = 1 /\
  RefinementContainer_get_new_objects Z (RefinementContainer_add Z (RefinementContainer_clear_new_objects Z c) [13; 14]) = [13; 14] /\
  RefinementContainer_get_new_objects Z (mk_RefCont Z [10; 11; 12] (-1)) = [12].
Proof. split; [reflexivity|]. split; [reflexivity|]. split; reflexivity. Qed.

(* ==================================================================================================================
   Phase 7: resume = uninterrupted WITHOUT the idempotence hypothesis, for the driver whose evaluate step is built from the generated
   marker functions:  evaluate (c, v) = (clear_new_objects c, fold acc_add (get_new_objects c) v);  refine and observe arbitrary.
   (The conditional theorems of Props/C14.v stay as they are.)
   ================================================================================================================== *)
From Coq Require Import QArith Qcanon.
From SG Require Import Base.QcUtil Model.Driver Proofs.DriverProofs Proofs.DriverSpec Proofs.DriverLegs Proofs.DriverCheckpoint Proofs.GenNewMarkerResume.

(* re-evaluation after the clear is the identity: nothing is new, nothing is added, the objects are untouched *)
Theorem C14_gen_reevaluation_is_identity : forall (A V : Type) (acc_add : V -> A -> V) s,
  g_evaluate A V acc_add (g_evaluate A V acc_add s) = g_evaluate A V acc_add s.
Proof. exact reevaluation_is_identity. Qed.
Theorem C14_gen_reevaluation_adds_nothing : forall (A V : Type) (acc_add : V -> A -> V) s,
  snd (g_evaluate A V acc_add (g_evaluate A V acc_add s)) = snd (g_evaluate A V acc_add s) /\
  f_refinementObjects A (fst (g_evaluate A V acc_add (g_evaluate A V acc_add s))) = f_refinementObjects A (fst s) /\
  RefinementContainer_get_new_objects A (fst (g_evaluate A V acc_add s)) = [].
Proof. exact reevaluation_adds_nothing. Qed.

(* UNCONDITIONAL: any split point *)
Theorem C14_gen_resume_equals_uninterrupted :
  forall (A V : Type) (acc_add : V -> A -> V) (refine : RefCont_t A * V -> RefCont_t A * V) (observe : RefCont_t A * V -> obs)
         l1 l2 n m s s1 s2,
  limits_grow l1 l2 ->
  run _ (g_evaluate A V acc_add) refine observe l1 n s = Some s1 -> run _ (g_evaluate A V acc_add) refine observe l2 m s1 = Some s2 ->
  exists k, (k <= n + m)%nat /\ run _ (g_evaluate A V acc_add) refine observe l2 k s = Some s2.
Proof. exact gen_resume_equals_uninterrupted. Qed.
Theorem C14_gen_uninterrupted_equals_resume :
  forall (A V : Type) (acc_add : V -> A -> V) (refine : RefCont_t A * V -> RefCont_t A * V) (observe : RefCont_t A * V -> obs)
         l1 l2 n m k s s1 s2 s2',
  limits_grow l1 l2 ->
  run _ (g_evaluate A V acc_add) refine observe l1 n s = Some s1 -> run _ (g_evaluate A V acc_add) refine observe l2 m s1 = Some s2 ->
  run _ (g_evaluate A V acc_add) refine observe l2 k s = Some s2' -> s2' = s2.
Proof. exact gen_uninterrupted_equals_resume. Qed.
(* UNCONDITIONAL: any number of stop / continue legs *)
Theorem C14_gen_resume_chain_equals_uninterrupted :
  forall (A V : Type) (acc_add : V -> A -> V) (refine : RefCont_t A * V -> RefCont_t A * V) (observe : RefCont_t A * V -> obs)
         lims lf nf s s1 s2,
  all_grow_to lims lf -> run_chain _ (g_evaluate A V acc_add) refine observe lims s = Some s1 ->
  run _ (g_evaluate A V acc_add) refine observe lf nf s1 = Some s2 -> lims <> [] ->
  exists k, run _ (g_evaluate A V acc_add) refine observe lf k s = Some s2.
Proof. exact gen_resume_chain_equals_uninterrupted. Qed.
Theorem C14_gen_legs_grow_end_where_single_run_ends :
  forall (A V : Type) (acc_add : V -> A -> V) (refine : RefCont_t A * V -> RefCont_t A * V) (observe : RefCont_t A * V -> obs)
         legs lf s d s' d',
  legs <> [] -> last (map fst legs) lf = lf -> all_growb (map fst legs) lf = true ->
  run_legs _ (g_evaluate A V acc_add) refine observe legs s d = Some (s', d') ->
  run _ (g_evaluate A V acc_add) refine observe lf (legs_fuel legs) s = Some s'.
Proof. exact gen_legs_grow_end_where_single_run_ends. Qed.
Theorem C14_gen_legs_follow_trajectory :
  forall (A V : Type) (acc_add : V -> A -> V) (refine : RefCont_t A * V -> RefCont_t A * V) (observe : RefCont_t A * V -> obs)
         legs s d s' d' N,
  legs <> [] -> run_legs _ (g_evaluate A V acc_add) refine observe legs s d = Some (s', d') -> (legs_fuel legs <= N)%nat ->
  exists p, legs_on_stream (map fst legs) (traj _ (g_evaluate A V acc_add) refine observe N s) d = Some (p, d') /\
            s' = state_at _ (g_evaluate A V acc_add) refine p s.
Proof. exact gen_legs_follow_trajectory. Qed.
Theorem C14_gen_checkpoint_copies_end_where_single_runs_end :
  forall (A V : Type) (acc_add : V -> A -> V) (refine : RefCont_t A * V -> RefCont_t A * V) (observe : RefCont_t A * V -> obs)
         prefix s d c pre post store lf s_i d_i,
  run_legs _ (g_evaluate A V acc_add) refine observe prefix s d = Some c ->
  let i := length (ck_exec _ (g_evaluate A V acc_add) refine observe c pre store) in
  let mine := legs_of i post in
  nth_error (ck_exec _ (g_evaluate A V acc_add) refine observe c (pre ++ OpRestore :: post) store) i = Some (Some (s_i, d_i)) ->
  mine <> [] -> last (map fst (prefix ++ mine)) lf = lf -> all_growb (map fst (prefix ++ mine)) lf = true ->
  run _ (g_evaluate A V acc_add) refine observe lf (legs_fuel (prefix ++ mine)) s = Some s_i.
Proof. exact gen_checkpoint_copies_end_where_single_runs_end. Qed.
Print Assumptions C14_gen_resume_chain_equals_uninterrupted.
Print Assumptions C14_gen_checkpoint_copies_end_where_single_runs_end.

(* the clear is NECESSARY: with the marker left where it is (the code before repair 0b63da8) stop-and-continue ends elsewhere *)
Theorem C14_gen_noclear_resume_refuted :
  let ev := g_evaluate_noclear Z Z Z.add in
  let l1 := mkLimits (Q2Qc (-1 # 1)) 1 (Some 3) in
  let l2 := mkLimits (Q2Qc (-1 # 1)) 1 (Some 7) in
  let s0 := (mk_RefCont Z [5] 0, 0) in
  limits_grow l1 l2 /\
  exists s1 s2 s2', run _ ev w_refine w_observe l1 9 s0 = Some s1 /\ run _ ev w_refine w_observe l2 9 s1 = Some s2 /\
                    run _ ev w_refine w_observe l2 9 s0 = Some s2' /\ snd s2 = 10 /\ snd s2' = 8.
Proof. exact noclear_resume_refuted. Qed.
Example C14_gen_resume_nonvacuous :
  let ev := g_evaluate Z Z Z.add in
  let l1 := mkLimits (Q2Qc (-1 # 1)) 1 (Some 3) in
  let l2 := mkLimits (Q2Qc (-1 # 1)) 1 (Some 7) in
  let s0 := (mk_RefCont Z [5] 0, 0) in
  exists s1 s2, run _ ev w_refine w_observe l1 9 s0 = Some s1 /\ snd s1 = 5 /\ run _ ev w_refine w_observe l2 9 s1 = Some s2 /\
                run _ ev w_refine w_observe l2 9 s0 = Some s2 /\ snd s2 = 8.
Proof. exact gen_resume_nonvacuous. Qed.
