(* C14 for the SOURCE-DERIVED new-object marker.  Gen/NewMarkerGen.v is written by harness/translate/py2gallina_c14.py from
   RefinementContainer.clear_new_objects / get_new_objects / new_objects_size / add (sparseSpACE/RefinementContainer.py) at every
   ./setup.sh C14 and ./check C14.  The theorems are about the GENERATED definitions: after clear_new_objects no object is new (so the
   evaluate_operation of a continuation adds nothing: the idempotence the resume theorems of Props/C14.v rest on), the children added by
   refine() after the clear are exactly the new objects, and these two updates are the marker updates of the hand-written
   bookkeeping model Model/Accum.v.  Statements only (proofs: Proofs/GenNewMarkerEq.v). *)
From Coq Require Import ZArith List Bool.
From SG Require Import Base.PyLib Base.PyNum Gen.NewMarkerGen Model.Accum Proofs.GenNewMarkerEq.
Import ListNotations.
Open Scope Z_scope.

Theorem C14_gen_clear_leaves_nothing_new : forall (A : Type) (c : RefCont_t A),
  RefinementContainer_get_new_objects A (RefinementContainer_clear_new_objects A c) = [].
Proof. exact clear_leaves_nothing_new. Qed.
Print Assumptions C14_gen_clear_leaves_nothing_new.

Theorem C14_gen_clear_idempotent_and_keeps_objects : forall (A : Type) (c : RefCont_t A),
  RefinementContainer_clear_new_objects A (RefinementContainer_clear_new_objects A c) = RefinementContainer_clear_new_objects A c /\
  f_refinementObjects A (RefinementContainer_clear_new_objects A c) = f_refinementObjects A c.
Proof. intros A c. split; [apply clear_idempotent|apply clear_keeps_objects]. Qed.

Theorem C14_gen_add_after_clear_marks_the_added : forall (A : Type) (c : RefCont_t A) (added : list A),
  RefinementContainer_get_new_objects A (RefinementContainer_add A (RefinementContainer_clear_new_objects A c) added) = added.
Proof. exact add_after_clear_marks_the_added. Qed.

Theorem C14_gen_new_objects_are_the_tail : forall (A : Type) (c : RefCont_t A),
  0 <= f_startNewObjects A c <= py_len (f_refinementObjects A c) ->
  RefinementContainer_get_new_objects A c = skipn (Z.to_nat (f_startNewObjects A c)) (f_refinementObjects A c) /\
  py_len (RefinementContainer_get_new_objects A c) = RefinementContainer_new_objects_size A c.
Proof. intros A c H. split; [apply get_new_is_skipn|apply new_objects_size_is_number_of_new_objects]; exact H. Qed.

Theorem C14_gen_marker_is_model_marker :
  forall (V : Type) (vzero : V) (vadd : V -> V -> V) (vopp : V -> V) (c : RefCont_t Z) parts removed added (s : astate V),
  st_new (evaluate_new V vzero vadd vopp true parts s) = RefinementContainer_get_new_objects Z (RefinementContainer_clear_new_objects Z c) /\
  st_new (refine_step V vzero vadd vopp removed added s) =
    RefinementContainer_get_new_objects Z (RefinementContainer_add Z (RefinementContainer_clear_new_objects Z c) added).
Proof. exact gen_marker_is_model_marker. Qed.
Print Assumptions C14_gen_marker_is_model_marker.

(* non-vacuity: a container of 3 objects with 1 new one; clear, add two children *)
Example C14_gen_nonvacuous :
  let c := mk_RefCont Z [10; 11; 12] 2 in
  RefinementContainer_get_new_objects Z c = [12] /\ RefinementContainer_new_objects_size Z c = 1 /\
  RefinementContainer_get_new_objects Z (RefinementContainer_add Z (RefinementContainer_clear_new_objects Z c) [13; 14]) = [13; 14] /\
  RefinementContainer_get_new_objects Z (mk_RefCont Z [10; 11; 12] (-1)) = [12].
Proof. split; [reflexivity|]. split; [reflexivity|]. split; reflexivity. Qed.
