(* C19 — Classification assigns the arg-max density class under the learning scaling.
   Property theorems only; each is closed by `exact` of a lemma from Proofs/ClassifyProofs.v (or is a concrete witness).
   Model: Model/Classify.v on top of Model/DataSet.v; the per-class densities are inputs of the model. *)
From Coq Require Import ZArith List QArith Qcanon Bool Permutation Lia.
(* C18's offset model first: Model/ClassifyLearn.v's label_order_ok (on rows) must shadow the one of Model/DataSetOff.v (on a data set) *)
From SG Require Import Model.DataSetOff Proofs.DataSetTrack Proofs.DataSetOffP.
From SG Require Import Base.QcUtil Model.DataSet Model.Classify Model.ClassifyLearn Proofs.DataSetVec Proofs.DataSetScale Proofs.DataSetRevert
  Proofs.DataSetMove Proofs.ClassifyProofs Proofs.ClassifyLearnProofs Proofs.ClassifyRange.
From SG Require Import Proofs.ClassifyPrescaled Proofs.ClassifyOvo Proofs.ClassifyEndToEnd.
Import ListNotations.
Open Scope Qc_scope.

(* ---- arg-max: the index returned is valid, its density is maximal, and it is the first maximal one (numpy.argmax) *)
Theorem C19_argmax_is_max : forall l : list Qc, l <> [] ->
  (argmax l < length l)%nat /\
  (forall j, (j < length l)%nat -> nth j l 0 <= nth (argmax l) l 0) /\
  (forall j, (j < argmax l)%nat -> nth j l 0 < nth (argmax l) l 0).
Proof. exact argmax_is_max. Qed.
Print Assumptions C19_argmax_is_max.

(* every evaluated sample gets class_of (arg-max of its densities); that IS the label of the arg-max classificator when the
   labels are 0..k-1 (both code variants) or when the label map of the proposed repair is present *)
Theorem C19_class_is_argmax : forall cv labels dens i, (i < length dens)%nat ->
  nth i (classificate cv labels dens) 0%Z = class_of cv labels (argmax (nth i dens [])).
Proof. exact classificate_spec. Qed.
Theorem C19_class_is_label_when_contiguous : forall cv k i, (i < k)%nat ->
  class_of cv (map Z.of_nat (seq 0 k)) i = nth i (map Z.of_nat (seq 0 k)) (Z.of_nat i).
Proof. exact class_is_label_when_contiguous. Qed.
Theorem C19_class_is_label_when_repaired : forall cv labels i, cv_labels cv = true -> class_of cv labels i = nth i labels (Z.of_nat i).
Proof. exact class_is_label_when_repaired. Qed.
(* full statement "the assigned class is the label of the arg-max classificator" is FALSE for the code as found when the
   labels are not 0..k-1: labels {1,3}, densities (0,5): class 1 is assigned, the arg-max classificator belongs to label 3 *)
Theorem C19_class_is_label_refuted :
  exists labels dens, classificate c_as_found labels [dens] = [1%Z] /\ nth (argmax dens) labels 0%Z = 3%Z.
Proof. exists [1%Z; 3%Z], [0; Qc2 + Qc2 + 1]. split; vm_compute; reflexivity. Qed.
Print Assumptions C19_class_is_argmax.
Print Assumptions C19_class_is_label_refuted.

(* ---- the scaling is fixed at learning time and the same map places learning data and later data ------------------
   (a) the min-max scaling of the labelled samples onto (0.005, 0.995) puts every learning sample at scale_point mn fac,
       where mn = per-dimension minimum (_data_range[0]) and fac = _scale_factor, all factors non-zero;
   (b) _internal_scaling (shift by -mn, scale by fac, shift by 0.005, through three DataSet calls) puts every sample of a new,
       unscaled data set at the same scale_point mn fac, labels and order kept, and then removes by index;
   (c) scale_point equals the MinMaxScaler transform with these parameters. *)
Theorem C19_learning_positions : forall d sd, wf d -> scale_range c_lo c_hi true d = (sd, false) ->
  exists mn mx fac,
    omin sd = Some mn /\ omax sd = Some mx /\ sfactor sd = FArr fac /\
    data_min (values d) = Some mn /\ data_max (values d) = Some mx /\
    length mn = ddim d /\ length fac = ddim d /\ Forall (fun q => q <> 0) fac /\
    rows sd = map_rows (scale_point mn fac) (rows d).
Proof. exact learning_positions. Qed.
Theorem C19_scaled_position_consistent : forall v st d, wf d -> scaled d = false ->
  length (c_min st) = ddim d -> length (c_fac st) = ddim d -> Forall (fun q => q <> 0) (c_fac st) ->
  exists d3, rows d3 = map_rows (scale_point (c_min st) (c_fac st)) (rows d) /\ ddim d3 = ddim d /\
    internal_scaling v st d =
      match remove_samples v (out_indices (values d3)) d3 with (d4, Some _) => (d4, false) | (d4, None) => (d4, true) end.
Proof. exact internal_scaling_positions. Qed.
Theorem C19_scale_point_is_minmax_transform : forall n mn fac x, length mn = n -> length fac = n -> length x = n ->
  scale_point mn fac x = transform fac (mm_min c_lo mn fac) x.
Proof. exact scale_point_is_minmax_transform. Qed.
Print Assumptions C19_learning_positions.
Print Assumptions C19_scaled_position_consistent.
Print Assumptions C19_scale_point_is_minmax_transform.

(* ---- samples outside the learned range are removed and reported, the others kept with their labels --------------- *)
Theorem C19_out_of_range_removed_and_reported : forall v d3 d4 r,
  remove_samples v (out_indices (values d3)) d3 = (d4, Some r) ->
  Permutation (rows r ++ rows d4) (rows d3) /\
  Forall (fun s => out_of_range (fst s) = false) (rows d4) /\
  Forall (fun s => out_of_range (fst s) = true) (rows r).
Proof. exact filter_removes_exactly_out_of_range. Qed.
Print Assumptions C19_out_of_range_removed_and_reported.

(* ---- the evaluation summary is consistent with classes and labels -------------------------------------------------- *)
Theorem C19_summary_consistent : forall labels classes w t p, summary labels classes = (w, t, p) ->
  t = Z.of_nat (length classes) /\
  w = Z.of_nat (length (filter (fun lc => negb (Z.eqb (fst lc) (snd lc))) (combine labels classes))) /\
  (0 <= w <= t)%Z /\
  p = 1 - Q2Qc (inject_Z w) / Q2Qc (inject_Z t) /\
  (classes <> [] -> 0 <= p /\ p <= 1).
Proof. exact summary_consistent. Qed.
Print Assumptions C19_summary_consistent.

(* ---- evaluating or testing further data does not change the classes assigned to earlier data ---------------------
   for ANY sequence of __call__ / test_data / evaluate calls (any data, any densities, both code variants): the learning-time
   scaling and the classificator labels stay, and the earlier classes are a prefix of the classes held afterwards *)
Theorem C19_earlier_results_unchanged : forall v cv ops st,
  let st' := fold_left (cstep_state v cv) ops st in
  learning_params st' = learning_params st /\ exists suf, c_calc st' = c_calc st ++ suf.
Proof. exact earlier_results_unchanged. Qed.
Theorem C19_call_leaves_object_unchanged : forall v cv st d dens, fst (call v cv st d dens) = st.
Proof. exact call_state_unchanged. Qed.
Print Assumptions C19_earlier_results_unchanged.

(* ---- bookkeeping of test_data: the summary over all testing data.  Code as found: after a successful test_data every
   evaluate() that worked before raises (general theorem = refutation of "the evaluation summary stays consistent");
   with the proposed repair the lengths stay equal and evaluate() covers the tested samples *)
Theorem C19_evaluate_after_test_data_refuted : forall v cv st d dens st' d1 cls s, cv_store cv = false ->
  test_data v cv st d dens = (st', OTest d1 cls s) -> evaluate st <> None -> evaluate st' = None.
Proof. exact evaluate_after_test_data_raises. Qed.
Theorem C19_evaluate_after_test_data_repaired : forall v cv st d dens st' d1 cls s, cv_store cv = true ->
  test_data v cv st d dens = (st', OTest d1 cls s) ->
  length (c_test_labels st) = length (c_calc st) ->
  length (c_test_labels st') = length (c_calc st') /\ evaluate st' = Some (summary (c_test_labels st') (c_calc st')) /\
  c_calc st' = c_calc st ++ cls.
Proof. exact evaluate_after_test_data_repaired. Qed.
Print Assumptions C19_evaluate_after_test_data_refuted.
Print Assumptions C19_evaluate_after_test_data_repaired.

(* ---- non-vacuity: a concrete classification object, one partly-outside test call: hypotheses are met, the call succeeds,
   one sample is removed, two are classified, and (code as found) evaluate() worked before and raises afterwards *)
Example C19_nonvacuous :
  wf ex_new /\ scaled ex_new = false /\ length (c_min ex_st) = ddim ex_new /\ length (c_fac ex_st) = ddim ex_new /\
  evaluate ex_st <> None /\
  exists st' d1 s, test_data as_found c_as_found ex_st ex_new [[Qc2; 1]; [1; Qc2]] = (st', OTest d1 [0%Z; 1%Z] s) /\
    length (rows d1) = 2%nat /\ fst (fst s) = 1%Z /\ evaluate st' = None.
Proof.
  split; [split; [vm_compute; discriminate | repeat constructor]|].
  split; [reflexivity|]. split; [vm_compute; reflexivity|]. split; [vm_compute; reflexivity|].
  split; [vm_compute; discriminate|].
  do 3 eexists. split; [vm_compute; reflexivity|]. split; [vm_compute; reflexivity|]. split; vm_compute; reflexivity.
Qed.

(* ======================================================================================================================
   Deepened part (Model/ClassifyLearn.v): the learning side is inside the model.  The iteration orders of the Python sets
   (get_labels() = list(set(labels)), the index set of move_boundaries_to_front) and the shuffle permutation are inputs
   validated by boolean checkers; every theorem holds for ALL inputs that pass them, all sizes, all dimensions. *)

(* ---- Classification._initialize: shuffle, move_boundaries_to_front, even (per class) or uneven split: whatever the
   permutation, the set orders, the percentage: learning and testing data together are exactly the scaled labelled samples
   (nothing lost, nothing duplicated, labels attached) *)
Theorem C19_learning_split_partitions : forall v sd perm idx lo even p learn test,
  init_split v sd perm idx lo even p = Some (learn, test) -> Permutation (rows learn ++ rows test) (rows sd).
Proof. exact init_split_partitions. Qed.
Theorem C19_uneven_split_is_prefix : forall v sd idx lo p learn test,
  init_split v sd None idx lo false p = Some (learn, test) ->
  exists d2, move_boundaries_to_front idx sd = (d2, false) /\ rows learn ++ rows test = rows d2 /\
             length (rows learn) = Nat.min (split_index p (length (rows d2))) (length (rows d2)).
Proof. exact init_split_uneven_prefix. Qed.
Print Assumptions C19_learning_split_partitions.
Print Assumptions C19_uneven_split_is_prefix.

(* ---- perform_classification + _classificate, for ANY density estimator de (a function of the training data of one class)
   and ANY iteration order lo of the label set: the class assigned to a sample is a label lo[a] of the learning data such that
   the estimator trained on the samples of THAT class is maximal at the sample's position among the estimators of all classes
   (and it is the first maximal one in the order lo, as numpy.argmax).  The classificator of label l is trained on exactly the
   learning samples carrying l; an admissible order gives every class of the learning data exactly one classificator. *)
Theorem C19_class_is_trained_argmax : forall cv (de : ds -> row -> Qc) lo learn pts i,
  cv_labels cv = true -> lo <> [] -> (i < length pts)%nat ->
  let x := nth i pts [] in
  let c := nth i (classify_learned cv de lo lo learn pts) 0%Z in
  exists a, (a < length lo)%nat /\ c = nth a lo 0%Z /\ In c lo /\
    (forall l, In l lo -> de (label_piece learn l) x <= de (label_piece learn c) x) /\
    (forall b, (b < a)%nat -> de (label_piece learn (nth b lo 0%Z)) x < de (label_piece learn c) x).
Proof. exact class_is_trained_argmax. Qed.
Theorem C19_classificator_training_data : forall learn l,
  rows (label_piece learn l) = filter (fun s => Z.eqb (snd s) l) (rows learn).
Proof. exact classificator_training_data. Qed.
Theorem C19_classificators_cover_classes : forall lo learn, label_order_ok lo (rows learn) = true ->
  length (classificators (fun d _ => 0) lo learn) = length lo /\ NoDup lo /\
  (forall l, In l lo <-> In l (map snd (rows learn))) /\
  (forall l, In l lo -> rows (label_piece learn l) <> []).
Proof. exact classificators_cover_classes. Qed.
Print Assumptions C19_class_is_trained_argmax.
Print Assumptions C19_classificator_training_data.
Print Assumptions C19_classificators_cover_classes.

(* ... and the statement is FALSE as soon as the label table is enumerated in another order than the classificators (e.g.
   ascending, np.unique, while the classificators follow the set order 8, 1): both orders pass the checker, yet the sample
   at the first class-8 learning sample (density 1 under the class-8 estimator, 0 under the class-1 estimator) gets class 1 *)
Theorem C19_label_table_in_other_order_refuted :
  exists (de : ds -> row -> Qc) lo_fit lo_table learn x,
    label_order_ok lo_fit (rows learn) = true /\ label_order_ok lo_table (rows learn) = true /\
    classify_learned c_repaired de lo_fit lo_table learn [x] = [1%Z] /\
    de (label_piece learn 1%Z) x < de (label_piece learn 8%Z) x.
Proof.
  exists ex_de, [8%Z; 1%Z], [1%Z; 8%Z], exl_sd, (nth 0 (values exl_sd) []).
  split; [vm_compute; reflexivity|]. split; [vm_compute; reflexivity|]. split; vm_compute; reflexivity.
Qed.
Print Assumptions C19_label_table_in_other_order_refuted.

(* ---- continue_dimension_wise_refinement: the classes of ALL testing data are recomputed from the new densities (each one
   class_of (arg-max), C19_class_is_argmax), as many as there are testing samples; scaling, label table, testing data stay *)
Theorem C19_continue_reclassifies_testing_data : forall cv st dens st',
  continue_refinement cv st dens = Some st' -> c_test_labels st <> [] ->
  c_calc st' = classificate cv (c_class_labels st) dens /\ length (c_calc st') = length (c_test_labels st') /\
  c_test_labels st' = c_test_labels st /\ learning_params st' = learning_params st.
Proof. exact continue_reclassifies. Qed.
Print Assumptions C19_continue_reclassifies_testing_data.

(* ---- ALL histories of __call__ / test_data / evaluate / continue_dimension_wise_refinement on one object (test_data as
   repaired): the calculated classes always match the testing samples in number, the learning-time parameters never change,
   the testing labels only grow, and evaluate() returns the summary over all testing data - it raises exactly when the object
   holds no testing data.  (C19_earlier_results_unchanged is the stronger prefix statement for histories without continued
   refinement; continued refinement legitimately re-classifies, C19_continue_reclassifies_testing_data.) *)
Theorem C19_bookkeeping_invariant_all_histories : forall v cv ops st, cv_store cv = true -> book_ok st ->
  let st' := fold_left (xstep v cv) ops st in
  book_ok st' /\ learning_params st' = learning_params st /\
  (exists suf, c_test_labels st' = c_test_labels st ++ suf) /\
  (c_test_labels st' = [] -> evaluate st' = None) /\
  (c_test_labels st' <> [] -> evaluate st' = Some (summary (c_test_labels st') (c_calc st'))).
Proof. exact bookkeeping_invariant. Qed.
Print Assumptions C19_bookkeeping_invariant_all_histories.

(* ---- the learning-time scaling puts every labelled sample inside the learned range: every coordinate of the scaled samples
   lies in [0.005, 0.995] (also for constant columns and columns narrower than 10 eps), so the out-of-range filter
   (0.0049 / 0.9951) would keep every learning and every testing sample, however the data are shuffled and split *)
Theorem C19_learning_samples_in_range : forall d sd, wf d -> scale_range c_lo c_hi true d = (sd, false) ->
  Forall (fun s => Forall (fun y => c_lo <= y /\ y <= c_hi) (fst s) /\ out_of_range (fst s) = false) (rows sd).
Proof. exact learning_samples_in_range. Qed.
Theorem C19_learning_and_testing_data_in_range : forall v d sd perm idx lo even p learn test, wf d ->
  scale_range c_lo c_hi true d = (sd, false) -> init_split v sd perm idx lo even p = Some (learn, test) ->
  Forall (fun s => out_of_range (fst s) = false) (rows learn ++ rows test).
Proof. exact learning_and_testing_data_in_range. Qed.
Print Assumptions C19_learning_samples_in_range.
Print Assumptions C19_learning_and_testing_data_in_range.

(* ---- non-vacuity of the deepened part: six scaled samples of the classes 8 and 1 (set order 8, 1), shuffled, boundary indices
   enumerated in descending order, even split 1/2: the split succeeds, learning data hold both classes (order 8, 1 passes the
   checker), testing data are non-empty; the toy estimator classifies the first learning samples of both classes correctly;
   a history with test_data, continued refinement and evaluate satisfies the hypotheses of the invariant *)
Example C19_nonvacuous_learning :
  let d1 := fst (shuffle_with [5; 0; 3; 1; 4; 2]%nat exl_sd) in
  exists learn test,
    init_split as_found exl_sd (Some [5; 0; 3; 1; 4; 2]%nat) (rev (boundary_idx d1)) [8%Z; 1%Z] true Qchalf = Some (learn, test) /\
    length (rows learn) = 4%nat /\ length (rows test) = 2%nat /\ label_order_ok [8%Z; 1%Z] (rows learn) = true /\
    classify_learned c_repaired ex_de [8%Z; 1%Z] [8%Z; 1%Z] learn (map fst (rows test)) = map snd (rows test) /\
    let st := mkC [] [] [] learn [8%Z; 1%Z] (map snd (rows test))
                  (classify_learned c_repaired ex_de [8%Z; 1%Z] [8%Z; 1%Z] learn (map fst (rows test))) true in
    book_ok st /\ c_test_labels st <> [] /\
    exists st', continue_refinement c_repaired st [[0; 1]; [1; 0]] = Some st' /\ c_calc st' = [1%Z; 8%Z].
Proof.
  cbv zeta. do 2 eexists. split; [vm_compute; reflexivity|].
  split; [vm_compute; reflexivity|]. split; [vm_compute; reflexivity|]. split; [vm_compute; reflexivity|].
  split; [vm_compute; reflexivity|]. split; [split; vm_compute; reflexivity|]. split; [vm_compute; discriminate|].
  eexists. split; vm_compute; reflexivity.
Qed.

(* non-vacuity of the in-range theorems: the hypotheses hold for the concrete four-sample data set of the first example *)
Example C19_nonvacuous_in_range : wf ex_learn /\ exists sd, scale_range c_lo c_hi true ex_learn = (sd, false) /\ length (rows sd) = 4%nat.
Proof. split; [split; [vm_compute; discriminate | repeat constructor]|]. eexists. split; vm_compute; reflexivity. Qed.

(* ======================================================================================================================
   Phase 3.  (3) PRE-SCALED INPUT over the affine-map model of C18 (Model/DataSetOff.v): InvO n d R fv cv = "the rows of d are
   R * fv + cv per dimension, fv / cv are the accumulated _scaling_factor / _scaling_offset" - whatever sequence of scale_range /
   scale_factor / shift_value calls (by the user or by an earlier call) produced d.  sd = the learning data with its map (fl, cl). *)

(* the code as found: an already scaled input is accepted only with the learning FACTOR, and then exactly the samples that are out of
   range AT THEIR CURRENT POSITIONS are removed and reported *)
Theorem C19_prescaled_accepted_same_factor : forall n v st sd d Rl R fl cl fv cv d1,
  InvO n sd Rl fl cl -> InvO n d R fv cv -> c_scaled_attrs st = base sd ->
  internal_scaling v st (base d) = (d1, false) ->
  fv = fl /\
  exists r, Permutation (rows r ++ rows d1) (rows (base d)) /\
    Forall (fun s => out_of_range (fst s) = false) (rows d1) /\ Forall (fun s => out_of_range (fst s) = true) (rows r).
Proof. intros n v st sd d Rl R fl cl fv cv d1 H1 H2 H3. exact (prescaled_accepted_same_factor n v st sd d Rl R fl cl fv cv H1 H2 H3 d1). Qed.
Theorem C19_prescaled_equal_maps_positions : forall n d R fl cl fv cv, InvO n d R fv cv -> fv = fl -> cv = cl ->
  rows (base d) = map_rows (aff fl cl) R.
Proof. intros n d R fl cl fv cv H. exact (prescaled_equal_maps_positions n d R fl cl fv cv H). Qed.
(* ... but the accumulated OFFSET is not compared: REFUTED for the code as found.  Learning data (0,0),(1,1),(4,4),(5,5); the input
   (2,2),(7,7),(3,3) (the same extent, moved by +2), min-max scaled by the user to the internal range (0.005, 0.995), is ACCEPTED; its first
   sample is classified at 0.005 instead of 0.401 and (7,7), at 1.391 under the learning map, is neither removed nor reported *)
Theorem C19_prescaled_offset_not_compared_refuted :
  exists st sd d R d1, c_scaled_attrs st = base sd /\
    internal_scaling repaired st (base d) = (d1, false) /\ length (rows d1) = length R /\
    rows (base d) <> map_rows (scale_point (c_min st) (c_fac st)) R /\
    existsb (fun s => out_of_range (scale_point (c_min st) (c_fac st) (fst s))) R = true.
Proof.
  exists exp_st, exp_learn, exp_input, exp_orig. eexists.
  split; [reflexivity|].
  split; [vm_compute; reflexivity|]. split; [vm_compute; reflexivity|]. split; [vm_compute; discriminate | vm_compute; reflexivity].
Qed.
(* with the accumulated affine maps compared (fixes/C19-internal-scaling-compares-offset.patch): for EVERY tracked input, in whatever
   scaling state, the call either rejects it or every sample sits at the learning map of its ORIGINAL coordinates, and exactly the
   samples whose learning-map position is out of range are removed and reported (labels attached) *)
Theorem C19_prescaled_repaired_rejects_or_places : forall n v st sd d Rl R fl cl fv cv d1 e,
  InvO n sd Rl fl cl -> InvO n d R fv cv -> c_scaled_attrs st = base sd ->
  internal_scaling_o true v st sd d = (d1, e) ->
  e = true \/
  (fv = fl /\ cv = cl /\ rows (base d) = map_rows (aff fl cl) R /\
   exists r, Permutation (rows r ++ rows d1) (map_rows (aff fl cl) R) /\
     Forall (fun s => out_of_range (fst s) = false) (rows d1) /\ Forall (fun s => out_of_range (fst s) = true) (rows r)).
Proof. intros n v st sd d Rl R fl cl fv cv d1 e H1 H2 H3. exact (prescaled_repaired_rejects_or_places n v st sd d Rl R fl cl fv cv H1 H2 H3 d1 e). Qed.
Print Assumptions C19_prescaled_accepted_same_factor.
Print Assumptions C19_prescaled_equal_maps_positions.
Print Assumptions C19_prescaled_offset_not_compared_refuted.
Print Assumptions C19_prescaled_repaired_rejects_or_places.

(* non-vacuity: the learning data and the translated input of the witness are tracked data sets (InvO), the state refers to the learning
   data; the repaired gate rejects the translated input and accepts the learning data themselves *)
Example C19_nonvacuous_prescaled :
  (exists fl cl, InvO 2 exp_learn [(exq 0 0, 0%Z); (exq 1 1, 0%Z); (exq 4 4, 1%Z); (exq 5 5, 1%Z)] fl cl) /\
  (exists fv cv, InvO 2 exp_input exp_orig fv cv) /\ c_scaled_attrs exp_st = base exp_learn /\
  snd (internal_scaling_o true repaired exp_st exp_learn exp_input) = true /\
  snd (internal_scaling_o true repaired exp_st exp_learn exp_learn) = false.
Proof.
  assert (W : forall r : list sample, r <> [] -> Forall (fun s => length (fst s) = 2%nat) r -> dim_of r = 2%nat ->
              exists fv cv, InvO 2 (fst (scale_range_o true c_lo c_hi true (fresh_o r))) r fv cv).
  { intros r Hne Hl Hd. assert (Hwf : wf (base (fresh_o r))) by (split; [exact Hne | cbn; rewrite Hd; exact Hl]).
    destruct (ofirst_range (fresh_o r) c_lo c_hi true Hwf) as [d' [fv [cv [E I]]]]; [reflexivity | apply Qc_ltb_lt; vm_compute; reflexivity|].
    rewrite E. cbn [fst]. cbn [base fresh_o fresh ddim rows] in I. rewrite Hd in I. exists fv, cv. exact I. }
  split; [apply W; [discriminate | repeat constructor | reflexivity]|].
  split; [apply W; [discriminate | repeat constructor | reflexivity]|].
  split; [reflexivity|]. split; vm_compute; reflexivity.
Qed.

(* ======================================================================================================================
   Phase 3.  (2) ONE_VS_OTHERS inside the trained-arg-max theorem (Model/ClassifyLearn.v: split_one_vs_others, classify_ovo).
   Classificator j is trained on ALL learning samples with signed labels: +1 for class j, max(-1, -(n_j / (N - n_j))) for the others; the
   code indexes the class counts BY THE LABEL VALUE, so the statement needs get_labels() = 0, 1, ..., k-1 in this order (what the code
   requires; CPython iterates a set of small non-negative ints 0..k-1 in this order).  deo = any estimator of a signed training set. *)
Theorem C19_class_is_trained_argmax_one_vs_others : forall cv (deo : list (row * Qc) -> row -> Qc) k r pts i,
  cv_labels cv = true -> (0 < k)%nat -> (i < length pts)%nat ->
  let lo := labels_upto k in
  let x := nth i pts [] in
  let c := nth i (classify_ovo cv deo lo r pts) 0%Z in
  exists a, (a < k)%nat /\ c = Z.of_nat a /\
    (forall l, In l lo -> deo (ovo_piece lo r l) x <= deo (ovo_piece lo r c) x) /\
    (forall b, (b < a)%nat -> deo (ovo_piece lo r (Z.of_nat b)) x < deo (ovo_piece lo r c) x).
Proof. exact class_is_trained_argmax_ovo. Qed.
Theorem C19_one_vs_others_training_data : forall k r j, In j (labels_upto k) ->
  ovo_piece (labels_upto k) r j =
  map (fun s => (fst s, if Z.eqb (snd s) j then 1
                        else Qc_max (- (1)) (- (Q2Qc (inject_Z (count_label j r)) /
                                               Q2Qc (inject_Z (sum_Z (class_numbers (labels_upto k) r) - count_label j r)))))) r.
Proof. exact ovo_training_data. Qed.
Theorem C19_one_vs_others_does_not_raise : forall k r,
  (forall j, In j (labels_upto k) -> (count_label j r < sum_Z (class_numbers (labels_upto k) r))%Z) ->
  split_one_vs_others (labels_upto k) r = Some (map (ovo_piece (labels_upto k) r) (labels_upto k)).
Proof. exact ovo_does_not_raise. Qed.
(* the arg-max argument for ANY family of classificators indexed by the label order (the common core of both learners) *)
Theorem C19_class_is_family_argmax : forall cv (f : Z -> row -> Qc) lo pts i,
  cv_labels cv = true -> lo <> [] -> (i < length pts)%nat ->
  let x := nth i pts [] in
  let c := nth i (classificate cv lo (densities_at (map f lo) pts)) 0%Z in
  exists a, (a < length lo)%nat /\ c = nth a lo 0%Z /\ In c lo /\
    (forall l, In l lo -> f l x <= f c x) /\ (forall b, (b < a)%nat -> f (nth b lo 0%Z) x < f c x).
Proof. exact class_is_family_argmax. Qed.
(* the restriction is necessary: for the admissible order (1, 0) the weight of classificator 1 is computed from the count of class 0 *)
Theorem C19_one_vs_others_other_order_refuted :
  exists lo r j, label_order_ok lo r = true /\ In j lo /\ nth (Z.to_nat j) (class_numbers lo r) 0%Z <> count_label j r.
Proof.
  exists [1%Z; 0%Z], [([], 0%Z); ([], 0%Z); ([], 0%Z); ([], 1%Z)], 1%Z.
  split; [vm_compute; reflexivity|]. split; [left; reflexivity | vm_compute; discriminate].
Qed.
Print Assumptions C19_class_is_trained_argmax_one_vs_others.
Print Assumptions C19_one_vs_others_training_data.
Print Assumptions C19_one_vs_others_does_not_raise.
Print Assumptions C19_class_is_family_argmax.
Print Assumptions C19_one_vs_others_other_order_refuted.
(* non-vacuity: three classes 0,1,2 with 2/1/3 samples: no raise, weights -2/4, -1/5, -1 (3/3 capped), a toy signed estimator classifies *)
Example C19_nonvacuous_one_vs_others :
  let r := [([0], 0%Z); ([1], 0%Z); ([Qc2 + Qc2], 1%Z); ([Qc2 + Qc2 + Qc2 + Qc2], 2%Z); ([Qc2 + Qc2 + Qc2 + Qc2 + 1], 2%Z); ([Qc2 + Qc2 + Qc2 + Qc2 + Qc2], 2%Z)] in
  (forall j, In j (labels_upto 3) -> (count_label j r < sum_Z (class_numbers (labels_upto 3) r))%Z) /\
  map (fun j => ovo_weight (labels_upto 3) r j) (labels_upto 3) = [- Qchalf; - (Q2Qc (1 # 5)); - (1)] /\
  classify_ovo c_repaired (fun t x => fold_right Qcplus 0 (map (fun s => if near (fst s) x then snd s else 0) t)) (labels_upto 3) r [[0]; [Qc2 + Qc2]] = [0%Z; 1%Z].
Proof.
  cbv zeta. split; [|split; vm_compute; reflexivity].
  intros j Hj. apply labels_upto_In in Hj. destruct Hj as [i [Hi ->]].
  destruct i as [|[|[|i]]]; [vm_compute; reflexivity | vm_compute; reflexivity | vm_compute; reflexivity | lia].
Qed.

(* ======================================================================================================================
   Phase 3.  (1) END-TO-END.  The densities are no longer inputs: they are those of the classificators trained on the learning data
   (Model/ClassifyLearn.v: trained_dens, call_trained, test_trained, sstep).  For EVERY rectangular data set d0 (default range), every shuffle
   permutation / set orders / split percentage / even or uneven split accepted by the model, every estimator de, every label order lo of
   the learning data, and EVERY history ops of __call__ / test_data / evaluate / continue_dimension_wise_refinement (each continue with
   any refined estimator) on the one object:
   - learning + testing data are exactly the scaled labelled samples, all inside the learned range; the unlabelled ones were set aside
     (initialize) and never enter;
   - the learning-time scaling (min, factor) and the label table never change;
   - every testing sample the object holds (those split off at learning time and those added by test_data: the labelled in-range samples,
     unlabelled ones set aside, out-of-range ones removed) is in range and carries the label c whose classificator - trained on exactly
     the learning samples with label c - has the largest density at the sample's learning-scaled position under the CURRENT estimator;
   - the evaluation summary is the one of exactly these labels and classes; evaluate() raises exactly when there are no testing data. *)
Theorem C19_end_to_end : forall v cv (de : ds -> row -> Qc) lo d0 k perm idx los even p ir learn test ops,
  cv_store cv = true -> cv_labels cv = true -> lo <> [] ->
  Forall (fun s => length (fst s) = k) (rows d0) ->
  initialize v d0 None = Some ir ->
  init_split v (i_scaled ir) perm idx los even p = Some (learn, test) ->
  let s0 := mkSys (mkC (i_min ir) (i_max ir) (i_fac ir) (i_scaled ir) lo (map snd (rows test))
                       (classify_learned cv de lo lo learn (values test)) true) (rows test) de in
  let s := fold_left (sstep v cv lo learn) ops s0 in
  Permutation (rows learn ++ rows test) (rows (i_scaled ir)) /\
  Forall (fun t => out_of_range (fst t) = false) (rows learn ++ rows test) /\
  c_min (s_st s) = i_min ir /\ c_fac (s_st s) = i_fac ir /\ c_class_labels (s_st s) = lo /\
  SysInv cv lo learn s /\
  (forall i, (i < length (s_test s))%nat ->
     let x := nth i (map fst (s_test s)) [] in let c := nth i (c_calc (s_st s)) 0%Z in
     In c lo /\ rows (label_piece learn c) = filter (fun t => Z.eqb (snd t) c) (rows learn) /\
     out_of_range x = false /\
     forall l, In l lo -> s_de s (label_piece learn l) x <= s_de s (label_piece learn c) x) /\
  (s_test s = [] -> evaluate (s_st s) = None) /\
  (s_test s <> [] -> evaluate (s_st s) = Some (summary (map snd (s_test s)) (c_calc (s_st s)))) /\
  length (c_calc (s_st s)) = length (s_test s).
Proof. exact end_to_end. Qed.
(* the invariant behind it, from ANY state that satisfies it (also after a user data range) *)
Theorem C19_system_invariant_all_histories : forall v cv lo learn, cv_store cv = true ->
  forall ops s, SysInv cv lo learn s -> SysInv cv lo learn (fold_left (sstep v cv lo learn) ops s).
Proof. exact sys_invariant. Qed.
(* one __call__ on a fresh data set of the right dimension in any state: the returned samples are exactly the in-range ones at the learning
   map of their coordinates (the others removed and reported, Permutation), each with the class of the trained arg-max classificator
   (C19_class_is_trained_argmax applies to cls); the object is unchanged *)
Theorem C19_call_returns_trained_classes_of_in_range_samples : forall v cv lo learn de st d d1 cls,
  c_class_labels st = lo -> wf d -> scaled d = false ->
  length (c_min st) = ddim d -> length (c_fac st) = ddim d -> Forall (fun q => q <> 0) (c_fac st) ->
  call_trained v cv de lo learn st d = (st, OCall d1 cls) ->
  exists d3 r, rows d3 = map_rows (scale_point (c_min st) (c_fac st)) (rows d) /\
    Permutation (rows r ++ rows d1) (rows d3) /\
    Forall (fun s => out_of_range (fst s) = false) (rows d1) /\ Forall (fun s => out_of_range (fst s) = true) (rows r) /\
    cls = classify_learned cv de lo lo learn (values d1).
Proof. exact call_trained_spec. Qed.
(* test_data with trained classificators: either nothing changes (it raises) or exactly the labelled in-range samples are appended with their
   trained classes and the summary of exactly these samples is returned *)
Theorem C19_test_data_appends_labelled_in_range_samples : forall v cv lo learn, cv_store cv = true -> forall de st d st' out,
  c_class_labels st = lo -> test_trained v cv de lo learn st d = (st', out) ->
  (st' = st /\ exists x, out = ORaise x) \/
  (exists d1 used, internal_scaling v st d = (d1, false) /\ used = snd (split_without_labels d1) /\ rows used <> [] /\
     rows used = filter (fun s => Z.leb 0 (snd s)) (rows d1) /\
     let cls := classify_learned cv de lo lo learn (values used) in
     out = OTest d1 cls (summary (map snd (rows used)) cls) /\
     learning_params st' = learning_params st /\ c_scaled_attrs st' = c_scaled_attrs st /\
     c_test_labels st' = c_test_labels st ++ map snd (rows used) /\ c_calc st' = c_calc st ++ cls).
Proof. exact test_trained_spec. Qed.
Print Assumptions C19_end_to_end.
Print Assumptions C19_system_invariant_all_histories.
Print Assumptions C19_call_returns_trained_classes_of_in_range_samples.
Print Assumptions C19_test_data_appends_labelled_in_range_samples.

(* non-vacuity: six samples of the classes 8 and 1 plus one unlabelled sample; default initialisation, shuffled even split 1/2 (set order 8, 1);
   history: test_data with an in-range labelled, an unlabelled and an out-of-range sample; continued refinement with another estimator; __call__;
   evaluate: all hypotheses of C19_end_to_end hold and the object ends with 3 testing samples and 3 classes *)
Definition ex_e2e_d0 : ds := fresh [([0; 0], 8%Z); ([1; Qc2], 8%Z); ([Qc2; 1], 8%Z); ([Qc2; Qc2], (-1)%Z);
                                    ([Qc2 + Qc2; Qc2 + Qc2], 1%Z); ([Qc2 + 1; Qc2 + Qc2], 1%Z); ([Qc2 + Qc2; Qc2 + 1], 1%Z)].
Example C19_nonvacuous_end_to_end :
  exists ir learn test,
    Forall (fun s => length (fst s) = 2%nat) (rows ex_e2e_d0) /\
    initialize repaired ex_e2e_d0 None = Some ir /\
    init_split repaired (i_scaled ir) (Some [5; 0; 3; 1; 4; 2]%nat) (rev (boundary_idx (fst (shuffle_with [5; 0; 3; 1; 4; 2]%nat (i_scaled ir)))))
               [8%Z; 1%Z] true Qchalf = Some (learn, test) /\
    length (rows test) = 2%nat /\
    let s0 := mkSys (mkC (i_min ir) (i_max ir) (i_fac ir) (i_scaled ir) [8%Z; 1%Z] (map snd (rows test))
                         (classify_learned c_repaired ex_de [8%Z; 1%Z] [8%Z; 1%Z] learn (values test)) true) (rows test) ex_de in
    let s := fold_left (sstep repaired c_repaired [8%Z; 1%Z] learn)
               [STest (fresh [([1; 1], 8%Z); ([1; 0], (-1)%Z); ([Qc2 + Qc2 + Qc2 + Qc2 + 1; 0], 1%Z)]);
                SCont (fun d x => ex_de d x + 1); SCall (fresh [([1; 1], 0%Z)]); SEval] s0 in
    length (s_test s) = 3%nat /\ length (c_calc (s_st s)) = 3%nat /\ evaluate (s_st s) <> None.
Proof.
  do 3 eexists. split; [repeat constructor|]. split; [vm_compute; reflexivity|]. split; [vm_compute; reflexivity|].
  split; [vm_compute; reflexivity|]. cbv zeta. split; [vm_compute; reflexivity|]. split; [vm_compute; reflexivity | vm_compute; discriminate].
Qed.
