(* C19 — Classification assigns the arg-max density class under the learning scaling.
   Property theorems only; each is closed by `exact` of a lemma from Proofs/ClassifyProofs.v (or is a concrete witness).
   Model: Model/Classify.v on top of Model/DataSet.v; the per-class densities are inputs of the model. *)
From Coq Require Import ZArith List QArith Qcanon Bool Permutation.
From SG Require Import Base.QcUtil Model.DataSet Model.Classify Model.ClassifyLearn Proofs.DataSetVec Proofs.DataSetScale Proofs.DataSetRevert
  Proofs.DataSetMove Proofs.ClassifyProofs Proofs.ClassifyLearnProofs Proofs.ClassifyRange.
Import ListNotations.
Open Scope Qc_scope.

(* ---- arg-max: the index returned is valid, its density is maximal, and it is the first maximal one (numpy.argmax) *)
Theorem C19_argmax_is_max : forall l : list Qc, l <> [] ->
  (argmax l < length l)%nat /\
  (forall j, (j < length l)%nat -> nth j l 0 <= nth (argmax l) l 0) /\
  (forall j, (j < argmax l)%nat -> nth j l 0 < nth (argmax l) l 0).
Proof. exact argmax_is_max. Qed.
Print Assumptions C19_argmax_is_max.

(* every evaluated sample gets class_of (arg-max of its densities); that IS the label of the arg-max classificator when the
   labels are 0..k-1 (both code variants) or when the label map of the proposed repair is present *)
Theorem C19_class_is_argmax : forall cv labels dens i, (i < length dens)%nat ->
  nth i (classificate cv labels dens) 0%Z = class_of cv labels (argmax (nth i dens [])).
Proof. exact classificate_spec. Qed.
Theorem C19_class_is_label_when_contiguous : forall cv k i, (i < k)%nat ->
  class_of cv (map Z.of_nat (seq 0 k)) i = nth i (map Z.of_nat (seq 0 k)) (Z.of_nat i).
Proof. exact class_is_label_when_contiguous. Qed.
Theorem C19_class_is_label_when_repaired : forall cv labels i, cv_labels cv = true -> class_of cv labels i = nth i labels (Z.of_nat i).
Proof. exact class_is_label_when_repaired. Qed.
(* full statement "the assigned class is the label of the arg-max classificator" is FALSE for the code as found when the
   labels are not 0..k-1: labels {1,3}, densities (0,5): class 1 is assigned, the arg-max classificator belongs to label 3 *)
Theorem C19_class_is_label_refuted :
  exists labels dens, classificate c_as_found labels [dens] = [1%Z] /\ nth (argmax dens) labels 0%Z = 3%Z.
Proof. exists [1%Z; 3%Z], [0; Qc2 + Qc2 + 1]. split; vm_compute; reflexivity. Qed.
Print Assumptions C19_class_is_argmax.
Print Assumptions C19_class_is_label_refuted.

(* ---- the scaling is fixed at learning time and the same map places learning data and later data ------------------
   (a) the min-max scaling of the labelled samples onto (0.005, 0.995) puts every learning sample at scale_point mn fac,
       where mn = per-dimension minimum (_data_range[0]) and fac = _scale_factor, all factors non-zero;
   (b) _internal_scaling (shift by -mn, scale by fac, shift by 0.005, through three DataSet calls) puts every sample of a new,
       unscaled data set at the same scale_point mn fac, labels and order kept, and then removes by index;
   (c) scale_point equals the MinMaxScaler transform with these parameters. *)
Theorem C19_learning_positions : forall d sd, wf d -> scale_range c_lo c_hi true d = (sd, false) ->
  exists mn mx fac,
    omin sd = Some mn /\ omax sd = Some mx /\ sfactor sd = FArr fac /\
    data_min (values d) = Some mn /\ data_max (values d) = Some mx /\
    length mn = ddim d /\ length fac = ddim d /\ Forall (fun q => q <> 0) fac /\
    rows sd = map_rows (scale_point mn fac) (rows d).
Proof. exact learning_positions. Qed.
Theorem C19_scaled_position_consistent : forall v st d, wf d -> scaled d = false ->
  length (c_min st) = ddim d -> length (c_fac st) = ddim d -> Forall (fun q => q <> 0) (c_fac st) ->
  exists d3, rows d3 = map_rows (scale_point (c_min st) (c_fac st)) (rows d) /\ ddim d3 = ddim d /\
    internal_scaling v st d =
      match remove_samples v (out_indices (values d3)) d3 with (d4, Some _) => (d4, false) | (d4, None) => (d4, true) end.
Proof. exact internal_scaling_positions. Qed.
Theorem C19_scale_point_is_minmax_transform : forall n mn fac x, length mn = n -> length fac = n -> length x = n ->
  scale_point mn fac x = transform fac (mm_min c_lo mn fac) x.
Proof. exact scale_point_is_minmax_transform. Qed.
Print Assumptions C19_learning_positions.
Print Assumptions C19_scaled_position_consistent.
Print Assumptions C19_scale_point_is_minmax_transform.

(* ---- samples outside the learned range are removed and reported, the others kept with their labels --------------- *)
Theorem C19_out_of_range_removed_and_reported : forall v d3 d4 r,
  remove_samples v (out_indices (values d3)) d3 = (d4, Some r) ->
  Permutation (rows r ++ rows d4) (rows d3) /\
  Forall (fun s => out_of_range (fst s) = false) (rows d4) /\
  Forall (fun s => out_of_range (fst s) = true) (rows r).
Proof. exact filter_removes_exactly_out_of_range. Qed.
Print Assumptions C19_out_of_range_removed_and_reported.

(* ---- the evaluation summary is consistent with classes and labels -------------------------------------------------- *)
Theorem C19_summary_consistent : forall labels classes w t p, summary labels classes = (w, t, p) ->
  t = Z.of_nat (length classes) /\
  w = Z.of_nat (length (filter (fun lc => negb (Z.eqb (fst lc) (snd lc))) (combine labels classes))) /\
  (0 <= w <= t)%Z /\
  p = 1 - Q2Qc (inject_Z w) / Q2Qc (inject_Z t) /\
  (classes <> [] -> 0 <= p /\ p <= 1).
Proof. exact summary_consistent. Qed.
Print Assumptions C19_summary_consistent.

(* ---- evaluating or testing further data does not change the classes assigned to earlier data ---------------------
   for ANY sequence of __call__ / test_data / evaluate calls (any data, any densities, both code variants): the learning-time
   scaling and the classificator labels stay, and the earlier classes are a prefix of the classes held afterwards *)
Theorem C19_earlier_results_unchanged : forall v cv ops st,
  let st' := fold_left (cstep_state v cv) ops st in
  learning_params st' = learning_params st /\ exists suf, c_calc st' = c_calc st ++ suf.
Proof. exact earlier_results_unchanged. Qed.
Theorem C19_call_leaves_object_unchanged : forall v cv st d dens, fst (call v cv st d dens) = st.
Proof. exact call_state_unchanged. Qed.
Print Assumptions C19_earlier_results_unchanged.

(* ---- bookkeeping of test_data: the summary over all testing data.  Code as found: after a successful test_data every
   evaluate() that worked before raises (general theorem = refutation of "the evaluation summary stays consistent");
   with the proposed repair the lengths stay equal and evaluate() covers the tested samples *)
Theorem C19_evaluate_after_test_data_refuted : forall v cv st d dens st' d1 cls s, cv_store cv = false ->
  test_data v cv st d dens = (st', OTest d1 cls s) -> evaluate st <> None -> evaluate st' = None.
Proof. exact evaluate_after_test_data_raises. Qed.
Theorem C19_evaluate_after_test_data_repaired : forall v cv st d dens st' d1 cls s, cv_store cv = true ->
  test_data v cv st d dens = (st', OTest d1 cls s) ->
  length (c_test_labels st) = length (c_calc st) ->
  length (c_test_labels st') = length (c_calc st') /\ evaluate st' = Some (summary (c_test_labels st') (c_calc st')) /\
  c_calc st' = c_calc st ++ cls.
Proof. exact evaluate_after_test_data_repaired. Qed.
Print Assumptions C19_evaluate_after_test_data_refuted.
Print Assumptions C19_evaluate_after_test_data_repaired.

(* ---- non-vacuity: a concrete classification object, one partly-outside test call: hypotheses are met, the call succeeds,
   one sample is removed, two are classified, and (code as found) evaluate() worked before and raises afterwards *)
Example C19_nonvacuous :
  wf ex_new /\ scaled ex_new = false /\ length (c_min ex_st) = ddim ex_new /\ length (c_fac ex_st) = ddim ex_new /\
  evaluate ex_st <> None /\
  exists st' d1 s, test_data as_found c_as_found ex_st ex_new [[Qc2; 1]; [1; Qc2]] = (st', OTest d1 [0%Z; 1%Z] s) /\
    length (rows d1) = 2%nat /\ fst (fst s) = 1%Z /\ evaluate st' = None.
Proof.
  split; [split; [vm_compute; discriminate | repeat constructor]|].
  split; [reflexivity|]. split; [vm_compute; reflexivity|]. split; [vm_compute; reflexivity|].
  split; [vm_compute; discriminate|].
  do 3 eexists. split; [vm_compute; reflexivity|]. split; [vm_compute; reflexivity|]. split; vm_compute; reflexivity.
Qed.

(* ======================================================================================================================
   Deepened part (Model/ClassifyLearn.v): the learning side is inside the model.  The iteration orders of the Python sets
   (get_labels() = list(set(labels)), the index set of move_boundaries_to_front) and the shuffle permutation are inputs
   validated by boolean checkers; every theorem holds for ALL inputs that pass them, all sizes, all dimensions. *)

(* ---- Classification._initialize: shuffle, move_boundaries_to_front, even (per class) or uneven split: whatever the
   permutation, the set orders, the percentage: learning and testing data together are exactly the scaled labelled samples
   (nothing lost, nothing duplicated, labels attached) *)
Theorem C19_learning_split_partitions : forall v sd perm idx lo even p learn test,
  init_split v sd perm idx lo even p = Some (learn, test) -> Permutation (rows learn ++ rows test) (rows sd).
Proof. exact init_split_partitions. Qed.
Theorem C19_uneven_split_is_prefix : forall v sd idx lo p learn test,
  init_split v sd None idx lo false p = Some (learn, test) ->
  exists d2, move_boundaries_to_front idx sd = (d2, false) /\ rows learn ++ rows test = rows d2 /\
             length (rows learn) = Nat.min (split_index p (length (rows d2))) (length (rows d2)).
Proof. exact init_split_uneven_prefix. Qed.
Print Assumptions C19_learning_split_partitions.
Print Assumptions C19_uneven_split_is_prefix.

(* ---- perform_classification + _classificate, for ANY density estimator de (a function of the training data of one class)
   and ANY iteration order lo of the label set: the class assigned to a sample is a label lo[a] of the learning data such that
   the estimator trained on the samples of THAT class is maximal at the sample's position among the estimators of all classes
   (and it is the first maximal one in the order lo, as numpy.argmax).  The classificator of label l is trained on exactly the
   learning samples carrying l; an admissible order gives every class of the learning data exactly one classificator. *)
Theorem C19_class_is_trained_argmax : forall cv (de : ds -> row -> Qc) lo learn pts i,
  cv_labels cv = true -> lo <> [] -> (i < length pts)%nat ->
  let x := nth i pts [] in
  let c := nth i (classify_learned cv de lo lo learn pts) 0%Z in
  exists a, (a < length lo)%nat /\ c = nth a lo 0%Z /\ In c lo /\
    (forall l, In l lo -> de (label_piece learn l) x <= de (label_piece learn c) x) /\
    (forall b, (b < a)%nat -> de (label_piece learn (nth b lo 0%Z)) x < de (label_piece learn c) x).
Proof. exact class_is_trained_argmax. Qed.
Theorem C19_classificator_training_data : forall learn l,
  rows (label_piece learn l) = filter (fun s => Z.eqb (snd s) l) (rows learn).
Proof. exact classificator_training_data. Qed.
Theorem C19_classificators_cover_classes : forall lo learn, label_order_ok lo (rows learn) = true ->
  length (classificators (fun d _ => 0) lo learn) = length lo /\ NoDup lo /\
  (forall l, In l lo <-> In l (map snd (rows learn))) /\
  (forall l, In l lo -> rows (label_piece learn l) <> []).
Proof. exact classificators_cover_classes. Qed.
Print Assumptions C19_class_is_trained_argmax.
Print Assumptions C19_classificator_training_data.
Print Assumptions C19_classificators_cover_classes.

(* ... and the statement is FALSE as soon as the label table is enumerated in another order than the classificators (e.g.
   ascending, np.unique, while the classificators follow the set order 8, 1): both orders pass the checker, yet the sample
   at the first class-8 learning sample (density 1 under the class-8 estimator, 0 under the class-1 estimator) gets class 1 *)
Theorem C19_label_table_in_other_order_refuted :
  exists (de : ds -> row -> Qc) lo_fit lo_table learn x,
    label_order_ok lo_fit (rows learn) = true /\ label_order_ok lo_table (rows learn) = true /\
    classify_learned c_repaired de lo_fit lo_table learn [x] = [1%Z] /\
    de (label_piece learn 1%Z) x < de (label_piece learn 8%Z) x.
Proof.
  exists ex_de, [8%Z; 1%Z], [1%Z; 8%Z], exl_sd, (nth 0 (values exl_sd) []).
  split; [vm_compute; reflexivity|]. split; [vm_compute; reflexivity|]. split; vm_compute; reflexivity.
Qed.
Print Assumptions C19_label_table_in_other_order_refuted.

(* ---- continue_dimension_wise_refinement: the classes of ALL testing data are recomputed from the new densities (each one
   class_of (arg-max), C19_class_is_argmax), as many as there are testing samples; scaling, label table, testing data stay *)
Theorem C19_continue_reclassifies_testing_data : forall cv st dens st',
  continue_refinement cv st dens = Some st' -> c_test_labels st <> [] ->
  c_calc st' = classificate cv (c_class_labels st) dens /\ length (c_calc st') = length (c_test_labels st') /\
  c_test_labels st' = c_test_labels st /\ learning_params st' = learning_params st.
Proof. exact continue_reclassifies. Qed.
Print Assumptions C19_continue_reclassifies_testing_data.

(* ---- ALL histories of __call__ / test_data / evaluate / continue_dimension_wise_refinement on one object (test_data as
   repaired): the calculated classes always match the testing samples in number, the learning-time parameters never change,
   the testing labels only grow, and evaluate() returns the summary over all testing data - it raises exactly when the object
   holds no testing data.  (C19_earlier_results_unchanged is the stronger prefix statement for histories without continued
   refinement; continued refinement legitimately re-classifies, C19_continue_reclassifies_testing_data.) *)
Theorem C19_bookkeeping_invariant_all_histories : forall v cv ops st, cv_store cv = true -> book_ok st ->
  let st' := fold_left (xstep v cv) ops st in
  book_ok st' /\ learning_params st' = learning_params st /\
  (exists suf, c_test_labels st' = c_test_labels st ++ suf) /\
  (c_test_labels st' = [] -> evaluate st' = None) /\
  (c_test_labels st' <> [] -> evaluate st' = Some (summary (c_test_labels st') (c_calc st'))).
Proof. exact bookkeeping_invariant. Qed.
Print Assumptions C19_bookkeeping_invariant_all_histories.

(* ---- the learning-time scaling puts every labelled sample inside the learned range: every coordinate of the scaled samples
   lies in [0.005, 0.995] (also for constant columns and columns narrower than 10 eps), so the out-of-range filter
   (0.0049 / 0.9951) would keep every learning and every testing sample, however the data are shuffled and split *)
Theorem C19_learning_samples_in_range : forall d sd, wf d -> scale_range c_lo c_hi true d = (sd, false) ->
  Forall (fun s => Forall (fun y => c_lo <= y /\ y <= c_hi) (fst s) /\ out_of_range (fst s) = false) (rows sd).
Proof. exact learning_samples_in_range. Qed.
Theorem C19_learning_and_testing_data_in_range : forall v d sd perm idx lo even p learn test, wf d ->
  scale_range c_lo c_hi true d = (sd, false) -> init_split v sd perm idx lo even p = Some (learn, test) ->
  Forall (fun s => out_of_range (fst s) = false) (rows learn ++ rows test).
Proof. exact learning_and_testing_data_in_range. Qed.
Print Assumptions C19_learning_samples_in_range.
Print Assumptions C19_learning_and_testing_data_in_range.

(* ---- non-vacuity of the deepened part: six scaled samples of the classes 8 and 1 (set order 8, 1), shuffled, boundary indices
   enumerated in descending order, even split 1/2: the split succeeds, learning data hold both classes (order 8, 1 passes the
   checker), testing data are non-empty; the toy estimator classifies the first learning samples of both classes correctly;
   a history with test_data, continued refinement and evaluate satisfies the hypotheses of the invariant *)
Example C19_nonvacuous_learning :
  let d1 := fst (shuffle_with [5; 0; 3; 1; 4; 2]%nat exl_sd) in
  exists learn test,
    init_split as_found exl_sd (Some [5; 0; 3; 1; 4; 2]%nat) (rev (boundary_idx d1)) [8%Z; 1%Z] true Qchalf = Some (learn, test) /\
    length (rows learn) = 4%nat /\ length (rows test) = 2%nat /\ label_order_ok [8%Z; 1%Z] (rows learn) = true /\
    classify_learned c_repaired ex_de [8%Z; 1%Z] [8%Z; 1%Z] learn (map fst (rows test)) = map snd (rows test) /\
    let st := mkC [] [] [] learn [8%Z; 1%Z] (map snd (rows test))
                  (classify_learned c_repaired ex_de [8%Z; 1%Z] [8%Z; 1%Z] learn (map fst (rows test))) true in
    book_ok st /\ c_test_labels st <> [] /\
    exists st', continue_refinement c_repaired st [[0; 1]; [1; 0]] = Some st' /\ c_calc st' = [1%Z; 8%Z].
Proof.
  cbv zeta. do 2 eexists. split; [vm_compute; reflexivity|].
  split; [vm_compute; reflexivity|]. split; [vm_compute; reflexivity|]. split; [vm_compute; reflexivity|].
  split; [vm_compute; reflexivity|]. split; [split; vm_compute; reflexivity|]. split; [vm_compute; discriminate|].
  eexists. split; vm_compute; reflexivity.
Qed.

(* non-vacuity of the in-range theorems: the hypotheses hold for the concrete four-sample data set of the first example *)
Example C19_nonvacuous_in_range : wf ex_learn /\ exists sd, scale_range c_lo c_hi true ex_learn = (sd, false) /\ length (rows sd) = 4%nat.
Proof. split; [split; [vm_compute; discriminate | repeat constructor]|]. eexists. split; vm_compute; reflexivity. Qed.
