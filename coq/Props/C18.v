(* C18 — DataSet transformations preserve the labelled samples.
   Property theorems only; each is closed by `exact` of a lemma from Proofs/ (or is a concrete `_refuted` witness).
   Model: Model/DataSet.v (value semantics of sparseSpACE/DEMachineLearning.py class DataSet, exact rationals). *)
From Coq Require Import ZArith List QArith Qcanon Bool Permutation.
From SG Require Import Base.QcUtil Model.DataSet Proofs.DataSetVec Proofs.DataSetScale Proofs.DataSetRevert Proofs.DataSetMove
  Proofs.DataSetRevertPerm Proofs.DataSetWitness.
From SG Require Import Model.DataSetOff Proofs.DataSetTrack Proofs.DataSetOffP Proofs.DataSetHistory Proofs.DataSetDerived.
From SG Require Import Base.Sx Model.DataSetStore Proofs.DataSetLabels Proofs.DataSetConcat Proofs.DataSetDegenerate Entry.C18 Proofs.DataSetWire Proofs.DataSetStoreMoves.
Import ListNotations.
Open Scope Qc_scope.

(* ---- scaling to a range maps the per-dimension extremes onto the range ends ------------------------------------
   for every non-empty data set, every dimension, every valid range, first / overriding / non-overriding call alike.
   The maximum goes to hi unless the column is (nearly) constant: sklearn treats data ranges below 10*eps as zero and
   maps the whole column to lo (the two cases "range >= 10 eps" and "range = 0" are stated; between them the
   property is false for MinMaxScaler itself). *)
Theorem C18_scale_range_maps_extremes : forall lo hi ov d, wf d -> lo < hi ->
  exists d' mn mx mn' mx',
    data_min (values d) = Some mn /\ data_max (values d) = Some mx /\
    scale_range lo hi ov d = (d', false) /\
    data_min (values d') = Some mn' /\ data_max (values d') = Some mx' /\
    forall j, (j < ddim d)%nat ->
      nth j mn' 0 = lo /\
      (eps10 <= nth j mx 0 - nth j mn 0 -> nth j mx' 0 = hi) /\
      (nth j mx 0 = nth j mn 0 -> nth j mx' 0 = lo).
Proof. exact scale_range_extremes. Qed.
Print Assumptions C18_scale_range_maps_extremes.

(* ---- revert restores -------------------------------------------------------------------------------------------
   d0: any non-empty data set; o1: a first (d0 unscaled) or overriding scaling operation; ops: ANY sequence of
   non-overriding scale_range / scale_factor / shift_value calls with valid ranges, fitting float-or-array arguments and
   non-zero factors.  Then none of the calls raises, and revert_scaling gives back exactly the samples (with their
   labels, in place) that d0 held, and clears scaled / range / factor / original min / max. *)
Theorem C18_revert_restores : forall d0 ov o1 ops,
  wf d0 -> scaled d0 = false \/ ov = true ->
  op_ok (ddim d0) o1 -> Forall (op_ok (ddim d0)) ops ->
  exists d1 d2 d3,
    apply_op ov o1 d0 = (d1, false) /\ apply_ops ops d1 = (d2, false) /\ revert_scaling d2 = (d3, false) /\
    rows d3 = rows d0 /\ cleared d3.
Proof. exact revert_restores. Qed.
Print Assumptions C18_revert_restores.

(* ... also when the data set is shuffled (any valid permutation) or has its boundary samples moved to the front (any valid index
   order) between the scalings: then the original (sample, label) pairs come back up to those permutations *)
Theorem C18_revert_restores_with_moves : forall d0 ov o1 hops,
  wf d0 -> scaled d0 = false \/ ov = true ->
  op_ok (ddim d0) o1 -> Forall (hop_ok (ddim d0) (length (rows d0))) hops ->
  exists d1 d2 d3,
    apply_op ov o1 d0 = (d1, false) /\ apply_hops hops d1 = (d2, false) /\ revert_scaling d2 = (d3, false) /\
    Permutation (rows d3) (rows d0) /\ cleared d3.
Proof. exact revert_restores_with_moves. Qed.
Print Assumptions C18_revert_restores_with_moves.

(* the scaling operations never touch a label or the order of the samples (raising or not) *)
Theorem C18_scale_range_keeps_labels : forall lo hi ov d d' e, scale_range lo hi ov d = (d', e) -> map snd (rows d') = map snd (rows d).
Proof. exact scale_range_labels. Qed.
Theorem C18_scale_factor_keeps_labels : forall a ov d d' e, scale_factor a ov d = (d', e) -> map snd (rows d') = map snd (rows d).
Proof. exact scale_factor_labels. Qed.
Theorem C18_shift_value_keeps_labels : forall a ov d d' e, shift_value a ov d = (d', e) -> map snd (rows d') = map snd (rows d).
Proof. exact shift_value_labels. Qed.
Theorem C18_revert_keeps_labels : forall d d' e, revert_scaling d = (d', e) -> map snd (rows d') = map snd (rows d).
Proof. exact revert_scaling_labels. Qed.
Print Assumptions C18_revert_keeps_labels.

(* ---- sample-moving operations: Permutation over (sample, label) PAIRS = multiset kept and labels attached; attributes carried *)
Theorem C18_shuffle_preserves_multiset : forall perm d d', shuffle_with perm d = (d', false) ->
  Permutation (rows d') (rows d) /\ attrs d' = attrs d /\ shuffled d' = true.
Proof. exact shuffle_permutation. Qed.
Theorem C18_move_boundaries_preserves_multiset : forall idx d d', move_boundaries_to_front idx d = (d', false) ->
  Permutation (rows d') (rows d) /\ attrs d' = attrs d.
Proof. exact mbf_permutation. Qed.
Theorem C18_split_labels_preserves_multiset : forall d,
  Permutation (flat_map rows (split_labels d)) (rows d) /\
  Forall (fun p => attrs p = attrs d) (split_labels d) /\
  Forall (fun p => exists j, Forall (fun s => snd s = j /\ In s (rows d)) (rows p)) (split_labels d).
Proof. exact split_labels_cover. Qed.
Theorem C18_split_pieces_preserves_multiset : forall p d a b, split_pieces p d = (a, b) ->
  rows a ++ rows b = rows d /\ attrs a = attrs d /\ attrs b = attrs d.
Proof. exact split_pieces_cover. Qed.
Theorem C18_split_without_labels_preserves_multiset : forall d a b, split_without_labels d = (a, b) ->
  Forall (fun s => (-1 <= snd s)%Z) (rows d) ->
  Permutation (rows a ++ rows b) (rows d) /\
  Forall (fun s => snd s = (-1)%Z) (rows a) /\ Forall (fun s => (0 <= snd s)%Z) (rows b) /\
  attrs a = attrs d /\ attrs b = attrs d.
Proof. exact split_without_labels_cover. Qed.
(* remove_samples: for duplicate-free index lists in the code as found, for ALL accepted index lists once repaired *)
Theorem C18_remove_samples_preserves_multiset : forall v idx d d' r, remove_samples v idx d = (d', Some r) ->
  v_dedup v = true \/ NoDup idx ->
  Permutation (rows r ++ rows d') (rows d) /\ attrs d' = attrs d /\ (idx <> [] -> attrs r = attrs d).
Proof. exact remove_samples_cover. Qed.
Theorem C18_concatenate_preserves_multiset : forall v a b r, concatenate v a b = CNew r ->
  rows r = rows a ++ rows b /\ attrs r = attrs a.
Proof. exact concatenate_cover. Qed.
Print Assumptions C18_shuffle_preserves_multiset.
Print Assumptions C18_move_boundaries_preserves_multiset.
Print Assumptions C18_split_labels_preserves_multiset.
Print Assumptions C18_split_pieces_preserves_multiset.
Print Assumptions C18_split_without_labels_preserves_multiset.
Print Assumptions C18_remove_samples_preserves_multiset.
Print Assumptions C18_concatenate_preserves_multiset.

(* ---- out-of-range removal indices are rejected without modifying the data (both code variants) *)
Theorem C18_remove_out_of_range_rejected_unmodified : forall v idx d,
  (exists i, In i idx /\ (i < 0 \/ Z.of_nat (length (rows d)) <= i)%Z) -> remove_samples v idx d = (d, None).
Proof. exact remove_out_of_range_rejected. Qed.
Print Assumptions C18_remove_out_of_range_rejected_unmodified.

(* ---- "concatenation of data sets with different scalings is refused": FALSE for the faithful model ------------
   full statement that fails:  forall v a b, same_scaling v a b = Some false -> concatenate v a b = CRaise.
   (1) the outcome of concatenate does not depend on ANY scaling attribute of the other data set;
   (2) concrete witness: a range-scaled 2-sample set and an unscaled 1-sample set are joined (both code variants). *)
Theorem C18_concatenate_ignores_other_scaling : forall v a b b',
  rows b = rows b' -> ddim b = ddim b' -> flat b = flat b' -> concatenate v a b = concatenate v a b'.
Proof. exact concatenate_ignores_other_scaling. Qed.

Theorem C18_concatenate_refuses_different_scaling_refuted : forall v,
  rows wit_a <> [] /\ rows wit_b <> [] /\ same_scaling v wit_a wit_b = Some false /\
  exists r, concatenate v wit_a wit_b = CNew r /\ attrs r = attrs wit_a /\ length (rows r) = 3%nat.
Proof.
  intros [[|] [|]]; (split; [vm_compute; discriminate|]); (split; [vm_compute; discriminate|]);
    (split; [vm_compute; reflexivity|]); eexists; (split; [vm_compute; reflexivity|]); split; vm_compute; reflexivity.
Qed.
Print Assumptions C18_concatenate_ignores_other_scaling.
Print Assumptions C18_concatenate_refuses_different_scaling_refuted.

(* ---- revert on a data set whose membership changed since the scaling: FALSE for the faithful model -------------
   full statement that fails: revert_scaling restores every split piece / every set after remove_samples.
   revert re-aligns by the CURRENT minimum; witness: scale 4 samples to (0,1), split in halves, revert the second half. *)
Theorem C18_revert_after_split_refuted :
  exists d1 a b b', scale_range 0 1 false wit_d0 = (d1, false) /\ split_pieces Qchalf d1 = (a, b) /\
    revert_scaling b = (b', false) /\ rows b' <> skipn 2 (rows wit_d0).
Proof.
  do 4 eexists. split; [vm_compute; reflexivity|]. split; [vm_compute; reflexivity|].
  split; [vm_compute; reflexivity|]. vm_compute. discriminate.
Qed.
Print Assumptions C18_revert_after_split_refuted.

(* ---- remove_samples with a repeated index (code as found): removed + remaining is NOT the original multiset *)
Theorem C18_remove_duplicate_indices_refuted :
  exists d d' r, remove_samples as_found [1%Z; 1%Z] d = (d', Some r) /\ ~ Permutation (rows r ++ rows d') (rows d).
Proof.
  exists (fresh [([0], 0%Z); ([1], 1%Z); ([Qc2], (-1)%Z)]). do 2 eexists. split; [vm_compute; reflexivity|].
  intro P. apply Permutation_length in P. vm_compute in P. discriminate.
Qed.
(* ---- same_scaling on 1-dimensional factor/shift-scaled data raises (code as found); remove_samples then raises AFTER deleting *)
Theorem C18_remove_samples_loses_samples_refuted :
  same_scaling as_found wit_1d wit_1d = None /\
  exists d', remove_samples as_found [0%Z; 2%Z] wit_1d = (d', None) /\ length (rows d') = 2%nat /\
  (* ... and not in the repaired variant *)
  exists d'' r, remove_samples repaired [0%Z; 2%Z] wit_1d = (d'', Some r) /\ length (rows r) = 2%nat.
Proof.
  split; [vm_compute; reflexivity|]. eexists. split; [vm_compute; reflexivity|]. split; [vm_compute; reflexivity|].
  do 2 eexists. split; vm_compute; reflexivity.
Qed.
Print Assumptions C18_remove_duplicate_indices_refuted.
Print Assumptions C18_remove_samples_loses_samples_refuted.

(* ---- non-vacuity: a concrete non-trivial history meets the hypotheses of C18_revert_restores ------------------ *)
Example C18_nonvacuous_revert :
  wf wit_d0 /\ scaled wit_d0 = false /\ op_ok (ddim wit_d0) (OpRange 0 1) /\
  Forall (op_ok (ddim wit_d0)) [OpFactor (AScalar (- Qc2)); OpShift (AArr [1; Qchalf]); OpRange (- (1)) Qc2; OpFactor (AArr [Qc2; Qchalf])] /\
  exists d3, (let '(d1, _) := apply_op false (OpRange 0 1) wit_d0 in
              let '(d2, _) := apply_ops [OpFactor (AScalar (- Qc2)); OpShift (AArr [1; Qchalf]); OpRange (- (1)) Qc2; OpFactor (AArr [Qc2; Qchalf])] d1 in
              revert_scaling d2) = (d3, false) /\
             map (fun s => (map this (fst s), snd s)) (rows d3) = map (fun s => (map this (fst s), snd s)) (rows wit_d0).
Proof.
  split; [split; [vm_compute; discriminate | repeat constructor]|].
  split; [reflexivity|]. split; [vm_compute; reflexivity|].
  split.
  - repeat constructor; try (vm_compute; reflexivity); try (vm_compute; discriminate).
  - eexists. split; vm_compute; reflexivity.
Qed.

Example C18_nonvacuous_scale_range : wf wit_d0 /\ (0 : Qc) < 1 /\ ddim wit_d0 = 2%nat.
Proof. split; [split; [vm_compute; discriminate | repeat constructor] | split; reflexivity]. Qed.

Example C18_nonvacuous_moves :
  exists d' r, remove_samples as_found [2%Z; 0%Z] wit_d0 = (d', Some r) /\ NoDup [2%Z; 0%Z] /\ length (rows r) = 2%nat /\
  length (split_labels wit_d0) = 2%nat /\
  exists m, move_boundaries_to_front [3; 0; 1]%nat wit_d0 = (m, false) /\ rows m <> rows wit_d0.
Proof.
  do 2 eexists. split; [vm_compute; reflexivity|]. split; [repeat constructor; simpl; intuition discriminate|].
  split; [vm_compute; reflexivity|]. split; [vm_compute; reflexivity|].
  eexists. split; [vm_compute; reflexivity|]. vm_compute. discriminate.
Qed.


(* ==================================================================================================================
   Deepening round.  (A) the code as found: exact behaviour of revert_scaling on data sets whose membership changed;
   (B) the proposed repairs (Model/DataSetOff.v: accumulated offset + comparison of the accumulated maps in concatenate):
   the property's revert clause and refusal clause hold for EVERY history on a store of data sets; (C) remove_labels.
   ================================================================================================================== *)

(* ---- (A) every sample-moving operation of the class acts on the rows by positions and labels only ("natural": it commutes with
   any map on the samples and hands out only samples that were there), and the derived data sets carry the attributes of their source *)
Theorem C18_moving_operations_are_natural :
  (forall m k, natural_on m (firstn k) /\ natural_on m (skipn k)) /\
  (forall m (p : Z -> bool), natural_on m (filter (fun s => p (snd s)))) /\
  (forall m ix, Forall (fun i => (i < m)%nat) ix -> natural_on m (pick ix)) /\
  (forall m idx, idx_valid idx m = true -> natural_on m (swap_loop dflt_sample 0 idx)) /\
  (forall p d, split_pieces p d =
     (with_attrs d (firstn (split_index p (length (rows d))) (rows d)), with_attrs d (skipn (split_index p (length (rows d))) (rows d)))) /\
  (forall d, split_labels d = map (fun j => with_attrs d (label_part j (rows d))) (distinct_labels (rows d))) /\
  (forall d, split_without_labels d =
     (with_attrs d (label_part (-1)%Z (rows d)), with_attrs d (filter (fun s => Z.leb 0 (snd s)) (rows d)))) /\
  (forall v idx d d' r, remove_samples v idx d = (d', Some r) ->
     exists ni keep, Forall (fun i => (i < length (rows d))%nat) ni /\ Forall (fun i => (i < length (rows d))%nat) keep /\
       d' = set_rows d (pick keep (rows d)) /\ (idx <> [] -> r = with_attrs d (pick ni (rows d)))).
Proof.
  split; [intros m k; split; [apply natural_firstn | apply natural_skipn]|].
  split; [exact natural_filter_label|]. split; [exact natural_pick|]. split; [exact natural_swap_loop|].
  split; [exact split_pieces_form|]. split; [exact split_labels_form|]. split; [exact split_without_labels_form | exact remove_samples_form].
Qed.
Print Assumptions C18_moving_operations_are_natural.

(* revert_scaling (code as found) on ANY data set derived by a natural operation g (a split piece, the removed or the remaining samples
   of remove_samples, a shuffled or front-moved set ...) from a set that went through a first/overriding scaling and ANY history of
   non-overriding scalings: it succeeds and returns the derived original samples SHIFTED by
   (per-dimension minimum of the whole original set) - (per-dimension minimum of the derived original samples);
   it restores them exactly iff these minima agree (e.g. the piece still holds a minimum-attaining sample of every dimension - which is
   what Classification's move_boundaries_to_front before split_pieces ensures for the learning piece).
   This is the exact form of the known finding C18-revert-on-subset (the refutation witness C18_revert_after_split_refuted is an instance). *)
Theorem C18_revert_on_derived_set : forall d0 ov o1 ops g, wf d0 -> scaled d0 = false \/ ov = true ->
  op_ok (ddim d0) o1 -> Forall (op_ok (ddim d0)) ops ->
  natural_on (length (rows d0)) g -> g (rows d0) <> [] ->
  exists d1 d2 p' m0 mR,
    apply_op ov o1 d0 = (d1, false) /\ apply_ops ops d1 = (d2, false) /\
    data_min (values d0) = Some m0 /\ data_min (map fst (g (rows d0))) = Some mR /\
    revert_scaling (with_attrs d2 (g (rows d2))) = (p', false) /\
    rows p' = map_rows (fun r => vadd r (vsub m0 mR)) (g (rows d0)) /\ cleared p' /\
    (rows p' = g (rows d0) <-> m0 = mR).
Proof. exact revert_on_derived. Qed.
Print Assumptions C18_revert_on_derived_set.

(* the same at the level of the tracking invariant (any further non-overriding scalings on the derived set are covered by the bstep lemmas):
   d is the affine image of a reference list R under its accumulated factor; then revert_scaling gives R shifted by
   (_original_min - column minimum of R) *)
Theorem C18_revert_of_tracked_set : forall n d R fv cv om mR, InvB n d R fv cv -> R <> [] ->
  omin d = Some om -> length om = n -> data_min (map fst R) = Some mR ->
  exists d3, revert_scaling d = (d3, false) /\ rows d3 = map_rows (fun r => vadd r (vsub om mR)) R /\ cleared d3.
Proof. exact revert_under_invb. Qed.
Print Assumptions C18_revert_of_tracked_set.

(* ---- (B) the repaired class (fixes/C18-revert-accumulated-offset.patch, fixes/C18-concatenate-refuses-different-maps.patch) ------
   the extended model with the repairs switched off is the model of the first release *)
Theorem C18_extended_model_as_found : forall d,
  (forall lo hi ov, scale_range_o false lo hi ov d = (let '(b, e) := scale_range lo hi ov (base d) in (lift d b, e))) /\
  (forall a ov, scale_factor_o false a ov d = (let '(b, e) := scale_factor a ov (base d) in (lift d b, e))) /\
  (forall a ov, shift_value_o false a ov d = (let '(b, e) := shift_value a ov (base d) in (lift d b, e))) /\
  revert_o false d = (let '(b, e) := revert_scaling (base d) in (lift d b, e)) /\
  (forall v b, v_refuse v = false -> concatenate_o v d b =
     match concatenate (v_base v) (base d) (base b) with CNew r => CNewO (lift d r) | CSelf => CSelfO | COther => COtherO | CRaise => CRaiseO end).
Proof.
  intro d. split; [intros lo hi ov; unfold scale_range_o; destruct (scale_range lo hi ov (base d)) as [b e]; rewrite orb_true_r; reflexivity|].
  split; [intros a ov; unfold scale_factor_o; destruct (scale_factor a ov (base d)) as [b e]; rewrite orb_true_r; reflexivity|].
  split; [intros a ov; unfold shift_value_o; destruct (shift_value a ov (base d)) as [b e]; rewrite orb_true_r; reflexivity|].
  split; [reflexivity|]. intros v b Hv. unfold concatenate_o. rewrite Hv. reflexivity.
Qed.
Print Assumptions C18_extended_model_as_found.

(* the machine: tstep executes one DataSet operation on a store and moves the ghost reference lists along; trun a whole history *)
(* a fresh rectangular data set is tracked by its own rows *)
Theorem C18_repaired_fresh_tracked : forall r, Forall (fun s => length (fst s) = dim_of r) r -> (r <> [] -> dim_of r <> 0%nat) ->
  Tracked (fresh_o r, r).
Proof. exact fresh_tracked. Qed.

(* EVERY admissible history (any operations on any handles, raising or not, with and without override; excluded: zero scaling factors and -
   unless concatenate refuses them itself - concatenations of non-empty sets with DIFFERENT accumulated maps, i.e. exactly the situation of
   the known finding C18-concatenate-ignores-other-scaling) keeps every data set of the store tracked:
   unscaled = its reference list; scaled = affine image of it under the accumulated (factor, offset).
   This is the statement for the FIRST repair alone (revert with accumulated offset). *)
Theorem C18_repaired_history_tracked : forall v ops st, hist_adm v st ops -> Forall Tracked st -> Forall Tracked (trun v st ops).
Proof. intros v ops st. exact (history_tracked v ops st). Qed.

(* with the second repair (concatenate compares the accumulated maps) no side condition on concatenate is left *)
Theorem C18_repaired_history_tracked_refusing : forall v ops, v_refuse v = true -> Forall sop_ok ops ->
  forall st, Forall Tracked st -> Forall Tracked (trun v st ops).
Proof. exact history_tracked_refusing. Qed.

(* ... hence every successful revert_scaling, at any point of any history, returns EXACTLY the reference list: the samples (with their
   labels) as they were before the first scaling since the last overriding rescale, moved along by the sample-moving operations
   (split pieces, removed / remaining samples, concatenations, copies included) - and clears the scaling attributes *)
Theorem C18_repaired_revert_restores_in_any_history : forall d R d', Tracked (d, R) -> revert_o true d = (d', false) ->
  rows (base d') = R /\ cleared (base d') /\ soff d' = FNone.
Proof. exact tracked_revert_restores. Qed.

(* the ghost reference lists are pure bookkeeping of the statement: they never influence the data sets *)
Theorem C18_repaired_ghost_erasure : forall v (st st' : list tds) o, map fst st = map fst st' ->
  map fst (tstep v st o) = map fst (tstep v st' o).
Proof. exact tstep_erasure. Qed.

(* the refusal clause holds: a non-empty data set with another accumulated map (or another scaled flag) is never joined *)
Theorem C18_repaired_concatenate_refuses_different_maps : forall v a b, v_refuse v = true -> is_empty (base b) = false ->
  same_affine a b = false -> forall r, concatenate_o v a b <> CNewO r.
Proof. exact concatenate_refuses_different_maps. Qed.

(* ... and revert_scaling restores the reference list of a scaled tracked set exactly, whatever its membership *)
Theorem C18_repaired_revert_restores : forall n d R fv cv, InvO n d R fv cv -> R <> [] ->
  exists d3, revert_o true d = (d3, false) /\ rows (base d3) = R /\ cleared (base d3) /\ soff d3 = FNone.
Proof. exact revert_o_restores. Qed.
Print Assumptions C18_repaired_fresh_tracked.
Print Assumptions C18_repaired_history_tracked.
Print Assumptions C18_repaired_history_tracked_refusing.
Print Assumptions C18_repaired_revert_restores_in_any_history.
Print Assumptions C18_repaired_ghost_erasure.
Print Assumptions C18_repaired_concatenate_refuses_different_maps.
Print Assumptions C18_repaired_revert_restores.

(* ---- (C) remove_labels (any admissible or inadmissible index list): the multiset of samples, the scaling attributes and _dim stay *)
Theorem C18_remove_labels_keeps_samples : forall p idx d, Forall (fun s => (-1 <= snd s)%Z) (rows d) ->
  Permutation (map fst (rows (remove_labels p idx d))) (map fst (rows d)) /\ attrs (remove_labels p idx d) = attrs d /\
  ddim (remove_labels p idx d) = ddim d.
Proof. exact remove_labels_keeps_samples. Qed.
Print Assumptions C18_remove_labels_keeps_samples.

(* ---- non-vacuity ------------------------------------------------------------------------------------------------ *)
Definition strip (l : list sample) := map (fun s => (map this (fst s), snd s)) l.

(* the history of the known finding (scale 4 samples to (0,1), split in halves, scale the second half by -2, revert it) on the repaired
   model: admissible, from a tracked store, and the second half comes back exactly (contrast: C18_revert_after_split_refuted) *)
Example C18_nonvacuous_repaired_history :
  let st0 := [(fresh_o (rows wit_d0), rows wit_d0)] in
  let ops := [SRange 0 0 1 false; SSplitPieces 0 Qchalf; SFactor 2 (AScalar (- Qc2)) false; SMbf 2 [1; 0]%nat; SRevert 2] in
  Forall Tracked st0 /\ Forall sop_ok ops /\ hist_adm (mkV2 repaired true false) st0 ops /\
  match nth_error (trun repaired2 st0 ops) 2 with
  | Some (d, R) => trun (mkV2 repaired true false) st0 ops = trun repaired2 st0 ops /\
                   scaled (base d) = false /\ strip (rows (base d)) = strip R /\
                   strip R = strip (swap_loop dflt_sample 0 [1; 0]%nat (skipn 2 (rows wit_d0))) /\ length R = 2%nat
  | None => False
  end.
Proof.
  cbv zeta. split.
  - constructor; [|constructor]. apply fresh_tracked; [repeat constructor | intros _; vm_compute; discriminate].
  - split; [repeat constructor; vm_compute; discriminate|].
    split; [cbn [hist_adm]; repeat split; try exact I; vm_compute; discriminate|]. vm_compute. repeat split; reflexivity.
Qed.

(* the characterisation (A) is not vacuous and the shift is not zero: second half of wit_d0 *)
Example C18_nonvacuous_derived :
  natural_on (length (rows wit_d0)) (skipn 2) /\ skipn 2 (rows wit_d0) <> [] /\
  exists m0 mR, data_min (values wit_d0) = Some m0 /\ data_min (map fst (skipn 2 (rows wit_d0))) = Some mR /\ m0 <> mR.
Proof.
  split; [apply natural_skipn|]. split; [vm_compute; discriminate|].
  do 2 eexists. split; [vm_compute; reflexivity|]. split; [vm_compute; reflexivity|]. vm_compute. discriminate.
Qed.

(* a refused concatenation: range-scaled set with an unscaled one (accepted by the code as found: C18_concatenate_refuses_different_scaling_refuted) *)
Example C18_nonvacuous_refusal :
  is_empty wit_b = false /\ same_affine (mkDSO wit_a (FArr [0; Qchalf - Qc2 * Qchalf * Qchalf])) (mkDSO wit_b FNone) = false /\
  concatenate_o repaired2 (mkDSO wit_a (FArr [0; 0])) (mkDSO wit_b FNone) = CRaiseO.
Proof. split; [reflexivity|]. split; vm_compute; reflexivity. Qed.

(* a history with a concatenation that is admissible WITHOUT the second repair (two pieces of one lineage, same accumulated map):
   the joined set (second half ++ first half) is restored exactly *)
Example C18_nonvacuous_repaired_concat :
  let v := mkV2 repaired true false in
  let st0 := [(fresh_o (rows wit_d0), rows wit_d0)] in
  let ops := [SRange 0 0 1 false; SSplitPieces 0 Qchalf; SConcat 2 1; SShift 3 (AScalar 1) false; SRevert 3] in
  Forall Tracked st0 /\ hist_adm v st0 ops /\
  match nth_error (trun v st0 ops) 3 with
  | Some (d, R) => scaled (base d) = false /\ strip (rows (base d)) = strip (skipn 2 (rows wit_d0) ++ firstn 2 (rows wit_d0)) /\ strip R = strip (rows (base d))
  | None => False
  end.
Proof.
  cbv zeta. split.
  - constructor; [|constructor]. apply fresh_tracked; [repeat constructor | intros _; vm_compute; discriminate].
  - split.
    + cbn [hist_adm]. split; [split; exact I|]. split; [split; exact I|]. split.
      * split; [exact I|]. right. right. vm_compute. reflexivity.
      * split; [split; exact I|]. split; [split; exact I | exact I].
    + vm_compute. repeat split; reflexivity.
Qed.

(* ---- value semantics of the store (object-identity effects): every operation writes at most the data set it is called on and appends
   its results; any other data set of the store - whatever arrays it was built from, sliced from or derived from - stays exactly as it
   was.  The Python objects can deviate from this only through shared numpy arrays (constructor arguments kept as views, arrays handed
   on by _update_internal); the check observes such effects as differences to this model and through the implementation-side
   predicates `operation-changes-other-dataset` and `argument-mutated`. *)
Theorem C18_operations_touch_only_their_own_data_set : forall v (st : list tds) o k, (k < length st)%nat -> writes o <> Some k ->
  nth_error (tstep v st o) k = nth_error st k.
Proof. exact tstep_frame. Qed.
Print Assumptions C18_operations_touch_only_their_own_data_set.


(* ==================================================================================================================
   Phase 3.
   ================================================================================================================== *)

(* ---- (1) the wire machine IS the machine of the theorems.  Entry/C18.v decodes a wire operation (dec_op) and lets the store evolve by
   sstep_res of Model/DataSetStore.v; tstep (the machine of C18_repaired_history_tracked, now with remove_labels and split_one_vs_others)
   is that machine plus the ghost reference lists.  So the extracted correspondence runs exactly the proved machine. *)
Theorem C18_wire_step_is_store_machine : forall v st op o, dec_op op = Some o -> fst (step2 v st op) = sstep v st o.
Proof. exact step2_is_sstep. Qed.
Theorem C18_history_machine_is_store_machine : forall v (gst : list tds) o, v_offset v = true ->
  map fst (tstep v gst o) = sstep v (map fst gst) o.
Proof. exact tstep_is_sstep. Qed.
Theorem C18_wire_run_is_history_run : forall v ops sops, v_offset v = true -> map dec_op ops = map Some sops ->
  forall (gst : list tds), stores2 v (map fst gst) ops = map fst (trun v gst sops).
Proof. exact run2_is_trun. Qed.
(* the remaining wire operations (same_scaling, getters) never write; only the harness-directed re-synchronisation (13) replaces a data set *)
Theorem C18_wire_other_operations_do_not_write : forall v st op, dec_op op = None ->
  (forall h snap, op <> Lv [Zv 13; Zv h; snap]) -> fst (step2 v st op) = st.
Proof. exact step_other_frame. Qed.
Print Assumptions C18_wire_step_is_store_machine.
Print Assumptions C18_history_machine_is_store_machine.
Print Assumptions C18_wire_run_is_history_run.
Print Assumptions C18_wire_other_operations_do_not_write.

(* ---- (2) remove_labels and split_one_vs_others inside the history machine (constructors SRemoveLabels / SOneVsOthers of sop: covered by
   C18_repaired_history_tracked, C18_repaired_ghost_erasure, C18_operations_touch_only_their_own_data_set above, whose statements
   quantify over all operations of the extended type).  remove_labels is a natural row operation ... *)
Theorem C18_remove_labels_is_natural : forall p idx d m,
  remove_labels p idx d = set_rows_rebuilt d (rl_rows idx (rows d)) /\ natural_on m (rl_rows idx).
Proof. intros p idx d m. split; [apply remove_labels_form | apply natural_rl_rows]. Qed.
(* ... and split_one_vs_others (any label order handed in; None = the IndexError of class_numbers[label]) returns, per label of the order,
   the samples of self in place, label 1 exactly on the samples of that class and one label in [-1, 0] on all others *)
Theorem C18_split_one_vs_others_keeps_samples : forall order d sets, split_one_vs_others order d = Some sets ->
  Forall2 (fun j s =>
     map fst s = values d /\
     Forall2 (fun src x => fst x = fst src /\ (snd src = j -> snd x = 1) /\ (snd src <> j -> - (1) <= snd x /\ snd x <= 0)) (rows d) s)
   order sets.
Proof. exact split_one_vs_others_keeps_samples. Qed.
Print Assumptions C18_remove_labels_is_natural.
Print Assumptions C18_split_one_vs_others_keeps_samples.

(* ---- (3) concatenate on the repaired-offset model.  EQUAL accumulated maps: the joined set holds exactly the union of the operands'
   samples, is the affine image of the joined reference lists, and revert_scaling restores BOTH operands (any code variant v) *)
Theorem C18_concatenate_equal_maps_restores_both : forall v n a b Ra Rb fv cv r,
  InvO n a Ra fv cv -> InvO n b Rb fv cv -> Ra ++ Rb <> [] -> concatenate_o v a b = CNewO r ->
  rows (base r) = rows (base a) ++ rows (base b) /\
  Permutation (rows (base r)) (rows (base a) ++ rows (base b)) /\
  InvO n r (Ra ++ Rb) fv cv /\
  exists r', revert_o true r = (r', false) /\ rows (base r') = Ra ++ Rb /\ cleared (base r') /\ soff r' = FNone.
Proof. exact concatenate_equal_maps_restores_both. Qed.
(* UNEQUAL maps (range-scaled set + factor-scaled set): accepted as long as concatenate does not compare the maps, and then revert_scaling
   restores the first operand but not the second; refused (CRaiseO) by the coordinated repair *)
Theorem C18_concatenate_unequal_maps_refuted :
  same_affine cw_a cw_b = false /\
  exists r r', concatenate_o (mkV2 repaired true false) cw_a cw_b = CNewO r /\ revert_o true r = (r', false) /\
    strip_q (firstn 2 (rows (base r'))) = strip_q cw_Ra /\ strip_q (skipn 2 (rows (base r'))) <> strip_q cw_Rb /\
    concatenate_o repaired2 cw_a cw_b = CRaiseO.
Proof. exact concatenate_unequal_maps_refuted. Qed.
Print Assumptions C18_concatenate_equal_maps_restores_both.
Print Assumptions C18_concatenate_unequal_maps_refuted.

(* ---- (4) scale_range column by column INCLUDING the degenerate column (0 <= data range < 10 eps): sklearn replaces such a range by 1,
   so the column is moved to lo and stretched by (hi - lo) only - it stays within [lo, lo + 10 eps (hi - lo)): "mapped to the lower end".
   Together with the regular case this closes the gap left in C18_scale_range_maps_extremes. *)
Theorem C18_scale_range_every_column : forall lo hi ov d, wf d -> lo < hi ->
  exists d' mn mx mn' mx',
    data_min (values d) = Some mn /\ data_max (values d) = Some mx /\
    scale_range lo hi ov d = (d', false) /\
    data_min (values d') = Some mn' /\ data_max (values d') = Some mx' /\
    forall j, (j < ddim d)%nat ->
      nth j mn' 0 = lo /\
      (eps10 <= nth j mx 0 - nth j mn 0 -> nth j mx' 0 = hi) /\
      (nth j mx 0 - nth j mn 0 < eps10 ->
         nth j mx' 0 = lo + (nth j mx 0 - nth j mn 0) * (hi - lo) /\ lo <= nth j mx' 0 /\ nth j mx' 0 < lo + eps10 * (hi - lo)).
Proof. exact scale_range_every_column. Qed.
Print Assumptions C18_scale_range_every_column.

(* ---- non-vacuity *)
Example C18_nonvacuous_wire : exists o, dec_op (Lv [Zv 15; Zv 0; Lv [Zv 1; Zv 2]; Lv [Zv 0]]) = Some o /\ o = SRemoveLabels 0 Qchalf [0%nat].
Proof. eexists. split; [vm_compute; reflexivity|]. reflexivity. Qed.

Example C18_nonvacuous_label_ops :
  let st0 := [(fresh_o (rows wit_d0), rows wit_d0)] in
  let ops := [SRange 0 0 1 false; SRemoveLabels 0 Qchalf [1%nat]; SOneVsOthers 0 [0%Z; 1%Z; (-1)%Z]; SRevert 0] in
  hist_adm (mkV2 repaired true false) st0 ops /\
  match nth_error (trun (mkV2 repaired true false) st0 ops) 0 with
  | Some (d, R) => strip (rows (base d)) = strip R /\ map snd R = [0%Z; (-1)%Z; 0%Z; 1%Z] /\ Permutation (map fst (strip R)) (map fst (strip (rows wit_d0)))
  | None => False
  end /\
  exists sets, split_one_vs_others [0%Z; 1%Z] (fresh (rows wit_d0)) = Some sets /\ length sets = 2%nat.
Proof.
  cbv zeta. split; [cbn [hist_adm]; repeat split; exact I|]. split.
  - vm_compute. split; [reflexivity|]. split; [reflexivity|]. apply Permutation_refl.
  - eexists. split; vm_compute; reflexivity.
Qed.

(* a degenerate column: data range 2^-60 < 10 eps; a regular one next to it *)
Example C18_nonvacuous_degenerate :
  let d := fresh [([0; 0], 0%Z); ([Q2Qc (1 # 1152921504606846976); 1], 1%Z)] in
  wf d /\ (Q2Qc (1 # 1152921504606846976) - 0 < eps10) /\ (eps10 <= 1 - 0).
Proof. cbv zeta. split; [split; [discriminate | repeat constructor]|]. split; vm_compute; reflexivity || (intro; discriminate). Qed.


(* ---- (2') multiset preservation at the level of the store machine = the wire machine, from ANY store (hence at every step of every
   history): shuffle / move_boundaries_to_front permute the (sample, label) pairs; the splits, remove_samples and concatenate partition /
   join them; remove_labels keeps the multiset of samples; copy duplicates; split_one_vs_others leaves the store alone (its result sets:
   C18_split_one_vs_others_keeps_samples).  See moves_ok in Proofs/DataSetStoreMoves.v for the per-operation statement. *)
Theorem C18_store_machine_moves_keep_multiset : forall v st o, moves_ok v st o.
Proof. exact sstep_moves_keep_multiset. Qed.
Print Assumptions C18_store_machine_moves_keep_multiset.

Example C18_nonvacuous_store_moves :
  let st := [fresh_o (rows wit_d0)] in
  labels_ok (fresh_o (rows wit_d0)) /\
  exists d', nth_error (sstep repaired2 st (SRemoveLabels 0 Qchalf [0%nat; 2%nat])) 0 = Some d' /\
    map snd (rows (base d')) = [(-1)%Z; 1%Z; (-1)%Z; 1%Z] /\ length (sstep repaired2 st (SSplitLabels 0)) = 3%nat.
Proof. cbv zeta. split; [repeat constructor; vm_compute; discriminate|]. eexists. split; [vm_compute; reflexivity|]. split; vm_compute; reflexivity. Qed.
