(* C18 — DataSet transformations preserve the labelled samples.
   Property theorems only; each is closed by `exact` of a lemma from Proofs/ (or is a concrete `_refuted` witness).
   Model: Model/DataSet.v (value semantics of sparseSpACE/DEMachineLearning.py class DataSet, exact rationals). *)
From Coq Require Import ZArith List QArith Qcanon Bool Permutation.
From SG Require Import Base.QcUtil Model.DataSet Proofs.DataSetVec Proofs.DataSetScale Proofs.DataSetRevert Proofs.DataSetMove
  Proofs.DataSetRevertPerm Proofs.DataSetWitness.
Import ListNotations.
Open Scope Qc_scope.

(* ---- scaling to a range maps the per-dimension extremes onto the range ends ------------------------------------
   for every non-empty data set, every dimension, every valid range, first / overriding / non-overriding call alike.
   The maximum goes to hi unless the column is (nearly) constant: sklearn treats data ranges below 10*eps as zero and
   maps the whole column to lo (the two cases "range >= 10 eps" and "range = 0" are stated; between them the
   property is false for MinMaxScaler itself). *)
Theorem C18_scale_range_maps_extremes : forall lo hi ov d, wf d -> lo < hi ->
  exists d' mn mx mn' mx',
    data_min (values d) = Some mn /\ data_max (values d) = Some mx /\
    scale_range lo hi ov d = (d', false) /\
    data_min (values d') = Some mn' /\ data_max (values d') = Some mx' /\
    forall j, (j < ddim d)%nat ->
      nth j mn' 0 = lo /\
      (eps10 <= nth j mx 0 - nth j mn 0 -> nth j mx' 0 = hi) /\
      (nth j mx 0 = nth j mn 0 -> nth j mx' 0 = lo).
Proof. exact scale_range_extremes. Qed.
Print Assumptions C18_scale_range_maps_extremes.

(* ---- revert restores -------------------------------------------------------------------------------------------
   d0: any non-empty data set; o1: a first (d0 unscaled) or overriding scaling operation; ops: ANY sequence of
   non-overriding scale_range / scale_factor / shift_value calls with valid ranges, fitting float-or-array arguments and
   non-zero factors.  Then none of the calls raises, and revert_scaling gives back exactly the samples (with their
   labels, in place) that d0 held, and clears scaled / range / factor / original min / max. *)
Theorem C18_revert_restores : forall d0 ov o1 ops,
  wf d0 -> scaled d0 = false \/ ov = true ->
  op_ok (ddim d0) o1 -> Forall (op_ok (ddim d0)) ops ->
  exists d1 d2 d3,
    apply_op ov o1 d0 = (d1, false) /\ apply_ops ops d1 = (d2, false) /\ revert_scaling d2 = (d3, false) /\
    rows d3 = rows d0 /\ cleared d3.
Proof. exact revert_restores. Qed.
Print Assumptions C18_revert_restores.

(* ... also when the data set is shuffled (any valid permutation) or has its boundary samples moved to the front (any valid index
   order) between the scalings: then the original (sample, label) pairs come back up to those permutations *)
Theorem C18_revert_restores_with_moves : forall d0 ov o1 hops,
  wf d0 -> scaled d0 = false \/ ov = true ->
  op_ok (ddim d0) o1 -> Forall (hop_ok (ddim d0) (length (rows d0))) hops ->
  exists d1 d2 d3,
    apply_op ov o1 d0 = (d1, false) /\ apply_hops hops d1 = (d2, false) /\ revert_scaling d2 = (d3, false) /\
    Permutation (rows d3) (rows d0) /\ cleared d3.
Proof. exact revert_restores_with_moves. Qed.
Print Assumptions C18_revert_restores_with_moves.

(* the scaling operations never touch a label or the order of the samples (raising or not) *)
Theorem C18_scale_range_keeps_labels : forall lo hi ov d d' e, scale_range lo hi ov d = (d', e) -> map snd (rows d') = map snd (rows d).
Proof. exact scale_range_labels. Qed.
Theorem C18_scale_factor_keeps_labels : forall a ov d d' e, scale_factor a ov d = (d', e) -> map snd (rows d') = map snd (rows d).
Proof. exact scale_factor_labels. Qed.
Theorem C18_shift_value_keeps_labels : forall a ov d d' e, shift_value a ov d = (d', e) -> map snd (rows d') = map snd (rows d).
Proof. exact shift_value_labels. Qed.
Theorem C18_revert_keeps_labels : forall d d' e, revert_scaling d = (d', e) -> map snd (rows d') = map snd (rows d).
Proof. exact revert_scaling_labels. Qed.
Print Assumptions C18_revert_keeps_labels.

(* ---- sample-moving operations: Permutation over (sample, label) PAIRS = multiset kept and labels attached; attributes carried *)
Theorem C18_shuffle_preserves_multiset : forall perm d d', shuffle_with perm d = (d', false) ->
  Permutation (rows d') (rows d) /\ attrs d' = attrs d /\ shuffled d' = true.
Proof. exact shuffle_permutation. Qed.
Theorem C18_move_boundaries_preserves_multiset : forall idx d d', move_boundaries_to_front idx d = (d', false) ->
  Permutation (rows d') (rows d) /\ attrs d' = attrs d.
Proof. exact mbf_permutation. Qed.
Theorem C18_split_labels_preserves_multiset : forall d,
  Permutation (flat_map rows (split_labels d)) (rows d) /\
  Forall (fun p => attrs p = attrs d) (split_labels d) /\
  Forall (fun p => exists j, Forall (fun s => snd s = j /\ In s (rows d)) (rows p)) (split_labels d).
Proof. exact split_labels_cover. Qed.
Theorem C18_split_pieces_preserves_multiset : forall p d a b, split_pieces p d = (a, b) ->
  rows a ++ rows b = rows d /\ attrs a = attrs d /\ attrs b = attrs d.
Proof. exact split_pieces_cover. Qed.
Theorem C18_split_without_labels_preserves_multiset : forall d a b, split_without_labels d = (a, b) ->
  Forall (fun s => (-1 <= snd s)%Z) (rows d) ->
  Permutation (rows a ++ rows b) (rows d) /\
  Forall (fun s => snd s = (-1)%Z) (rows a) /\ Forall (fun s => (0 <= snd s)%Z) (rows b) /\
  attrs a = attrs d /\ attrs b = attrs d.
Proof. exact split_without_labels_cover. Qed.
(* remove_samples: for duplicate-free index lists in the code as found, for ALL accepted index lists once repaired *)
Theorem C18_remove_samples_preserves_multiset : forall v idx d d' r, remove_samples v idx d = (d', Some r) ->
  v_dedup v = true \/ NoDup idx ->
  Permutation (rows r ++ rows d') (rows d) /\ attrs d' = attrs d /\ (idx <> [] -> attrs r = attrs d).
Proof. exact remove_samples_cover. Qed.
Theorem C18_concatenate_preserves_multiset : forall v a b r, concatenate v a b = CNew r ->
  rows r = rows a ++ rows b /\ attrs r = attrs a.
Proof. exact concatenate_cover. Qed.
Print Assumptions C18_shuffle_preserves_multiset.
Print Assumptions C18_move_boundaries_preserves_multiset.
Print Assumptions C18_split_labels_preserves_multiset.
Print Assumptions C18_split_pieces_preserves_multiset.
Print Assumptions C18_split_without_labels_preserves_multiset.
Print Assumptions C18_remove_samples_preserves_multiset.
Print Assumptions C18_concatenate_preserves_multiset.

(* ---- out-of-range removal indices are rejected without modifying the data (both code variants) *)
Theorem C18_remove_out_of_range_rejected_unmodified : forall v idx d,
  (exists i, In i idx /\ (i < 0 \/ Z.of_nat (length (rows d)) <= i)%Z) -> remove_samples v idx d = (d, None).
Proof. exact remove_out_of_range_rejected. Qed.
Print Assumptions C18_remove_out_of_range_rejected_unmodified.

(* ---- "concatenation of data sets with different scalings is refused": FALSE for the faithful model ------------
   full statement that fails:  forall v a b, same_scaling v a b = Some false -> concatenate v a b = CRaise.
   (1) the outcome of concatenate does not depend on ANY scaling attribute of the other data set;
   (2) concrete witness: a range-scaled 2-sample set and an unscaled 1-sample set are joined (both code variants). *)
Theorem C18_concatenate_ignores_other_scaling : forall v a b b',
  rows b = rows b' -> ddim b = ddim b' -> flat b = flat b' -> concatenate v a b = concatenate v a b'.
Proof. exact concatenate_ignores_other_scaling. Qed.

Theorem C18_concatenate_refuses_different_scaling_refuted : forall v,
  rows wit_a <> [] /\ rows wit_b <> [] /\ same_scaling v wit_a wit_b = Some false /\
  exists r, concatenate v wit_a wit_b = CNew r /\ attrs r = attrs wit_a /\ length (rows r) = 3%nat.
Proof.
  intros [[|] [|]]; (split; [vm_compute; discriminate|]); (split; [vm_compute; discriminate|]);
    (split; [vm_compute; reflexivity|]); eexists; (split; [vm_compute; reflexivity|]); split; vm_compute; reflexivity.
Qed.
Print Assumptions C18_concatenate_ignores_other_scaling.
Print Assumptions C18_concatenate_refuses_different_scaling_refuted.

(* ---- revert on a data set whose membership changed since the scaling: FALSE for the faithful model -------------
   full statement that fails: revert_scaling restores every split piece / every set after remove_samples.
   revert re-aligns by the CURRENT minimum; witness: scale 4 samples to (0,1), split in halves, revert the second half. *)
Theorem C18_revert_after_split_refuted :
  exists d1 a b b', scale_range 0 1 false wit_d0 = (d1, false) /\ split_pieces Qchalf d1 = (a, b) /\
    revert_scaling b = (b', false) /\ rows b' <> skipn 2 (rows wit_d0).
Proof.
  do 4 eexists. split; [vm_compute; reflexivity|]. split; [vm_compute; reflexivity|].
  split; [vm_compute; reflexivity|]. vm_compute. discriminate.
Qed.
Print Assumptions C18_revert_after_split_refuted.

(* ---- remove_samples with a repeated index (code as found): removed + remaining is NOT the original multiset *)
Theorem C18_remove_duplicate_indices_refuted :
  exists d d' r, remove_samples as_found [1%Z; 1%Z] d = (d', Some r) /\ ~ Permutation (rows r ++ rows d') (rows d).
Proof.
  exists (fresh [([0], 0%Z); ([1], 1%Z); ([Qc2], (-1)%Z)]). do 2 eexists. split; [vm_compute; reflexivity|].
  intro P. apply Permutation_length in P. vm_compute in P. discriminate.
Qed.
(* ---- same_scaling on 1-dimensional factor/shift-scaled data raises (code as found); remove_samples then raises AFTER deleting *)
Theorem C18_remove_samples_loses_samples_refuted :
  same_scaling as_found wit_1d wit_1d = None /\
  exists d', remove_samples as_found [0%Z; 2%Z] wit_1d = (d', None) /\ length (rows d') = 2%nat /\
  (* ... and not in the repaired variant *)
  exists d'' r, remove_samples repaired [0%Z; 2%Z] wit_1d = (d'', Some r) /\ length (rows r) = 2%nat.
Proof.
  split; [vm_compute; reflexivity|]. eexists. split; [vm_compute; reflexivity|]. split; [vm_compute; reflexivity|].
  do 2 eexists. split; vm_compute; reflexivity.
Qed.
Print Assumptions C18_remove_duplicate_indices_refuted.
Print Assumptions C18_remove_samples_loses_samples_refuted.

(* ---- non-vacuity: a concrete non-trivial history meets the hypotheses of C18_revert_restores ------------------ *)
Example C18_nonvacuous_revert :
  wf wit_d0 /\ scaled wit_d0 = false /\ op_ok (ddim wit_d0) (OpRange 0 1) /\
  Forall (op_ok (ddim wit_d0)) [OpFactor (AScalar (- Qc2)); OpShift (AArr [1; Qchalf]); OpRange (- (1)) Qc2; OpFactor (AArr [Qc2; Qchalf])] /\
  exists d3, (let '(d1, _) := apply_op false (OpRange 0 1) wit_d0 in
              let '(d2, _) := apply_ops [OpFactor (AScalar (- Qc2)); OpShift (AArr [1; Qchalf]); OpRange (- (1)) Qc2; OpFactor (AArr [Qc2; Qchalf])] d1 in
              revert_scaling d2) = (d3, false) /\
             map (fun s => (map this (fst s), snd s)) (rows d3) = map (fun s => (map this (fst s), snd s)) (rows wit_d0).
Proof.
  split; [split; [vm_compute; discriminate | repeat constructor]|].
  split; [reflexivity|]. split; [vm_compute; reflexivity|].
  split.
  - repeat constructor; try (vm_compute; reflexivity); try (vm_compute; discriminate).
  - eexists. split; vm_compute; reflexivity.
Qed.

Example C18_nonvacuous_scale_range : wf wit_d0 /\ (0 : Qc) < 1 /\ ddim wit_d0 = 2%nat.
Proof. split; [split; [vm_compute; discriminate | repeat constructor] | split; reflexivity]. Qed.

Example C18_nonvacuous_moves :
  exists d' r, remove_samples as_found [2%Z; 0%Z] wit_d0 = (d', Some r) /\ NoDup [2%Z; 0%Z] /\ length (rows r) = 2%nat /\
  length (split_labels wit_d0) = 2%nat /\
  exists m, move_boundaries_to_front [3; 0; 1]%nat wit_d0 = (m, false) /\ rows m <> rows wit_d0.
Proof.
  do 2 eexists. split; [vm_compute; reflexivity|]. split; [repeat constructor; simpl; intuition discriminate|].
  split; [vm_compute; reflexivity|]. split; [vm_compute; reflexivity|].
  eexists. split; [vm_compute; reflexivity|]. vm_compute. discriminate.
Qed.
