(* C08 — source-derived model.  coq/Gen/LocalGrid1DGen.v is GENERATED from the working tree of sparseSpACE/Grid.py by
   harness/translate/py2gallina_c08.py (front end of the shared fail-closed translator, DESIGN 0.5/0.5.1) at the start of
   every ./check C08.  Theorems: the generated functions ARE the hand-written model for ALL attribute values, and the C08
   statements hold for what the generated functions return.
   The statements are phrased for "the version of the code in the working tree": weight_composite_trapezoidal is the hand
   model wct_v fixed for fixed = false (the code as it is) or fixed = true (with fixes/C08-level0-onesided-endpoint.patch);
   the proof script decides which one; everything downstream is proved for both.
   Trusted reading: floats = exact rationals; math.isclose(x,y) = |x-y| <= 1e-9 max(|x|,|y|) (Base/PyNumMath.v); the
   attribute values written by Grid1d.set_current_area (attribute writes are outside the translated subset) are the
   hand-transcribed eq_np / eq_borders / spacing, compared with the grid objects on every run. *)
From Coq Require Import ZArith List QArith Qcanon Bool Arith Lia.
From SG Require Import Base.QcUtil Base.PyLib Base.PyNum Base.PyNumMath Model.Tensor Model.LocalGrids Model.LocalRules
  Gen.LocalGrid1DGen Proofs.TensorRule Proofs.LocalGridsBase Proofs.LocalGridsTrap Proofs.LocalGridsMain Proofs.GenLocalGridsEq Proofs.TouchTol.
Import ListNotations.
Open Scope Qc_scope.

(* ---- generated = hand-written, every argument: weight_composite_trapezoidal = wct_v fixed, get_1d_weight (all branches of the
   modified basis) = trap_weight_v fixed, Grid1d.get_1D_level_weights = trap_weights_v fixed (gen_is_model, Proofs/GenLocalGridsEq.v) ---- *)
Theorem C08_gen_trapezoidal_weights_are_model : exists fixed, gen_is_model fixed.
Proof. exact gen_is_model_version. Qed.
Print Assumptions C08_gen_trapezoidal_weights_are_model.

(* the two versions of the hand model: version false is Model/LocalGrids.v; they differ only for boundary off, ONE point,
   TWO points including the boundary (level 0, sub-box touching exactly one side); never for the modified basis *)
Theorem C08_gen_versions : forall fixed modb bnd np npwb lo up s e,
  trap_weights_v false modb bnd np npwb lo up s e = trap_weights modb bnd np npwb lo up s e /\
  (~ (bnd = false /\ np = 1%nat /\ npwb = 2%nat) ->
   trap_weights_v fixed modb bnd np npwb lo up s e = trap_weights modb bnd np npwb lo up s e) /\
  trap_weights_v fixed true bnd np npwb lo up s e = trap_weights true bnd np npwb lo up s e.
Proof. exact gen_versions. Qed.
Print Assumptions C08_gen_versions.

(* the announced counts: num_points_eq with the touch tests of the version in the working tree - domrel = false: the code as it is
   (math.isclose(start, a), relative to the COORDINATE; end == b resp. isclose(end, b)); domrel = true: with
   fixes/C08-boundary-tests-domain-relative.patch (|x - bound| <= 1e-8 |b - a| in Grid1d.touches_lower/upper_boundary) *)
Theorem C08_gen_counts_are_model : exists domrel,
  (forall bnd s e a b l, TrapezoidalGrid1D_level_to_num_points_1d bnd s e a b (Z.of_nat l)
     = Some (qn (num_points_eq bnd (touch_lower_v domrel s a b) (touch_upper_trap_v domrel e a b) (npwb_of_level l)))) /\
  (forall bnd s e a b l, ClenshawCurtisGrid1D_level_to_num_points_1d bnd s e a b (Z.of_nat l)
     = Some (qn (num_points_eq bnd (touch_lower_v domrel s a b) (touch_upper_cc_v domrel e a b) (npwb_of_level l)))).
Proof. exact gen_counts_version. Qed.
Print Assumptions C08_gen_counts_are_model.

(* what the relative tolerance of math.isclose does on a domain far from the origin (known finding
   C08-isclose-relative-far-domain): an INTERIOR sub-box of [2^34, 2^34+1] counts as touching; not so with the repaired test *)
Theorem C08_gen_isclose_misfires_far_domain_refuted :
  exists s a b : Qc, a < s /\ s < b /\ touch_lower_v false s a b = true /\ touch_lower_v true s a b = false.
Proof. exact isclose_misfires_far_domain. Qed.
Print Assumptions C08_gen_isclose_misfires_far_domain_refuted.

Theorem C08_gen_gauss_level_to_num_points : forall l,
  GaussGrid1D_level_to_num_points_1d (Z.of_nat l) = Some (qn (npwb_of_level l)).
Proof. exact gen_gauss_level_to_num_points. Qed.

(* ---- C08 for what the GENERATED weight function returns (whichever version the working tree contains) ---- *)
Theorem C08_gen_weights_count : forall modb bnd x, exists ws,
  gen_weights_of modb bnd x = Some ws /\ length ws = eq_np bnd x.
Proof. destruct gen_is_model_version as [fixed H]. exact (gen_weights_count fixed H). Qed.
Print Assumptions C08_gen_weights_count.

(* exact for degree 1 where all points are present (boundary on, or the sub-box does not touch the domain boundary) *)
Theorem C08_gen_trap_exact_deg1 : forall modb bnd x ws, all_present bnd x -> gen_weights_of modb bnd x = Some ws ->
  exact1 (eq_points bnd x) ws (d_s x) (d_e x) 1.
Proof. destruct gen_is_model_version as [fixed H]. exact (gen_trap_exact_deg1 fixed H). Qed.
Print Assumptions C08_gen_trap_exact_deg1.

(* modified basis: exact for degree 1 on every sub-box *)
Theorem C08_gen_trapmod_exact_deg1 : forall x ws, (1 <= eq_np false x)%nat -> gen_weights_of true false x = Some ws ->
  exact1 (eq_points false x) ws (d_s x) (d_e x) 1.
Proof. destruct gen_is_model_version as [fixed H]. exact (gen_trapmod_exact_deg1 fixed H). Qed.

(* boundary off = boundary on minus exactly the points on the domain boundary, weights unchanged *)
Theorem C08_gen_boundary_off : forall x woff won, dim_ok x ->
  ~ (d_level x = 0%nat /\ xorb (d_tl x) (d_tr x) = true) ->
  gen_weights_of false false x = Some woff -> gen_weights_of false true x = Some won ->
  combine (eq_points false x) woff = filter (keep_interior (d_a x) (d_b x)) (combine (eq_points true x) won).
Proof. destruct gen_is_model_version as [fixed H]. exact (gen_boundary_off fixed H). Qed.
Print Assumptions C08_gen_boundary_off.

(* the announced count of the generated function is the length of what the generated weight function returns, wherever the
   touch tests of the code decide like equality (always when the sub-box starts / ends AT the boundary; on the lattice of the
   correspondence; NOT for the code as it is on far domains, see above) *)
Theorem C08_gen_announced_is_returned : exists domrel, forall modb bnd x,
  touch_lower_v domrel (d_s x) (d_a x) (d_b x) = Qc_eqb (d_s x) (d_a x) ->
  touch_upper_trap_v domrel (d_e x) (d_a x) (d_b x) = Qc_eqb (d_e x) (d_b x) ->
  exists ws, gen_weights_of modb bnd x = Some ws /\
    TrapezoidalGrid1D_level_to_num_points_1d bnd (d_s x) (d_e x) (d_a x) (d_b x) (Z.of_nat (d_level x))
    = Some (qn (length ws)).
Proof.
  destruct gen_counts_version as [domrel [Ht _]]. destruct gen_is_model_version as [fixed H]. exists domrel.
  intros modb bnd x H1 H2. exact (gen_announced_is_returned fixed H domrel modb bnd x Ht H1 H2).
Qed.
Print Assumptions C08_gen_announced_is_returned.

(* the repaired boundary tests (|x - bound| <= 1e-8 |b - a|, /repo 1502b9c) decide like equality on every sub-box whose ends
   are ON the domain boundary or more than 1e-8 |b - a| away from it: for the repaired code "isclose modelled as equality"
   is a theorem there, not an assumption *)
Theorem C08_gen_repaired_tests_are_equality : forall x, dim_ok x -> clear_of_boundary x ->
  touch_lower_v true (d_s x) (d_a x) (d_b x) = Qc_eqb (d_s x) (d_a x) /\
  touch_upper_trap_v true (d_e x) (d_a x) (d_b x) = Qc_eqb (d_e x) (d_b x) /\
  touch_upper_cc_v true (d_e x) (d_a x) (d_b x) = Qc_eqb (d_e x) (d_b x).
Proof. exact repaired_tests_are_equality. Qed.
Print Assumptions C08_gen_repaired_tests_are_equality.

(* ... hence, when the working tree contains the repaired tests, announced = returned on all such sub-boxes, any domain *)
Theorem C08_gen_announced_is_returned_clear : exists domrel,
  (forall bnd s e a b l, TrapezoidalGrid1D_level_to_num_points_1d bnd s e a b (Z.of_nat l)
     = Some (qn (num_points_eq bnd (touch_lower_v domrel s a b) (touch_upper_trap_v domrel e a b) (npwb_of_level l)))) /\
  (domrel = true -> forall modb bnd x, dim_ok x -> clear_of_boundary x ->
     exists ws, gen_weights_of modb bnd x = Some ws /\
       TrapezoidalGrid1D_level_to_num_points_1d bnd (d_s x) (d_e x) (d_a x) (d_b x) (Z.of_nat (d_level x))
       = Some (qn (length ws))).
Proof.
  destruct gen_counts_version as [domrel [Ht _]]. destruct gen_is_model_version as [fixed H]. exists domrel.
  split; [exact Ht|]. intros -> modb bnd x Hok Hc.
  destruct (repaired_tests_are_equality x Hok Hc) as (E1 & E2 & _).
  exact (gen_announced_is_returned fixed H true modb bnd x Ht E1 E2).
Qed.
Print Assumptions C08_gen_announced_is_returned_clear.

(* non-vacuity: the generated functions evaluate (sub-box touching the lower boundary, level 2, modified basis) *)
Example C08_gen_nonvacuous :
  let x := mkdim 0 1 0 (1#2) 2 in
  option_map (map this) (gen_weights_of true false x) = Some [1#4; 1#16; 1#8; 1#16]%Q /\
  option_map this (TrapezoidalGrid1D_level_to_num_points_1d false (d_s x) (d_e x) (d_a x) (d_b x) 2) = Some (4#1)%Q /\
  (forall domrel, touch_lower_v domrel (d_s x) (d_a x) (d_b x) = Qc_eqb (d_s x) (d_a x) /\
                  touch_upper_trap_v domrel (d_e x) (d_a x) (d_b x) = Qc_eqb (d_e x) (d_b x)).
Proof. cbv zeta. split; [vm_compute; reflexivity | split; [vm_compute; reflexivity | intros [|]; vm_compute; split; reflexivity]]. Qed.

(* the interior sub-box [2^34+1/2, 2^34+3/4] of the far domain meets the hypotheses of the theorem above (the old test misfired
   exactly there: C08_gen_isclose_misfires_far_domain_refuted) *)
Example C08_gen_clear_nonvacuous :
  let x := mkdim 17179869184 17179869185 (34359738369 # 2) (68719476739 # 4) 2 in
  dim_ok x /\ clear_of_boundary x /\ touch_lower_v true (d_s x) (d_a x) (d_b x) = false /\ touch_lower_v false (d_s x) (d_a x) (d_b x) = true.
Proof.
  cbv zeta. split; [|split; [|split]].
  - repeat split; vm_compute; congruence.
  - split; right; vm_compute; reflexivity.
  - vm_compute. reflexivity.
  - vm_compute. reflexivity.
Qed.
