(* C08 — source-derived model.  coq/Gen/LocalGrid1DGen.v is GENERATED from the working tree of sparseSpACE/Grid.py by
   harness/translate/py2gallina_c08.py (front end of the shared fail-closed translator, DESIGN 0.5/0.5.1) at the start of
   every ./check C08.  Theorems: the generated functions ARE the hand-written model for ALL attribute values, and the C08
   statements hold for what the generated functions return.
   The statements are phrased for "the version of the code in the working tree": weight_composite_trapezoidal is the hand
   model wct_v fixed for fixed = false (the code as it is) or fixed = true (with fixes/C08-level0-onesided-endpoint.patch);
   the proof script decides which one; everything downstream is proved for both.
   Trusted reading: floats = exact rationals; math.isclose(x,y) = |x-y| <= 1e-9 max(|x|,|y|) (Base/PyNumMath.v); the
   attribute values written by Grid1d.set_current_area (attribute writes are outside the translated subset) are the
   hand-transcribed eq_np / eq_borders / spacing, compared with the grid objects on every run. *)
From Coq Require Import ZArith List QArith Qcanon Bool Arith Lia.
From SG Require Import Base.QcUtil Base.PyLib Base.PyNum Base.PyNumMath Model.Tensor Model.LocalGrids Model.LocalRules
  Gen.LocalGrid1DGen Proofs.TensorRule Proofs.LocalGridsBase Proofs.LocalGridsTrap Proofs.LocalGridsMain Proofs.GenLocalGridsEq Proofs.TouchTol Gen.Grid1dAreaGen Proofs.GenGrid1dAreaEq.
Import ListNotations.
Open Scope Qc_scope.

(* ---- generated = hand-written, every argument: weight_composite_trapezoidal = wct_v fixed, get_1d_weight (all branches of the
   modified basis) = trap_weight_v fixed, Grid1d.get_1D_level_weights = trap_weights_v fixed (gen_is_model, Proofs/GenLocalGridsEq.v) ---- *)
Theorem C08_gen_trapezoidal_weights_are_model : exists fixed, gen_is_model fixed.
Proof. exact gen_is_model_version. Qed.
Print Assumptions C08_gen_trapezoidal_weights_are_model.

(* the two versions of the hand model: version false is Model/LocalGrids.v; they differ only for boundary off, ONE point,
   TWO points including the boundary (level 0, sub-box touching exactly one side); never for the modified basis *)
Theorem C08_gen_versions : forall fixed modb bnd np npwb lo up s e,
  trap_weights_v false modb bnd np npwb lo up s e = trap_weights modb bnd np npwb lo up s e /\
  (~ (bnd = false /\ np = 1%nat /\ npwb = 2%nat) ->
   trap_weights_v fixed modb bnd np npwb lo up s e = trap_weights modb bnd np npwb lo up s e) /\
  trap_weights_v fixed true bnd np npwb lo up s e = trap_weights true bnd np npwb lo up s e.
Proof. exact gen_versions. Qed.
Print Assumptions C08_gen_versions.

(* the announced counts: num_points_eq with the touch tests of the version in the working tree - domrel = false: the code as it is
   (math.isclose(start, a), relative to the COORDINATE; end == b resp. isclose(end, b)); domrel = true: with
   fixes/C08-boundary-tests-domain-relative.patch (|x - bound| <= 1e-8 |b - a| in Grid1d.touches_lower/upper_boundary) *)
Theorem C08_gen_counts_are_model : exists domrel,
  (forall bnd s e a b l, TrapezoidalGrid1D_level_to_num_points_1d bnd s e a b (Z.of_nat l)
     = Some (qn (num_points_eq bnd (touch_lower_v domrel s a b) (touch_upper_trap_v domrel e a b) (npwb_of_level l)))) /\
  (forall bnd s e a b l, ClenshawCurtisGrid1D_level_to_num_points_1d bnd s e a b (Z.of_nat l)
     = Some (qn (num_points_eq bnd (touch_lower_v domrel s a b) (touch_upper_cc_v domrel e a b) (npwb_of_level l)))).
Proof. exact gen_counts_version. Qed.
Print Assumptions C08_gen_counts_are_model.

(* what the relative tolerance of math.isclose does on a domain far from the origin (known finding
   C08-isclose-relative-far-domain): an INTERIOR sub-box of [2^34, 2^34+1] counts as touching; not so with the repaired test *)
Theorem C08_gen_isclose_misfires_far_domain_refuted :
  exists s a b : Qc, a < s /\ s < b /\ touch_lower_v false s a b = true /\ touch_lower_v true s a b = false.
Proof. exact isclose_misfires_far_domain. Qed.
Print Assumptions C08_gen_isclose_misfires_far_domain_refuted.

Theorem C08_gen_gauss_level_to_num_points : forall l,
  GaussGrid1D_level_to_num_points_1d (Z.of_nat l) = Some (qn (npwb_of_level l)).
Proof. exact gen_gauss_level_to_num_points. Qed.

(* ---- C08 for what the GENERATED weight function returns (whichever version the working tree contains) ---- *)
Theorem C08_gen_weights_count : forall modb bnd x, exists ws,
  gen_weights_of modb bnd x = Some ws /\ length ws = eq_np bnd x.
Proof. destruct gen_is_model_version as [fixed H]. exact (gen_weights_count fixed H). Qed.
Print Assumptions C08_gen_weights_count.

(* exact for degree 1 where all points are present (boundary on, or the sub-box does not touch the domain boundary) *)
Theorem C08_gen_trap_exact_deg1 : forall modb bnd x ws, all_present bnd x -> gen_weights_of modb bnd x = Some ws ->
  exact1 (eq_points bnd x) ws (d_s x) (d_e x) 1.
Proof. destruct gen_is_model_version as [fixed H]. exact (gen_trap_exact_deg1 fixed H). Qed.
Print Assumptions C08_gen_trap_exact_deg1.

(* modified basis: exact for degree 1 on every sub-box *)
Theorem C08_gen_trapmod_exact_deg1 : forall x ws, (1 <= eq_np false x)%nat -> gen_weights_of true false x = Some ws ->
  exact1 (eq_points false x) ws (d_s x) (d_e x) 1.
Proof. destruct gen_is_model_version as [fixed H]. exact (gen_trapmod_exact_deg1 fixed H). Qed.

(* boundary off = boundary on minus exactly the points on the domain boundary, weights unchanged *)
Theorem C08_gen_boundary_off : forall x woff won, dim_ok x ->
  ~ (d_level x = 0%nat /\ xorb (d_tl x) (d_tr x) = true) ->
  gen_weights_of false false x = Some woff -> gen_weights_of false true x = Some won ->
  combine (eq_points false x) woff = filter (keep_interior (d_a x) (d_b x)) (combine (eq_points true x) won).
Proof. destruct gen_is_model_version as [fixed H]. exact (gen_boundary_off fixed H). Qed.
Print Assumptions C08_gen_boundary_off.

(* the announced count of the generated function is the length of what the generated weight function returns, wherever the
   touch tests of the code decide like equality (always when the sub-box starts / ends AT the boundary; on the lattice of the
   correspondence; NOT for the code as it is on far domains, see above) *)
Theorem C08_gen_announced_is_returned : exists domrel, forall modb bnd x,
  touch_lower_v domrel (d_s x) (d_a x) (d_b x) = Qc_eqb (d_s x) (d_a x) ->
  touch_upper_trap_v domrel (d_e x) (d_a x) (d_b x) = Qc_eqb (d_e x) (d_b x) ->
  exists ws, gen_weights_of modb bnd x = Some ws /\
    TrapezoidalGrid1D_level_to_num_points_1d bnd (d_s x) (d_e x) (d_a x) (d_b x) (Z.of_nat (d_level x))
    = Some (qn (length ws)).
Proof.
  destruct gen_counts_version as [domrel [Ht _]]. destruct gen_is_model_version as [fixed H]. exists domrel.
  intros modb bnd x H1 H2. exact (gen_announced_is_returned fixed H domrel modb bnd x Ht H1 H2).
Qed.
Print Assumptions C08_gen_announced_is_returned.

(* the repaired boundary tests (|x - bound| <= 1e-8 |b - a|, /repo 1502b9c) decide like equality on every sub-box whose ends
   are ON the domain boundary or more than 1e-8 |b - a| away from it: for the repaired code "isclose modelled as equality"
   is a theorem there, not an assumption *)
Theorem C08_gen_repaired_tests_are_equality : forall x, dim_ok x -> clear_of_boundary x ->
  touch_lower_v true (d_s x) (d_a x) (d_b x) = Qc_eqb (d_s x) (d_a x) /\
  touch_upper_trap_v true (d_e x) (d_a x) (d_b x) = Qc_eqb (d_e x) (d_b x) /\
  touch_upper_cc_v true (d_e x) (d_a x) (d_b x) = Qc_eqb (d_e x) (d_b x).
Proof. exact repaired_tests_are_equality. Qed.
Print Assumptions C08_gen_repaired_tests_are_equality.

(* ... hence, when the working tree contains the repaired tests, announced = returned on all such sub-boxes, any domain *)
Theorem C08_gen_announced_is_returned_clear : exists domrel,
  (forall bnd s e a b l, TrapezoidalGrid1D_level_to_num_points_1d bnd s e a b (Z.of_nat l)
     = Some (qn (num_points_eq bnd (touch_lower_v domrel s a b) (touch_upper_trap_v domrel e a b) (npwb_of_level l)))) /\
  (domrel = true -> forall modb bnd x, dim_ok x -> clear_of_boundary x ->
     exists ws, gen_weights_of modb bnd x = Some ws /\
       TrapezoidalGrid1D_level_to_num_points_1d bnd (d_s x) (d_e x) (d_a x) (d_b x) (Z.of_nat (d_level x))
       = Some (qn (length ws))).
Proof.
  destruct gen_counts_version as [domrel [Ht _]]. destruct gen_is_model_version as [fixed H]. exists domrel.
  split; [exact Ht|]. intros -> modb bnd x Hok Hc.
  destruct (repaired_tests_are_equality x Hok Hc) as (E1 & E2 & _).
  exact (gen_announced_is_returned fixed H true modb bnd x Ht E1 E2).
Qed.
Print Assumptions C08_gen_announced_is_returned_clear.

(* ---- phase 4: the BORDER BOOKKEEPING from the source.  Grid1d.set_current_area (coq/Gen/Grid1dAreaGen.v, generated by
   harness/translate/py2gallina_c08_area.py: attribute writes = updates of a state record) writes exactly the values the hand model
   transcribes - for EVERY object state before the call (whatever earlier areas left in the attributes), every area and level, every
   subclass whose count depends on the record only through the boundary flag once the area is set (N), with the touch tests of the
   code.  lowerBorder / upperBorder are `borders` of Model/LocalGrids.v, spacing is `spacing`; the boundary flag is restored. ---- *)
Theorem C08_gen_set_current_area_is_model : forall oracle a b s e level (N : bool -> nat),
  (forall self, f_a self = a -> f_b self = b -> f_start self = s -> f_end self = e ->
     oracle self level = Some (Z.of_nat (N (f_boundary self)))) ->
  (1 <= N true)%nat ->
  forall self0, f_a self0 = a -> f_b self0 = b ->
  exists self', Grid1d_set_current_area oracle self0 s e level = Some self' /\
    f_boundary self' = f_boundary self0 /\ f_a self' = a /\ f_b self' = b /\
    f_start self' = s /\ f_end self' = e /\ f_level self' = level /\
    f_num_points self' = Z.of_nat (N (f_boundary self0)) /\
    f_num_points_with_boundary self' = Z.of_nat (N true) /\
    f_length self' = e - s /\
    (f_lowerBorder self', f_upperBorder self')
      = (Z.of_nat (fst (borders (f_boundary self0) (N (f_boundary self0)) (N true) (touch_tol s a a b) (touch_tol e b a b))),
         Z.of_nat (snd (borders (f_boundary self0) (N (f_boundary self0)) (N true) (touch_tol s a a b) (touch_tol e b a b)))) /\
    f_spacing self' = (if (N true =? 1)%nat then None else Some (spacing s e (N true))).
Proof. exact gen_set_current_area. Qed.
Print Assumptions C08_gen_set_current_area_is_model.

(* LejaGrid1D.level_to_num_points_1d (translatable since the repair 28a24e9): the count of the repaired model *)
Theorem C08_gen_leja_level_to_num_points : forall bnd s e a b l,
  LejaGrid1D_level_to_num_points_1d bnd s e a b 2 (Z.of_nat l)
  = Some (Z.of_nat (num_points_eq bnd (touch_tol s a a b) (touch_tol e b a b) (leja_npwb l))).
Proof. exact gen_leja_level_to_num_points. Qed.
Print Assumptions C08_gen_leja_level_to_num_points.

(* non-vacuity: a trapezoid-like subclass (N true = 5, N false = 4) on an object with STALE border indices 7, 9 from an earlier area:
   the area [0, 1/2] of the domain [0, 1] touches the lower side - the call writes lowerBorder 1, upperBorder 5 *)
Example C08_gen_set_current_area_nonvacuous :
  let stale := mk_Grid1d false (Q2Qc 0) (Q2Qc 1) (Q2Qc (1#4)) (Q2Qc (1#2)) 3 9 9 (Q2Qc (1#4)) 7 9 None in
  let oracle := fun (self : Grid1d_t) (_ : Z) => Some (if f_boundary self then 5 else 4)%Z in
  option_map (fun r => (f_lowerBorder r, f_upperBorder r, f_num_points r, f_boundary r))
    (Grid1d_set_current_area oracle stale (Q2Qc 0) (Q2Qc (1#2)) 2) = Some (1, 5, 4, false)%Z.
Proof. vm_compute. reflexivity. Qed.

(* non-vacuity: the generated functions evaluate (sub-box touching the lower boundary, level 2, modified basis) *)
Example C08_gen_nonvacuous :
  let x := mkdim 0 1 0 (1#2) 2 in
  option_map (map this) (gen_weights_of true false x) = Some [1#4; 1#16; 1#8; 1#16]%Q /\
  option_map this (TrapezoidalGrid1D_level_to_num_points_1d false (d_s x) (d_e x) (d_a x) (d_b x) 2) = Some (4#1)%Q /\
  (forall domrel, touch_lower_v domrel (d_s x) (d_a x) (d_b x) = Qc_eqb (d_s x) (d_a x) /\
                  touch_upper_trap_v domrel (d_e x) (d_a x) (d_b x) = Qc_eqb (d_e x) (d_b x)).
Proof. cbv zeta. split; [vm_compute; reflexivity | split; [vm_compute; reflexivity | intros [|]; vm_compute; split; reflexivity]]. Qed.

(* the interior sub-box [2^34+1/2, 2^34+3/4] of the far domain meets the hypotheses of the theorem above (the old test misfired
   exactly there: C08_gen_isclose_misfires_far_domain_refuted) *)
Example C08_gen_clear_nonvacuous :
  let x := mkdim 17179869184 17179869185 (34359738369 # 2) (68719476739 # 4) 2 in
  dim_ok x /\ clear_of_boundary x /\ touch_lower_v true (d_s x) (d_a x) (d_b x) = false /\ touch_lower_v false (d_s x) (d_a x) (d_b x) = true.
Proof.
  cbv zeta. split; [|split; [|split]].
  - repeat split; vm_compute; congruence.
  - split; right; vm_compute; reflexivity.
  - vm_compute. reflexivity.
  - vm_compute. reflexivity.
Qed.
