(* C05 — source-derived model of the accumulation code (coq/Gen/AccumGen.v, regenerated from $VERIF_REPO at every build by
   harness/translate/py2gallina_c05.py: Integration.evaluate_area, area_preprocessing, process_removed_objects, get_result,
   reset_result, initialize of sparseSpACE/GridOperation.py, RefinementObject.set_value, and the call sites of evaluate_area in
   SpatiallyAdaptivBase.evaluate_operation_area and SpatiallyAdaptiveExtendScheme.calculate_new_twin_errors).
   Property theorems only: the generated code IS the transition relation of Model/Accum.v. *)
From Coq Require Import ZArith List Bool Lia.
From SG Require Import Model.Accum Proofs.AccumProofs Gen.AccumGen Proofs.AccumGenProofs.
Import ListNotations.
Open Scope Z_scope.

Section C05gen.
  Variable V : Type.
  Variable C : Type.
  Variable vzero : V.
  Variable vadd : V -> V -> V.
  Variable vopp : V -> V.
  Variable scale : C -> V -> V.
  Hypothesis vadd_0_l : forall a, vadd vzero a = a.

  (* evaluate_area as the driver calls it = AEval id (coefficient * partial integral) true true: area value, container value, result *)
  Theorem C05gen_evaluate_area_is_AEval : forall s id p c,
    let s' := apply_event V vzero vadd vopp s (AEval id (scale c p) true true) in
    gen_evaluate_area V C vadd scale (area_get V id (st_areas s)) (Some (st_cont s)) (st_total s) true p c
    = (area_get V id (st_areas s'), Some (st_cont s'), st_total s').
  Proof. exact (gen_evaluate_area_is_AEval V C vzero vadd vopp scale vadd_0_l). Qed.
  (* evaluate_area without container and without apply_to_combi_result = ASide *)
  Theorem C05gen_evaluate_area_is_ASide : forall s id p c v,
    area_get V id (st_areas s) = Some v ->
    let s' := apply_event V vzero vadd vopp s (ASide id (scale c p)) in
    gen_evaluate_area V C vadd scale (Some v) None (st_total s) false p c = (area_get V id (st_areas s'), None, st_total s') /\
    st_cont s' = st_cont s.
  Proof. exact (gen_evaluate_area_is_ASide V C vzero vadd vopp scale). Qed.
  (* the call sites read from the source: the driver passes container and flag, every twin-error call passes neither and therefore
     changes neither the result nor a container *)
  Theorem C05gen_call_sites : gen_main_call = (true, true) /\ Forall (fun ca => ca = (false, false)) gen_twin_calls /\ gen_twin_calls <> [].
  Proof. exact gen_call_sites. Qed.
  Theorem C05gen_twin_calls_are_side_evaluations : forall ca av cont tot p c, In ca gen_twin_calls ->
    snd (gen_evaluate_area V C vadd scale av (if fst ca then Some cont else None) tot (snd ca) p c) = tot /\
    snd (fst (gen_evaluate_area V C vadd scale av (if fst ca then Some cont else None) tot (snd ca) p c)) = None.
  Proof. exact (gen_twin_calls_are_side_evaluations V C vadd scale). Qed.
  (* area_preprocessing = APre: the area value restarts from zero whatever it held *)
  Theorem C05gen_area_preprocessing_is_APre : forall s id,
    gen_area_preprocessing V vzero (area_get V id (st_areas s)) = area_get V id (st_areas (apply_event V vzero vadd vopp s (APre id))).
  Proof. exact (gen_area_preprocessing_is_APre V vzero vadd vopp). Qed.
  (* process_removed_objects = the running total of ARemove *)
  Theorem C05gen_process_removed_is_ARemove : forall ids, NoDup ids -> forall s,
    st_total (apply_event V vzero vadd vopp s (ARemove ids)) =
    gen_process_removed_objects V vadd vopp (map (fun id => area_val V vzero id (st_areas s)) ids) (st_total s).
  Proof. exact (gen_process_removed_is_ARemove V vzero vadd vopp). Qed.
  (* reset_result = AResetTotal, initialize = AInit, get_result returns the result and leaves it *)
  Theorem C05gen_reset_is_AResetTotal : forall s,
    gen_reset_result V vzero (st_total s) = st_total (apply_event V vzero vadd vopp s AResetTotal) /\
    gen_initialize V vzero (st_total s) = st_total (apply_event V vzero vadd vopp s AInit).
  Proof. exact (gen_reset_is_AResetTotal V vzero vadd vopp). Qed.
  Theorem C05gen_get_result_pure : forall tot, gen_get_result V tot = (tot, tot).
  Proof. exact (gen_get_result_pure V). Qed.
End C05gen.
Print Assumptions C05gen_evaluate_area_is_AEval.
Print Assumptions C05gen_evaluate_area_is_ASide.
Print Assumptions C05gen_call_sites.
Print Assumptions C05gen_twin_calls_are_side_evaluations.
Print Assumptions C05gen_area_preprocessing_is_APre.
Print Assumptions C05gen_process_removed_is_ARemove.
Print Assumptions C05gen_reset_is_AResetTotal.

(* non-vacuity over (Z, +) with scale = multiplication: coefficient -1, partial integral 3 on area 2 holding 4 *)
Example C05gen_example :
  let s := mkA [(1, 2); (2, 4)] [] 6 6 in
  gen_evaluate_area Z Z Z.add Z.mul (area_get Z 2 (st_areas s)) (Some (st_cont s)) (st_total s) true 3 (-1) = (Some 1, Some 3, 3) /\
  gen_evaluate_area Z Z Z.add Z.mul (Some 4) None 6 false 3 (-1) = (Some 1, None, 6) /\
  gen_area_preprocessing Z 0 (Some 4) = Some 0 /\
  gen_process_removed_objects Z Z.add Z.opp [2; 4] 6 = 0.
Proof. repeat split. Qed.

(* evaluate_area_for_error_estimates (and the methods of self it calls) = AEstimate: no cell is touched *)
Theorem C05gen_estimate_is_AEstimate : forall (V : Type) (vzero : V) (vadd : V -> V -> V) (vopp : V -> V) (s : astate V) (id : Z),
  let s' := apply_event V vzero vadd vopp s (AEstimate id) in
  gen_evaluate_area_for_error_estimates V (area_get V id (st_areas s)) (Some (st_cont s)) (st_total s)
  = (area_get V id (st_areas s'), Some (st_cont s'), st_total s').
Proof. exact gen_estimate_is_AEstimate. Qed.
Print Assumptions C05gen_estimate_is_AEstimate.
